import MpireModel.Model.Chunk
import MpireModel.Drive.Main
import MpireModel.Props.C14
