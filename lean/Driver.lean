import MpireModel.Drive.Main
def main : IO Unit := do
  let hin ← IO.getStdin
  let hout ← IO.getStdout
  Mpire.Drive.loop hin hout
  hout.flush
