/-
Model of the dispatcher: the chunk-dispatch loop of WorkerPool.imap_unordered (pool.py 759-797, with the waits that keep
the number of active tasks bounded) and the task→worker assignment of WorkerComms (comms.py 211-220, 361-378, 458-474).
Core Lean only.
-/
namespace Mpire.Dispatch

/-! ## Assignment of chunks to workers -/

structure Assign where
  taskIdx       : Nat := 0
  lastCompleted : List Nat := []        -- deque of worker ids that delivered a result batch
  applyIdx      : Nat := 0              -- with order_tasks, apply tasks are handed out in an order of their own (repair D32)
  deriving Repr, DecidableEq

/-- `_get_task_worker_id()` -/
def assign (orderTasks : Bool) (n : Nat) (a : Assign) : Nat × Assign :=
  if orderTasks || a.lastCompleted.isEmpty then (a.taskIdx % n, { a with taskIdx := a.taskIdx + 1 })
  else (a.lastCompleted.headD 0, { a with lastCompleted := a.lastCompleted.tail })

/-- `get_results` appends the worker id of every received batch -/
def completed (w : Nat) (a : Assign) : Assign := { a with lastCompleted := a.lastCompleted ++ [w] }

/-- `reset_progress()` (the apply order is not part of a call's progress) -/
def resetOf (a : Assign) : Assign := { applyIdx := a.applyIdx }
def reset : Assign := {}

/-- `add_apply_task`: which worker an apply task goes to.  `shared`: the pinned code, where apply tasks used the chunk counter. -/
def assignApply (shared : Bool) (orderTasks : Bool) (n : Nat) (a : Assign) : Nat × Assign :=
  if orderTasks && !shared then (a.applyIdx % n, { a with applyIdx := a.applyIdx + 1 })
  else assign orderTasks n a

inductive AOp | assign | completed (w : Nat) | reset | apply
  deriving Repr, DecidableEq

/-- run a sequence of operations; returns the workers chosen by the `assign` operations, in order, each tagged with the
number of `assign`s since the last reset (the chunk index within the call) -/
def runOps (orderTasks : Bool) (n : Nat) : Assign → Nat → List AOp → List (Nat × Nat)
  | _, _, [] => []
  | a, i, .assign :: ops => let (w, a') := assign orderTasks n a; (i, w) :: runOps orderTasks n a' (i + 1) ops
  | a, i, .completed w :: ops => runOps orderTasks n (completed w a) i ops
  | a, _, .reset :: ops => runOps orderTasks n (resetOf a) 0 ops
  | a, i, .apply :: ops => runOps orderTasks n (assignApply false orderTasks n a).2 i ops

/-- the same with the pinned code's shared counter -/
def runOpsPinned (n : Nat) : Assign → Nat → List AOp → List (Nat × Nat)
  | _, _, [] => []
  | a, i, .assign :: ops => let (w, a') := assign true n a; (i, w) :: runOpsPinned n a' (i + 1) ops
  | a, i, .completed w :: ops => runOpsPinned n (completed w a) i ops
  | a, _, .reset :: ops => runOpsPinned n (resetOf a) 0 ops
  | a, i, .apply :: ops => runOpsPinned n (assignApply true true n a).2 i ops

/-! ## The dispatch loop with bounded look-ahead -/

structure D where
  maxActive : Nat
  input     : List Nat            -- lengths of the chunks the chunker will still yield
  nActive   : Nat := 0            -- n_active
  hand      : Option Nat := none  -- length of the chunk drawn but not yet submitted
  drawn     : Nat := 0            -- elements taken from the input iterable
  running   : Nat := 0            -- submitted, result not yet in the iterator
  ready     : Nat := 0            -- results in the iterator
  delivered : Nat := 0            -- results handed to the consumer
  waiting   : Bool := false       -- the consumer is inside next()
  exhausted : Bool := false       -- the chunk iterator raised StopIteration
  deriving Repr, DecidableEq

inductive Ev
  | ask        -- consumer calls next()
  | draw       -- next(iterator_of_chunked_args)
  | dispatch   -- add_task
  | complete   -- a result reaches the iterator
  | yield      -- the generator yields one result to the consumer
  deriving Repr, DecidableEq

def step (s : D) : Ev → Option D
  | .ask => if s.waiting then none else some { s with waiting := true }
  | .draw =>
    if s.waiting ∧ s.hand = none ∧ ¬ s.exhausted ∧ s.nActive ≤ s.maxActive then
      match s.input with
      | [] => some { s with exhausted := true }
      | k :: rest => some { s with input := rest, hand := some k, drawn := s.drawn + k }
    else none
  | .dispatch =>
    match s.hand with
    | some k =>
      if s.waiting ∧ (s.nActive = 0 ∨ s.nActive + k ≤ s.maxActive) then
        some { s with hand := none, nActive := s.nActive + k, running := s.running + k }
      else none
    | none => none
  | .complete => if 0 < s.running then some { s with running := s.running - 1, ready := s.ready + 1 } else none
  | .yield =>
    let mayWait : Bool := s.exhausted ||
      decide (s.maxActive < s.nActive) ||
      (match s.hand with | some k => decide (0 < s.nActive ∧ s.maxActive < s.nActive + k) | none => false)
    if s.waiting ∧ 0 < s.ready ∧ mayWait then
      some { s with ready := s.ready - 1, delivered := s.delivered + 1, waiting := false,
                    nActive := if s.exhausted then s.nActive else s.nActive - 1 }
    else none

def run (s : D) (es : List Ev) : Option D := es.foldlM step s

def init (maxActive : Nat) (chunks : List Nat) : D := { maxActive := maxActive, input := chunks }

def Reachable (maxActive : Nat) (chunks : List Nat) (s : D) : Prop := ∃ es, run (init maxActive chunks) es = some s

/-- the call is over: input exhausted, nothing in flight, nothing left to hand out -/
def D.finished (s : D) : Bool := s.exhausted && s.running == 0 && s.ready == 0 && s.hand.isNone

/-- termination measure -/
def D.mu (s : D) : Nat :=
  5 * s.input.sum + 5 * s.input.length + (if s.exhausted then 0 else 1) + 4 * (s.hand.getD 0) + 3 * s.running + 2 * s.ready
    + (if s.waiting then 0 else 1)

end Mpire.Dispatch
