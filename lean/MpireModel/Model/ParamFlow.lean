/-
Model of how the parameters of a call (function, hooks, lifespan, timeouts: one `WorkerMapParams`) reach the workers that run its
tasks when workers are kept alive over several calls (pool.py imap_unordered 780-800: `map_params != new_map_params` →
`add_new_map_params`; comms.py add_new_map_params 510-518: a pill and the parameters into EVERY worker's queue; worker.py run /
_handle_new_map_params: a worker replaces its parameters when it meets the pill; pool.py _start_worker: a worker that is
(re)started gets the parameters the pool has recorded).

Every worker has its own FIFO queue; the argument is an ordering one: whatever a worker takes after the pill of call k and
before the pill of a later call is run with the parameters of call k.  Parameters are opaque identities.  Core Lean only.
-/
namespace Mpire.ParamFlow

abbrev PId := Nat

inductive Item
  | params (p : PId)     -- NEW_MAP_PARAMS pill + the parameters
  | chunk (call : Nat)   -- a chunk of tasks of call number `call`
  | pause                -- non-lethal poison pill (end of a call on a kept-alive pool)
  deriving Repr, DecidableEq

structure Wk where
  cur   : PId              -- the parameters this worker instance holds
  queue : List Item := []
  deriving Repr, DecidableEq

structure Sys where
  workers    : List Wk := []
  recorded   : Option PId := none   -- `self.map_params` as recorded by the pool; none: there are no workers
  calls      : List PId := []       -- parameters of call 0, 1, 2, … (ghost)
  log        : List (Nat × PId) := []   -- (call a chunk belongs to, parameters the worker held when it ran it) (ghost)
  deriving Repr, DecidableEq

inductive Ev
  | fresh (n : Nat) (p : PId)   -- a call starts on a pool without workers: n new workers with these parameters
  | startCall (p : PId)         -- a call starts on kept-alive workers: if p differs from what is recorded, the pill goes to every queue
  | dispatch (k : Nat)          -- a chunk of the CURRENT call is put into worker k's queue
  | endCall                     -- the call is over: non-lethal pill to every worker
  | take (k : Nat)              -- worker k takes the next entry of its queue
  | restart (k : Nat)           -- slot k gets a new instance (lifespan reached): it starts with the recorded parameters; the queue stays
  | stop                        -- stop_and_join / terminate: the workers are gone
  deriving Repr, DecidableEq

def hasChunk (w : Wk) : Bool := w.queue.any fun i => match i with | .chunk _ => true | _ => false

def step (s : Sys) : Ev → Option Sys
  | .fresh n p =>
    if s.recorded.isNone then some { s with workers := List.replicate n { cur := p }, recorded := some p, calls := s.calls ++ [p] }
    else none
  | .startCall p =>
    match s.recorded with
    | none => none
    | some r =>
      -- a call starts only when the previous one is over: nothing of it is queued any more
      if s.workers.any hasChunk then none
      else if p = r then some { s with calls := s.calls ++ [p] }
      else some { s with workers := s.workers.map (fun w => { w with queue := w.queue ++ [.params p] }), recorded := some p,
                         calls := s.calls ++ [p] }
  | .dispatch k =>
    match s.workers[k]?, s.calls.length with
    | some w, c + 1 => if s.recorded.isSome then some { s with workers := s.workers.set k { w with queue := w.queue ++ [.chunk c] } } else none
    | _, _ => none
  | .endCall => if s.recorded.isSome then some { s with workers := s.workers.map fun w => { w with queue := w.queue ++ [.pause] } } else none
  | .take k =>
    match s.workers[k]? with
    | some { cur := c, queue := i :: q } =>
      match i with
      | .params p => some { s with workers := s.workers.set k { cur := p, queue := q } }
      | .chunk call => some { s with workers := s.workers.set k { cur := c, queue := q }, log := s.log ++ [(call, c)] }
      | .pause => some { s with workers := s.workers.set k { cur := c, queue := q } }
    | _ => none
  | .restart k =>
    match s.workers[k]?, s.recorded with
    | some w, some r => some { s with workers := s.workers.set k { w with cur := r } }
    | _, _ => none
  | .stop => some { s with workers := [], recorded := none }

def run (s : Sys) (es : List Ev) : Option Sys := es.foldlM step s

def Reachable (s : Sys) : Prop := ∃ es, run {} es = some s

/-- the parameters a worker will hold after it has worked through its queue -/
def finalParam (cur : PId) : List Item → PId
  | [] => cur
  | .params p :: q => finalParam p q
  | _ :: q => finalParam cur q

/-- every queued chunk will be met with the parameters of the call it belongs to -/
def consistent (calls : List PId) (cur : PId) : List Item → Prop
  | [] => True
  | .params p :: q => consistent calls p q
  | .chunk c :: q => calls[c]? = some cur ∧ consistent calls cur q
  | .pause :: q => consistent calls cur q

end Mpire.ParamFlow
