/-
Model of mpire/async_result.py: AsyncResult (apply tasks) with the first-come-first-served `_set`, its callbacks and
the job cache.  Core Lean only.
-/
namespace Mpire.Async

/-- what a job can be set to: the value the function returned, or an exception (identified by a number) -/
inductive Val | ok (v : Nat) | err (e : Nat)
  deriving Repr, DecidableEq

structure AR where
  hasCb   : Bool
  hasEcb  : Bool
  isSet   : Bool := false
  outcome : Option Val := none      -- (_success, _value)
  ready   : Bool := false           -- _ready_event
  inCache : Bool := true
  cbLog   : List (Bool × Val) := [] -- callbacks invoked, in order: (true, v) = callback(v), (false, e) = error_callback(e)
  deriving Repr, DecidableEq

/-- `_set(success, result)` -/
def AR.set (r : AR) (v : Val) : AR :=
  if r.isSet then r
  else
    let cb := match v with
      | .ok _  => if r.hasCb then [(true, v)] else []
      | .err _ => if r.hasEcb then [(false, v)] else []
    { r with isSet := true, outcome := some v, ready := true, inCache := false, cbLog := r.cbLog ++ cb }

inductive GetRes | value (v : Nat) | raises (e : Nat) | timeout
  deriving Repr, DecidableEq

/-- `get(timeout)` once the wait is over -/
def AR.get (r : AR) : GetRes :=
  if r.ready then
    match r.outcome with
    | some (.ok v) => .value v
    | some (.err e) => .raises e
    | none => .timeout
  else .timeout

/-- a pool's cache of apply jobs, by position -/
abbrev Cache := List AR

def setJob (c : Cache) (j : Nat) (v : Val) : Cache :=
  match c[j]? with
  | some r => c.set j (r.set v)
  | none => c

/-- any sequence of set attempts on the jobs of a cache (results handler, timeout scan, death scan, init-failure
broadcast — whoever, in any order) -/
def applySets (c : Cache) (sets : List (Nat × Val)) : Cache := sets.foldl (fun c (j, v) => setJob c j v) c

/-- the first value some attempt proposed for job j -/
def firstFor (j : Nat) (sets : List (Nat × Val)) : Option Val := (sets.find? (·.1 == j)).map (·.2)

end Mpire.Async
