/-
Model of the completion handshake between the caller and the progress-bar handler thread, at the granularity of one
pass of the handler's `while True` loop (progress_bar.py `_progress_bar_handler` 141-185), together with what the caller
and the workers do to the shared state between two passes: workers add to the completed-task array
(comms.py 244-248), the caller hands over a new total (`set_new_total`, progress_bar.py 263-270: the value first, then
the event), requests shutdown, or an exception / kill signal is flagged (comms.py `get_tasks_completed_progress_bar`
252-271 returns the poison pill for those three).  `wait_until_progress_bar_is_complete` (comms.py 305-314) lets the
caller go on iff the completion event is set or an exception was flagged.  Core Lean only.
-/
namespace Mpire.BarHandshake

structure HS where
  arr       : Nat := 0              -- sum(_tasks_completed_array)
  n         : Nat := 0              -- progress_bar.n
  barTotal  : Option Nat := none    -- progress_bar.total
  selfTotal : Option Nat := none    -- ProgressBarHandler.total
  updated   : Bool := false         -- ProgressBarHandler.total_updated
  complete  : Bool := false         -- WorkerComms._progress_bar_complete
  shutdown  : Bool := false         -- WorkerComms._progress_bar_shutdown
  exc       : Bool := false         -- exception_thrown()
  kill      : Bool := false         -- kill_signal_received()
  exited    : Bool := false         -- the handler has left its loop (final refresh done)
  deriving Repr, DecidableEq

inductive Op
  | add (k : Nat)        -- workers flush k completed items into the array
  | setTotal (t : Nat)   -- caller: set_new_total(t)
  | shutdown             -- caller: signal_progress_bar_shutdown()
  | exc                  -- somebody: signal_exception_thrown
  | kill                 -- somebody: signal_kill_signal_received
  | pass                 -- the handler thread: one pass of its loop
  deriving Repr, DecidableEq

/-- One pass of the handler loop. -/
def pass (s : HS) : HS :=
  if s.exited then s
  else if s.exc || s.kill || s.shutdown then { s with exited := true }        -- poison pill: final refresh, break
  else
    let c := s.arr                                                               -- tasks_completed
    -- `if self.total_updated.is_set(): progress_bar.update_total(self.total); self.total_updated.clear()`
    let bt := if s.updated then s.selfTotal else s.barTotal
    -- `if tasks_completed > 0 and tasks_completed == progress_bar.n and progress_bar.n != progress_bar.total: continue`
    if 0 < c && c == s.n && bt != some s.n then { s with barTotal := bt, updated := false }
    -- `progress_bar.update(tasks_completed - n)`; `if progress_bar.n == progress_bar.total: signal_progress_bar_complete()`
    else { s with barTotal := bt, updated := false, n := c, complete := s.complete || (bt == some c) }

def step (s : HS) : Op → HS
  | .add k      => { s with arr := s.arr + k }
  | .setTotal t => { s with selfTotal := some t, updated := true }
  | .shutdown   => { s with shutdown := true }
  | .exc        => { s with exc := true }
  | .kill       => { s with kill := true }
  | .pass       => pass s

def run (s : HS) (ops : List Op) : HS := ops.foldl step s

/-- the state the handler starts from in a call whose bar was created with `total` (`None` for unknown length);
`__enter__` has cleared the completion event, `reset_progress` the array and the shutdown flag -/
def init (total : Option Nat) : HS := { barTotal := total }

/-- `wait_until_progress_bar_is_complete` returns -/
def callerGoesOn (s : HS) : Bool := s.complete || s.exc

/-- A history of one call with `t` work items: the workers never report more than `t` items in total and the only
total the caller ever hands over is `t`. -/
def OkHist (t : Nat) : HS → List Op → Prop
  | _, [] => True
  | s, .add k :: r => s.arr + k ≤ t ∧ OkHist t (step s (.add k)) r
  | s, .setTotal u :: r => u = t ∧ OkHist t (step s (.setTotal u)) r
  | s, op :: r => OkHist t (step s op) r

end Mpire.BarHandshake
