/-
Model of the watcher logic: the timeout scan (pool.py _timeout_handler 335-397, comms.py 768-858) over a discrete
clock, and the unexpected-death scan (pool.py _unexpected_death_handler 285-333) as a small transition system whose
reads are separate events.  Core Lean only.
-/
namespace Mpire.Watch

/-! ## Timeouts -/

/-- `_has_worker_timed_out(started_time, timeout)` at time `now`; the stamp 0.0 means "no function running" -/
def timedOut (started : Option Nat) (now timeout : Nat) : Bool :=
  match started with
  | none => false
  | some s => decide (s + timeout ≤ now)

/-- one worker slot as the timeout scan sees it: the start stamp of the function it runs (if any) -/
structure TSlot where
  stamp : Option Nat := none
  deriving Repr, DecidableEq

inductive TEv
  | start        -- signal_worker_*_started: stamp := now
  | finish       -- signal_worker_*_completed (in a `finally`): stamp := 0
  | tick         -- time passes
  deriving Repr, DecidableEq

structure TSt where
  now     : Nat := 0
  slot    : TSlot := {}
  running : Option Nat := none     -- ghost: since when a user function really runs
  deriving Repr, DecidableEq

def tstep (s : TSt) : TEv → Option TSt
  | .start  => if s.running.isNone then some { s with slot := { stamp := some s.now }, running := some s.now } else none
  | .finish => if s.running.isSome then some { s with slot := { stamp := none }, running := none } else none
  | .tick   => some { s with now := s.now + 1 }

def trun (s : TSt) (es : List TEv) : Option TSt := es.foldlM tstep s

/-! ## Unexpected death vs. normal exit / restart

One worker slot.  The worker goes `starting → alive → exiting → gone`; a restart installs a new worker object
(`starting` again, generation + 1); a SIGKILL can hit at any phase in which the process exists.
The scan performs its reads one at a time, in the order of the repaired code:
flag, whether the captured object knows that it was started (`ident is not None`), OS liveness of the captured object, flag
again, slot identity.

`Process.start()` is not atomic: the child process runs (and marks itself alive) as soon as it is forked, but the parent's
process object answers `is_alive() == False` / `ident is None` until `start()` has returned in the thread that called it
(`known`). -/

inductive Phase | starting | alive | exiting | gone
  deriving Repr, DecidableEq

structure WSt where
  phase    : Phase := .starting
  flag     : Bool := false       -- is_worker_alive: not workers_dead[w]
  osAlive  : Bool := true        -- the process of the CURRENT worker object exists
  killed   : Bool := false       -- ghost: a SIGKILL hit the current worker object
  gen      : Nat := 0            -- which worker object is installed in the slot
  known    : Bool := false       -- start() has returned: the current worker object knows its process (ident is not None)
  deriving Repr, DecidableEq

/-- progress of one pass of the scan over this slot -/
inductive Scan
  | idle
  | gotObj (gen : Nat)                                  -- worker = self._workers[w]
  | gotFlag (gen : Nat) (f1 : Bool)                     -- is_worker_alive(w)
  | gotId (gen : Nat) (f1 : Bool)                       -- worker.ident is not None
  | gotOs (gen : Nat) (f1 : Bool) (os : Bool)           -- worker.is_alive()
  | gotFlag2 (gen : Nat) (f1 : Bool) (os : Bool) (f2 : Bool)
  | verdict (died : Bool)
  deriving Repr, DecidableEq

structure DSt where
  w    : WSt := {}
  oldOsAlive : Bool := false   -- liveness of the previous worker object (gen - 1) while it can still be referenced
  scan : Scan := .idle
  everKilled : Bool := false   -- ghost: some worker object of this slot was killed
  deriving Repr, DecidableEq

inductive DEv
  | startReturns     -- Process.start() returns in the thread that started the current worker object
  | signalAlive      -- run(): signal_worker_alive
  | signalDead       -- run() finally: signal_worker_dead
  | processExit      -- the process ends after run() returned
  | restart          -- restart handler: join old object, start a new one
  | kill             -- SIGKILL
  | read             -- next read of the scan
  | rescan           -- the scan starts over (next pass)
  deriving Repr, DecidableEq

def dstep (s : DSt) : DEv → Option DSt
  | .startReturns =>
    if s.w.known then none else some { s with w := { s.w with known := true } }
  | .signalAlive =>
    if s.w.phase = .starting ∧ s.w.osAlive then some { s with w := { s.w with phase := .alive, flag := true } } else none
  | .signalDead =>
    if s.w.phase = .alive ∧ s.w.osAlive then some { s with w := { s.w with phase := .exiting, flag := false } } else none
  | .processExit =>
    if s.w.phase = .exiting ∧ s.w.osAlive then some { s with w := { s.w with phase := .gone, osAlive := false } } else none
  | .restart =>
    if s.w.phase = .gone ∧ ¬ s.w.killed ∧ s.w.known then      -- (the old object is joined first: it was started)
      some { s with w := { phase := .starting, flag := s.w.flag, osAlive := true, killed := false, gen := s.w.gen + 1, known := false },
                    oldOsAlive := false }
    else none
  | .kill =>
    if s.w.osAlive then some { s with w := { s.w with osAlive := false, killed := true }, everKilled := true } else none
  | .rescan => match s.scan with
    | .verdict false => some { s with scan := .idle }
    | _ => none
  | .read =>
    match s.scan with
    | .idle => some { s with scan := .gotObj s.w.gen }
    | .gotObj g => some { s with scan := .gotFlag g s.w.flag }
    | .gotFlag g f1 =>
      -- does the captured object know that it was started?  (the old, joined one does)  If not, it is not looked at further
      let idKnown := if g = s.w.gen then s.w.known else true
      if idKnown then some { s with scan := .gotId g f1 } else some { s with scan := .verdict false }
    | .gotId g f1 =>
      -- liveness of the captured object: the current one if still installed, otherwise the old (joined) one; an object that
      -- does not know its process yet answers False
      let os := if g = s.w.gen then (s.w.known && s.w.osAlive) else s.oldOsAlive
      some { s with scan := .gotOs g f1 os }
    | .gotOs g f1 os =>
      if f1 && !os then some { s with scan := .gotFlag2 g f1 os s.w.flag }
      else some { s with scan := .verdict false }
    | .gotFlag2 g _ _ f2 => some { s with scan := .verdict (f2 && decide (g = s.w.gen)) }
    | .verdict _ => none

def drun (s : DSt) (es : List DEv) : Option DSt := es.foldlM dstep s

def DReachable (s : DSt) : Prop := ∃ es, drun {} es = some s

end Mpire.Watch
