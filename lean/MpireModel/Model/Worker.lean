/-
Model of one worker instance: AbstractWorker.run and its helpers (worker.py 83-201, 313-457, 459-531).
The instance is a deterministic transducer: given what `get_task` returns and how each user-function call ends,
it produces the sequence of actions on the communication object and of user-function invocations.
The correspondence check runs the REAL `AbstractWorker.run` against a scripted comms object on the same script
and compares the action sequences.  Core Lean only.
-/
namespace Mpire.Worker

/-- how one call of a user function ends -/
inductive Outcome
  | ok           -- returns
  | raises       -- raises Exception/SystemExit and this worker is the first to report
  | raisesQuiet  -- raises, but the exception flag was set by somebody else meanwhile (nothing reported)
  | stop         -- StopWorker arrives inside it (kill signal from the main process)
  | interrupt    -- InterruptWorker arrives inside it (apply task timed out)
  | excAlready   -- the exception flag was already set when `_run_safely` was entered: not run at all
  deriving Repr, DecidableEq

inductive Kind | init | task | exit
  deriving Repr, DecidableEq

structure TaskIn where
  id  : Nat
  out : Outcome
  deriving Repr, DecidableEq

structure Params where
  lifespan    : Option Nat := none
  hasInit     : Bool := false
  hasExit     : Bool := false
  progressBar : Bool := false
  initTimeout : Bool := false
  exitTimeout : Bool := false
  deriving Repr, DecidableEq

/-- what successive `get_task` calls return (queue entries as the dispatcher put them) -/
inductive Item
  | chunk (job : Int) (ts : List TaskIn)
  | pill                                   -- POISON_PILL
  | pillNL                                 -- NON_LETHAL_POISON_PILL
  | newParams (p : Option Params)          -- NEW_MAP_PARAMS_PILL, then the params (`none`: get_task gave None)
  | apply (t : Option (Int × TaskIn))      -- APPLY_PILL, then the task (`none`: get_task gave None)
  | stopNow                                -- get_task returned None: exception flag set
  deriving Repr, DecidableEq

structure Env where
  initOut  : Outcome := .ok
  exitOut  : Outcome := .ok
  excAtEnd : Bool := false       -- somebody else set the exception flag before the final `finally`
  deriving Repr, DecidableEq

def INIT_FUNC : Int := -2
def EXIT_FUNC : Int := -3

inductive Act
  | alive | resetRecv
  | got                                        -- get_task returned a queue entry
  | taskDone
  | workingOn (job : Int)
  | stampStart (k : Kind) | stampClear (k : Kind)
  | user (k : Kind) (id : Nat)                 -- user function entered (id 0 for init/exit)
  | addResults (rs : List (Int × Bool × Nat))  -- (job id, success, task id) per result; exit result: (EXIT_FUNC, true, 0)
  | raise_ (job : Int)                         -- signal_exception_thrown(job) and the failure is put on the results queue
  | pb (force : Bool)                          -- task_completed_progress_bar
  | waitPB | waitAllReceived | restartReq | dead
  deriving Repr, DecidableEq

structure St where
  params   : Params
  executed : Nat := 0
  initDone : Bool := false
  lastJob  : Option Int := none
  flag     : Bool := false           -- the exception flag as this instance has seen it set
  acts     : List Act := []          -- reverse order
  deriving Repr

def St.emit (s : St) (a : List Act) : St := { s with acts := a.reverse ++ s.acts }

/-- `_run_safely`: (actions, success, send_results, should_shut_down, exception flag now known to be set).
`StopWorker` is a subclass of `Exception`: inside an apply task it is caught by the generic handler and shipped as
that task's failure; inside map/init/exit the generic handler re-raises it through `_raise` (which reports nothing,
the flag being set already). -/
def runSafely (k : Kind) (id : Nat) (job : Int) (isApply : Bool) (o : Outcome) :
    List Act × Bool × Bool × Bool × Bool :=
  match o with
  | .excAlready  => ([], true, false, true, true)
  | .ok          => ([.user k id], true, true, false, false)
  | .interrupt   => ([.user k id], false, false, false, false)
  | .stop        => if isApply then ([.user k id], false, true, false, true) else ([.user k id], false, false, true, true)
  | .raises      => if isApply then ([.user k id], false, true, false, false)
                    else ([.user k id, .raise_ job], false, false, true, true)
  | .raisesQuiet => if isApply then ([.user k id], false, true, false, true) else ([.user k id], false, false, true, true)

/-- `_run_init_func`; returns the new state and whether the worker has to shut down -/
def runInit (s : St) (env : Env) : St × Bool :=
  if s.initDone then (s, false) else
  let (a, _, _, sd, fl) := runSafely .init 0 INIT_FUNC false (if s.flag then .excAlready else env.initOut)
  let a := if s.params.initTimeout then [.stampStart .init] ++ a ++ [.stampClear .init] else a
  ({ (s.emit ([.workingOn INIT_FUNC] ++ a)) with initDone := true, lastJob := some INIT_FUNC, flag := s.flag || fl }, sd)

/-- `_run_exit_func` -/
def runExit (s : St) (env : Env) : St × Bool :=
  let (a, _, send, sd, fl) := runSafely .exit 0 EXIT_FUNC false (if s.flag then .excAlready else env.exitOut)
  let a := if s.params.exitTimeout then [.stampStart .exit] ++ a ++ [.stampClear .exit] else a
  let s := { (s.emit ([.workingOn EXIT_FUNC] ++ a)) with lastJob := some EXIT_FUNC, flag := s.flag || fl }
  if sd then (s, true)
  else if send then (s.emit [.addResults [(EXIT_FUNC, true, 0)]], false)
  else (s, false)

/-- the `for args in next_chunked_args` loop; returns state, collected results (reverse), shut-down flag -/
def runTasks (s : St) (job : Int) (isApply : Bool) : List TaskIn → List (Int × Bool × Nat) → St × List (Int × Bool × Nat) × Bool
  | [], res => (s, res, false)
  | t :: ts, res =>
    let s := if s.lastJob ≠ some job then { (s.emit [.workingOn job]) with lastJob := some job } else s
    let (a, succ, send, sd, fl) := runSafely .task t.id job isApply (if s.flag then .excAlready else t.out)
    let s := { (s.emit ([.stampStart .task] ++ a ++ [.stampClear .task])) with flag := s.flag || fl }
    if sd then (s, res, true)
    else
      let res := if send then (job, succ, t.id) :: res else res
      let s := if !isApply && s.params.progressBar then s.emit [.pb false] else s
      runTasks s job isApply ts res

/-- one chunk (or apply task): the `try … finally` of run(); returns state and whether run() returns -/
def runChunk (s : St) (env : Env) (job : Int) (isApply : Bool) (ts : List TaskIn) : St × Bool :=
  let (s, sd) := if s.params.hasInit then runInit s env else (s, false)
  if sd then (s.emit [.taskDone], true) else
  let (s, res, sd) := runTasks s job isApply ts []
  if sd then (s.emit [.taskDone], true) else
  let s := if res ≠ [] then s.emit [.addResults res.reverse] else s
  ({ (s.emit [.taskDone]) with executed := s.executed + res.length }, false)

def forcedPB (s : St) : St := if s.params.progressBar then s.emit [.pb true] else s

/-- the `finally` of run() -/
def finish (s : St) (env : Env) : List Act :=
  let restart := !(env.excAtEnd || s.flag) && (match s.params.lifespan with | some l => decide (l ≤ s.executed) | none => false)
  (s.emit ([.waitAllReceived] ++ (if restart then [.restartReq] else []) ++ [.dead])).acts.reverse

def reached (s : St) : Bool :=
  match s.params.lifespan with | some l => decide (l ≤ s.executed) | none => false

/-- "Max lifespan reached": forced updates, exit function, then the `finally` -/
def lifespanEnd (s : St) (env : Env) : List Act :=
  let s := forcedPB s
  if s.params.hasExit then finish (runExit s env).1 env else finish s env

/-- one queue entry, when the lifespan is not reached; `none` = run() returns, `some s` = next loop iteration -/
def handle (s : St) (env : Env) : Item → St × Bool
  | .stopNow => (s, true)
  | .pill =>
    let s := (forcedPB (s.emit [.got])).emit [.taskDone]
    let s := if s.params.hasExit && decide (0 < s.executed) then (runExit s env).1 else s
    let s := if s.params.progressBar then s.emit [.waitPB] else s
    (s, true)
  | .pillNL => ((forcedPB (s.emit [.got])).emit [.taskDone], false)
  | .newParams none => (s.emit [.got, .taskDone], true)
  | .newParams (some p) => ({ (s.emit [.got, .taskDone, .got, .taskDone]) with params := p }, false)
  | .apply none => (s.emit [.got, .taskDone], true)
  | .apply (some (job, t)) => runChunk (s.emit [.got, .taskDone, .got]) env job true [t]
  | .chunk job ts => runChunk (s.emit [.got]) env job false ts

/-- the `while lifespan is None or n_tasks_executed < lifespan` loop -/
def loop (env : Env) : St → List Item → List Act
  | s, [] => if reached s then lifespanEnd s env else finish s env      -- nothing more: get_task returns None
  | s, it :: rest =>
    if reached s then lifespanEnd s env
    else if s.flag then finish s env                                    -- get_task returns None: exception flag set
    else
      let (s', ret) := handle s env it
      if ret then finish s' env else loop env s' rest

/-- everything one instance does, given its parameters at start, its environment and the queue contents -/
def run (p : Params) (env : Env) (items : List Item) : List Act :=
  loop env { params := p, acts := [.resetRecv, .alive] } items

/-! Observations used by the properties -/

def userActs (as : List Act) : List (Kind × Nat) :=
  as.filterMap fun a => match a with | .user k i => some (k, i) | _ => none

def taskIds (as : List Act) : List Nat :=
  as.filterMap fun a => match a with | .user .task i => some i | _ => none

/-- ids of the successful results shipped, in order -/
def sentOk (as : List Act) : List Nat :=
  (as.filterMap fun a => match a with
    | .addResults rs => some (rs.filterMap fun (j, ok, i) => if ok && j ≠ EXIT_FUNC then some i else none)
    | _ => none).flatten

def exitResults (as : List Act) : Nat := as.count (.addResults [(EXIT_FUNC, true, 0)])

/-- all newParams keep the init/exit hooks and the progress-bar flag of `p` -/
def sameHooks (p : Params) (items : List Item) : Bool :=
  items.all fun it => match it with
    | .newParams (some q) => q.hasInit == p.hasInit && q.hasExit == p.hasExit && q.progressBar == p.progressBar
    | _ => true

def chunkSizeLe (c : Nat) (items : List Item) : Bool :=
  items.all fun it => match it with | .chunk _ ts => decide (ts.length ≤ c) | _ => true

/-- no apply task of the script is interrupted by its timeout (an interrupted task is entered but does not count
towards the lifespan) -/
def noInterrupt (items : List Item) : Bool :=
  items.all fun it => match it with
    | .apply (some (_, t)) => t.out != .interrupt
    | .chunk _ ts => ts.all (·.out != .interrupt)
    | _ => true

/-- every newParams keeps the lifespan -/
def sameLifespan (p : Params) (items : List Item) : Bool :=
  items.all fun it => match it with | .newParams (some q) => q.lifespan == p.lifespan | _ => true

def allOk (items : List Item) : Bool :=
  items.all fun it => match it with
    | .chunk _ ts => ts.all (·.out == .ok) && !ts.isEmpty
    | .apply (some (_, t)) => t.out == .ok
    | .newParams none | .apply none | .stopNow => false
    | _ => true

end Mpire.Worker
