/-
Model of the graceful shutdown of ONE worker at the end of a call (pool.py stop_and_join: the join loop over the workers;
worker.py run: poison pill → worker_exit → exit result → wait until the main process has it → mark itself dead → end; pool.py
_unexpected_death_handler: a process that is gone although its "alive" flag is set died unexpectedly — in a map-family call the
call is failed, in apply mode the worker is replaced) with the worker being killed at any point on its way out.

Four variants of what `stop_and_join` does once the process is gone:
  pinned      — nothing: it goes on as if the worker had finished                                   (the pinned code, defect D30)
  waitSlot    — waits for the death handler's verdict while the SLOT's alive flag is set           (first attempt at a repair)
  waitObject  — … while the flag is set AND the slot still holds the process object it joined      (second attempt)
  final       — like waitObject, and looks at the exception event once more after the handler threads have been stopped
                (the death handler clears the flag BEFORE it fails the call: a verdict can be under way)   (the repair in /repo)
All variants have the pinned code's check of the exception event between joining the workers and stopping the handler threads.
Core Lean only.
-/
namespace Mpire.GracefulStop

inductive Variant | pinned | waitSlot | waitObject | final
  deriving Repr, DecidableEq

/-- where the worker is after it took its poison pill -/
inductive WPh
  | pill        -- pill taken; worker_exit not started yet
  | exiting     -- inside worker_exit, or between its return and the delivery of its result
  | sent        -- the exit result is with the main process
  | dead        -- it has marked itself as dead (flag cleared)
  | gone        -- the process has ended
  deriving Repr, DecidableEq

/-- the thread running stop_and_join -/
inductive MPc
  | joining     -- `join(timeout)`, `is_alive()` in a loop
  | verdict     -- the process is gone; waiting for the death handler's verdict (repaired variants only)
  | midcheck    -- `if exception_thrown(): _handle_exception()` after the workers are joined
  | stopping    -- `_stop_handler_threads()`: the stop event is set, the death handler thread is being joined
  | returned    -- went on: the call returns normally
  | raised      -- `_handle_exception`: the call raises
  deriving Repr, DecidableEq

structure S where
  variant  : Variant
  apply    : Bool            -- the pool is used through apply: a dead worker is replaced instead of failing the call
  ph       : WPh := .pill
  killed   : Bool := false   -- SIGKILL / OOM: the process is gone in the phase it was in, for good
  flag     : Bool := true    -- the slot's "alive" flag
  noticed  : Bool := false   -- the death handler has seen "flag set, process gone" and cleared the flag
  replaced : Bool := false   -- apply mode: a replacement was started in the slot (it sets the flag again)
  exc      : Bool := false   -- map mode: the exception event is set
  gotExit  : Bool := false   -- the main process holds this worker's exit result
  stop     : Bool := false   -- the handler threads have been told to stop: the death handler starts no new round
  mpc      : MPc := .joining
  deriving Repr, DecidableEq

inductive Ev
  | worker      -- the worker takes its next step on the way out
  | kill        -- the worker is killed
  | handler     -- the death handler takes its next step
  | main        -- stop_and_join takes its next step
  deriving Repr, DecidableEq

def processGone (s : S) : Bool := s.killed || s.ph = .gone

/-- `none`: that actor cannot move (it waits, or has nothing left to do) -/
def step (s : S) : Ev → Option S
  | .worker =>
    if s.killed then none else
    match s.ph with
    | .pill => some { s with ph := .exiting }
    | .exiting => some { s with ph := .sent, gotExit := true }
    | .sent => some { s with ph := .dead, flag := false }
    | .dead => some { s with ph := .gone }
    | .gone => none
  | .kill => if s.killed || s.ph = .gone then none else some { s with killed := true }
  | .handler =>
    if s.exc then none                                    -- the handler thread ends once the call is failed
    else if s.noticed then
      if s.apply && !s.replaced then some { s with replaced := true, flag := true }   -- the replacement marks the slot alive
      else if !s.apply then some { s with exc := true }
      else none
    else if s.flag && processGone s && !s.stop then some { s with noticed := true, flag := false }
    else none
  | .main =>
    match s.mpc with
    | .joining =>
      if s.exc then some { s with mpc := .raised }
      else if processGone s then some { s with mpc := if s.variant = .pinned then .midcheck else .verdict }
      else none
    | .verdict =>
      if s.exc then some { s with mpc := .raised }
      else if s.flag && (s.variant = .waitSlot || !s.replaced) then none       -- keeps waiting
      else some { s with mpc := .midcheck }
    | .midcheck => if s.exc then some { s with mpc := .raised } else some { s with mpc := .stopping, stop := true }
    | .stopping =>
      -- the death handler thread is joined: a verdict that is under way is completed first
      if s.noticed && !s.exc && !(s.apply && s.replaced) then none
      else some { s with mpc := if s.variant = .final && s.exc then .raised else .returned }
    | .returned => none
    | .raised => none

def run (s : S) (es : List Ev) : Option S := es.foldlM step s

def Reachable (v : Variant) (ap : Bool) (s : S) : Prop := ∃ es, run { variant := v, apply := ap } es = some s

/-- nobody can move although stop_and_join has neither returned nor raised -/
def hung (s : S) : Bool :=
  s.mpc != .returned && s.mpc != .raised &&
    (step s .worker).isNone && (step s .kill).isNone && (step s .handler).isNone && (step s .main).isNone

/-! ### for the tie: all ways in which the shutdown of a worker killed in phase `k` (or not killed) can end -/

inductive End | returnedComplete | returnedIncomplete | raised | hangs
  deriving Repr, DecidableEq

def endOf (s : S) : Option End :=
  match s.mpc with
  | .returned => some (if s.gotExit then .returnedComplete else .returnedIncomplete)
  | .raised => some .raised
  | _ => if hung s then some .hangs else none

def dedup (l : List S) : List S := l.foldl (fun acc x => if acc.contains x then acc else acc ++ [x]) []

/-- every state reachable without a kill from a state in which the kill (if any) has happened; the system is finite and acyclic
(every step moves some component forward), 16 rounds are more than enough -/
def closure (l : List S) : List S :=
  let grow (l : List S) : List S :=
    dedup (l ++ l.flatMap fun s => [Ev.worker, Ev.handler, Ev.main].filterMap (step s))
  (List.range 16).foldl (fun acc _ => grow acc) l

/-- the worker runs undisturbed up to phase `k`, is killed there (`none`: never), then everybody moves in any order -/
def ends (v : Variant) (ap : Bool) (k : Option WPh) : List End :=
  let s0 : S := { variant := v, apply := ap }
  let advance (s : S) (target : WPh) : S :=
    (List.range 4).foldl (fun s _ => if s.ph = target then s else (step s .worker).getD s) s
  let start : S := match k with
    | none => s0
    | some t => { advance s0 t with killed := true }
  let all := closure [start]
  (all.filterMap endOf).foldl (fun acc e => if acc.contains e then acc else acc ++ [e]) []

end Mpire.GracefulStop
