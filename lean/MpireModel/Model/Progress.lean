/-
Model of the progress accounting: the worker-side batching of completed-task counts
(comms.py task_completed_progress_bar 225-249, worker.py _update_progress_bar 643-653), the handler's update rule
(progress_bar.py 134-185) and the insights counters / ratios (insights.py 120-127, 152-225).  Core Lean only.
-/
namespace Mpire.Progress

/-! ## Completed-task counting for the progress bar -/

structure PW where
  pending : Nat := 0     -- progress_bar_n_tasks_completed (local to the worker)
  last    : Nat := 0     -- progress_bar_last_updated
  deriving Repr, DecidableEq

structure PSt where
  arr      : List Nat            -- _tasks_completed_array
  workers  : List PW
  now      : Nat := 0
  interval : Nat := 1
  done     : Nat := 0            -- ghost: work items really completed
  shown    : Nat := 0            -- progress_bar.n
  total    : Option Nat := none  -- progress_bar.total
  complete : Bool := false       -- signal_progress_bar_complete sent
  deriving Repr, DecidableEq

inductive PEv
  | taskDone (w : Nat)     -- _update_progress_bar() after a task
  | force (w : Nat)        -- _update_progress_bar(force_update=True): pill or lifespan end
  | tick
  | poll                   -- the handler reads the array and updates the bar
  | setTotal (n : Nat)     -- set_new_total
  deriving Repr, DecidableEq

def flush (s : PSt) (w : Nat) (pw : PW) : PSt :=
  { s with arr := s.arr.set w (s.arr.getD w 0 + pw.pending), workers := s.workers.set w { pending := 0, last := s.now } }

def pstep (s : PSt) : PEv → Option PSt
  | .taskDone w =>
    match s.workers[w]? with
    | some pw =>
      let pw := { pw with pending := pw.pending + 1 }
      let s := { s with done := s.done + 1 }
      if s.interval < s.now - pw.last then some (flush s w pw)
      else some { s with workers := s.workers.set w pw }
    | none => none
  | .force w =>
    match s.workers[w]? with
    | some pw => some (flush s w pw)
    | none => none
  | .tick => some { s with now := s.now + 1 }
  | .setTotal n => some { s with total := some n }
  | .poll =>
    let n := s.arr.sum
    -- `if tasks_completed > 0 and tasks_completed == progress_bar.n: continue`, else `update(tasks_completed - n)`
    if 0 < n ∧ n = s.shown then some s
    else
      let s := { s with shown := n }
      some { s with complete := s.complete || (s.total == some n) }

def prun (s : PSt) (es : List PEv) : Option PSt := es.foldlM pstep s

def pinit (nJobs : Nat) (total : Option Nat) : PSt :=
  { arr := List.replicate nJobs 0, workers := List.replicate nJobs {}, total := total }

def PReachable (nJobs : Nat) (total : Option Nat) (s : PSt) : Prop := ∃ es, prun (pinit nJobs total) es = some s

def pendingSum (s : PSt) : Nat := (s.workers.map (·.pending)).sum

/-! ## Insights -/

/-- the five ratios `total_part / (total_time + ε)` over non-negative rationals -/
def ratios (parts : List Rat) (eps : Rat) : List Rat :=
  let total := parts.sum
  parts.map fun p => p / (total + eps)

/-- `argsort(durations)[-5:][::-1]`, stop at the first zero duration, skip entries whose argument string is empty -/
def top5 (entries : List (Nat × String)) : List (Nat × String) :=
  let sorted := (entries.mergeSort fun a b => a.1 ≤ b.1)       -- ascending, stable
  let last5 := (sorted.drop (sorted.length - 5)).reverse
  (last5.takeWhile fun e => e.1 != 0).filter fun e => e.2 != ""

end Mpire.Progress
