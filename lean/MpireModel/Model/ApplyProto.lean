/-
Model of a pool used through apply / apply_async: jobs are handed to worker slots one by one (comms.py add_apply_task),
each worker runs the task it holds and reports success OR failure as a result instead of stopping (worker.py run /
_run_safely with is_apply_func), the results handler sets the job (pool.py _results_handler, async_result.py _set — the
first outcome wins), the timeout scan can set a job to TimeoutError and interrupt its worker (pool.py _timeout_handler),
and the death handler fails the job a dead worker had announced and replaces the worker (pool.py
_unexpected_death_handler).  The two-entry hand-over and its dequeue window are the subject of ApplyHandover.lean; here
one queue entry stands for the pill-and-task pair and a worker dies only while it holds an announced task.
User functions are never inspected: how a task ends is an input.  Core Lean only.
-/
namespace Mpire.ApplyProto

abbrev Job := Nat

/-- how a job was settled -/
inductive Out
  | ok          -- the function returned
  | raised      -- the function raised
  | timedOut    -- the timeout scan got there first
  | died        -- the worker died while running it
  deriving Repr, DecidableEq

structure Slot where
  queue : List Job := []        -- handed to this worker, not taken yet
  hand  : Option Job := none    -- the task the worker is running
  deriving Repr, DecidableEq

structure Sys where
  slots     : List Slot                 -- one per worker id
  rq        : List (Job × Bool) := []   -- results queue: (job, success)
  settled   : List (Job × Out) := []    -- jobs whose result was set, in the order in which that happened
  submitted : List Job := []
  deriving Repr, DecidableEq

def init (n : Nat) : Sys := { slots := List.replicate n {} }

inductive Ev
  | submit (j : Job) (k : Nat)      -- apply_async: job j goes to worker k (round robin or the worker that reported last)
  | take (k : Nat)                  -- worker k takes its next task
  | finish (k : Nat) (ok : Bool)    -- the function returned (ok) or raised: either way a result is sent and the worker goes on
  | handle                          -- the results handler takes one result and sets the job
  | timeoutProc (k : Nat)           -- process worker: the scan sets TimeoutError and interrupts the worker (no result is sent)
  | timeoutOnly (j : Job)           -- the scan sets TimeoutError for a job whose function is NOT interrupted (thread worker, or its result is already on its way): the late result is dropped by `settle`
  | die (k : Nat)                   -- worker k is killed while running its task; the handler fails that job, a replacement takes over
  deriving Repr, DecidableEq

def isSettled (s : Sys) (j : Job) : Bool := s.settled.any (·.1 == j)

/-- `_set`: the first outcome wins -/
def settle (s : Sys) (j : Job) (o : Out) : Sys :=
  if isSettled s j then s else { s with settled := s.settled ++ [(j, o)] }

/-- jobs that are still somewhere in the machinery -/
def queued (s : Sys) : List Job := s.slots.flatMap (·.queue)
def inHand (s : Sys) : List Job := s.slots.filterMap (·.hand)
def inRq (s : Sys) : List Job := s.rq.map (·.1)

def step (s : Sys) : Ev → Option Sys
  | .submit j k =>
    match s.slots[k]? with
    | some sl => if j ∈ s.submitted then none
                 else some { s with slots := s.slots.set k { sl with queue := sl.queue ++ [j] }, submitted := s.submitted ++ [j] }
    | none => none
  | .take k =>
    match s.slots[k]? with
    | some { queue := j :: q, hand := none } => some { s with slots := s.slots.set k { queue := q, hand := some j } }
    | _ => none
  | .finish k ok =>
    match s.slots[k]? with
    | some { queue := q, hand := some j } => some { s with slots := s.slots.set k { queue := q, hand := none }, rq := s.rq ++ [(j, ok)] }
    | _ => none
  | .handle =>
    match s.rq with
    | (j, ok) :: rest => some (settle { s with rq := rest } j (if ok then .ok else .raised))
    | [] => none
  | .timeoutProc k =>
    match s.slots[k]? with
    | some { queue := q, hand := some j } =>
      if isSettled s j then none else some (settle { s with slots := s.slots.set k { queue := q, hand := none } } j .timedOut)
    | _ => none
  | .timeoutOnly j => if (j ∈ inHand s ∨ j ∈ inRq s) ∧ isSettled s j = false then some (settle s j .timedOut) else none
  | .die k =>
    match s.slots[k]? with
    | some { queue := q, hand := some j } => some (settle { s with slots := s.slots.set k { queue := q, hand := none } } j .died)
    | _ => none

def run (s : Sys) (es : List Ev) : Option Sys := es.foldlM step s

/-- reachable from a fresh pool with n workers -/
def Reachable (n : Nat) (s : Sys) : Prop := ∃ es, run (init n) es = some s

/-- nothing is in flight any more: what stop_and_join() waits for -/
def quiescent (s : Sys) : Bool := (queued s).isEmpty && (inHand s).isEmpty && s.rq.isEmpty

def outcomeOf (s : Sys) (j : Job) : Option Out := (s.settled.find? (·.1 == j)).map (·.2)

/-- termination measure: every event except `submit` and `timeoutOnly` strictly decreases it; `timeoutOnly` is possible
at most once per job (it needs the job to be unsettled) -/
def mu (s : Sys) : Nat := 3 * (queued s).length + 2 * (inHand s).length + s.rq.length

/-- does this event concern job j? (the job it submits, runs, reports, times out or kills) -/
def concerns (s : Sys) (j : Job) : Ev → Bool
  | .submit j' _ => j' == j
  | .take k => (s.slots[k]?.bind (·.queue.head?)) == some j
  | .finish k _ | .timeoutProc k | .die k => (s.slots[k]?.bind (·.hand)) == some j
  | .timeoutOnly j' => j' == j
  | .handle => (s.rq.head?.map (·.1)) == some j

end Mpire.ApplyProto
