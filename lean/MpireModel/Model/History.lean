/-
Model of the between-calls control state of one WorkerPool object (pool.py: setters 119-176, imap_unordered prologue
724-746 and epilogue 799-823, _handle_exception 912-939, stop_and_join 941-1007, terminate 1011-1054; comms.py
init_comms / reset / reset_progress) over arbitrary histories of operations with arbitrary outcomes.  Core Lean only.
-/
namespace Mpire.History

/-- the per-call parameters the workers hold (function, hooks, lifespan, timeouts, progress bar) — just an identity -/
abbrev ParamsId := Nat

structure Ctl where
  keepAlive     : Bool := false         -- pool setting
  workers       : Option ParamsId := none   -- live workers and the map parameters they currently hold
  generation    : Nat := 0              -- ghost: how many times workers were started
  initialized   : Bool := false         -- WorkerComms._initialized
  mapRunning    : Bool := false
  keepOrder     : Bool := false
  excFlag       : Bool := false         -- exception_thrown
  taskIdx       : Nat := 0
  lastCompleted : List Nat := []
  deriving Repr, DecidableEq

/-- how a map-family call ends -/
inductive Outcome
  | ok (dispatched : Nat) (completions : List Nat)   -- ran to completion (so many chunks assigned, these workers reported)
  | fails (dispatched : Nat) (completions : List Nat) -- a handled failure: task/init/exit exception, timeout, death, interrupt
  | leftOpen (dispatched : Nat) (completions : List Nat)  -- lazy call: generator neither exhausted nor closed
  | closedEarly (dispatched : Nat) (completions : List Nat) -- lazy call: generator closed / collected before the end
  | rejected                                            -- refused while its arguments are validated (before anything is started)
  deriving Repr, DecidableEq

/-- how a batch of apply / apply_async submissions ends, as far as the pool's control state is concerned -/
inductive ApplyOutcome
  | settled (assigned : Nat) (completions : List Nat)     -- every task succeeded, raised or timed out on its own; a worker that died was replaced
  | poolFailed (assigned : Nat) (completions : List Nat)  -- worker_init / worker_exit failed: the exception flag is raised and the workers shut down
  deriving Repr, DecidableEq

inductive Op
  | setKeepAlive (b : Bool)
  | setPoolParam (changes : Bool)        -- pass_on_worker_id / set_shared_objects / set_use_worker_state
  | call (ordered : Bool) (p : ParamsId) (o : Outcome)
  | apply (p : ParamsId) (o : ApplyOutcome)
  | stopAndJoin (keepAlive : Bool)
  | terminate
  deriving Repr, DecidableEq

/-- `_start_workers`: init_comms resets every per-call primitive -/
def startWorkers (s : Ctl) (p : ParamsId) : Ctl :=
  { s with workers := some p, generation := s.generation + 1, initialized := true, excFlag := false, taskIdx := 0,
           lastCompleted := [] }

/-- `terminate()` -/
def terminate (s : Ctl) : Ctl :=
  match s.workers with
  | none => s
  | some _ => { s with workers := none, excFlag := true }

/-- an earlier apply batch can have left the pool flagged as failed with its (stopped) workers still registered:
the next call cleans that up first -/
def cleanupFailed (s : Ctl) : Ctl :=
  if s.workers.isSome && s.excFlag then terminate s else s

/-- prologue of `imap_unordered` up to the point where tasks are dispatched; `none`: "another map is running" -/
def callStart (s : Ctl) (ordered : Bool) (p : ParamsId) : Option Ctl :=
  let s := if ordered then { s with keepOrder := true } else s
  if s.mapRunning then none
  else
    let s := { s with mapRunning := true }
    let s := cleanupFailed s
    let s := if s.workers.isSome && !s.initialized then { s with workers := none } else s   -- stop_and_join(keep_alive=False)
    let s := match s.workers with
      | some _ => { s with workers := some p }      -- add_new_map_params when they differ
      | none => startWorkers s p
    some { s with taskIdx := 0, lastCompleted := [] }   -- chunk numbering starts at 0 with every call (apply tasks advance it too)

/-- the `finally` of imap_unordered -/
def callFinally (s : Ctl) : Ctl :=
  { s with mapRunning := false, taskIdx := 0, lastCompleted := [] }

def dispatchEffects (s : Ctl) (dispatched : Nat) (completions : List Nat) : Ctl :=
  { s with taskIdx := s.taskIdx + dispatched, lastCompleted := s.lastCompleted ++ completions }

def step (s : Ctl) : Op → Ctl
  | .setKeepAlive b => { s with keepAlive := b }
  | .setPoolParam changes => if changes then { s with initialized := false } else s
  | .stopAndJoin ka =>
    -- a pool that an apply batch flagged as failed: the stored error is handled (terminate, raise) instead of joining
    if s.workers.isSome ∧ s.excFlag then { (terminate s) with keepOrder := false }
    else if s.workers.isSome ∧ ¬ ka then { s with workers := none } else s
  | .terminate => terminate s
  | .call ordered p o =>
    -- the arguments are validated before anything else happens: a rejected call starts nothing and withdraws its order mode
    if o = .rejected then { s with keepOrder := false } else
    match callStart s ordered p with
    | none =>
      -- "Cannot call 'map' while another 'map' is running": handled like any failure, and the finally runs
      callFinally { (terminate { s with excFlag := true }) with keepOrder := false }
    | some s1 =>
      match o with
      | .rejected => s                                                        -- (handled above)
      | .ok d c =>
        let s2 := dispatchEffects s1 d c
        let s2 := if s2.keepAlive then s2 else { s2 with workers := none }     -- stop_and_join(keep_alive)
        callFinally { s2 with keepOrder := false }                            -- clear_keep_order after success
      | .fails d c =>
        let s2 := terminate { (dispatchEffects s1 d c) with excFlag := true }
        callFinally { s2 with keepOrder := false }                            -- _handle_exception clears the order flag
      | .closedEarly d c =>
        let s2 := terminate (dispatchEffects s1 d c)
        callFinally { s2 with keepOrder := false }
      | .leftOpen d c => dispatchEffects s1 d c                               -- suspended inside the generator
  | .apply p o =>
    let s := cleanupFailed s
    let s := match s.workers with
      | some _ => s                                 -- running workers are used as they are
      | none => startWorkers s p
    match o with
    | .settled d c => dispatchEffects s d c
    | .poolFailed d c => { (dispatchEffects s d c) with excFlag := true }

def runOps (s : Ctl) (ops : List Op) : Ctl := ops.foldl step s

/-- the per-call protocol state a call must find when it starts dispatching: that of a fresh pool -/
def FreshFor (s : Ctl) (ordered : Bool) (p : ParamsId) : Prop :=
  s.excFlag = false ∧ s.keepOrder = ordered ∧ s.taskIdx = 0 ∧ s.lastCompleted = [] ∧ s.workers = some p ∧
  s.initialized = true ∧ s.mapRunning = true

end Mpire.History
