/-
Model of the "running task" hand-shake that decides when a worker may be interrupted
(worker.py _run_safely 459-510 and the signal handlers 224-266; pool.py _send_kill_signal_to_worker 1114-1132;
comms.py 402-427).  One flag per worker, guarded by a lock that both sides take:
  worker:  running := true ; user function ; running := false        (all inside the try block of _run_safely)
  killer:  with lock: if running: running := false; os.kill(worker, SIGUSR1)
The signal handler raises StopWorker / InterruptWorker, which only the try block of _run_safely catches.
Core Lean only.
-/
namespace Mpire.Kill

inductive Phase
  | outside        -- not inside _run_safely's try block
  | inside         -- flag set, user function running (or about to)
  | leaving        -- user function returned; about to clear the flag (still inside the try block)
  | stopped        -- StopWorker/InterruptWorker was raised inside the try block and caught there
  | escaped        -- the signal's exception was raised OUTSIDE the try block (would kill the worker loop)
  deriving Repr, DecidableEq

structure W where
  phase    : Phase := .outside
  running  : Bool := false     -- the shared flag
  pending  : Bool := false     -- a signal has been sent and not yet handled
  sent     : Nat := 0          -- signals sent to this worker during the current function run (ghost)
  deriving Repr, DecidableEq

inductive Ev
  | enter          -- worker: set_worker_running_task(True) (takes the lock), then calls the function
  | funcReturns    -- worker: the user function returns by itself
  | clear          -- worker: set_worker_running_task(False) (takes the lock); leaves the try block
  | tryKill        -- killer: the locked test-and-signal
  | deliver        -- the pending signal's handler runs in the worker
  deriving Repr, DecidableEq

/-- A pending signal is handled before an interrupted lock acquisition returns (EINTR → handlers run), so the worker
cannot complete `clear` while a signal is pending. -/
def step (w : W) : Ev → Option W
  | .enter => if w.phase = .outside ∧ ¬ w.pending then some { w with phase := .inside, running := true, sent := 0 } else none
  | .funcReturns => if w.phase = .inside then some { w with phase := .leaving } else none
  | .clear => if w.phase = .leaving ∧ ¬ w.pending then some { w with phase := .outside, running := false } else none
  | .tryKill =>
    if w.running then some { w with running := false, pending := true, sent := w.sent + 1 } else some w
  | .deliver =>
    if w.pending then
      match w.phase with
      | .inside | .leaving => some { w with phase := .stopped, pending := false }
      | .outside => some { w with phase := .escaped, pending := false }
      | _ => some { w with pending := false }
    else none

def run (w : W) (es : List Ev) : Option W := es.foldlM step w

def Reachable (w : W) : Prop := ∃ es, run {} es = some w

/-- a whole pool: the kill round of terminate() applies `tryKill` to every worker -/
def killAll (ws : List W) : List W := ws.map fun w => (step w .tryKill).getD w

def deliverAll (ws : List W) : List W := ws.map fun w => (step w .deliver).getD w

end Mpire.Kill
