/-
Model of mpire/signal.py: DelayedKeyboardInterrupt and DisableKeyboardInterruptSignal as operations on the
process's SIGINT handler slot, with SIGINT arriving at any point.  Core Lean only.
-/
namespace Mpire.Signal

/-- what can be installed for SIGINT -/
inductive H
  | dfl                 -- default_int_handler: raises KeyboardInterrupt in the caller
  | ign                 -- SIG_IGN
  | delayed (id : Nat)  -- the `handler` method of DelayedKeyboardInterrupt instance `id`
  deriving Repr, DecidableEq

inductive Frame
  | delayed (id : Nat) (old : H) (received : Bool)
  | disabled (saved : H)
  deriving Repr, DecidableEq

structure St where
  handler : H := .dfl
  stack   : List Frame := []      -- active context managers, innermost first
  raised  : Nat := 0              -- KeyboardInterrupts raised into the calling code
  dropped : Nat := 0              -- signals that arrived while SIGINT was ignored
  nextId  : Nat := 0
  deriving Repr, DecidableEq

def markReceived (id : Nat) : List Frame → List Frame
  | [] => []
  | .delayed i old r :: fs => if i = id then .delayed i old true :: fs else .delayed i old r :: markReceived id fs
  | f :: fs => f :: markReceived id fs

/-- invoke handler `h` for one signal -/
def deliver (s : St) (h : H) : St :=
  match h with
  | .dfl => { s with raised := s.raised + 1 }
  | .ign => { s with dropped := s.dropped + 1 }
  | .delayed id => { s with stack := markReceived id s.stack }

inductive Op | enterDelayed | enterDisabled | exit | sigint
  deriving Repr, DecidableEq

def step (s : St) : Op → Option St
  | .enterDelayed =>       -- old_handler = signal(SIGINT, self.handler)
    some { s with handler := .delayed s.nextId, stack := .delayed s.nextId s.handler false :: s.stack, nextId := s.nextId + 1 }
  | .enterDisabled =>      -- self._handler = getsignal(SIGINT); signal(SIGINT, SIG_IGN)
    some { s with handler := .ign, stack := .disabled s.handler :: s.stack }
  | .exit =>
    match s.stack with
    | [] => none
    | .delayed _ old received :: fs =>   -- signal(SIGINT, old_handler); if received: old_handler(*received)
      let s := { s with handler := old, stack := fs }
      some (if received then deliver s old else s)
    | .disabled saved :: fs => some { s with handler := saved, stack := fs }
  | .sigint => some (deliver s s.handler)

def run (s : St) (ops : List Op) : Option St := ops.foldlM step s

/-- signals recorded by a delayed frame and not yet passed on -/
def pending (fs : List Frame) : Nat :=
  (fs.filter fun f => match f with | .delayed _ _ true => true | _ => false).length

def countSig (ops : List Op) : Nat := ops.count .sigint

end Mpire.Signal
