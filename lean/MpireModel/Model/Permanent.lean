/-
Model of the three permanent entries of a pool's job cache (async_result.py 257-312): the two
`AsyncResultWithExceptionGetter` objects (MAIN_PROCESS, INIT_FUNC) - re-settable: "it's the most recent error that has to
be raised" - and the `UnorderedAsyncExitResultIterator` (EXIT_FUNC) that collects worker_exit results.  They live as long
as the pool and are `reset()` whenever the pool starts workers (pool.py 184-186) so that a call never sees what an
earlier call left.  `hist` is a ghost: what was stored since the last reset.  Core Lean only.
-/
namespace Mpire.Permanent

inductive Val | ok (v : Nat) | err (e : Nat)
  deriving Repr, DecidableEq

structure Getter where
  isSet   : Bool := false
  outcome : Option Val := none    -- (_success, _value)
  ready   : Bool := false         -- _ready_event
  hist    : List Val := []        -- ghost
  deriving Repr, DecidableEq

inductive GOp | set (v : Val) | reset
  deriving Repr, DecidableEq

/-- `_set` clears `_is_set` first, so the first-wins rule of `AsyncResult._set` never applies: every store overwrites -/
def Getter.step (g : Getter) : GOp → Getter
  | .set v => { g with isSet := true, outcome := some v, ready := true, hist := g.hist ++ [v] }
  | .reset => { isSet := false, outcome := none, ready := false, hist := [] }

def Getter.run (g : Getter) (ops : List GOp) : Getter := ops.foldl Getter.step g

/-- `get_exception()` once the wait is over: the stored value -/
def Getter.getException (g : Getter) : Option Val := if g.ready then g.outcome else none

structure ExitIt where
  items     : List Nat := []
  nReceived : Nat := 0
  exc       : Option Nat := none
  gotExc    : Bool := false
  hist      : List Nat := []      -- ghost: exit results stored since the last reset
  deriving Repr, DecidableEq

inductive EOp | setOk (v : Nat) | setErr (e : Nat) | reset
  deriving Repr, DecidableEq

def ExitIt.step (s : ExitIt) : EOp → ExitIt
  | .setOk v => { s with items := s.items ++ [v], nReceived := s.nReceived + 1, hist := s.hist ++ [v] }
  | .setErr e => { s with exc := some e, gotExc := true }
  | .reset => {}

def ExitIt.run (s : ExitIt) (ops : List EOp) : ExitIt := ops.foldl ExitIt.step s

/-- `get_results()` -/
def ExitIt.getResults (s : ExitIt) : List Nat := s.items

end Mpire.Permanent
