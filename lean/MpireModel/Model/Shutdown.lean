/-
Model of how a pool gets rid of what it started (pool.py terminate / _terminate_worker / _stop_handler_threads /
_restart_handler; comms.py get_worker_restarts / signal_worker_restart_condition).

Part A — the forced shutdown of ONE worker process (`_terminate_worker`): what the OS process does is an input (`Fate`), the
function is the list of actions the pool performs on it.
Part B — `terminate()` over the whole worker list (slots that were never filled, thread workers).
Part C — stopping the restart handler thread: a two-actor transition system (the handler thread, the thread that stops it) in
which a notification can be missed; the stopper of the repaired code keeps notifying, the one of the pinned code notified once.
Core Lean only.
-/
namespace Mpire.Shutdown

/-! ## Part A: `_terminate_worker` -/

/-- how a worker process behaves while the pool is shutting it down: an input of the model -/
structure Fate where
  started : Bool            -- start() got far enough for the process object to have a pid
  running : Bool            -- the "is running a task" flag when the pool looks at it (under its lock)
  leaves  : Option Nat      -- the process has exited by the k-th look of the pool (k = 0: the first bounded join); none: never by itself
  deriving Repr, DecidableEq

inductive Act
  | usr1                    -- os.kill(pid, SIGUSR1)
  | join (gone : Bool)      -- join(timeout=0.1), then is_alive(): the process is gone / is still there
  | drain                   -- drain_results_queue_terminate_worker
  | term                    -- Process.terminate(): SIGTERM
  | joinForever             -- join() without a time limit
  | close                   -- Process.close()
  deriving Repr, DecidableEq

/-- `try_count = 10` -/
def patience : Nat := 10

def goneBy (f : Fate) (k : Nat) : Bool :=
  match f.leaves with
  | some j => j ≤ k
  | none => false

/-- the bounded joins: `left` attempts remain, this is look number `k`; returns the actions and whether the process was seen gone -/
def rounds (f : Fate) : Nat → Nat → List Act × Bool
  | 0, _ => ([], false)
  | left + 1, k =>
    if goneBy f k then ([.join true], true)
    else
      let r := rounds f left (k + 1)
      (.join false :: .drain :: r.1, r.2)

def terminateWorker (f : Fate) : List Act :=
  if f.started then
    let r := rounds f patience 0
    (if f.running then [Act.usr1] else []) ++ r.1 ++
      (if r.2 || goneBy f patience then [] else [Act.term, Act.joinForever]) ++ [Act.close]
  else []

/-! ## Part B: `terminate()` -/

structure Pool where
  threading : Bool                   -- start_method == 'threading'
  workers   : List (Option Fate)     -- none: starting the workers was interrupted before this slot was filled
  handlers  : Nat                    -- helper threads of the pool that are alive
  failed    : Bool                   -- the exception event
  deriving Repr, DecidableEq

/-- what `terminate()` does to every slot; a thread worker can only be waited for -/
def slotActs (threading : Bool) : Option Fate → List Act
  | none => []
  | some f => if threading then [Act.joinForever] else terminateWorker f

def terminate (p : Pool) : Pool × List (List Act) :=
  if p.workers.isEmpty then ({ p with handlers := 0 }, [])
  else ({ p with workers := [], handlers := 0, failed := true }, p.workers.map (slotActs p.threading))

/-- is the OS process / thread behind a slot certainly gone once these actions have been carried out?
(a `join true` saw it gone, an unbounded join returned, or there never was one) -/
def settled : Option Fate → List Act → Bool
  | none, _ => true
  | some f, as => !f.started || as.contains (.join true) || as.contains .joinForever || goneBy f patience

/-! ## Part C: stopping the restart handler thread -/

/-- where the restart handler thread is (pool.py _restart_handler, comms.py get_worker_restarts) -/
inductive RPc
  | top                -- about to evaluate the `while` condition (the stop flags)
  | enter              -- the flags were clear: about to take the condition's lock and look at the restart requests
  | waiting            -- inside Condition.wait(): needs a notification
  | woken              -- notified: looks at the requests again and returns them
  | inner (n : Nat)    -- going through the returned worker ids, n left; each one starts with a look at the stop flags
  | serving (n : Nat)  -- the flags were clear: joins the old worker and starts its replacement (n more ids after this one)
  | gone               -- the thread has ended
  deriving Repr, DecidableEq

/-- where the thread that stops the handlers is (`_stop_handler_threads`) -/
inductive SPc
  | setFlag            -- `_handler_threads_stop_event.set()` (or the exception event) still to come
  | probe              -- `if thread.is_alive()`: the first look at the restart handler thread
  | probeLoop          -- repaired code: `while thread.is_alive()`
  | notify             -- `signal_worker_restart_condition()`
  | joinShort          -- repaired code: `join(timeout=0.01)`, then back to `probeLoop`
  | joinForever        -- pinned code: `join()`
  | done
  deriving Repr, DecidableEq

structure HS where
  fixed    : Bool := true     -- the stopper of the repaired code (keeps notifying) or of the pinned code (notifies once)
  flag     : Bool := false    -- a stop flag is set
  pc       : RPc := .top
  spc      : SPc := .setFlag
  requests : Nat := 0         -- workers that asked for a restart and were not served yet
  served   : Nat := 0         -- restarts carried out (ghost)
  deriving Repr, DecidableEq

inductive Who
  | thread             -- the restart handler takes its next step
  | stopper            -- the stopping thread takes its next step
  | request            -- a worker that reached its lifespan sets its restart flag ...
  | poke               -- ... and then notifies the condition (two separate steps in comms.py signal_worker_restart)
  | fail               -- somebody else sets a stop flag (a worker or a handler thread reports a failure)
  deriving Repr, DecidableEq

def step (s : HS) : Who → Option HS
  | .thread =>
    match s.pc with
    | .top => some { s with pc := if s.flag then .gone else .enter }
    | .enter => some { s with pc := if s.requests > 0 then .inner s.requests else .waiting }
    | .waiting => none
    | .woken => some { s with pc := if s.requests > 0 then .inner s.requests else .top }
    | .inner 0 => some { s with pc := .top }
    | .inner (n + 1) =>
      some { s with pc := if s.flag then .gone else .serving n }
    | .serving n => some { s with pc := .inner n, requests := s.requests - 1, served := s.served + 1 }
    | .gone => none
  | .stopper =>
    match s.spc with
    | .setFlag => some { s with flag := true, spc := .probe }
    | .probe => some { s with spc := if s.pc = .gone then .done else if s.fixed then .probeLoop else .notify }
    | .probeLoop => some { s with spc := if s.pc = .gone then .done else .notify }
    | .notify => some { s with pc := if s.pc = .waiting then .woken else s.pc,
                               spc := if s.fixed then .joinShort else .joinForever }
    | .joinShort => some { s with spc := .probeLoop }
    | .joinForever => if s.pc = .gone then some { s with spc := .done } else none
    | .done => none
  | .request => some { s with requests := s.requests + 1 }
  | .poke => some { s with pc := if s.pc = .waiting then .woken else s.pc }
  | .fail => some { s with flag := true }

def run (s : HS) (ws : List Who) : Option HS := ws.foldlM step s

def Reachable (fixed : Bool) (s : HS) : Prop := ∃ ws, run { fixed := fixed } ws = some s

/-- how far the handler thread is from ending once a stop flag is set -/
def rank : RPc → Nat
  | .gone => 0
  | .top => 1
  | .inner _ => 2
  | .serving _ => 3
  | .woken => 4
  | .waiting => 5
  | .enter => 6

/-- nothing can happen any more although the handler thread is still there -/
def hung (s : HS) : Bool := s.pc != .gone && (step s .thread).isNone && (step s .stopper).isNone

/-! ### the same system seen from outside (for the tie): only these events are visible in a trace -/
inductive Obs
  | flag                -- a stop flag was set
  | wait                -- the handler thread entered Condition.wait()
  | wake                -- it returned from it
  | serve               -- it restarted a worker
  | ends                -- it ended
  | notify (hit : Bool) -- the stopper notified the condition; `hit`: somebody was waiting
  | request             -- a worker set its restart flag
  | poke (hit : Bool)   -- a worker notified the condition
  | stopped             -- `_stop_handler_threads` is past the restart handler
  | failed              -- a failure was reported (the exception event was set)
  deriving Repr, DecidableEq

/-- the visible event of a step, if it has one -/
def obsOf (s : HS) : Who → Option Obs
  | .thread =>
    match s.pc with
    | .top => if s.flag then some .ends else none
    | .enter => if s.requests > 0 then none else some .wait
    | .woken => some .wake
    | .inner (_ + 1) => if s.flag then some .ends else none
    | .serving _ => some .serve
    | _ => none
  | .stopper =>
    match s.spc with
    | .setFlag => some .flag
    | .notify => some (.notify (s.pc = .waiting))
    | .probe => if s.pc = .gone then some .stopped else none
    | .probeLoop => if s.pc = .gone then some .stopped else none
    | .joinForever => if s.pc = .gone then some .stopped else none
    | _ => none
  | .request => some .request
  | .poke => some (.poke (s.pc = .waiting))
  | .fail => some .failed

def dedup (l : List HS) : List HS := l.foldl (fun acc x => if acc.contains x then acc else acc ++ [x]) []

/-- states reachable by invisible steps only (bounded search: at most four invisible steps of the handler thread and two of
the stopper can follow each other) -/
def silentClosure (l : List HS) : List HS :=
  let grow (l : List HS) : List HS :=
    dedup (l ++ l.flatMap fun s => [Who.thread, Who.stopper].filterMap fun w =>
      match obsOf s w, step s w with
      | none, some s' => some s'
      | _, _ => none)
  grow (grow (grow (grow (grow (grow (grow (grow l)))))))

/-- one visible event from a set of possible states -/
def after (l : List HS) (o : Obs) : List HS :=
  silentClosure <| dedup <| (silentClosure l).flatMap fun s => [Who.thread, Who.stopper, Who.request, Who.poke, Who.fail].filterMap fun w =>
    if obsOf s w = some o then step s w else none

/-- is this sequence of visible events a behaviour of the model? returns the index of the first event that is not -/
def accepts (fixed : Bool) (os : List Obs) : Option Nat :=
  let rec go (l : List HS) (i : Nat) : List Obs → Option Nat
    | [] => none
    | o :: rest =>
      let l' := after l o
      if l'.isEmpty then some i else go l' (i + 1) rest
  go (silentClosure [{ fixed := fixed }]) 0 os

end Mpire.Shutdown
