/- Accounting of worker insights over the life of a pool (insights.py reset_insights / update_n_completed_tasks /
update_task_insights / get_max_task_duration_list, utils.py TimeIt.__exit__, worker.py 79, 193-196, 330, 424-427; pool.py 190).

Per worker id the shared arrays hold a completed-task counter and five (duration, argument string) slots.  A worker
*instance* copies its five slots when it is created, updates that private copy after each task (`heappushpop` when the task took
strictly longer than the shortest entry), and writes the copy back now and then (every two seconds, and always when it reaches its
lifespan or is told that the call or the pool ends).  The counters and slots are reset only when the pool starts its workers.

Durations are natural numbers (ticks); the real code adds `time.time()` differences.  The private copy is a binary heap in the
code and a plain list here: `get_insights` sorts all slots itself, so only the contents matter. -/
namespace Mpire.Insights

abbrev Entry := Nat × String

/-- tuple order of Python on (duration, argument string) -/
def entryLe (a b : Entry) : Bool := a.1 < b.1 || (a.1 == b.1 && (a.2 < b.2 || a.2 == b.2))

/-- the smallest entry of a non-empty list (`heap[0]`) -/
def minEntry : List Entry → Option Entry
  | [] => none
  | e :: es =>
    match minEntry es with
    | none => some e
    | some m => if entryLe e m then some e else some m

/-- `TimeIt.__exit__`: `if duration > heap[0][0]: heappushpop(heap, (duration, args))` -/
def push (l : List Entry) (e : Entry) : List Entry :=
  match minEntry l with
  | none => l
  | some m => if m.1 < e.1 then e :: l.erase m else l

structure Slot where
  count : Nat := 0
  own : List Entry := []        -- the running instance's private list
  pub : List Entry := []        -- the worker id's slice of the shared arrays
  deriving Repr, DecidableEq

abbrev St := List Slot

def fresh : Slot := { count := 0, own := List.replicate 5 (0, ""), pub := List.replicate 5 (0, "") }

inductive Op
  | start (n : Nat)                         -- the pool starts its workers: reset_insights
  | task (w : Nat) (d : Nat) (a : String)   -- worker w finished a task that took d ticks
  | sync (w : Nat)                          -- update_task_insights wrote the private list back
  | restart (w : Nat)                       -- lifespan reached: the instance writes back, its successor copies the shared slots
  | replace (w : Nat)                       -- the instance died; its successor copies the shared slots as they are
  deriving Repr, DecidableEq

def modify (s : St) (w : Nat) (f : Slot → Slot) : St :=
  s.mapIdx fun i x => if i = w then f x else x

def step (s : St) : Op → St
  | .start n => List.replicate n fresh
  | .task w d a => modify s w fun x => { x with count := x.count + 1, own := push x.own (d, a) }
  | .sync w => modify s w fun x => { x with pub := x.own }
  | .restart w => modify s w fun x => { x with pub := x.own, own := x.own }
  | .replace w => modify s w fun x => { x with own := x.pub }

def run (ops : List Op) : St := ops.foldl step []

def Op.isStart : Op → Bool
  | .start _ => true
  | _ => false

def Op.isReplace : Op → Bool
  | .replace _ => true
  | _ => false

/-- tasks finished on worker id `w`, in order -/
def tasksOf (ops : List Op) (w : Nat) : List Entry :=
  ops.filterMap fun o => match o with
    | .task w' d a => if w' = w then some (d, a) else none
    | _ => none

/-- number of tasks finished by worker ids below `n` -/
def nTasks (n : Nat) (ops : List Op) : Nat :=
  (ops.filter fun o => match o with
    | .task w _ _ => decide (w < n)
    | _ => false).length

/-- `n_completed_tasks` of `get_insights` -/
def counts (s : St) : List Nat := s.map (·.count)

/-- the shared slots of all workers, as `get_insights` reads them -/
def published (s : St) : List Entry := (s.map (·.pub)).flatten

end Mpire.Insights
