/- Who tells the caller that a call has failed, and with which exception (comms.py signal_exception_thrown /
exception_thrown / get_exception_thrown_job_id, worker.py _raise, pool.py _results_handler, _timeout_handler,
_unexpected_death_handler, _handle_exception; async_result.py _set / get_exception).

Several parties can find out, at about the same time, that the running call cannot complete: workers whose user function raised,
the timeout handler, the handler for workers that died.  Each of them (a *signaller*)

* looks at the shared exception flag and does nothing when it is already set,
* writes the id of the job its failure belongs to into one shared slot (no lock is held between the look and the write, so several
  can get through — worker.py says so),
* sets the flag,
* and makes its exception available under that job id: a worker puts it on the results queue, from where the results handler moves
  it into the cache of jobs; the timeout handler writes it into the cache itself after setting the flag; the death handler writes it
  into the cache before setting the flag (and fails every other job with it afterwards); the calling thread (a map call while
  another is running, `terminate()`) writes it after setting the flag.

The caller notices the flag, reads the slot once, waits until the cache holds an exception under that id and raises it.  A failure
of `worker_init` is made available under every open job.

What has to hold for every interleaving: the caller never waits for ever, and what it raises is an exception that one of the
signallers of this call really produced for the job named in the slot. -/
namespace Mpire.FirstFailure

abbrev Job := Nat
def MAIN : Job := 0
def INIT : Job := 1
def EXIT : Job := 2

inductive Act
  | look       -- `if not exception_thrown()` / the handler's loop condition
  | write      -- `_exception_job_id.value = job_id`
  | raiseFlag  -- `_exception_thrown.set()`
  | enqueue    -- `add_results(worker_id, [(job_id, False, exception)])`
  | publish    -- `cache[job]._set(success=False, result=err)` by the signaller itself
  | publishAll -- the death handler then fails every other job of the pool with the same error
  deriving Repr, DecidableEq

/-- `caller`: the calling thread itself (a second map call while one is running; `terminate()`): it may or may not look first, so
the model lets it go ahead regardless -/
inductive Kind | worker | timeout | death | caller
  deriving Repr, DecidableEq

def program : Kind → List Act
  | .worker => [.look, .write, .raiseFlag, .enqueue]
  | .timeout => [.look, .write, .raiseFlag, .publish]
  | .death => [.look, .publish, .write, .raiseFlag, .publishAll]
  | .caller => [.write, .raiseFlag, .publish]

structure Sig where
  job : Job
  todo : List Act
  through : Bool := false     -- its look found the flag down: it goes on to report its failure
  deriving Repr, DecidableEq

inductive MainPc
  | waiting               -- the call is running
  | saw                   -- `exception_thrown()` was true
  | read (j : Job)        -- `get_exception_thrown_job_id()` returned j
  | raised (j : Job) (who : Nat)    -- raised what the cache held under j: the exception produced by signaller `who`
  deriving Repr, DecidableEq

structure St where
  flag : Bool := false
  slot : Job := 0
  sigs : List Sig := []
  queue : List (Job × Nat) := []          -- failure records on their way to the results handler: (job, signaller)
  pend : List (Job × Nat) := []           -- stores that have been decided on but not carried out yet: a failure that goes under
                                          -- several job ids is written under one after the other, and the caller can look in between
  cache : List (Job × Nat) := []          -- latest first: the exception held under a job id, and who produced it
  jobs : List Job := []                    -- the open jobs of the call (what a failing worker_init is copied to, besides INIT itself)
  main : MainPc := .waiting
  deriving Repr, DecidableEq

def targets (s : St) (j : Job) : List Job := if j = INIT then INIT :: s.jobs else [j]

def publish (s : St) (j : Job) (who : Nat) : St :=
  { s with pend := s.pend ++ (targets s j).map (·, who) }

def lookup (s : St) (j : Job) : Option Nat := (s.cache.find? (·.1 == j)).map (·.2)

inductive Step
  | sig (i : Nat)     -- signaller i does its next action
  | handler (k : Nat) -- the results handler moves a queued failure into the cache (queues fed by several processes keep no order)
  | store (k : Nat)   -- one of the pending stores is carried out
  | drop (k : Nat)    -- … or has no effect, because another store under the same job id got in first (jobs that keep their first
                      -- outcome; two `_set` calls racing on the reusable MAIN / INIT entries)
  | main              -- the caller does its next action
  deriving Repr, DecidableEq

def setSig (s : St) (i : Nat) (g : Sig) : St := { s with sigs := s.sigs.set i g }

def step (s : St) : Step → Option St
  | .sig i =>
    match s.sigs[i]? with
    | none => none
    | some g =>
      match g.todo with
      | [] => none
      | .look :: rest => some (setSig s i { g with todo := if s.flag then [] else rest, through := !s.flag })
      | .write :: rest => some { setSig s i { g with todo := rest } with slot := g.job }
      | .raiseFlag :: rest => some { setSig s i { g with todo := rest } with flag := true }
      | .enqueue :: rest => some { setSig s i { g with todo := rest } with queue := s.queue ++ [(g.job, i)] }
      | .publish :: rest => some (publish (setSig s i { g with todo := rest }) g.job i)
      | .publishAll :: rest =>
        let s1 := setSig s i { g with todo := rest }
        some { s1 with pend := s1.pend ++ (INIT :: EXIT :: s.jobs).map (·, i) }
  | .handler k =>
    match s.queue[k]? with
    | none => none
    | some (j, who) => some (publish { s with queue := s.queue.eraseIdx k } j who)
  | .store k =>
    match s.pend[k]? with
    | none => none
    | some e => some { s with pend := s.pend.eraseIdx k, cache := e :: s.cache }
  | .drop k =>
    match s.pend[k]? with
    | none => none
    | some e =>
      let rest := s.pend.eraseIdx k
      if (lookup s e.1).isSome || rest.any (·.1 == e.1) then some { s with pend := rest } else none
  | .main =>
    match s.main with
    | .waiting => if s.flag then some { s with main := .saw } else none
    | .saw => some { s with main := .read s.slot }
    | .read j => (lookup s j).map fun who => { s with main := .raised j who }
    | .raised _ _ => none

def init (kinds : List (Kind × Job)) (jobs : List Job) : St :=
  { sigs := kinds.map fun (k, j) => { job := j, todo := program k, through := k == .caller }, jobs := jobs }

def runSteps (s : St) : List Step → Option St
  | [] => some s
  | t :: ts => (step s t).bind (runSteps · ts)

inductive Reachable (kinds : List (Kind × Job)) (jobs : List Job) : St → Prop
  | init : Reachable kinds jobs (init kinds jobs)
  | step {s s'} (t : Step) : Reachable kinds jobs s → step s t = some s' → Reachable kinds jobs s'

/-- work left: every step lowers it -/
def rank (s : St) : Nat :=
  (s.sigs.map fun g => 2 * (s.jobs.length + 3) * g.todo.length).sum + (s.jobs.length + 3) * s.queue.length + s.pend.length +
    (match s.main with | .waiting => 3 | .saw => 2 | .read _ => 1 | .raised _ _ => 0)

/-- a failure is available under job `j`, or on its way there -/
def pendingOrThere (s : St) (j : Job) : Prop :=
  (lookup s j).isSome ∨ (∃ who, (j, who) ∈ s.pend) ∨ (∃ who, (j, who) ∈ s.queue) ∨
    ∃ g ∈ s.sigs, g.through = true ∧ g.job = j ∧ (Act.enqueue ∈ g.todo ∨ Act.publish ∈ g.todo)

def isRaised : MainPc → Bool
  | .raised _ _ => true
  | _ => false

end Mpire.FirstFailure
