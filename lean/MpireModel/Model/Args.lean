/-
Model of the argument convention: AbstractWorker._set_additional_args (worker.py 287-297), _convert_args_kwargs
(618-641), the call shapes of task / init / exit / apply.  Core Lean only.
-/
namespace Mpire.Args

/-- Python values as far as the convention distinguishes them -/
inductive PyVal
  | atom (n : Int)                       -- int, float, None, any non-iterable object
  | str (s : String) | bytes (s : String)
  | ndarray (id : Nat)
  | tuple (xs : List PyVal) | list (xs : List PyVal)
  | dict (kv : List (String × PyVal))
  deriving Repr

/-- what a call receives: positional and keyword arguments -/
structure Call where
  pos : List PyVal
  kw  : List (String × PyVal)
  deriving Repr

/-- unpacking `*args` of an iterable value -/
def unpack : PyVal → List PyVal
  | .tuple xs => xs
  | .list xs => xs
  | .dict kv => kv.map fun (k, _) => .str k      -- iterating a dict yields its keys
  | v => [v]

def isPlainIterable : PyVal → Bool
  | .tuple _ | .list _ | .dict _ => true
  | _ => false

/-- `_convert_args_kwargs(args, kwargs)` followed by `func(*args, **kwargs)` -/
def convert (args : PyVal) (kwargs : Option (List (String × PyVal))) : Call :=
  match args, kwargs with
  | .dict kv, none => { pos := [], kw := kv }
  | a, kw => if isPlainIterable a then { pos := unpack a, kw := kw.getD [] } else { pos := [a], kw := kw.getD [] }

structure Extras where
  passWorkerId : Bool
  shared       : Option PyVal      -- `shared_objects is not None`
  useState     : Bool

/-- `_set_additional_args` -/
def extras (cfg : Extras) (wid : Nat) (state : PyVal) : List PyVal :=
  (if cfg.passWorkerId then [.atom wid] else []) ++ (match cfg.shared with | some s => [s] | none => []) ++
    (if cfg.useState then [state] else [])

/-- a task of a map-family call: `func(*extras, *args, **kwargs)` -/
def taskCall (cfg : Extras) (wid : Nat) (state : PyVal) (arg : PyVal) : Call :=
  let c := convert arg none
  { c with pos := extras cfg wid state ++ c.pos }

/-- `worker_init` / `worker_exit`: `func(*extras)` -/
def hookCall (cfg : Extras) (wid : Nat) (state : PyVal) : Call := { pos := extras cfg wid state, kw := [] }

/-- an apply task: `func(*extras, *args, **kwargs)` with the caller's args and kwargs -/
def applyCall (cfg : Extras) (wid : Nat) (state : PyVal) (args : PyVal) (kwargs : List (String × PyVal)) : Call :=
  let c := convert args (some kwargs)
  { c with pos := extras cfg wid state ++ c.pos }

end Mpire.Args
