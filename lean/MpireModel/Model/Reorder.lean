/-
Model of the ordering layer: WorkerPool.imap's reorder loop (pool.py 610-640) and WorkerPool.map's sort (490).
Results arrive tagged with the index of their task, in any order.  Core Lean only.
-/
namespace Mpire.Reorder

structure St (β : Type) where
  next : Nat := 0                       -- next_result_idx
  tmp  : List (Nat × β) := []           -- tmp_results (a dict in Python)
  out  : List β := []                   -- everything yielded so far, in order

/-- `while True: if next in tmp: yield tmp.pop(next); next += 1 else break` -/
def flush {β} (fuel : Nat) (s : St β) : St β :=
  match fuel with
  | 0 => s
  | fuel + 1 =>
    match s.tmp.find? (·.1 == s.next) with
    | some (_, v) => flush fuel { next := s.next + 1, tmp := s.tmp.filter (·.1 != s.next), out := s.out ++ [v] }
    | none => s

/-- body of the `for result_idx, result in imap_unordered(...)` loop -/
def feed {β} (s : St β) (r : Nat × β) : St β :=
  let s := flush (s.tmp.length + 1) s
  if r.1 = s.next then { s with next := s.next + 1, out := s.out ++ [r.2] }
  else { s with tmp := s.tmp ++ [r] }

/-- insertion into a list sorted by key (stable) -/
def insertByKey {β} (r : Nat × β) : List (Nat × β) → List (Nat × β)
  | [] => [r]
  | x :: xs => if r.1 < x.1 then r :: x :: xs else x :: insertByKey r xs

def sortByKey {β} (l : List (Nat × β)) : List (Nat × β) := l.foldr insertByKey []

/-- `for result_idx in sorted(tmp_results.keys()): yield tmp_results.pop(result_idx)` -/
def finish {β} (s : St β) : List β := s.out ++ (sortByKey s.tmp).map (·.2)

/-- everything `imap` yields when `imap_unordered` yields `arrivals` -/
def imap {β} (arrivals : List (Nat × β)) : List β := finish (arrivals.foldl feed {})

/-- what `imap` has yielded after consuming a prefix of the arrivals -/
def imapPrefix {β} (arrivals : List (Nat × β)) : List β := (arrivals.foldl feed {}).out

/-- `[r[1] for r in sorted(results, key=lambda r: r[0])]` -/
def mapSort {β} (results : List (Nat × β)) : List β := (sortByKey results).map (·.2)

/-- the tagged results of evaluating `vals` sequentially -/
def tagged {β} (vals : List β) : List (Nat × β) := vals.zipIdx.map fun (v, i) => (i, v)

end Mpire.Reorder
