/-
Model of the hand-over of ONE apply task to a worker slot and of what the unexpected-death handler does when the
worker in that slot is killed (comms.py add_apply_task 344-359, worker.py _handle_apply_pill 349-368 and run 134-181,
pool.py _unexpected_death_handler).  The task travels as TWO queue entries: the APPLY pill, then the task.
Core Lean only.
-/
namespace Mpire.Handover

/-- where the task is -/
inductive Where
  | queuedBoth        -- pill and task are in the slot's queue
  | pillTaken         -- the worker took the pill; the task is still queued
  | taskTaken         -- the worker took the task too, but has not announced the job yet
  | announced         -- signal_worker_working_on_job(job): the death handler can see which job it is
  | done (ok : Bool)  -- the job's result was set (value, or an error)
  | ranAsChunk        -- a replacement worker took the bare task entry as if it were a chunk of a map call
  | lost              -- nobody holds the task any more and its result is not set
  deriving Repr, DecidableEq

structure St where
  w       : Where := .queuedBoth
  alive   : Bool := true      -- the worker currently in the slot is alive
  deriving Repr, DecidableEq

inductive Ev
  | takePill | takeTask | announce | finish
  | kill                -- SIGKILL of the worker in the slot
  | deathHandled        -- the death handler ran: fails the announced job (if any) and starts a replacement worker
  | replacementTakes    -- the replacement worker reads the next queue entry
  deriving Repr, DecidableEq

def step (s : St) : Ev → Option St
  | .takePill => if s.alive ∧ s.w = .queuedBoth then some { s with w := .pillTaken } else none
  | .takeTask => if s.alive ∧ s.w = .pillTaken then some { s with w := .taskTaken } else none
  | .announce => if s.alive ∧ s.w = .taskTaken then some { s with w := .announced } else none
  | .finish   => if s.alive ∧ s.w = .announced then some { s with w := .done true } else none
  | .kill     => if s.alive then some { s with alive := false } else none
  | .deathHandled =>
    if s.alive then none else
    match s.w with
    | .announced => some { w := .done false, alive := true }    -- the job is failed with RuntimeError, worker replaced
    | .taskTaken => some { w := .lost, alive := true }          -- nobody knows which job the dead worker held
    | w => some { w := w, alive := true }
  | .replacementTakes =>
    if s.alive then
      match s.w with
      | .pillTaken => some { s with w := .ranAsChunk }          -- the bare task entry is not preceded by a pill any more
      | _ => none
    else none

def run (s : St) (es : List Ev) : Option St := es.foldlM step s

/-- the job's result can still become ready from here -/
def canComplete (s : St) : Bool :=
  match s.w with
  | .lost | .ranAsChunk => false
  | _ => true

end Mpire.Handover
