/-
Model of the hand-over of ONE apply task to a worker slot and of what the unexpected-death handler does when the
worker in that slot is killed (comms.py add_apply_task, worker.py _handle_apply_pill and run, pool.py
_unexpected_death_handler, stop_and_join / join_task_queues).  The task travels as TWO queue entries: the APPLY pill,
then the task; every entry a worker takes has to be acknowledged (task_done) before the queue can be joined.
Core Lean only.
-/
namespace Mpire.Handover

/-- where the task is -/
inductive Where
  | queuedBoth        -- pill and task are in the slot's queue
  | pillTaken         -- the worker took the pill; the task is still queued
  | taskTaken         -- the worker took the task too, but has not announced any job yet
  | inInit            -- … and is running worker_init first: the job it announced is the INIT job
  | announced         -- signal_worker_working_on_job(job): the death handler can see which job it is
  | resultSent        -- the result is on the results queue (it will be set), the task entry is not acknowledged yet
  | done (ok : Bool)  -- the job's result was set (value, or an error) and nothing of it is pending
  | ranAsChunk        -- a replacement worker took the bare task entry as if it were a chunk of a map call
  | lost              -- nobody holds the task any more and its result is not set
  deriving Repr, DecidableEq

structure St where
  w          : Where := .queuedBoth
  alive      : Bool := true      -- the worker currently in the slot is alive
  unacked    : Nat := 0          -- queue entries some worker took and nobody acknowledged
  poolFailed : Bool := false     -- the handler flagged the whole pool as failed (every pending apply task is failed)
  hasInit    : Bool := false     -- the pool was started with a worker_init function
  deriving Repr, DecidableEq

inductive Ev
  | takePill | ackPill | takeTask | startInit | initDone | announce | sendResult | ack
  | kill                -- SIGKILL of the worker in the slot
  | deathHandled        -- the death handler ran: fails the announced job (if any) and starts a replacement worker
  | replacementTakes    -- the replacement worker reads the next queue entry
  deriving Repr, DecidableEq

def step (s : St) : Ev → Option St
  | .takePill => if s.alive ∧ s.w = .queuedBoth ∧ s.unacked = 0 then some { s with w := .pillTaken, unacked := 1 } else none
  | .ackPill  => if s.alive ∧ s.w = .pillTaken ∧ s.unacked = 1 then some { s with unacked := 0 } else none
  | .takeTask => if s.alive ∧ s.w = .pillTaken ∧ s.unacked = 0 then some { s with w := .taskTaken, unacked := 1 } else none
  | .startInit => if s.alive ∧ s.w = .taskTaken ∧ s.hasInit then some { s with w := .inInit } else none
  | .initDone => if s.alive ∧ s.w = .inInit then some { s with w := .taskTaken, hasInit := false } else none
  | .announce => if s.alive ∧ s.w = .taskTaken ∧ ¬ s.hasInit then some { s with w := .announced } else none
  | .sendResult => if s.alive ∧ s.w = .announced then some { s with w := .resultSent } else none
  | .ack      => if s.alive ∧ s.w = .resultSent then some { s with w := .done true, unacked := s.unacked - 1 } else none
  | .kill     => if s.alive then some { s with alive := false } else none
  | .deathHandled =>
    if s.alive then none else
    match s.w with
    | .announced =>
      -- the job is failed with RuntimeError, its queue entry is acknowledged on behalf of the dead worker, worker replaced
      some { s with w := .done false, alive := true, unacked := s.unacked - 1 }
    | .inInit =>
      -- the announced job is the INIT job: map-style handling — the pool is flagged, every pending task is failed
      some { s with w := .done false, alive := true, poolFailed := true }
    | .taskTaken => some { s with w := .lost, alive := true }      -- nobody knows which job the dead worker held
    | .resultSent => some { s with w := .done true, alive := true }  -- the result arrives; the entry stays unacknowledged
    | _ => some { s with alive := true }
  | .replacementTakes =>
    if s.alive then
      match s.w with
      | .pillTaken => some { s with w := .ranAsChunk }          -- the bare task entry is not preceded by a pill any more
      | _ => none
    else none

def run (s : St) (es : List Ev) : Option St := es.foldlM step s

/-- the job's result can still become ready from here -/
def canComplete (s : St) : Bool :=
  match s.w with
  | .lost | .ranAsChunk => false
  | _ => true

/-- stop_and_join can join the slot's task queue: nothing was taken without being acknowledged -/
def joinable (s : St) : Bool := s.unacked = 0

/-- the death stays isolated: the pool is not flagged as failed, the queue stays joinable, the job can complete -/
def isolated (s : St) : Bool := canComplete s && joinable s && !s.poolFailed

end Mpire.Handover
