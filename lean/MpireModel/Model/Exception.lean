/-
Model of exception transport: AbstractWorker._get_exception (worker.py), populate_exception (exception.py 48-64) and
the catch clauses of _run_safely.  Whether the queue's pickler can serialise the type / args / attributes of an
exception is an INPUT (computed by really trying, in the correspondence check).  Core Lean only.
-/
namespace Mpire.Exc

inductive ClassKind
  | exception          -- subclass of Exception
  | systemExit
  | keyboardInterrupt
  | cancelled          -- asyncio.CancelledError and other BaseException subclasses
  | stopWorker | interruptWorker
  deriving Repr, DecidableEq

structure Exc where
  cls     : Nat                -- identity of the class
  kind    : ClassKind
  args    : Nat                -- identity of the args tuple
  attrs   : Nat                -- identity of the instance __dict__
  typeOk  : Bool               -- the results queue's pickler can serialise the class
  argsOk  : Bool               -- … the args
  attrsOk : Bool               -- … the attributes
  repr    : Nat                -- identity of repr(err)
  deriving Repr, DecidableEq

/-- what is put on the results queue -/
inductive Shipped
  | orig (cls args attrs : Nat)
  | cannotPickle (repr : Nat)      -- CannotPickleExceptionError(repr(err)): a str argument, always serialisable
  deriving Repr, DecidableEq

/-- `_get_exception`: try to serialise type, args and attributes with the queue's pickler; any failure → CannotPickle -/
def guard (e : Exc) : Shipped :=
  if e.typeOk && e.argsOk && e.attrsOk then .orig e.cls e.args e.attrs else .cannotPickle e.repr

/-- can the queue's feeder thread serialise what was shipped? -/
def serialisable (e : Exc) : Shipped → Bool
  | .orig _ _ _ => e.typeOk && e.argsOk && e.attrsOk
  | .cannotPickle _ => true

/-- what `populate_exception` rebuilds in the main process -/
inductive Rebuilt
  | same (cls args attrs : Nat)
  | cannotPickle (repr : Nat)
  deriving Repr, DecidableEq

def populate : Shipped → Rebuilt
  | .orig c a d => .same c a d
  | .cannotPickle r => .cannotPickle r

/-- which raised classes the generic handler of `_run_safely` catches (and therefore reports) when raised by a user
function of a map-family call -/
def reported : ClassKind → Bool
  | .exception | .systemExit | .keyboardInterrupt | .cancelled => true
  | .stopWorker => true          -- caught; nothing to report (the flag is set already), the worker stops
  | .interruptWorker => false    -- own clause: the task is abandoned, the worker continues

/-- does an exception of this kind escape the worker loop unhandled? -/
def escapes : ClassKind → Bool := fun _ => false

end Mpire.Exc
