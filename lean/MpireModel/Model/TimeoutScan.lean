/-
Model of ONE ROUND of the timeout handler thread (pool.py `_timeout_handler`, the body of its `while` loop): for every
worker id in order - what is the worker working on (worker_init, worker_exit, or a job of the cache), which time limit
belongs to that, has it expired - and what is done about it: a map-family job, worker_init or worker_exit that overran
flags the exception, signals the worker, fails the job(s) and ENDS the handler; an apply job that overran signals that
one worker, fails that one job (which leaves the cache: first `_set` wins and deletes it) and the round GOES ON with the
next worker.  The round is a function of a snapshot (stamps, clock, cache); races with the results handler are the
subject of `FirstFailure`.  Core Lean only.
-/
namespace Mpire.TimeoutScan

inductive Working
  | init | exit | job (j : Nat)
  deriving Repr, DecidableEq

structure Job where
  id      : Nat
  isMap   : Bool              -- UnorderedAsyncResultIterator (map family) or AsyncResult (apply)
  timeout : Option Nat        -- job._timeout
  deriving Repr, DecidableEq

/-- one worker as the scan sees it: what it is working on and the three start stamps (`none` = 0.0 = not running) -/
structure Wk where
  working : Working
  tInit   : Option Nat := none
  tTask   : Option Nat := none
  tExit   : Option Nat := none
  deriving Repr, DecidableEq

structure Cfg where
  now         : Nat
  initTimeout : Option Nat
  exitTimeout : Option Nat
  deriving Repr, DecidableEq

/-- `_has_worker_timed_out` -/
def timedOut (started : Option Nat) (now timeout : Nat) : Bool :=
  match started with
  | none => false
  | some s => decide (s + timeout ≤ now)

structure Acc where
  cache    : List Job                    -- the job cache (map iterators and apply jobs)
  killed   : List Nat := []              -- workers sent the kill signal, in order
  failed   : List (Working × Nat) := []  -- (what was set to failed, by the timeout of which worker), in order
  exc      : Option Working := none      -- signal_exception_thrown(job)
  returned : Bool := false               -- the handler has ended
  deriving Repr, DecidableEq

def findJob (c : List Job) (j : Nat) : Option Job := c.find? (·.id == j)

/-- does worker `wk` overrun, and with which limit -/
def overrun (cfg : Cfg) (c : List Job) (wk : Wk) : Bool :=
  match wk.working with
  | .init => match cfg.initTimeout with | some t => timedOut wk.tInit cfg.now t | none => false
  | .exit => match cfg.exitTimeout with | some t => timedOut wk.tExit cfg.now t | none => false
  | .job j => match findJob c j with
    | some job => (match job.timeout with | some t => timedOut wk.tTask cfg.now t | none => false)
    | none => false

/-- the body of `for worker_id in range(n_jobs)` for worker `w` -/
def visit (cfg : Cfg) (acc : Acc) (w : Nat) (wk : Wk) : Acc :=
  if acc.returned then acc
  else if !overrun cfg acc.cache wk then acc
  else
    match wk.working with
    | .init =>
      -- every job of the cache (but MAIN_PROCESS and EXIT_FUNC) is failed; apply jobs leave the cache
      { acc with exc := some .init, killed := acc.killed ++ [w],
                 failed := acc.failed ++ (.init, w) :: acc.cache.map (fun j => (.job j.id, w)),
                 cache := acc.cache.filter (·.isMap), returned := true }
    | .exit => { acc with exc := some .exit, killed := acc.killed ++ [w], failed := acc.failed ++ [(.exit, w)], returned := true }
    | .job j =>
      match findJob acc.cache j with
      | none => acc
      | some job =>
        if job.isMap then
          { acc with exc := some (.job j), killed := acc.killed ++ [w], failed := acc.failed ++ [(.job j, w)], returned := true }
        else
          { acc with killed := acc.killed ++ [w], failed := acc.failed ++ [(.job j, w)],
                     cache := acc.cache.filter (fun x => x.id != j) }

def go (cfg : Cfg) : Nat → List Wk → Acc → Acc
  | _, [], acc => acc
  | w, wk :: r, acc => go cfg (w + 1) r (visit cfg acc w wk)

/-- "no timeouts set, so no need to check" -/
def nothingToCheck (cfg : Cfg) (c : List Job) : Bool :=
  cfg.initTimeout.isNone && cfg.exitTimeout.isNone && c.all (·.timeout.isNone)

def round (cfg : Cfg) (c : List Job) (ws : List Wk) : Acc :=
  if nothingToCheck cfg c then { cache := c } else go cfg 0 ws { cache := c }

/-- worker `wk` overruns an apply job -/
def applyOverrun (cfg : Cfg) (c : List Job) (wk : Wk) : Bool :=
  match wk.working with
  | .job j => (match findJob c j with | some job => !job.isMap && overrun cfg c wk | none => false)
  | _ => false

/-- worker `wk` overruns something that ends the call (map-family job, worker_init, worker_exit) -/
def poolOverrun (cfg : Cfg) (c : List Job) (wk : Wk) : Bool := overrun cfg c wk && !applyOverrun cfg c wk

end Mpire.TimeoutScan
