/-
Model of mpire/utils.py: chunk_tasks (67-124), get_n_chunks (154-…), apply_numpy_chunking (127-151)
and of the chunk-size / max_tasks_active derivation in mpire/params.py: check_map_parameters (180-216).

Core Lean only.  The arithmetic of the chunk-size recurrence is a parameter (`Arith α`): Python runs it
on `int` when `chunk_size` is an int and on IEEE doubles otherwise; the theorems in `Props/C14.lean` are
stated for every `Arith α` (structure) and for exact rationals (sizes); the driver executes `floatA`.
-/
namespace Mpire

/-- The operations the recurrence `current = (current + chunk_size) - ceil(current)` uses. -/
structure Arith (α : Type) where
  add    : α → α → α
  subInt : α → Int → α
  ceil   : α → Int
  /-- Python's true division `n_tasks / n_splits` of two non-negative ints. -/
  divNat : Nat → Nat → α

def intA : Arith Int :=
  { add := (· + ·), subInt := (· - ·), ceil := id, divNat := fun a b => a / b }

def ratA : Arith Rat :=
  { add := (· + ·), subInt := fun x k => x - (k : Rat), ceil := Rat.ceil,
    divNat := fun a b => (a : Rat) / (b : Rat) }

def floatA : Arith Float :=
  { add := (· + ·), subInt := fun x k => x - Float.ofInt k,
    ceil := fun x => x.ceil.toInt64.toInt,
    divNat := fun a b => Float.ofNat a / Float.ofNat b }

/-- `max(1, math.ceil(current_chunk_size))` as a natural number. -/
def Arith.want {α} (A : Arith α) (cur : α) : Nat := (max 1 (A.ceil cur)).toNat

/-- `current_chunk_size = (current_chunk_size + chunk_size) - math.ceil(current_chunk_size)` -/
def Arith.next {α} (A : Arith α) (c cur : α) : α := A.subInt (A.add cur c) (A.ceil cur)

theorem Arith.want_pos {α} (A : Arith α) (cur : α) : 0 < A.want cur := by
  unfold Arith.want; omega

/-- The `while True` loop of `chunk_tasks` (utils.py 104-124).  `xs` is what is left in the iterator,
`ret` is `n_elements_returned`, `lim` is `iterable_len`. -/
def chunkLoop {α β} (A : Arith α) (c : α) (lim : Option Nat) (xs : List β) (cur : α) (ret : Nat) :
    List (List β) :=
  let k := A.want cur
  let chunk := xs.take k
  if h : chunk = [] then []                                  -- ran out of input
  else
    match lim with
    | some l =>
      if ret + chunk.length > l then                        -- more input than `iterable_len`: cut, stop
        let chunk' := chunk.take (l - ret)
        if chunk' = [] then [] else [chunk']
      else chunk :: chunkLoop A c lim (xs.drop k) (A.next c cur) (ret + chunk.length)
    | none => chunk :: chunkLoop A c lim (xs.drop k) (A.next c cur) (ret + chunk.length)
termination_by xs.length
decreasing_by
  all_goals
    have hk := A.want_pos cur
    have : xs ≠ [] := by intro hx; subst hx; simp [chunk] at h
    have := List.length_pos_iff.mpr this
    simp only [List.length_drop]; omega

/-- the input as cut by `iterable_len`: its first `min(len, iterable_len)` elements -/
def cut {β} (lim : Option Nat) (xs : List β) : List β :=
  match lim with | none => xs | some l => xs.take l

inductive ChunkErr | bothNone | noLength
  deriving Repr, DecidableEq

/-- How the caller gave `chunk_size`: absent, a Python `int`, or a non-int real (an `α`). -/
inductive CS (α : Type) | none | int (k : Int) | real (c : α)

/-- `chunk_tasks(iterable_of_args, iterable_len, chunk_size, n_splits)`.
`sized` says whether the iterable has `__len__` (lists, ranges, arrays: yes; generators: no). -/
def chunkTasks {α β} (A : Arith α) (xs : List β) (sized : Bool) (lim : Option Nat)
    (cs : CS α) (nSplits : Option Nat) : Except ChunkErr (List (List β)) :=
  match cs with
  | .int k  => .ok (chunkLoop intA k lim xs k 0)
  | .real c => .ok (chunkLoop A c lim xs c 0)
  | .none =>
    match nSplits with
    | none => .error .bothNone
    | some s =>
      match lim, sized with
      | some l, _    => let c := A.divNat l s;         .ok (chunkLoop A c lim xs c 0)
      | none,   true => let c := A.divNat xs.length s; .ok (chunkLoop A c lim xs c 0)
      | none,   false => .error .noLength

/-- The counting loop of the repaired `get_n_chunks`: the chunker's own recurrence run on sizes only.
`todo` = tasks not yet covered. -/
def countLoop {α} (A : Arith α) (c : α) (todo : Nat) (cur : α) : Nat :=
  if h : todo = 0 then 0
  else 1 + countLoop A c (todo - A.want cur) (A.next c cur)
termination_by todo
decreasing_by have := A.want_pos cur; omega

/-- `get_n_chunks(iterable_of_args, iterable_len, chunk_size, n_splits, n_jobs)` for a sized iterable of
length `len` (the only way the pool calls it: on an ndarray). `nJobs` is `n_jobs or cpu_count()`. -/
def getNChunks {α} (A : Arith α) (len : Nat) (lim : Option Nat) (cs : CS α) (nSplits : Option Nat)
    (nJobs : Nat) : Nat :=
  let n := match lim with | some l => min l len | none => len
  match cs with
  | .int k  => countLoop intA k n k
  | .real c => countLoop A c n c
  | .none   =>
    let s := match nSplits with | some s => if s = 0 then nJobs * 4 else s | none => nJobs * 4
    let c := A.divNat n s
    countLoop A c n c

/-- `apply_numpy_chunking`: the array is cut to `iterable_len`, the announced count is `get_n_chunks`,
the produced chunks are `chunk_tasks(arr, len(arr), chunk_size, n_splits or n_jobs*4)`. -/
def numpyChunks {α β} (A : Arith α) (rows : List β) (lim : Option Nat) (cs : CS α)
    (nSplits : Option Nat) (nJobs : Nat) : Nat × Except ChunkErr (List (List β)) :=
  let arr := match lim with | some l => rows.take l | none => rows
  let s := match nSplits with | some s => if s = 0 then nJobs * 4 else s | none => nJobs * 4
  (getNChunks A arr.length lim cs nSplits nJobs, chunkTasks A arr true (some arr.length) cs (some s))

/-- Chunk size and `max_tasks_active` as derived by `check_map_parameters` (params.py 186-202);
`nTasks` is `iterable_len`, else `len()`, else unknown. -/
def deriveChunkSize {α} (A : Arith α) (nTasks : Option Nat) (cs : CS α) (nSplits : Option Nat)
    (nJobs : Nat) : CS α :=
  match cs with
  | .none =>
    match nSplits, nTasks with
    | some s, some n => .real (A.divNat n s)
    | _, none        => .int 4
    | none, some n   => .real (A.divNat n (nJobs * 64))
  | cs => cs

def CS.ceil {α} (A : Arith α) : CS α → Int
  | .none => 0 | .int k => k | .real c => A.ceil c

def deriveMaxActive {α} (A : Arith α) (derived : CS α) (maxActive : Option Nat) (nJobs : Nat) : Int :=
  match maxActive with
  | some m => m
  | none   => nJobs * derived.ceil A * 2

end Mpire
