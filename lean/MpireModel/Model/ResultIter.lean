/-
Model of `UnorderedAsyncResultIterator` (async_result.py 132-254): the object every map-family call reads its results
from.  The results handler thread calls `_set` (a result, or the call's exception), the caller sets the length once the
input is exhausted (`set_length`) and takes results with `next(block, timeout)`.  A blocking `next` that has to wait is a
state of its own (`waiting`): it is resolved by the next notification (`_set` of a result, `set_length`) or by its
timeout.  Core Lean only.
-/
namespace Mpire.ResultIter

structure It where
  items     : List Nat := []        -- _items (deque), oldest first
  nTasks    : Option Nat := none    -- _n_tasks
  nReceived : Nat := 0              -- _n_received
  nReturned : Nat := 0              -- _n_returned
  exc       : Option Nat := none    -- _exception
  gotExc    : Bool := false         -- _got_exception
  waiting   : Bool := false         -- a caller is inside `next(block=True)`, in `_condition.wait`
  deriving Repr, DecidableEq

inductive Op
  | setOk (v : Nat)          -- _set(True, v)
  | setErr (e : Nat)         -- _set(False, e)
  | setLength (n : Nat)      -- set_length(n)
  | next (block : Bool)      -- next(block, timeout): begins (and, when it need not wait, completes) a call
  | timeout                  -- the timeout of the waiting `next` expires
  deriving Repr, DecidableEq

inductive Out
  | none                     -- nothing observable
  | value (v : Nat)          -- `next` returned v
  | stop                     -- `next` raised StopIteration
  | empty                    -- `next` raised queue.Empty
  | waits                    -- `next` blocks
  | valueError               -- set_length with a different length
  | bad                      -- not a possible call (a second `next` while one waits; timeout with nobody waiting)
  deriving Repr, DecidableEq

def exhausted (s : It) : Bool := s.nTasks == some s.nReturned

def step (s : It) : Op → It × Out
  | .setOk v =>
    let s := { s with nReceived := s.nReceived + 1, items := s.items ++ [v] }
    if s.waiting then
      -- notify: the waiter finds `_items` non-empty, leaves its loop and pops the oldest item
      match s.items with
      | x :: r => ({ s with items := r, nReturned := s.nReturned + 1, waiting := false }, .value x)
      | [] => (s, .bad)
    else (s, .none)
  | .setErr e => ({ s with exc := some e, gotExc := true }, .none)      -- no notification
  | .setLength n =>
    match s.nTasks with
    | some m => if m = n then (s, .none) else (s, .valueError)
    | none =>
      let s := { s with nTasks := some n }
      -- notify: the waiter (its `_items` is empty, it was not timed out) re-checks `_n_returned == _n_tasks`
      if s.waiting && exhausted s then ({ s with waiting := false }, .stop) else (s, .none)
  | .next block =>
    if s.waiting then (s, .bad) else
    match s.items with
    | x :: r => ({ s with items := r, nReturned := s.nReturned + 1 }, .value x)
    | [] =>
      if exhausted s then (s, .stop)
      else if !block then (s, .empty)
      else ({ s with waiting := true }, .waits)
  | .timeout => if s.waiting then ({ s with waiting := false }, .empty) else (s, .bad)

/-- all outputs of a history, oldest first -/
def run : It → List Op → It × List Out
  | s, [] => (s, [])
  | s, op :: r => let (s', o) := step s op; let (s'', os) := run s' r; (s'', o :: os)

def values : List Out → List Nat
  | [] => []
  | .value v :: r => v :: values r
  | _ :: r => values r

def oks : List Op → List Nat
  | [] => []
  | .setOk v :: r => v :: oks r
  | _ :: r => oks r

/-- the constructor: `n_tasks` known up front or not -/
def init (n : Option Nat) : It := { nTasks := n }

end Mpire.ResultIter
