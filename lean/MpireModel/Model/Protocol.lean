/-
Task/result conservation model of one map-family call (pool.py imap_unordered 759-797, comms.py add_task /
get_task / add_results / get_results, worker.py run 111-181, async_result.py UnorderedAsyncResultIterator).

One dispatcher, `slots.length` workers (each with its own task queue), one results queue, the result iterator
and the consumer.  `step` is BOTH the semantics the theorems of Props/C02.lean and Props/C01.lean quantify
over (all event sequences = all interleavings) AND the acceptor that the correspondence check folds over
traces of the real pool recorded under DetSim.  Core Lean only.
-/
namespace Mpire.Proto

abbrev Tid := Nat

/-- One worker slot: its task queue (chunks), the chunk the current instance has in its hands (tasks not yet
executed), and the results the instance computed for that chunk but has not sent yet. -/
structure Slot where
  queue : List (List Tid) := []
  hand  : List Tid := []
  buf   : List Tid := []
  deriving Repr, DecidableEq

structure Sys where
  pending   : List (List Tid)          -- chunks the chunker will still yield, in order
  slots     : List Slot
  rq        : List (List Tid) := []    -- results queue (batches)
  iter      : List Tid := []           -- results inside the iterator, not yet handed out
  delivered : List Tid := []           -- handed to the consumer, in order
  log       : List Tid := []           -- every invocation of the user function, in order (ghost)
  dropped   : List Tid := []           -- tasks discarded before execution (only after a failure) (ghost)
  lost      : List Tid := []           -- results discarded before delivery (only after a failure) (ghost)
  failed    : Bool := false            -- the exception flag of the call
  deriving Repr, DecidableEq

inductive Ev
  | dispatch (w : Nat) (ids : List Tid)   -- add_task: next chunk goes to exactly one worker queue
  | pop (w : Nat) (ids : List Tid)        -- get_task
  | exec (w : Nat) (t : Tid)              -- user function entered for task t (result appended to the batch)
  | send (w : Nat) (ids : List Tid)       -- add_results for the finished chunk
  | recv (ids : List Tid)                 -- results handler: results queue -> iterator
  | yield (t : Tid)                       -- consumer receives one result
  | restart (w : Nat)                     -- a fresh instance takes over slot w (lifespan reached)
  | fail                                  -- a failure happened (task raised / timeout / worker killed / interrupt / terminate)
  | abandon (w : Nat)                     -- instance of slot w stops (or is killed) after a failure, dropping its chunk
  | drain                                 -- terminate(): queues, iterator emptied
  deriving Repr, DecidableEq

def step (s : Sys) : Ev → Option Sys
  | .dispatch w ids =>
    match s.pending, s.slots[w]? with
    | c :: rest, some sl =>
      if c = ids then       -- (a dispatch can race past the exception flag: no guard on `failed`)
        some { s with pending := rest, slots := s.slots.set w { sl with queue := sl.queue ++ [c] } }
      else none
    | _, _ => none
  | .pop w ids =>
    match s.slots[w]? with
    | some sl =>
      match sl.queue with
      | c :: q => if c = ids ∧ sl.hand = [] ∧ sl.buf = [] then
                    some { s with slots := s.slots.set w { sl with queue := q, hand := c } } else none
      | [] => none
    | none => none
  | .exec w t =>
    match s.slots[w]? with
    | some sl =>
      match sl.hand with
      | t' :: h => if t' = t then
                     some { s with slots := s.slots.set w { sl with hand := h, buf := sl.buf ++ [t] },
                                   log := s.log ++ [t] } else none
      | [] => none
    | none => none
  | .send w ids =>
    match s.slots[w]? with
    | some sl =>
      if sl.hand = [] ∧ sl.buf = ids ∧ ids ≠ [] then
        some { s with slots := s.slots.set w { sl with buf := [] }, rq := s.rq ++ [ids] }
      else none
    | none => none
  | .recv ids =>
    match s.rq with
    | b :: r => if b = ids then some { s with rq := r, iter := s.iter ++ b } else none
    | [] => none
  | .yield t =>
    match s.iter with
    | t' :: r => if t' = t then some { s with iter := r, delivered := s.delivered ++ [t] } else none
    | [] => none
  | .restart w =>
    match s.slots[w]? with
    | some sl => if sl.hand = [] ∧ sl.buf = [] then some s else none
    | none => none
  | .fail => some { s with failed := true }
  | .abandon w =>
    match s.slots[w]? with
    | some sl =>
      if s.failed then
        some { s with slots := s.slots.set w { sl with hand := [], buf := [] },
                      dropped := s.dropped ++ sl.hand, lost := s.lost ++ sl.buf }
      else none
    | none => none
  | .drain =>
    if s.failed then
      some { s with pending := [],
                    slots := s.slots.map fun sl => { sl with queue := [] },
                    rq := [], iter := [],
                    dropped := s.dropped ++ s.pending.flatten ++ (s.slots.map fun sl => sl.queue.flatten).flatten,
                    lost := s.lost ++ s.rq.flatten ++ s.iter }
    else none

def run (s : Sys) (es : List Ev) : Option Sys := es.foldlM step s

/-- A call of `nJobs` workers over the chunked input `chunks`. -/
def init (nJobs : Nat) (chunks : List (List Tid)) : Sys :=
  { pending := chunks, slots := List.replicate nJobs {} }

def Reachable (nJobs : Nat) (chunks : List (List Tid)) (s : Sys) : Prop :=
  ∃ es, run (init nJobs chunks) es = some s

/-- nothing left anywhere: the state in which `map` returns / the generator is exhausted -/
def Sys.quiescent (s : Sys) : Bool :=
  s.pending.isEmpty && s.slots.all (fun sl => sl.queue.isEmpty && sl.hand.isEmpty && sl.buf.isEmpty)
    && s.rq.isEmpty && s.iter.isEmpty

def Slot.tasks (t : Tid) (sl : Slot) : Nat := sl.queue.flatten.count t + sl.hand.count t
def Slot.results (t : Tid) (sl : Slot) : Nat := sl.buf.count t

/-- where a task id can be before it is executed -/
def Sys.unexecuted (t : Tid) (s : Sys) : Nat :=
  s.pending.flatten.count t + (s.slots.map (Slot.tasks t)).sum + s.dropped.count t
/-- where the result of an executed task can be -/
def Sys.resultPlaces (t : Tid) (s : Sys) : Nat :=
  (s.slots.map (Slot.results t)).sum + s.rq.flatten.count t + s.iter.count t + s.delivered.count t + s.lost.count t

end Mpire.Proto
