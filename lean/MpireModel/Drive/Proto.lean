import MpireModel.Model.Protocol
import MpireModel.Model.Reorder
import MpireModel.Drive.Util
/- Line protocol: trace acceptor of the task/result conservation model, and the reorder machine. -/
namespace Mpire.Drive
open Mpire.Proto

def parseEv (s : String) : Option Ev :=
  match s.splitOn ":" with
  | ["d", w, ids] => do some (.dispatch (← w.toNat?) (← natList ids))
  | ["p", w, ids] => do some (.pop (← w.toNat?) (← natList ids))
  | ["x", w, t]   => do some (.exec (← w.toNat?) (← t.toNat?))
  | ["s", w, ids] => do some (.send (← w.toNat?) (← natList ids))
  | ["r", ids]    => do some (.recv (← natList ids))
  | ["y", t]      => do some (.yield (← t.toNat?))
  | ["R", w]      => do some (.restart (← w.toNat?))
  | ["F"]         => some .fail
  | ["a", w]      => do some (.abandon (← w.toNat?))
  | ["D"]         => some .drain
  | _ => none

/-- fold `step`, reporting the index of the first rejected event -/
def accept (s : Sys) : List Ev → Nat → Except Nat Sys
  | [], _ => .ok s
  | e :: es, k => match step s e with
    | some s' => accept s' es (k + 1)
    | none => .error k

/-- `proto n=<workers> chunks=<c|c|…> ev=<e;e;…>` -/
def handleProto (fs : List (String × String)) : Option String := do
  let n ← getNat fs "n"
  let cs := (← get fs "chunks")
  let chunks ← if cs == "-" || cs == "" then some [] else (cs.splitOn "|").mapM natList
  let es := (← get fs "ev")
  let evs ← if es == "-" || es == "" then some [] else (es.splitOn ";").mapM parseEv
  match accept (init n chunks) evs 0 with
  | .error k => some s!"reject k={k}"
  | .ok s => some s!"ok q={if s.quiescent then 1 else 0} f={if s.failed then 1 else 0} delivered={showNats s.delivered} log={showNats s.log} dropped={s.dropped.length} lost={s.lost.length}"

def parsePairs (s : String) : Option (List (Nat × Nat)) :=
  if s == "-" || s == "" then some [] else
  (s.splitOn ",").mapM fun t => match t.splitOn ":" with
    | [a, b] => do some (← a.toNat?, ← b.toNat?)
    | _ => none

/-- `imap arr=<idx>:<val>,…` → everything imap yields, and how many values had been yielded after each arrival -/
def handleImap (fs : List (String × String)) : Option String := do
  let arr ← parsePairs (← get fs "arr")
  let pre := (List.range (arr.length + 1)).map fun k => (Mpire.Reorder.imapPrefix (arr.take k)).length
  some s!"out={showNats (Mpire.Reorder.imap arr)} yielded={showNats pre}"

def handleMapSort (fs : List (String × String)) : Option String := do
  let arr ← parsePairs (← get fs "arr")
  some s!"out={showNats (Mpire.Reorder.mapSort arr)}"

end Mpire.Drive
