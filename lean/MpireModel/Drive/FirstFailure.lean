import MpireModel.Model.FirstFailure
import MpireModel.Drive.Util
/- Line protocol for the model of who reports a failing call. -/
namespace Mpire.Drive
open Mpire.FirstFailure

def parseKind (s : String) : Option (Kind × Job) :=
  match s.splitOn ":" with
  | ["w", j] => do some (.worker, ← j.toNat?)
  | ["t", j] => do some (.timeout, ← j.toNat?)
  | ["d", j] => do some (.death, ← j.toNat?)
  | ["c", j] => do some (.caller, ← j.toNat?)
  | _ => none

inductive FTok
  | act (i : Nat) (a : Act) (seen : Option Bool)   -- signaller i did this action (a look reports what it saw)
  | handler (i : Nat)                              -- the results handler took up the failure that signaller i had queued
  | store (who : Nat) (j : Job)                    -- the failure produced by signaller `who` was written under job id j
  | drop (who : Nat) (j : Job)                     -- the attempt to write it there had no effect
  | saw | read (j : Job) | raised (who : Nat)

def parseFTok (s : String) : Option FTok :=
  match s.splitOn ":" with
  | ["L", i, b] => do some (.act (← i.toNat?) .look (some (b == "1")))
  | ["W", i] => do some (.act (← i.toNat?) .write none)
  | ["F", i] => do some (.act (← i.toNat?) .raiseFlag none)
  | ["Q", i] => do some (.act (← i.toNat?) .enqueue none)
  | ["P", i] => do some (.act (← i.toNat?) .publish none)
  | ["A", i] => do some (.act (← i.toNat?) .publishAll none)
  | ["H", i] => do some (.handler (← i.toNat?))
  | ["S", w, j] => do some (.store (← w.toNat?) (← j.toNat?))
  | ["D", w, j] => do some (.drop (← w.toNat?) (← j.toNat?))
  | ["MS"] => some .saw
  | ["MR", j] => do some (.read (← j.toNat?))
  | ["MX", w] => do some (.raised (← w.toNat?))
  | _ => none

/-- `ffail sigs=<k:j,…> jobs=<j,…> ev=<t,t,…>`: the observed actions are run through `step`; an action is refused when it is not the
signaller's next one, when a look saw something else than the model's flag, when the caller read another job id than the model's
slot, or raised another party's exception than the one the model's cache holds.  Reports the first refused token, otherwise the final
flag, slot and what is left to do. -/
def handleFFail (fs : List (String × String)) : Option String := do
  let ks ← get fs "sigs"
  let kinds ← if ks == "-" || ks == "" then some [] else (ks.splitOn ",").mapM parseKind
  let jobs ← natList (← get fs "jobs")
  let es ← get fs "ev"
  let toks ← if es == "-" || es == "" then some [] else (es.splitOn ",").mapM parseFTok
  let rec go (s : St) (n : Nat) : List FTok → String
    | [] => s!"ok flag={if s.flag then 1 else 0} slot={s.slot} queued={s.queue.length} pending={s.pend.length} left={(s.sigs.map fun g => g.todo.length).sum} main={match s.main with | .waiting => "waiting" | .saw => "saw" | .read j => s!"read:{j}" | .raised j w => s!"raised:{j}:{w}"}"
    | t :: rest =>
      let r : Option St := match t with
        | .act i a seen =>
          match s.sigs[i]? with
          | some { todo := b :: _, .. } =>
            if a == b && (seen.isNone || seen == some s.flag) then step s (.sig i) else none
          | _ => none
        | .handler i =>
          match s.queue.findIdx? (·.2 == i) with
          | some k => step s (.handler k)
          | none => none
        | .store who j =>
          match s.pend.findIdx? (· == (j, who)) with
          | some k => step s (.store k)
          | none => none
        | .drop who j =>
          match s.pend.findIdx? (· == (j, who)) with
          | some k => step s (.drop k)
          | none => none
        | .saw => if s.main == .waiting then step s .main else none
        | .read j => if s.main == .saw && s.slot == j then step s .main else none
        | .raised who =>
          match s.main with
          | .read j => if lookup s j == some who then step s .main else none
          | _ => none
      match r with
      | some s' => go s' (n + 1) rest
      | none => s!"rejected at={n}"
  some (go (init kinds jobs) 0 toks)

end Mpire.Drive
