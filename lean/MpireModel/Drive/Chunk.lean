import MpireModel.Model.Chunk
import MpireModel.Drive.Util
/- Line-protocol handlers for the chunking suite. -/
namespace Mpire.Drive
open Mpire

inductive CSIn | none | int (k : Int) | flt (bits : Nat)

def parseCS (s : String) : Option CSIn :=
  if s == "-" then some .none else
  match s.splitOn ":" with
  | ["i", k] => k.toInt?.map .int
  | ["f", b] => b.toNat?.map .flt
  | _ => Option.none

def CSIn.toFloat : CSIn → CS Float
  | .none => .none | .int k => .int k | .flt b => .real (Float.ofBits b.toUInt64)

def CSIn.toRat : CSIn → Option (CS Rat)
  | .none => some .none | .int k => some (.int k) | .flt b => (ratOfBits b).map .real

def showErr : ChunkErr → String
  | .bothNone => "err bothNone" | .noLength => "err noLength"

def showChunks (r : Except ChunkErr (List (List Nat))) : String :=
  match r with
  | .error e => showErr e
  | .ok cs => s!"ok sizes={showNats (cs.map List.length)} firsts={showNats (cs.map (·.headD 0))}"

/-- `chunk n=<actual length> sized=<0|1> lim=<-|k> cs=<-|i:k|f:bits> ns=<-|k> [exact=1]` -/
def handleChunk (fs : List (String × String)) : Option String := do
  let n ← getNat fs "n"
  let sized ← getBool fs "sized"
  let lim ← getOptNat fs "lim"
  let cs ← parseCS (← get fs "cs")
  let ns ← getOptNat fs "ns"
  let xs := List.range n
  let r := chunkTasks floatA xs sized lim cs.toFloat ns
  let base := showChunks r
  if (get fs "exact") == some "1" then
    match cs.toRat with
    | some csr =>
      let e := chunkTasks ratA xs sized lim csr ns
      let same := match r, e with
        | .ok a, .ok b => a.map List.length == b.map List.length
        | .error a, .error b => a == b
        | _, _ => false
      let en := match e with | .ok b => toString b.length | .error _ => "-"
      some s!"{base} exact_same={if same then 1 else 0} exact_n={en}"
    | Option.none => some s!"{base} exact_same=- exact_n=-"
  else some base

/-- `nchunks len=<k> lim=<-|k> cs=… ns=<-|k> nj=<k>` -/
def handleNChunks (fs : List (String × String)) : Option String := do
  let len ← getNat fs "len"
  let lim ← getOptNat fs "lim"
  let cs ← parseCS (← get fs "cs")
  let ns ← getOptNat fs "ns"
  let nj ← getNat fs "nj"
  some s!"ok n={getNChunks floatA len lim cs.toFloat ns nj}"

/-- `numpy len=<rows> lim=… cs=… ns=… nj=…` → announced count and produced chunk sizes -/
def handleNumpy (fs : List (String × String)) : Option String := do
  let len ← getNat fs "len"
  let lim ← getOptNat fs "lim"
  let cs ← parseCS (← get fs "cs")
  let ns ← getOptNat fs "ns"
  let nj ← getNat fs "nj"
  let (ann, r) := numpyChunks floatA (List.range len) lim cs.toFloat ns nj
  some s!"announced={ann} {showChunks r}"

def showCS : CS Float → String
  | .none => "-" | .int k => s!"i:{k}" | .real c => s!"f:{c.toBits.toNat}"

/-- `derive nt=<-|k> cs=… ns=… nj=… ma=<-|k>` → derived chunk size and max_tasks_active -/
def handleDerive (fs : List (String × String)) : Option String := do
  let nt ← getOptNat fs "nt"
  let cs ← parseCS (← get fs "cs")
  let ns ← getOptNat fs "ns"
  let nj ← getNat fs "nj"
  let ma ← getOptNat fs "ma"
  let d := deriveChunkSize floatA nt cs.toFloat ns nj
  some s!"ok cs={showCS d} ma={deriveMaxActive floatA d ma nj}"

end Mpire.Drive
