import MpireModel.Model.GracefulStop
import MpireModel.Drive.Util
/- Line protocol for the graceful-shutdown model. -/
namespace Mpire.Drive
open Mpire.GracefulStop

def parseVariant : String → Option Variant
  | "pinned" => some .pinned | "waitSlot" => some .waitSlot | "waitObject" => some .waitObject | "final" => some .final
  | _ => none

def parseWPh : String → Option (Option WPh)
  | "-" => some none | "pill" => some (some .pill) | "exiting" => some (some .exiting) | "sent" => some (some .sent)
  | "dead" => some (some .dead)
  | _ => none

def showEnd : End → String
  | .returnedComplete => "complete" | .returnedIncomplete => "incomplete" | .raised => "raised" | .hangs => "hangs"

/-- `gstop variant=<v> apply=0|1 kill=<phase>|-`: every way in which the shutdown of a worker killed in that phase can end -/
def handleGStop (fs : List (String × String)) : Option String := do
  let v ← parseVariant (← get fs "variant")
  let ap ← getBool fs "apply"
  let k ← parseWPh (← get fs "kill")
  let es := (ends v ap k).map showEnd
  some s!"ends={",".intercalate (es.mergeSort (· ≤ ·))}"

end Mpire.Drive
