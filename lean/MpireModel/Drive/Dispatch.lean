import MpireModel.Model.Dispatch
import MpireModel.Drive.Util
/- Line protocol: dispatcher trace acceptor and the assignment machine. -/
namespace Mpire.Drive
open Mpire.Dispatch

def parseDEv : String → Option (Option Ev)     -- `some none` = "E": the chunk iterator is exhausted at the next opportunity
  | "a" => some (some .ask) | "d" => some (some .draw) | "s" => some (some .dispatch)
  | "c" => some (some .complete) | "y" => some (some .yield) | "E" => some none | _ => none

/-- fold `step`; an `E` marker is resolved lazily: the exhausting `draw` is taken at the first later point where the
trace is otherwise not accepted (or at the end).  Returns the final state, the index of the first rejected event and
the largest drawn − delivered seen. -/
def acceptD (s : D) (pendingEnd : Bool) (gap : Nat) : List (Option Ev) → Nat → Except Nat (D × Nat)
  | [], _ =>
    if pendingEnd then match step s .draw with
      | some s' => .ok (s', gap)
      | none => .ok (s, gap)
    else .ok (s, gap)
  | none :: es, k => acceptD s true gap es (k + 1)
  | some e :: es, k =>
    match step s e with
    | some s' => acceptD s' pendingEnd (max gap (s'.drawn - s'.delivered)) es (k + 1)
    | none =>
      if pendingEnd then
        match step s .draw with
        | some s1 => match step s1 e with
          | some s' => acceptD s' false (max gap (s'.drawn - s'.delivered)) es (k + 1)
          | none => .error k
        | none => .error k
      else .error k

/-- `disp m=<max_tasks_active> chunks=<k,k,…> ev=<a,d,s,c,y,E …>` -/
def handleDisp (fs : List (String × String)) : Option String := do
  let m ← getNat fs "m"
  let chunks ← natList (← get fs "chunks")
  let es := (← get fs "ev")
  let evs ← if es == "-" || es == "" then some [] else (es.splitOn ",").mapM parseDEv
  match acceptD (init m chunks) false 0 evs 0 with
  | .error k => some s!"reject k={k}"
  | .ok (s, gap) => some s!"ok drawn={s.drawn} delivered={s.delivered} gap={gap} finished={if s.finished then 1 else 0}"

def parseAOp (s : String) : Option AOp :=
  match s.splitOn ":" with
  | ["A"] => some .assign | ["R"] => some .reset | ["P"] => some .apply
  | ["C", w] => w.toNat?.map .completed
  | _ => none

/-- `assign order=<0|1> n=<n_jobs> ops=<A|C:w|R,…>` → `i:w` per assignment -/
def handleAssign (fs : List (String × String)) : Option String := do
  let o ← getBool fs "order"
  let n ← getNat fs "n"
  let os := (← get fs "ops")
  let ops ← if os == "-" || os == "" then some [] else (os.splitOn ",").mapM parseAOp
  some ("ok " ++ ",".intercalate ((runOps o n reset 0 ops).map fun (i, w) => s!"{i}:{w}"))

end Mpire.Drive
