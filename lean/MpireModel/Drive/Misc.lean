import MpireModel.Model.Async
import MpireModel.Model.Signal
import MpireModel.Model.Args
import MpireModel.Model.Watch
import MpireModel.Model.Progress
import MpireModel.Model.BarHandshake
import MpireModel.Model.ResultIter
import MpireModel.Model.TimeoutScan
import MpireModel.Model.Permanent
import MpireModel.Model.Exception
import MpireModel.Model.History
import MpireModel.Model.ApplyHandover
import MpireModel.Model.KillSignal
import MpireModel.Drive.Util
/- Line protocol for the small models. -/
namespace Mpire.Drive

/-! async -/
open Mpire.Async in
def parseVal (s : String) : Option Val :=
  match s.splitOn ":" with
  | ["o", v] => v.toNat?.map .ok
  | ["e", v] => v.toNat?.map .err
  | _ => none

open Mpire.Async in
def showVal : Val → String | .ok v => s!"o:{v}" | .err e => s!"e:{e}"

open Mpire.Async in
/-- `async cb=<0|1> ecb=<0|1> sets=<o:5,e:7,…>` -/
def handleAsync (fs : List (String × String)) : Option String := do
  let cb ← getBool fs "cb"
  let ecb ← getBool fs "ecb"
  let ss := (← get fs "sets")
  let sets ← if ss == "-" || ss == "" then some [] else (ss.splitOn ",").mapM parseVal
  let r := sets.foldl AR.set ({ hasCb := cb, hasEcb := ecb } : AR)
  let g := match r.get with | .value v => s!"v:{v}" | .raises e => s!"r:{e}" | .timeout => "t"
  let cbs := ",".intercalate (r.cbLog.map fun (b, v) => (if b then "cb:" else "ecb:") ++ showVal v)
  some s!"outcome={(r.outcome.map showVal).getD "-"} ready={if r.ready then 1 else 0} cache={if r.inCache then 1 else 0} cbs={cbs} get={g}"

/-! signal -/
open Mpire.Signal in
def parseSigOp : String → Option Op
  | "D" => some .enterDelayed | "X" => some .enterDisabled | "e" => some .exit | "s" => some .sigint | _ => none

open Mpire.Signal in
def showH : H → String | .dfl => "d" | .ign => "i" | .delayed id => s!"D{id}"

open Mpire.Signal in
/-- `sig h=<d|i> ops=<D,X,e,s,…>` -/
def handleSig (fs : List (String × String)) : Option String := do
  let h ← match (← get fs "h") with | "d" => some H.dfl | "i" => some H.ign | _ => none
  let os := (← get fs "ops")
  let ops ← if os == "-" || os == "" then some [] else (os.splitOn ",").mapM parseSigOp
  match run { handler := h } ops with
  | none => some "bad-exit"
  | some s => some s!"handler={showH s.handler} raised={s.raised} dropped={s.dropped} depth={s.stack.length} pending={pending s.stack}"

/-! args -/
open Mpire.Args in
partial def parsePy (s : String) : Option PyVal :=
  if s.startsWith "a" then (s.drop 1).toString.toInt?.map .atom
  else if s.startsWith "s." then some (.str (s.drop 2).toString)
  else if s.startsWith "b." then some (.bytes (s.drop 2).toString)
  else if s.startsWith "n" then (s.drop 1).toString.toNat?.map .ndarray
  else if s.startsWith "t(" || s.startsWith "l(" then
    let inner := ((s.drop 2).dropEnd 1).toString
    let items := if inner == "" then some [] else (inner.splitOn ";").mapM parsePy
    items.map (if s.startsWith "t(" then .tuple else .list)
  else if s.startsWith "d(" then
    let inner := ((s.drop 2).dropEnd 1).toString
    if inner == "" then some (.dict []) else
    ((inner.splitOn ";").mapM fun (kv : String) => match kv.splitOn "~" with
      | [k, v] => (parsePy v).map fun v => (k, v)
      | _ => none).map .dict
  else none

open Mpire.Args in
partial def showPy : PyVal → String
  | .atom n => s!"a{n}" | .str s => s!"s.{s}" | .bytes s => s!"b.{s}" | .ndarray i => s!"n{i}"
  | .tuple xs => "t(" ++ ";".intercalate (xs.map showPy) ++ ")"
  | .list xs => "l(" ++ ";".intercalate (xs.map showPy) ++ ")"
  | .dict kv => "d(" ++ ";".intercalate (kv.map fun (k, v) => k ++ "~" ++ showPy v) ++ ")"

open Mpire.Args in
/-- `args kind=<task|apply|hook> id=<0|1> sh=<0|1> st=<0|1> wid=<n> arg=<pyval> kw=<d(...)|->` ; state is shown as `STATE`, shared as `SHARED` -/
def handleArgs (fs : List (String × String)) : Option String := do
  let kind ← get fs "kind"
  let cfg : Extras := { passWorkerId := ← getBool fs "id", shared := if (← getBool fs "sh") then some (.str "SHARED") else none,
                        useState := ← getBool fs "st" }
  let wid ← getNat fs "wid"
  let st := PyVal.str "STATE"
  let c ← match kind with
    | "hook" => some (hookCall cfg wid st)
    | "task" => do some (taskCall cfg wid st (← parsePy (← get fs "arg")))
    | "apply" => do
      let kw ← match (← parsePy (← get fs "kw")) with | .dict kv => some kv | _ => none
      some (applyCall cfg wid st (← parsePy (← get fs "arg")) kw)
    | _ => none
  some ("pos=" ++ "|".intercalate (c.pos.map showPy) ++ " kw=" ++ "|".intercalate (c.kw.map fun (k, v) => k ++ "~" ++ showPy v))

/-! watch -/
/-- `timeout started=<-|s> now=<n> t=<n>` (all in integer ticks) -/
def handleTimeout (fs : List (String × String)) : Option String := do
  let st ← getOptNat fs "started"
  some (if Mpire.Watch.timedOut st (← getNat fs "now") (← getNat fs "t") then "1" else "0")

open Mpire.Watch in
def parseDEv' : String → Option DEv
  | "A" => some .signalAlive | "D" => some .signalDead | "X" => some .processExit | "R" => some .restart
  | "K" => some .kill | "r" => some .read | "n" => some .rescan | "S" => some .startReturns | _ => none

open Mpire.Watch in
/-- `dscan ev=<S,A,D,X,R,K,r,n …>` -/
def handleDScan (fs : List (String × String)) : Option String := do
  let es := (← get fs "ev")
  let evs ← if es == "-" || es == "" then some [] else (es.splitOn ",").mapM parseDEv'
  match drun {} evs with
  | none => some "reject"
  | some s => some (match s.scan with
      | .verdict b => s!"verdict={if b then 1 else 0} killed={if s.everKilled then 1 else 0}"
      | _ => s!"scanning killed={if s.everKilled then 1 else 0}")

/-! progress -/
open Mpire.Progress in
def parsePEv (s : String) : Option PEv :=
  if s == "t" then some .tick else if s == "p" then some .poll
  else if s.startsWith "T" then (s.drop 1).toString.toNat?.map .taskDone
  else if s.startsWith "F" then (s.drop 1).toString.toNat?.map .force
  else if s.startsWith "S" then (s.drop 1).toString.toNat?.map .setTotal
  else none

open Mpire.Progress in
/-- `progress n=<jobs> total=<-|k> interval=<ticks> ev=<T0,F1,t,p,S5 …>` -/
def handleProgress (fs : List (String × String)) : Option String := do
  let n ← getNat fs "n"
  let tot ← getOptNat fs "total"
  let iv ← getNat fs "interval"
  let es := (← get fs "ev")
  -- `B<w>x<k>` stands for k task completions of worker w
  let parseTok : String → Option (List PEv) := fun t =>
    if t.startsWith "B" then
      match (t.drop 1).toString.splitOn "x" with
      | [w, k] => do some (List.replicate (← k.toNat?) (PEv.taskDone (← w.toNat?)))
      | _ => none
    else (parsePEv t).map fun e => [e]
  let evs ← if es == "-" || es == "" then some [] else ((es.splitOn ",").mapM parseTok).map List.flatten
  match prun { (pinit n tot) with interval := iv } evs with
  | none => some "reject"
  | some s => some s!"arr={showNats s.arr} pending={showNats (s.workers.map (·.pending))} shown={s.shown} complete={if s.complete then 1 else 0} done={s.done}"

/-- `top5 e=<dur>:<arg>,…` (arg `_` is the empty string) -/
def handleTop5 (fs : List (String × String)) : Option String := do
  let es := (← get fs "e")
  let ents ← if es == "-" || es == "" then some [] else (es.splitOn ",").mapM fun t => match t.splitOn ":" with
    | [d, a] => d.toNat?.map fun d => (d, if a == "_" then "" else a)
    | _ => none
  some ("ok " ++ ",".intercalate ((Mpire.Progress.top5 ents).map fun (d, a) => s!"{d}:{a}"))

/-- `ratios parts=<n,n,…> epsden=<k>` (eps = 1/k) → numerators/denominators -/
def handleRatios (fs : List (String × String)) : Option String := do
  let ps ← natList (← get fs "parts")
  let k ← getNat fs "epsden"
  let rs := Mpire.Progress.ratios (ps.map fun (p : Nat) => (p : Rat)) ((1 : Rat) / (k : Rat))
  some ("ok " ++ ",".intercalate (rs.map fun r => s!"{r.num}/{r.den}"))

/-! progress-bar completion handshake -/
open Mpire.BarHandshake in
def parseBarOp (s : String) : Option Op :=
  if s == "p" then some .pass else if s == "X" then some .shutdown else if s == "E" then some .exc
  else if s == "K" then some .kill
  else if s.startsWith "A" then (s.drop 1).toString.toNat?.map .add
  else if s.startsWith "S" then (s.drop 1).toString.toNat?.map .setTotal
  else none

open Mpire.BarHandshake in
/-- `hshake total=<-|k> ops=<A2,p,S3,p,X,…>` → the state after every pass: `n/total/complete/exited;…` -/
def handleHShake (fs : List (String × String)) : Option String := do
  let tot ← getOptNat fs "total"
  let os := (← get fs "ops")
  let ops ← if os == "-" || os == "" then some [] else (os.splitOn ",").mapM parseBarOp
  let showS (s : HS) : String :=
    s!"{s.n}/{match s.barTotal with | some t => toString t | none => "-"}/{if s.complete then 1 else 0}/{if s.exited then 1 else 0}"
  let (s, outs) := ops.foldl (fun (acc : HS × List String) op =>
    let s' := step acc.1 op
    (s', if op == .pass then acc.2 ++ [showS s'] else acc.2)) (init tot, [])
  some ("ok " ++ ";".intercalate outs ++ s!" go={if callerGoesOn s then 1 else 0}")

/-! result iterator -/
open Mpire.ResultIter in
def parseRIOp (s : String) : Option Op :=
  if s == "n" then some (.next false) else if s == "b" then some (.next true) else if s == "t" then some .timeout
  else if s.startsWith "O" then (s.drop 1).toString.toNat?.map .setOk
  else if s.startsWith "R" then (s.drop 1).toString.toNat?.map .setErr
  else if s.startsWith "L" then (s.drop 1).toString.toNat?.map .setLength
  else none

open Mpire.ResultIter in
/-- `riter n=<-|k> ops=<O5,R1,L3,n,b,t,…>` → one output per op, then the final counters -/
def handleRIter (fs : List (String × String)) : Option String := do
  let n ← getOptNat fs "n"
  let os := (← get fs "ops")
  let ops ← if os == "-" || os == "" then some [] else (os.splitOn ",").mapM parseRIOp
  let (s, outs) := run (init n) ops
  let sh : Out → String
    | .none => "-" | .value v => s!"v{v}" | .stop => "stop" | .empty => "empty" | .waits => "waits"
    | .valueError => "valueerror" | .bad => "bad"
  some ("ok " ++ ",".intercalate (outs.map sh) ++
    s!" items={showNats s.items} rec={s.nReceived} ret={s.nReturned} len={match s.nTasks with | some k => toString k | none => "-"} exc={match s.exc with | some k => toString k | none => "-"}")

/-! one round of the timeout handler -/
open Mpire.TimeoutScan in
def showWorking : Working → String
  | .init => "I" | .exit => "E" | .job j => toString j

open Mpire.TimeoutScan in
def optNat (s : String) : Option (Option Nat) := if s == "-" then some none else s.toNat?.map some

open Mpire.TimeoutScan in
/-- `tscan now=<n> init=<-|t> exit=<-|t> jobs=<id:isMap:timeout;…> ws=<working:tInit:tTask:tExit;…>` -/
def handleTScan (fs : List (String × String)) : Option String := do
  let now ← getNat fs "now"
  let it ← getOptNat fs "init"
  let et ← getOptNat fs "exit"
  let js := (← get fs "jobs")
  let jobs ← if js == "-" || js == "" then some [] else (js.splitOn ";").mapM fun t => match t.splitOn ":" with
    | [i, m, to] => do some ({ id := ← i.toNat?, isMap := m == "1", timeout := ← optNat to } : Job)
    | _ => none
  let wss := (← get fs "ws")
  let ws ← if wss == "-" || wss == "" then some [] else (wss.splitOn ";").mapM fun t => match t.splitOn ":" with
    | [w, a, b, c] => do
      let working ← if w == "I" then some Working.init else if w == "E" then some Working.exit else w.toNat?.map Working.job
      some ({ working := working, tInit := ← optNat a, tTask := ← optNat b, tExit := ← optNat c } : Wk)
    | _ => none
  let r := round { now := now, initTimeout := it, exitTimeout := et } jobs ws
  let failed := (r.failed.map fun (wk, w) => s!"{showWorking wk}:{w}").mergeSort (fun a b => a ≤ b)
  let left := (r.cache.map (·.id)).mergeSort (fun a b => a ≤ b)
  some s!"ok killed={showNats r.killed} failed={",".intercalate failed} exc={match r.exc with | some w => showWorking w | none => "-"} returned={if r.returned then 1 else 0} cache={showNats left}"

/-! permanent cache entries -/
open Mpire.Permanent in
/-- `perm kind=<G|X> ops=<O5,E2,R,…>`: the re-settable getter (G) or the exit-result collector (X) after the history -/
def handlePerm (fs : List (String × String)) : Option String := do
  let kind ← get fs "kind"
  let os := (← get fs "ops")
  let toks := if os == "-" || os == "" then [] else os.splitOn ","
  if kind == "G" then
    let ops ← toks.mapM fun t =>
      if t == "R" then some GOp.reset
      else if t.startsWith "O" then (t.drop 1).toString.toNat?.map fun v => GOp.set (.ok v)
      else if t.startsWith "E" then (t.drop 1).toString.toNat?.map fun v => GOp.set (.err v)
      else none
    let g := ({} : Getter).run ops
    some s!"ok ready={if g.ready then 1 else 0} out={match g.getException with | some (.ok v) => s!"ok:{v}" | some (.err e) => s!"err:{e}" | none => "-"}"
  else if kind == "X" then
    let ops ← toks.mapM fun t =>
      if t == "R" then some EOp.reset
      else if t.startsWith "O" then (t.drop 1).toString.toNat?.map EOp.setOk
      else if t.startsWith "E" then (t.drop 1).toString.toNat?.map EOp.setErr
      else none
    let s := ({} : ExitIt).run ops
    some s!"ok results={showNats s.getResults} rec={s.nReceived} exc={match s.exc with | some e => toString e | none => "-"} got={if s.gotExc then 1 else 0}"
  else none

/-! exception -/
open Mpire.Exc in
/-- `exc t=<0|1> a=<0|1> d=<0|1>` -/
def handleExc (fs : List (String × String)) : Option String := do
  let e : Exc := { cls := 1, kind := .exception, args := 2, attrs := 3, typeOk := ← getBool fs "t", argsOk := ← getBool fs "a",
                   attrsOk := ← getBool fs "d", repr := 4 }
  some (match populate (guard e) with | .same _ _ _ => "same" | .cannotPickle _ => "cannotPickle")

/-! history -/
open Mpire.History in
def parseHOp (s : String) : Option Op :=
  match s.splitOn ":" with
  | ["K", b] => (parseB' b).map .setKeepAlive
  | ["P", b] => (parseB' b).map .setPoolParam
  | ["J", b] => (parseB' b).map .stopAndJoin
  | ["T"] => some .terminate
  | ["C", o, p, k, d, c] => do
    let ord ← parseB' o
    let p ← p.toNat?
    let d ← d.toNat?
    let c ← natList c
    let out ← match k with
      | "ok" => some (Outcome.ok d c) | "fail" => some (.fails d c) | "open" => some (.leftOpen d c) | "closed" => some (.closedEarly d c)
      | "rejected" => some .rejected
      | _ => none
    some (.call ord p out)
  | ["A", p, k, d, c] => do
    let p ← p.toNat?
    let d ← d.toNat?
    let c ← natList c
    let out ← match k with
      | "settled" => some (ApplyOutcome.settled d c) | "poolfailed" => some (.poolFailed d c)
      | _ => none
    some (.apply p out)
  | _ => none
where parseB' : String → Option Bool | "1" => some true | "0" => some false | _ => none

open Mpire.History in
def showCtl (s : Ctl) : String :=
  s!"w={match s.workers with | some p => toString p | none => "-"} gen={s.generation} init={if s.initialized then 1 else 0} run={if s.mapRunning then 1 else 0} ko={if s.keepOrder then 1 else 0} exc={if s.excFlag then 1 else 0} ti={s.taskIdx} lc={s.lastCompleted.length}"

open Mpire.History in
/-- `hist ops=<op;op;…>` → control state after every operation, `/`-separated -/
def handleHist (fs : List (String × String)) : Option String := do
  let os := (← get fs "ops")
  let ops ← if os == "-" || os == "" then some [] else (os.splitOn ";").mapM parseHOp
  let states := (ops.foldl (fun (acc : Ctl × List String) op => let s := step acc.1 op; (s, acc.2 ++ [showCtl s])) ({}, [])).2
  some ("ok " ++ "/".intercalate states)

/-! kill-signal hand-shake -/
open Mpire.Kill in
/-- `kill ev=<n|r|c|k|d,…>` (enter, funcReturns, clear, tryKill, deliver) for one worker instance -/
def handleKill (fs : List (String × String)) : Option String := do
  let es := (← get fs "ev")
  let evs ← if es == "-" || es == "" then some [] else (es.splitOn ",").mapM fun t => match t with
    | "n" => some Ev.enter | "r" => some Ev.funcReturns | "c" => some Ev.clear | "k" => some Ev.tryKill | "d" => some Ev.deliver
    | _ => none
  let rec go (w : W) (k : Nat) : List Ev → String
    | [] => s!"ok phase={match w.phase with | .outside => "outside" | .inside => "inside" | .leaving => "leaving" | .stopped => "stopped" | .escaped => "escaped"} sent={w.sent} pending={if w.pending then 1 else 0}"
    | e :: rest => match step w e with
      | some w' => go w' (k + 1) rest
      | none => s!"reject k={k}"
  some (go {} 0 evs)

/-! apply hand-over -/
open Mpire.Handover in
/-- `handover phase=<queued|pill|task|init|announced|resultsent>`: the worker is killed in that phase, the death is
handled, the replacement reads on → what happens to the job, whether the queue can still be joined, whether the pool is flagged -/
def handleHandover (fs : List (String × String)) : Option String := do
  let (s0, pre) ← match (← get fs "phase") with
    | "queued" => some (({} : St), ([] : List Ev)) | "pill" => some ({}, [.takePill]) | "task" => some ({}, [.takePill, .ackPill, .takeTask])
    | "init" => some ({ hasInit := true }, [.takePill, .ackPill, .takeTask, .startInit])
    | "announced" => some ({}, [.takePill, .ackPill, .takeTask, .announce])
    | "resultsent" => some ({}, [.takePill, .ackPill, .takeTask, .announce, .sendResult]) | _ => none
  let s ← run s0 (pre ++ [.kill, .deathHandled])
  let s := match step s .replacementTakes with | some s' => s' | none => s
  let job := match s.w with
    | .done false => "failed-with-death-error" | .done true => "done" | .lost => "lost" | .ranAsChunk => "ran-as-chunk"
    | _ => "still-pending"
  some s!"{job} joinable={if joinable s then 1 else 0} poolfailed={if s.poolFailed then 1 else 0}"

end Mpire.Drive
