import MpireModel.Drive.Chunk
import MpireModel.Drive.Worker
import MpireModel.Drive.Proto
import MpireModel.Drive.Dispatch
import MpireModel.Drive.Misc
import MpireModel.Drive.Apply
import MpireModel.Drive.Shutdown
import MpireModel.Drive.GracefulStop
import MpireModel.Drive.ParamFlow
import MpireModel.Drive.Insights
import MpireModel.Drive.FirstFailure
/- One line in, one line out. -/
namespace Mpire.Drive

def handle (line : String) : String :=
  match (line.trimAscii.toString.splitOn " ").filter (· ≠ "") with
  | [] => "bad-op"
  | suite :: rest =>
    let fs := fields rest
    let r : Option String :=
      match suite with
      | "chunk"   => handleChunk fs
      | "nchunks" => handleNChunks fs
      | "numpy"   => handleNumpy fs
      | "derive"  => handleDerive fs
      | "worker"  => handleWorker fs
      | "proto"   => handleProto fs
      | "imap"    => handleImap fs
      | "msort"   => handleMapSort fs
      | "disp"    => handleDisp fs
      | "assign"  => handleAssign fs
      | "async"   => handleAsync fs
      | "sig"     => handleSig fs
      | "args"    => handleArgs fs
      | "timeout" => handleTimeout fs
      | "dscan"   => handleDScan fs
      | "progress" => handleProgress fs
      | "hshake"  => handleHShake fs
      | "riter"   => handleRIter fs
      | "tscan"   => handleTScan fs
      | "perm"    => handlePerm fs
      | "top5"    => handleTop5 fs
      | "ratios"  => handleRatios fs
      | "exc"     => handleExc fs
      | "hist"    => handleHist fs
      | "handover" => handleHandover fs
      | "kill"    => handleKill fs
      | "aproto"  => handleAProto fs
      | "tworker" => handleTWorker fs
      | "hstop"   => handleHStop fs
      | "gstop"   => handleGStop fs
      | "pflow"   => handlePFlow fs
      | "insacc"  => handleInsAcc fs
      | "ffail"   => handleFFail fs
      | _ => none
    r.getD "bad-op"

partial def loop (hin hout : IO.FS.Stream) : IO Unit := do
  let line ← hin.getLine
  if line.isEmpty then return ()
  hout.putStrLn (handle line)
  loop hin hout

end Mpire.Drive
