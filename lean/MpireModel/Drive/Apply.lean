import MpireModel.Model.ApplyProto
import MpireModel.Drive.Util
/- Line protocol for the apply protocol model. -/
namespace Mpire.Drive
open Mpire.ApplyProto

/-- events: `s:j:k` submit, `t:k` take, `f:k:1|0` finish, `h` handle, `p:k` timeoutProc, `o:j` timeoutOnly, `d:k` die -/
def parseAEv (s : String) : Option Ev :=
  match s.splitOn ":" with
  | ["s", j, k] => do some (.submit (← j.toNat?) (← k.toNat?))
  | ["t", k] => do some (.take (← k.toNat?))
  | ["f", k, "1"] => do some (.finish (← k.toNat?) true)
  | ["f", k, "0"] => do some (.finish (← k.toNat?) false)
  | ["h"] => some .handle
  | ["p", k] => do some (.timeoutProc (← k.toNat?))
  | ["o", j] => do some (.timeoutOnly (← j.toNat?))
  | ["d", k] => do some (.die (← k.toNat?))
  | _ => none

def showOut : Out → String
  | .ok => "ok" | .raised => "raised" | .timedOut => "timeout" | .died => "died"

/-- `aproto n=<workers> ev=<e,e,…>`: the events are run through `step`; the first one it refuses is reported, otherwise the
settled jobs in the order in which they were settled, and whether anything is still in flight -/
def handleAProto (fs : List (String × String)) : Option String := do
  let n ← getNat fs "n"
  let es := (← get fs "ev")
  let evs ← if es == "-" || es == "" then some [] else (es.splitOn ",").mapM parseAEv
  let rec go (s : Sys) (i : Nat) : List Ev → String
    | [] => s!"ok settled={",".intercalate (s.settled.map fun p => s!"{p.1}:{showOut p.2}")} quiescent={if quiescent s then 1 else 0} mu={mu s}"
    | e :: rest => match step s e with
      | some s' => go s' (i + 1) rest
      | none => s!"rejected at={i}"
  some (go (init n) 0 evs)

end Mpire.Drive
