import MpireModel.Model.ParamFlow
import MpireModel.Drive.Util
/- Line protocol for the parameter-flow model. -/
namespace Mpire.Drive
open Mpire.ParamFlow

inductive PTok
  | call (n p : Nat)        -- a call with parameters p begins (on n fresh workers when the pool has none)
  | ev (e : Ev)
  | take (k : Nat) (kind : String)   -- worker k took an entry of this kind: P (parameters pill), C (chunk), N (non-lethal pill)

def parsePTok (s : String) : Option PTok :=
  match s.splitOn ":" with
  | ["C", n, p] => do some (.call (← n.toNat?) (← p.toNat?))
  | ["D", k] => do some (.ev (.dispatch (← k.toNat?)))
  | ["E"] => some (.ev .endCall)
  | ["R", k] => do some (.ev (.restart (← k.toNat?)))
  | ["X"] => some (.ev .stop)
  | ["T", k, kind] => do some (.take (← k.toNat?) kind)
  | _ => none

def kindOf : Item → String
  | .params _ => "P" | .chunk _ => "C" | .pause => "N"

/-- `pflow ev=<t,t,…>`: the queue events of a history of calls on one pool are run through `step`; a take must find an entry of
the kind the implementation's worker took.  Reports the first refused event, otherwise the (call, parameters) pairs of the chunks
that were run. -/
def handlePFlow (fs : List (String × String)) : Option String := do
  let es ← get fs "ev"
  let toks ← if es == "-" || es == "" then some [] else (es.splitOn ",").mapM parsePTok
  let rec go (s : Sys) (i : Nat) : List PTok → String
    | [] => s!"ok log={",".intercalate (s.log.map fun p => s!"{p.1}:{p.2}")}"
    | t :: rest =>
      let r : Option Sys := match t with
        | .call n p => if s.recorded.isNone then step s (.fresh n p) else step s (.startCall p)
        | .ev e => step s e
        | .take k kind =>
          match s.workers[k]? with
          | some { cur := _, queue := i :: _ } => if kindOf i == kind then step s (.take k) else none
          | _ => none
      match r with
      | some s' => go s' (i + 1) rest
      | none => s!"rejected at={i}"
  some (go {} 0 toks)

end Mpire.Drive
