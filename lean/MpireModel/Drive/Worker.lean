import MpireModel.Model.Worker
import MpireModel.Drive.Util
/- Line protocol for the worker transducer suite. -/
namespace Mpire.Drive
open Mpire.Worker

def parseOutcome : String → Option Outcome
  | "ok" => some .ok | "ra" => some .raises | "rq" => some .raisesQuiet | "st" => some .stop
  | "in" => some .interrupt | "ex" => some .excAlready | _ => none

def parseB : String → Option Bool
  | "1" => some true | "0" => some false | _ => none

/-- `<lifespan|->,<hasInit>,<hasExit>,<pb>,<initTO>,<exitTO>` -/
def parseParams (s : String) : Option Params :=
  match s.splitOn "," with
  | [l, a, b, c, d, e] => do
    let l ← if l == "-" then some none else l.toNat?.map some
    some { lifespan := l, hasInit := ← parseB a, hasExit := ← parseB b, progressBar := ← parseB c,
           initTimeout := ← parseB d, exitTimeout := ← parseB e }
  | _ => none

def parseTask (s : String) : Option TaskIn :=
  match s.splitOn "/" with
  | [i, o] => do some { id := ← i.toNat?, out := ← parseOutcome o }
  | _ => none

def parseItem (s : String) : Option Item :=
  match s.splitOn ":" with
  | ["P"] => some .pill
  | ["N"] => some .pillNL
  | ["S"] => some .stopNow
  | ["M", "-"] => some (.newParams none)
  | ["M", p] => (parseParams p).map fun p => .newParams (some p)
  | ["A", "-"] => some (.apply none)
  | ["A", j, t] => do some (.apply (some (← j.toInt?, ← parseTask t)))
  | ["c", j, ts] => do
    let ts ← if ts == "" then some [] else (ts.splitOn "+").mapM parseTask
    some (.chunk (← j.toInt?) ts)
  | _ => none

def showKind : Kind → String | .init => "init" | .task => "task" | .exit => "exit"

def showAct : Act → String
  | .alive => "alive" | .resetRecv => "resetRecv" | .taskDone => "td" | .got => "got"
  | .workingOn j => s!"wo:{j}"
  | .stampStart k => s!"ss:{showKind k}" | .stampClear k => s!"sc:{showKind k}"
  | .user k i => s!"u:{showKind k}:{i}"
  | .addResults rs => "ar:" ++ "+".intercalate (rs.map fun (j, b, i) => s!"{j}/{if b then 1 else 0}/{i}")
  | .raise_ j => s!"raise:{j}"
  | .pb f => s!"pb:{if f then 1 else 0}"
  | .waitPB => "waitPB" | .waitAllReceived => "waitAll" | .restartReq => "restart" | .dead => "dead"

/-- `worker p=<params> env=<initOut>,<exitOut>,<excAtEnd> items=<item>;<item>;…` -/
def handleWorker (fs : List (String × String)) : Option String := do
  let p ← parseParams (← get fs "p")
  let env ← match (← get fs "env").splitOn "," with
    | [a, b, c] => do some ({ initOut := ← parseOutcome a, exitOut := ← parseOutcome b, excAtEnd := ← parseB c } : Env)
    | _ => none
  let its := (← get fs "items")
  let items ← if its == "" || its == "-" then some [] else (its.splitOn ";").mapM parseItem
  some (" ".intercalate ((run p env items).map showAct))

end Mpire.Drive
