/- Parsing helpers for the line protocol.  Malformed input is rejected (`none`), never defaulted. -/
namespace Mpire.Drive

/-- `k=v` fields of a line (after the suite name). -/
def fields (toks : List String) : List (String × String) :=
  toks.filterMap fun t =>
    match t.splitOn "=" with
    | [k, v] => some (k, v)
    | _ => none

def get (fs : List (String × String)) (k : String) : Option String :=
  (fs.find? (·.1 == k)).map (·.2)

def getNat (fs : List (String × String)) (k : String) : Option Nat := do
  (← get fs k).toNat?

def getInt (fs : List (String × String)) (k : String) : Option Int := do
  (← get fs k).toInt?

/-- `-` is Python's `None`. -/
def getOptNat (fs : List (String × String)) (k : String) : Option (Option Nat) := do
  let v ← get fs k
  if v == "-" then some none else (v.toNat?).map some

def getBool (fs : List (String × String)) (k : String) : Option Bool := do
  match (← get fs k) with
  | "1" => some true
  | "0" => some false
  | _ => none

def natList (s : String) : Option (List Nat) :=
  if s == "" || s == "-" then some [] else (s.splitOn ",").mapM (·.toNat?)

def intList (s : String) : Option (List Int) :=
  if s == "" || s == "-" then some [] else (s.splitOn ",").mapM (·.toInt?)

def showNats (l : List Nat) : String := ",".intercalate (l.map toString)
def showInts (l : List Int) : String := ",".intercalate (l.map toString)

/-- exact rational value of a finite IEEE double given by its bit pattern -/
def ratOfBits (b : Nat) : Option Rat :=
  let sign : Nat := b / 2^63
  let e : Nat := (b / 2^52) % 2048
  let m : Nat := b % 2^52
  if e == 2047 then none else
  let two : Rat := 2
  let mant : Nat := 2^52 + m
  let mag : Rat :=
    if e == 0 then (m : Rat) / two^(1074:Nat)
    else if e ≥ 1075 then (mant : Rat) * two^(e - 1075)
    else (mant : Rat) / two^(1075 - e)
  some (if sign == 1 then -mag else mag)

end Mpire.Drive
