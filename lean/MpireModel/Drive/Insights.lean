import MpireModel.Model.Insights
import MpireModel.Drive.Util
/- Line protocol for the insights accounting model. -/
namespace Mpire.Drive
open Mpire.Insights

def parseIOp (s : String) : Option Op :=
  match s.splitOn ":" with
  | ["S", n] => do some (.start (← n.toNat?))
  | ["T", w, d, a] => do some (.task (← w.toNat?) (← d.toNat?) (if a == "_" then "" else a))
  | ["Y", w] => do some (.sync (← w.toNat?))
  | ["R", w] => do some (.restart (← w.toNat?))
  | ["K", w] => do some (.replace (← w.toNat?))
  | _ => none

/-- `B:<w>:<k>` stands for k tasks of zero duration on worker w (large counts without long lines) -/
def parseIOps (s : String) : Option (List Op) :=
  match s.splitOn ":" with
  | ["B", w, k] => do some (List.replicate (← k.toNat?) (.task (← w.toNat?) 0 ""))
  | _ => (parseIOp s).map fun o => [o]

def showEntries (l : List Entry) : String :=
  let sorted := l.mergeSort fun a b => entryLe a b
  ";".intercalate (sorted.map fun (d, a) => s!"{d}:{if a == "" then "_" else a}")

/-- `insacc ops=<op,op,…>`: the counters and the private and shared five-slot lists (contents, sorted) of every worker id after the
history. -/
def handleInsAcc (fs : List (String × String)) : Option String := do
  let os ← get fs "ops"
  let ops ← if os == "-" || os == "" then some [] else ((os.splitOn ",").mapM parseIOps).map List.flatten
  let s := run ops
  some s!"ok counts={showNats (counts s)} own={"|".intercalate (s.map fun x => showEntries x.own)} pub={"|".intercalate (s.map fun x => showEntries x.pub)}"

end Mpire.Drive
