import MpireModel.Model.Shutdown
import MpireModel.Drive.Util
/- Line protocol for the shutdown model. -/
namespace Mpire.Drive
open Mpire.Shutdown

def showSAct : Act → String
  | .usr1 => "U" | .join true => "J1" | .join false => "J0" | .drain => "D" | .term => "T" | .joinForever => "F" | .close => "C"

/-- `tworker started=0|1 running=0|1 leaves=<k>|-`: the actions `_terminate_worker` performs on such a worker -/
def handleTWorker (fs : List (String × String)) : Option String := do
  let f : Fate := { started := ← getBool fs "started", running := ← getBool fs "running", leaves := ← getOptNat fs "leaves" }
  some s!"acts={",".intercalate ((terminateWorker f).map showSAct)}"

/-- visible events: `F` flag, `W` wait, `K` wake, `S` serve, `E` ends, `N1`/`N0` notify by the stopper (hit / nobody waiting), `R` request, `P1`/`P0` notify by a worker,
`X` stopped, `!` failed -/
def parseObs : String → Option Obs
  | "F" => some .flag | "W" => some .wait | "K" => some .wake | "S" => some .serve | "E" => some .ends
  | "N1" => some (.notify true) | "N0" => some (.notify false) | "R" => some .request | "P1" => some (.poke true) | "P0" => some (.poke false)
  | "X" => some .stopped | "!" => some .failed
  | _ => none

/-- `hstop fixed=0|1 ev=<o,o,…>`: is the sequence of visible events a behaviour of the model? -/
def handleHStop (fs : List (String × String)) : Option String := do
  let fx ← getBool fs "fixed"
  let es ← get fs "ev"
  let os ← if es == "-" || es == "" then some [] else (es.splitOn ",").mapM parseObs
  match accepts fx os with
  | none => some "ok"
  | some i => some s!"rejected at={i}"

end Mpire.Drive
