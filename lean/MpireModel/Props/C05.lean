import MpireModel.Model.Signal
import MpireModel.Proofs.Signal
import MpireModel.Model.Shutdown
import MpireModel.Proofs.Shutdown
/-!
# C05 — nothing is left behind: signal state, worker processes, helper threads

Signal state: `ops` is ANY sequence of entering / leaving the pool's two SIGINT context managers with SIGINT arriving anywhere.
Worker processes: `terminate()` for EVERY behaviour of every worker (`Fate`: never started, running a task or not, gone after k
looks or never by itself).  Helper threads: the stop of the restart handler for EVERY interleaving of the handler thread, the
stopping thread and the workers.  Descriptors and the OS process table are observed on the implementation (DESIGN.md).
-/
namespace Mpire.C05
open Mpire.Signal Mpire.Proofs.Signal

/-- When every context manager that was entered has been left, the installed SIGINT handler is the one found. -/
theorem handler_balanced (h : H) (n : Nat) (hx : h = .dfl ∨ h = .ign) (ops : List Op) (s : St)
    (hr : run (idle h n) ops = some s) (he : s.stack = []) : s.handler = h :=
  Mpire.Proofs.Signal.handler_balanced h n hx ops s hr he

/-- No SIGINT is invented and none is lost, at every moment: each one either raised KeyboardInterrupt, was ignored,
or is recorded by a deferring context manager that is still active (several may collapse into one record). -/
theorem signals_accounted (h : H) (n : Nat) (hx : h = .dfl ∨ h = .ign) (ops : List Op) (s : St)
    (hr : run (idle h n) ops = some s) :
    s.raised + s.dropped + pending s.stack ≤ countSig ops ∧
    (0 < countSig ops → 0 < s.raised + s.dropped + pending s.stack) :=
  ⟨Mpire.Proofs.Signal.signals_not_invented h n hx ops s hr, Mpire.Proofs.Signal.signals_not_lost h n hx ops s hr⟩

/-- A single SIGINT has exactly one effect once all context managers are left. -/
theorem single_signal_once (h : H) (n : Nat) (hx : h = .dfl ∨ h = .ign) (ops : List Op) (s : St)
    (hr : run (idle h n) ops = some s) (he : s.stack = []) (h1 : countSig ops = 1) :
    s.raised + s.dropped = 1 :=
  Mpire.Proofs.Signal.single_signal_once h n hx ops s hr he h1

example : (run (idle .dfl 0) [.enterDelayed, .enterDisabled, .sigint, .exit, .sigint, .exit]).map
    (fun s => (s.handler, s.raised, s.dropped)) = some (.dfl, 1, 1) := by decide +kernel

/-! ## worker processes: the forced shutdown (Model/Shutdown.lean, Part A and B) -/
section Shutdown
open Mpire.Shutdown

/-- `_terminate_worker` never returns believing the process may still be there: either the process left by itself within the
pool's patience — then it is never sent SIGTERM — or it is sent SIGTERM and waited for WITHOUT a time limit. -/
theorem forced_shutdown_never_gives_up (f : Fate) (h : f.started = true) :
    (goneBy f patience = true ∧ Act.term ∉ terminateWorker f) ∨
    (goneBy f patience = false ∧ ∃ pre, terminateWorker f = pre ++ [Act.term, Act.joinForever, Act.close]) :=
  Mpire.Proofs.Shutdown.never_gives_up f h

/-- the interrupt signal goes to a worker exactly when it is running a task, and once -/
theorem kill_signal_iff_running (f : Fate) :
    (terminateWorker f).count Act.usr1 = if f.started && f.running then 1 else 0 :=
  Mpire.Proofs.Shutdown.kill_signal_iff_running f

/-- a worker that leaves at its k-th look (k < 10) costs exactly k bounded joins and drains, and nothing harsher -/
theorem cooperative_worker_shape (f : Fate) (k : Nat) (hs : f.started = true) (hl : f.leaves = some k) (hk : k < patience) :
    terminateWorker f = (if f.running then [Act.usr1] else []) ++
      (List.replicate k [Act.join false, Act.drain]).flatten ++ [Act.join true, Act.close] :=
  Mpire.Proofs.Shutdown.cooperative_shape f k hs hl hk

/-- the effort per worker is bounded, whatever the worker does -/
theorem forced_shutdown_bounded (f : Fate) : (terminateWorker f).length ≤ 2 * patience + 4 :=
  Mpire.Proofs.Shutdown.bounded_effort f

/-- `terminate()`: afterwards the pool holds no worker and no helper thread, and behind every slot it held — never filled, thread,
process of any behaviour — nothing is left running. -/
theorem terminate_leaves_nothing (p : Pool) :
    (terminate p).1.workers = [] ∧ (terminate p).1.handlers = 0 ∧
    (p.workers ≠ [] → (terminate p).2.length = p.workers.length) ∧
    (∀ (i : Nat) (o : Option Fate) (as : List Act), p.workers[i]? = some o → (terminate p).2[i]? = some as → settled o as = true) :=
  Mpire.Proofs.Shutdown.terminate_leaves_nothing p

example : terminateWorker { started := true, running := true, leaves := some 2 } =
    [.usr1, .join false, .drain, .join false, .drain, .join true, .close] := by decide +kernel
example : (terminateWorker { started := true, running := false, leaves := none }).drop 20 = [.term, .joinForever, .close] := by
  decide +kernel

end Shutdown

/-! ## helper threads: stopping the restart handler (Model/Shutdown.lean, Part C) -/
section HandlerStop
open Mpire.Shutdown

/-- `_stop_handler_threads` gets past the restart handler only when that thread has ended — in every reachable state, of the
repaired and of the pinned code alike. -/
theorem stopper_done_means_thread_gone (fx : Bool) (s : HS) (h : Reachable fx s) (hd : s.spc = .done) : s.pc = .gone :=
  Mpire.Proofs.Shutdown.stopper_done_means_gone fx s h hd

/-- The repaired stop never hangs: in no reachable state — whatever the interleaving of the handler thread, the stopping thread,
workers asking for restarts and failures reported meanwhile — is the handler thread still there with nothing able to move. -/
theorem repaired_stop_never_hangs (s : HS) (h : Reachable true s) : hung s = false :=
  Mpire.Proofs.Shutdown.fixed_never_hangs s h

/-- … and from every reachable state in which the stop has begun it can be completed within 12 steps (no trap states). -/
theorem repaired_stop_can_always_finish (s : HS) (h : Reachable true s) (hs : s.spc ≠ .setFlag) :
    ∃ ws, ws.length ≤ 12 ∧ (run s ws).map (·.spc) = some SPc.done :=
  Mpire.Proofs.Shutdown.fixed_can_always_finish s h hs

/-- Termination under fair scheduling, in three parts: once a stop flag is set (i) it stays set and no step of anybody moves the
handler thread away from its end, (ii) every step of the thread itself brings it strictly closer, (iii) the thread can always
step unless it waits for a notification, and a waiting thread is woken by at most four steps of the repaired stopper, which
itself can always step. -/
theorem repaired_stop_terminates_fairly :
    (∀ (s s' : HS) (w : Who), s.flag = true → step s w = some s' → s'.flag = true ∧ rank s'.pc ≤ rank s.pc) ∧
    (∀ (s s' : HS), s.flag = true → step s .thread = some s' → rank s'.pc < rank s.pc) ∧
    (∀ (s : HS), s.pc ≠ .waiting → s.pc ≠ .gone → (step s .thread).isSome = true) ∧
    (∀ (s : HS), s.fixed = true → s.pc = .waiting → (s.spc = .probe ∨ s.spc = .probeLoop ∨ s.spc = .notify ∨ s.spc = .joinShort) →
        ∃ n, n ≤ 4 ∧ (run s (List.replicate n Who.stopper)).map (·.pc) = some RPc.woken) ∧
    (∀ (s : HS), s.fixed = true → s.spc ≠ .done → s.spc ≠ .joinForever → (step s .stopper).isSome = true) :=
  ⟨fun s s' w hf h => ⟨Mpire.Proofs.Shutdown.flag_stays s s' w hf h, Mpire.Proofs.Shutdown.rank_never_increases s s' w hf h⟩,
   Mpire.Proofs.Shutdown.thread_step_decreases,
   Mpire.Proofs.Shutdown.thread_enabled_unless_waiting,
   Mpire.Proofs.Shutdown.fixed_waiting_is_woken,
   Mpire.Proofs.Shutdown.fixed_stopper_never_blocks⟩

/-- The pinned code (one notification, then an unbounded join) CAN hang: the handler thread tests the stop flags, the stopper sets
the flag and notifies nobody, the thread then waits for a notification that never comes while the stopper waits for the thread
(defect D29: found on the implementation under DetSim, repaired in /repo). -/
theorem pinned_stop_can_hang : ∃ ws s, run { fixed := false } ws = some s ∧ hung s = true ∧ s.pc = .waiting ∧ s.spc = .joinForever :=
  Mpire.Proofs.Shutdown.pinned_can_hang

example : (run { fixed := true } [.thread, .stopper, .stopper, .stopper, .stopper, .thread, .stopper, .stopper, .stopper, .thread,
    .thread, .stopper, .stopper]).map (fun s => (s.pc, s.spc)) = some (.gone, .done) := by decide +kernel

end HandlerStop

end Mpire.C05
