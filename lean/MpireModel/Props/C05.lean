import MpireModel.Model.Signal
import MpireModel.Proofs.Signal
/-!
# C05 — no leaked signal state (the part of the property a model can carry; processes, threads and descriptors are
observed on the implementation by the check, see DESIGN.md)

`ops` is ANY sequence of entering / leaving the pool's two SIGINT context managers with SIGINT arriving anywhere.
-/
namespace Mpire.C05
open Mpire.Signal Mpire.Proofs.Signal

/-- When every context manager that was entered has been left, the installed SIGINT handler is the one found. -/
theorem handler_balanced (h : H) (n : Nat) (hx : h = .dfl ∨ h = .ign) (ops : List Op) (s : St)
    (hr : run (idle h n) ops = some s) (he : s.stack = []) : s.handler = h :=
  Mpire.Proofs.Signal.handler_balanced h n hx ops s hr he

/-- No SIGINT is invented and none is lost, at every moment: each one either raised KeyboardInterrupt, was ignored,
or is recorded by a deferring context manager that is still active (several may collapse into one record). -/
theorem signals_accounted (h : H) (n : Nat) (hx : h = .dfl ∨ h = .ign) (ops : List Op) (s : St)
    (hr : run (idle h n) ops = some s) :
    s.raised + s.dropped + pending s.stack ≤ countSig ops ∧
    (0 < countSig ops → 0 < s.raised + s.dropped + pending s.stack) :=
  ⟨Mpire.Proofs.Signal.signals_not_invented h n hx ops s hr, Mpire.Proofs.Signal.signals_not_lost h n hx ops s hr⟩

/-- A single SIGINT has exactly one effect once all context managers are left. -/
theorem single_signal_once (h : H) (n : Nat) (hx : h = .dfl ∨ h = .ign) (ops : List Op) (s : St)
    (hr : run (idle h n) ops = some s) (he : s.stack = []) (h1 : countSig ops = 1) :
    s.raised + s.dropped = 1 :=
  Mpire.Proofs.Signal.single_signal_once h n hx ops s hr he h1

example : (run (idle .dfl 0) [.enterDelayed, .enterDisabled, .sigint, .exit, .sigint, .exit]).map
    (fun s => (s.handler, s.raised, s.dropped)) = some (.dfl, 1, 1) := by decide +kernel

end Mpire.C05
