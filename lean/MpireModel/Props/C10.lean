import MpireModel.Model.History
import MpireModel.Model.Worker
import MpireModel.Proofs.History
import MpireModel.Model.ParamFlow
import MpireModel.Proofs.ParamFlow
/-!
# C10 — keep_alive: same workers, but each call runs with its own parameters
-/
namespace Mpire.C10
open Mpire.History

/-- Every admitted call — on kept-alive workers or fresh ones — dispatches to workers that hold THAT call's
parameters and runs in THAT call's ordering mode. -/
theorem wrapper_matches_call (ops : List Op) (ordered : Bool) (p : ParamsId) (s1 : Ctl)
    (h : callStart (runOps {} ops) ordered p = some s1) : s1.workers = some p ∧ s1.keepOrder = ordered :=
  let f := Mpire.Proofs.History.fresh_at_call_start ops ordered p s1 h
  ⟨f.2.2.2.2.1, f.2.1⟩

/-- With keep_alive a successful call is followed by a call on the SAME worker instances (no new start) … -/
theorem instances_kept (ops : List Op) (o1 o2 : Bool) (p q : ParamsId) (d : Nat) (c : List Nat) (s1 : Ctl)
    (hk : (runOps {} ops).keepAlive = true) (hm : (runOps {} ops).mapRunning = false)
    (h : callStart (runOps {} (ops ++ [.call o1 p (.ok d c)])) o2 q = some s1) :
    s1.generation = (runOps {} (ops ++ [.call o1 p (.ok d c)])).generation ∧ s1.workers = some q :=
  Mpire.Proofs.History.keep_alive_reuses_workers ops o1 o2 p q d c s1 hk hm h

/-- … without keep_alive every call gets fresh worker instances … -/
theorem fresh_without_keep_alive (ops : List Op) (o1 o2 : Bool) (p q : ParamsId) (d : Nat) (c : List Nat) (s1 : Ctl)
    (hk : (runOps {} ops).keepAlive = false) (hm : (runOps {} ops).mapRunning = false)
    (h : callStart (runOps {} (ops ++ [.call o1 p (.ok d c)])) o2 q = some s1) :
    s1.generation = (runOps {} (ops ++ [.call o1 p (.ok d c)])).generation + 1 :=
  Mpire.Proofs.History.no_keep_alive_fresh_workers ops o1 o2 p q d c s1 hk hm h

/-- … and changing pass_worker_id / shared_objects / use_worker_state takes effect through fresh workers. -/
theorem setters_force_restart (ops : List Op) (o : Bool) (q : ParamsId) (s1 : Ctl)
    (h : callStart (runOps {} (ops ++ [.setPoolParam true])) o q = some s1) :
    s1.generation = (runOps {} (ops ++ [.setPoolParam true])).generation + 1 :=
  Mpire.Proofs.History.setters_force_restart ops o q s1 h

/-- Inside a kept-alive instance: new map parameters replace the old ones before the next chunk is taken, worker_init is
not re-run and worker_exit is deferred to the lethal pill (worker transducer). -/
example : Mpire.Worker.userActs (Mpire.Worker.run { hasInit := true, hasExit := true } {}
    [.chunk 1 [⟨0, .ok⟩], .pillNL, .newParams (some { hasInit := true, hasExit := true, lifespan := some 5 }),
     .chunk 2 [⟨1, .ok⟩], .pillNL, .pill]) = [(.init, 0), (.task, 0), (.task, 1), (.exit, 0)] := by decide +kernel

/-! ## the parameters of a call reach the workers that run its tasks (Model/ParamFlow.lean) -/
section ParamFlow
open Mpire.ParamFlow

/-- Every chunk is run with the parameters of the call it belongs to: for every number of calls on the kept-alive workers, whichever
of them change the parameters (a pill into every queue) or keep them (no pill), however the workers' takes interleave with the
dispatcher, whenever a slot is restarted (the new instance starts with what the pool has recorded and still meets what is queued). -/
theorem chunk_runs_with_its_calls_params (s : Sys) (h : Reachable s) (c : Nat) (p : PId) (hm : (c, p) ∈ s.log) :
    s.calls[c]? = some p :=
  Mpire.Proofs.ParamFlow.chunk_runs_with_its_calls_params s h c p hm

/-- In every reachable state: the pool has recorded the parameters of the latest call; every worker will meet every queued chunk
with the parameters of the chunk's call and ends up with the recorded ones; queued chunks belong to the latest call. -/
theorem queues_consistent (s : Sys) (h : Reachable s) :
    (∀ r, s.recorded = some r → s.calls.getLast? = some r) ∧
    (∀ w ∈ s.workers, consistent s.calls w.cur w.queue ∧ (∀ r, s.recorded = some r → finalParam w.cur w.queue = r)) ∧
    (∀ w ∈ s.workers, ∀ c, Item.chunk c ∈ w.queue → c + 1 = s.calls.length) :=
  let i := Mpire.Proofs.ParamFlow.reach_inv s h
  ⟨i.1, i.2.2.1, i.2.2.2.1⟩

/-- a slot restarted at any moment catches up: after working through its queue the new instance holds the recorded parameters -/
theorem restarted_worker_catches_up (s s' : Sys) (k : Nat) (h : Reachable s) (hs : step s (.restart k) = some s') :
    ∀ w ∈ s'.workers, ∀ r, s'.recorded = some r → finalParam w.cur w.queue = r :=
  Mpire.Proofs.ParamFlow.restarted_worker_catches_up s s' k h hs

/-- a call with the recorded parameters sends nothing and changes nothing about the workers -/
theorem same_params_no_pill (s s' : Sys) (p : PId) (hr : s.recorded = some p) (h : step s (.startCall p) = some s') :
    s'.workers = s.workers ∧ s'.recorded = some p :=
  Mpire.Proofs.ParamFlow.same_params_no_pill s s' p hr h

/-- non-vacuity: two calls with different parameters on two kept-alive workers, one restarted in between; the log is as claimed -/
example : (run {} [.fresh 2 7, .dispatch 0, .dispatch 1, .take 0, .endCall, .take 1, .take 0, .take 1, .startCall 9, .take 0, .dispatch 0,
    .restart 1, .dispatch 1, .take 0, .take 1, .take 1]).map (·.log) = some [(0, 7), (0, 7), (1, 9), (1, 9)] := by decide +kernel

end ParamFlow

end Mpire.C10
