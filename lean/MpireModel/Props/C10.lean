import MpireModel.Model.History
import MpireModel.Model.Worker
import MpireModel.Proofs.History
/-!
# C10 — keep_alive: same workers, but each call runs with its own parameters
-/
namespace Mpire.C10
open Mpire.History

/-- Every admitted call — on kept-alive workers or fresh ones — dispatches to workers that hold THAT call's
parameters and runs in THAT call's ordering mode. -/
theorem wrapper_matches_call (ops : List Op) (ordered : Bool) (p : ParamsId) (s1 : Ctl)
    (h : callStart (runOps {} ops) ordered p = some s1) : s1.workers = some p ∧ s1.keepOrder = ordered :=
  let f := Mpire.Proofs.History.fresh_at_call_start ops ordered p s1 h
  ⟨f.2.2.2.2.1, f.2.1⟩

/-- With keep_alive a successful call is followed by a call on the SAME worker instances (no new start) … -/
theorem instances_kept (ops : List Op) (o1 o2 : Bool) (p q : ParamsId) (d : Nat) (c : List Nat) (s1 : Ctl)
    (hk : (runOps {} ops).keepAlive = true) (hm : (runOps {} ops).mapRunning = false)
    (h : callStart (runOps {} (ops ++ [.call o1 p (.ok d c)])) o2 q = some s1) :
    s1.generation = (runOps {} (ops ++ [.call o1 p (.ok d c)])).generation ∧ s1.workers = some q :=
  Mpire.Proofs.History.keep_alive_reuses_workers ops o1 o2 p q d c s1 hk hm h

/-- … without keep_alive every call gets fresh worker instances … -/
theorem fresh_without_keep_alive (ops : List Op) (o1 o2 : Bool) (p q : ParamsId) (d : Nat) (c : List Nat) (s1 : Ctl)
    (hk : (runOps {} ops).keepAlive = false) (hm : (runOps {} ops).mapRunning = false)
    (h : callStart (runOps {} (ops ++ [.call o1 p (.ok d c)])) o2 q = some s1) :
    s1.generation = (runOps {} (ops ++ [.call o1 p (.ok d c)])).generation + 1 :=
  Mpire.Proofs.History.no_keep_alive_fresh_workers ops o1 o2 p q d c s1 hk hm h

/-- … and changing pass_worker_id / shared_objects / use_worker_state takes effect through fresh workers. -/
theorem setters_force_restart (ops : List Op) (o : Bool) (q : ParamsId) (s1 : Ctl)
    (h : callStart (runOps {} (ops ++ [.setPoolParam true])) o q = some s1) :
    s1.generation = (runOps {} (ops ++ [.setPoolParam true])).generation + 1 :=
  Mpire.Proofs.History.setters_force_restart ops o q s1 h

/-- Inside a kept-alive instance: new map parameters replace the old ones before the next chunk is taken, worker_init is
not re-run and worker_exit is deferred to the lethal pill (worker transducer). -/
example : Mpire.Worker.userActs (Mpire.Worker.run { hasInit := true, hasExit := true } {}
    [.chunk 1 [⟨0, .ok⟩], .pillNL, .newParams (some { hasInit := true, hasExit := true, lifespan := some 5 }),
     .chunk 2 [⟨1, .ok⟩], .pillNL, .pill]) = [(.init, 0), (.task, 0), (.task, 1), (.exit, 0)] := by decide +kernel

end Mpire.C10
