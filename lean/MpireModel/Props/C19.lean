import MpireModel.Model.Progress
import MpireModel.Proofs.Progress
import MpireModel.Model.BarHandshake
import MpireModel.Proofs.BarHandshake
/-!
# C19 — the progress bar counts every work item once and ends at the total

`PReachable n total s`: any interleaving of workers completing items (batched: a worker adds its pending count to its
slot of the shared array at most every `interval`, and unconditionally on a pill or at lifespan end), clock ticks, the
handler polling the array, and the total being set later (input of unknown length).
-/
namespace Mpire.C19
open Mpire.Progress

/-- Every completed item is counted exactly once: in the shared array or still pending in its worker. -/
theorem count_conserved (n : Nat) (tot : Option Nat) (s : PSt) (h : PReachable n tot s) :
    s.arr.sum + pendingSum s = s.done :=
  Mpire.Proofs.Progress.count_conserved n tot s h

/-- The displayed count never exceeds the number of items really completed (hence never the total) … -/
theorem displayed_le_done (n : Nat) (tot : Option Nat) (s : PSt) (h : PReachable n tot s) :
    s.shown ≤ s.arr.sum ∧ s.arr.sum ≤ s.done :=
  Mpire.Proofs.Progress.shown_le_done n tot s h

/-- … and never decreases. -/
theorem displayed_monotone (n : Nat) (tot : Option Nat) (s s' : PSt) (h : PReachable n tot s) (e : PEv)
    (hs : pstep s e = some s') : s.shown ≤ s'.shown :=
  Mpire.Proofs.Progress.shown_monotone n tot s s' h e hs

/-- A forced update leaves nothing pending in that worker … -/
theorem force_empties (n : Nat) (tot : Option Nat) (s s' : PSt) (h : PReachable n tot s) (w : Nat)
    (hs : pstep s (.force w) = some s') :
    (s'.workers[w]?.map (·.pending)) = some 0 ∧ s'.arr.sum + pendingSum s' = s'.done :=
  Mpire.Proofs.Progress.force_empties n tot s s' h w hs

/-- … so once every worker was forced (pill / lifespan end) the next poll displays exactly the number of items. -/
theorem final_eq_items (n : Nat) (tot : Option Nat) (s s' : PSt) (h : PReachable n tot s) (hp : pendingSum s = 0)
    (hs : pstep s .poll = some s') : s'.shown = s.done :=
  Mpire.Proofs.Progress.all_flushed_shows_all n tot s s' h hp hs

/-- Completion is signalled only when the displayed count equals the total. -/
theorem complete_only_at_total (n : Nat) (tot : Option Nat) (s s' : PSt) (e : PEv) (hs : pstep s e = some s')
    (hc : s.complete = false) (hc' : s'.complete = true) : s'.total = some s'.shown :=
  Mpire.Proofs.Progress.complete_only_at_total n tot s s' e hs hc hc'

example : (prun (pinit 2 (some 3)) [.taskDone 0, .taskDone 1, .poll, .tick, .tick, .taskDone 0, .poll, .force 1, .poll]).map
    (fun s => (s.shown, s.complete, s.done)) = some (3, true, 3) := by decide +kernel

/-! ## The completion handshake between the caller and the handler thread (`Mpire.BarHandshake`)

One pass of the handler's loop (`pass`) interleaved in any order with what the workers and the caller do to the shared
state: items flushed into the array, the total handed over late (unknown length), shutdown, exception and kill flags. -/
section Handshake
open Mpire.BarHandshake

/-- In every history of a call with `t` items (the workers report at most `t`, the caller hands over no total but `t`,
the bar was created with `t` or with no total): whenever the completion event is set, the displayed count and the
displayed total both equal `t`; the displayed count never exceeds what the workers reported. -/
theorem handshake_complete_means_total (t : Nat) (tot : Option Nat) (htot : tot = none ∨ tot = some t) (ops : List Op)
    (hok : OkHist t (init tot) ops) :
    let s := run (init tot) ops
    s.n ≤ s.arr ∧ s.arr ≤ t ∧ (s.complete = true → s.n = t ∧ s.barTotal = some t) := by
  have h := Mpire.Proofs.BarHandshake.run_inv t ops (init tot) (Mpire.Proofs.BarHandshake.inv_init t tot htot) hok
  exact ⟨h.1, h.2.1, h.2.2.2.2⟩

/-- The caller leaves `wait_until_progress_bar_is_complete` of a call without exception only with the bar at `t/t`. -/
theorem caller_goes_on_only_at_total (t : Nat) (tot : Option Nat) (htot : tot = none ∨ tot = some t) (ops : List Op)
    (hok : OkHist t (init tot) ops) (hgo : callerGoesOn (run (init tot) ops) = true)
    (hne : (run (init tot) ops).exc = false) :
    (run (init tot) ops).n = t ∧ (run (init tot) ops).barTotal = some t := by
  have h := handshake_complete_means_total t tot htot ops hok
  unfold callerGoesOn at hgo
  rw [hne, Bool.or_false] at hgo
  exact h.2.2 hgo

/-- The event is set only by the handler, in a pass that leaves the displayed count equal to the displayed total and
to the number of items reported at that moment (for any history, no hypothesis on it). -/
theorem complete_set_only_at_equality (s : HS) (op : Op) (hc : s.complete = false)
    (hc' : (step s op).complete = true) :
    op = .pass ∧ (step s op).barTotal = some (step s op).n ∧ (step s op).n = s.arr :=
  Mpire.Proofs.BarHandshake.complete_step s op hc hc'

/-- The displayed count never decreases and never runs ahead of the array, whatever the history. -/
theorem handshake_displayed_monotone (ops : List Op) (tot : Option Nat) (op : Op) :
    (run (init tot) ops).n ≤ (step (run (init tot) ops) op).n ∧
    (step (run (init tot) ops) op).n ≤ (step (run (init tot) ops) op).arr := by
  have h := Mpire.Proofs.BarHandshake.n_le_arr_run ops (init tot) (Nat.le_refl _)
  exact ⟨Mpire.Proofs.BarHandshake.n_mono_step _ op h, Mpire.Proofs.BarHandshake.n_le_arr_step _ op h⟩

/-- No lost wake-up: once every item is in the array and the total is known - already shown by the bar, or handed over
but not yet picked up, also when it equals what the bar shows already (all items were done before the length of the
input became known) and also for `T = 0` - the very next pass of the handler sets the completion event, so the caller
waits for at most one polling interval.  No reachability hypothesis: it holds in every state. -/
theorem handshake_completes_in_one_pass (s : HS) (T : Nat) (hx : s.exited = false) (he : s.exc = false)
    (hk : s.kill = false) (hs : s.shutdown = false) (ha : s.arr = T)
    (ht : (s.updated = true ∧ s.selfTotal = some T) ∨ (s.updated = false ∧ s.barTotal = some T)) :
    (pass s).complete = true ∧ (pass s).n = T ∧ (pass s).barTotal = some T ∧ (pass s).exited = false :=
  Mpire.Proofs.BarHandshake.live s T hx he hk hs ha ht

/-- Shutdown, exception and kill end the handler in its next pass, without touching the count or the event. -/
theorem handler_leaves_on_pill (s : HS) (hx : s.exited = false)
    (h : s.exc = true ∨ s.kill = true ∨ s.shutdown = true) :
    (pass s).exited = true ∧ (pass s).n = s.n ∧ (pass s).complete = s.complete :=
  Mpire.Proofs.BarHandshake.pill_exits s hx h

-- non-vacuity: unknown length, all three items done and shown before the total arrives; then the total, then one pass
example : let s := run (init none) [.add 2, .pass, .add 1, .pass, .pass, .setTotal 3, .pass]
    (s.n, s.barTotal, s.complete, callerGoesOn s) = (3, some 3, true, true) := by decide
example : OkHist 3 (init none) [.add 2, .pass, .add 1, .pass, .pass, .setTotal 3, .pass] := by
  simp [OkHist, step, init, pass]
-- empty input: total 0 known up front, first pass completes
example : (run (init (some 0)) [.pass]).complete = true := by decide

end Handshake

end Mpire.C19
