import MpireModel.Model.Progress
import MpireModel.Proofs.Progress
/-!
# C19 — the progress bar counts every work item once and ends at the total

`PReachable n total s`: any interleaving of workers completing items (batched: a worker adds its pending count to its
slot of the shared array at most every `interval`, and unconditionally on a pill or at lifespan end), clock ticks, the
handler polling the array, and the total being set later (input of unknown length).
-/
namespace Mpire.C19
open Mpire.Progress

/-- Every completed item is counted exactly once: in the shared array or still pending in its worker. -/
theorem count_conserved (n : Nat) (tot : Option Nat) (s : PSt) (h : PReachable n tot s) :
    s.arr.sum + pendingSum s = s.done :=
  Mpire.Proofs.Progress.count_conserved n tot s h

/-- The displayed count never exceeds the number of items really completed (hence never the total) … -/
theorem displayed_le_done (n : Nat) (tot : Option Nat) (s : PSt) (h : PReachable n tot s) :
    s.shown ≤ s.arr.sum ∧ s.arr.sum ≤ s.done :=
  Mpire.Proofs.Progress.shown_le_done n tot s h

/-- … and never decreases. -/
theorem displayed_monotone (n : Nat) (tot : Option Nat) (s s' : PSt) (h : PReachable n tot s) (e : PEv)
    (hs : pstep s e = some s') : s.shown ≤ s'.shown :=
  Mpire.Proofs.Progress.shown_monotone n tot s s' h e hs

/-- A forced update leaves nothing pending in that worker … -/
theorem force_empties (n : Nat) (tot : Option Nat) (s s' : PSt) (h : PReachable n tot s) (w : Nat)
    (hs : pstep s (.force w) = some s') :
    (s'.workers[w]?.map (·.pending)) = some 0 ∧ s'.arr.sum + pendingSum s' = s'.done :=
  Mpire.Proofs.Progress.force_empties n tot s s' h w hs

/-- … so once every worker was forced (pill / lifespan end) the next poll displays exactly the number of items. -/
theorem final_eq_items (n : Nat) (tot : Option Nat) (s s' : PSt) (h : PReachable n tot s) (hp : pendingSum s = 0)
    (hs : pstep s .poll = some s') : s'.shown = s.done :=
  Mpire.Proofs.Progress.all_flushed_shows_all n tot s s' h hp hs

/-- Completion is signalled only when the displayed count equals the total. -/
theorem complete_only_at_total (n : Nat) (tot : Option Nat) (s s' : PSt) (e : PEv) (hs : pstep s e = some s')
    (hc : s.complete = false) (hc' : s'.complete = true) : s'.total = some s'.shown :=
  Mpire.Proofs.Progress.complete_only_at_total n tot s s' e hs hc hc'

example : (prun (pinit 2 (some 3)) [.taskDone 0, .taskDone 1, .poll, .tick, .tick, .taskDone 0, .poll, .force 1, .poll]).map
    (fun s => (s.shown, s.complete, s.done)) = some (3, true, 3) := by decide +kernel

end Mpire.C19
