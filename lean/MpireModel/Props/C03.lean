import MpireModel.Model.Protocol
import MpireModel.Model.Dispatch
import MpireModel.Model.Worker
import MpireModel.Proofs.Liveness
import MpireModel.Proofs.Dispatch
import MpireModel.Proofs.Worker
import MpireModel.Model.ResultIter
import MpireModel.Proofs.ResultIter
/-!
# C03 — every call terminates (the protocol-logic part; OS pipes, feeder threads and scheduler fairness are not modelled)

No reachable deadlock state and a strictly decreasing measure, in each of the three layers whose interplay a call is:
the task/result protocol, the dispatcher with its look-ahead bound, and the worker instance.
Polling loops of the code (`get(timeout=0.01)`, `sleep(0.1)`) are stuttering and do not appear in the models.
-/
namespace Mpire.C03

/-- **Protocol, no deadlock**: as long as anything is left anywhere, some action of some actor is enabled. -/
theorem protocol_progress (s : Mpire.Proto.Sys) (hn : 0 < s.slots.length) (hq : s.quiescent = false) :
    ∃ e, (Mpire.Proto.step s e).isSome = true :=
  Mpire.Proofs.Liveness.proto_progress s hn hq

/-- **Protocol, no livelock**: every productive action strictly decreases a natural-number measure (restarts are
bounded separately: an instance is replaced only after completing ≥ L ≥ 1 tasks, C12). -/
theorem protocol_variant (s s' : Mpire.Proto.Sys) (e : Mpire.Proto.Ev) (hs : Mpire.Proto.step s e = some s')
    (hne : ∀ c ∈ s.pending, c ≠ [])
    (he : (∃ w ids, e = .dispatch w ids) ∨ (∃ w ids, e = .pop w ids) ∨ (∃ w t, e = .exec w t) ∨ (∃ w ids, e = .send w ids) ∨
          (∃ ids, e = .recv ids) ∨ (∃ t, e = .yield t))
    (hq : ∀ sl ∈ s.slots, ∀ c ∈ sl.queue, c ≠ []) (hr : ∀ b ∈ s.rq, b ≠ []) :
    Mpire.Proofs.Liveness.mu s' < Mpire.Proofs.Liveness.mu s :=
  Mpire.Proofs.Liveness.proto_variant s s' e hs hne he hq hr

/-- **Dispatcher**: never stalls for ANY max_tasks_active (also below the chunk size) … -/
theorem dispatcher_never_stalls (m : Nat) (chunks : List Nat) (hpos : ∀ k ∈ chunks, 0 < k) (s : Mpire.Dispatch.D)
    (h : Mpire.Dispatch.Reachable m chunks s) (hw : s.waiting = true) (hnf : s.finished = false) :
    (∃ s', Mpire.Dispatch.step s .draw = some s') ∨ (∃ s', Mpire.Dispatch.step s .dispatch = some s') ∨
      (∃ s', Mpire.Dispatch.step s .complete = some s') ∨ (∃ s', Mpire.Dispatch.step s .yield = some s') :=
  Mpire.Proofs.Dispatch.never_stalls m chunks hpos s h hw hnf

/-- … and every one of its actions decreases a measure. -/
theorem dispatcher_variant (m : Nat) (chunks : List Nat) (hpos : ∀ k ∈ chunks, 0 < k) (s s' : Mpire.Dispatch.D)
    (h : Mpire.Dispatch.Reachable m chunks s) (e : Mpire.Dispatch.Ev) (hs : Mpire.Dispatch.step s e = some s') :
    s'.mu < s.mu :=
  Mpire.Proofs.Dispatch.variant m chunks hpos s s' h e hs

/-- **Worker**: whatever it is fed and however its user functions end, the instance acknowledges every queue entry it
took (so `join` on its task queue returns) … -/
theorem worker_acknowledges_everything (p : Mpire.Worker.Params) (env : Mpire.Worker.Env) (items : List Mpire.Worker.Item) :
    (Mpire.Worker.run p env items).count .taskDone = (Mpire.Worker.run p env items).count .got :=
  Mpire.Proofs.Worker.task_done_balance p env items

/-- … and always ends by waiting for its results to be received and declaring itself dead. -/
theorem worker_always_finishes (p : Mpire.Worker.Params) (env : Mpire.Worker.Env) (items : List Mpire.Worker.Item) :
    ∃ pre, Mpire.Worker.run p env items = pre ++ [.waitAllReceived, .dead] ∨
           Mpire.Worker.run p env items = pre ++ [.waitAllReceived, .restartReq, .dead] :=
  Mpire.Proofs.Worker.dead_last p env items

/-! ## The caller's last wait: the result iterator ends (`Mpire.ResultIter`) -/
section ResultIterator
open Mpire.ResultIter

/-- Once the length is known and every result is in, taking results never blocks: `next` returns what is queued, oldest
first, and then raises StopIteration - blocking or not. -/
theorem iterator_drains_then_stops (s : It) (n : Nat) (b : Bool) (hw : s.waiting = false) (hn : s.nTasks = some n)
    (hr : s.nReturned + s.items.length = n) :
    (run s (List.replicate (s.items.length + 1) (.next b))).2 = s.items.map .value ++ [.stop] :=
  Mpire.Proofs.ResultIter.drain s n b hw hn hr

/-- A caller that waits in `next` is released by the length when it was only waiting for the end (an input of unknown
length whose last result was taken before the length became known): no lost wake-up at the end of a lazy call. -/
theorem waiting_caller_released_by_length (s : It) (n : Nat) (hw : s.waiting = true) (hn : s.nTasks = none)
    (hr : s.nReturned = n) :
    (step s (.setLength n)).2 = .stop ∧ (step s (.setLength n)).1.waiting = false := by
  simp [step, hn, hw, exhausted, hr]

/-- ... and by the next result otherwise. -/
theorem waiting_caller_released_by_result (s : It) (v : Nat) (hw : s.waiting = true) (hi : s.items = []) :
    (step s (.setOk v)).2 = .value v ∧ (step s (.setOk v)).1.waiting = false := by
  simp [step, hw, hi]

example : (run (init none) [.next true, .setLength 0]).2 = [.waits, .stop] := by decide

end ResultIterator

end Mpire.C03
