import MpireModel.Model.Exception
import MpireModel.Model.Worker
import MpireModel.Model.Protocol
import MpireModel.Proofs.Progress
import MpireModel.Proofs.Protocol
/-!
# C04 — exceptions propagate faithfully and promptly (decision logic; pickle itself is an input, see DESIGN.md)
-/
namespace Mpire.C04
open Mpire.Exc

/-- Whatever the worker ships for an exception can be serialised by the results queue (so it cannot be lost in the
queue's feeder thread). -/
theorem guard_sound (e : Exc) : serialisable e (guard e) = true :=
  Mpire.Proofs.Progress.guard_sound e

/-- Transport is faithful: same class, args and attributes when they can be serialised, otherwise a
CannotPickleExceptionError carrying the repr of the original. -/
theorem transport_faithful (e : Exc) :
    populate (guard e) = (if e.typeOk && e.argsOk && e.attrsOk then Rebuilt.same e.cls e.args e.attrs else Rebuilt.cannotPickle e.repr) :=
  Mpire.Proofs.Progress.transport_faithful e

/-- No class of exception raised by a user function escapes the worker loop unhandled; all but the internal
InterruptWorker are reported (or, for StopWorker, already known). -/
theorem every_raise_handled (k : ClassKind) : escapes k = false ∧ (k ≠ .interruptWorker → reported k = true) :=
  Mpire.Proofs.Progress.every_raise_handled k

/-- A raising task of a map-family call is reported (exception flag + failure record) and the instance stops: no
further task is started by it. -/
example : Mpire.Worker.run {} {} [.chunk 4 [⟨0, .ok⟩, ⟨1, .raises⟩, ⟨2, .ok⟩], .chunk 4 [⟨3, .ok⟩]] =
    [.alive, .resetRecv, .got, .workingOn 4, .stampStart .task, .user .task 0, .stampClear .task,
     .stampStart .task, .user .task 1, .raise_ 4, .stampClear .task, .taskDone, .waitAllReceived, .dead] := by decide +kernel

/-- `map` never returns a partial list and `imap` only ever yielded correct results: everything delivered in ANY
reachable state (failed or not) is the result of a task of this call that really ran, each at most once; a complete
result requires the quiescent non-failed state. -/
theorem yielded_before_raising_are_correct (n : Nat) (chunks : List (List Mpire.Proto.Tid)) (hnd : chunks.flatten.Nodup)
    (s : Mpire.Proto.Sys) (h : Mpire.Proto.Reachable n chunks s) :
    (∀ t ∈ s.delivered, t ∈ s.log ∧ t ∈ chunks.flatten) ∧ s.delivered.Nodup :=
  ⟨fun t ht => Mpire.Proofs.delivered_were_executed n chunks s h t ht, Mpire.Proofs.delivered_at_most_once n chunks hnd s h⟩

end Mpire.C04
