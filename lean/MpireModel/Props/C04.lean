import MpireModel.Model.Exception
import MpireModel.Model.Worker
import MpireModel.Model.Protocol
import MpireModel.Proofs.Progress
import MpireModel.Proofs.Protocol
import MpireModel.Proofs.FirstFailure
/-!
# C04 — exceptions propagate faithfully and promptly (decision logic; pickle itself is an input, see DESIGN.md)
-/
namespace Mpire.C04
open Mpire.Exc

/-- Whatever the worker ships for an exception can be serialised by the results queue (so it cannot be lost in the
queue's feeder thread). -/
theorem guard_sound (e : Exc) : serialisable e (guard e) = true :=
  Mpire.Proofs.Progress.guard_sound e

/-- Transport is faithful: same class, args and attributes when they can be serialised, otherwise a
CannotPickleExceptionError carrying the repr of the original. -/
theorem transport_faithful (e : Exc) :
    populate (guard e) = (if e.typeOk && e.argsOk && e.attrsOk then Rebuilt.same e.cls e.args e.attrs else Rebuilt.cannotPickle e.repr) :=
  Mpire.Proofs.Progress.transport_faithful e

/-- No class of exception raised by a user function escapes the worker loop unhandled; all but the internal
InterruptWorker are reported (or, for StopWorker, already known). -/
theorem every_raise_handled (k : ClassKind) : escapes k = false ∧ (k ≠ .interruptWorker → reported k = true) :=
  Mpire.Proofs.Progress.every_raise_handled k

/-- A raising task of a map-family call is reported (exception flag + failure record) and the instance stops: no
further task is started by it. -/
example : Mpire.Worker.run {} {} [.chunk 4 [⟨0, .ok⟩, ⟨1, .raises⟩, ⟨2, .ok⟩], .chunk 4 [⟨3, .ok⟩]] =
    [.alive, .resetRecv, .got, .workingOn 4, .stampStart .task, .user .task 0, .stampClear .task,
     .stampStart .task, .user .task 1, .raise_ 4, .stampClear .task, .taskDone, .waitAllReceived, .dead] := by decide +kernel

/-- `map` never returns a partial list and `imap` only ever yielded correct results: everything delivered in ANY
reachable state (failed or not) is the result of a task of this call that really ran, each at most once; a complete
result requires the quiescent non-failed state. -/
theorem yielded_before_raising_are_correct (n : Nat) (chunks : List (List Mpire.Proto.Tid)) (hnd : chunks.flatten.Nodup)
    (s : Mpire.Proto.Sys) (h : Mpire.Proto.Reachable n chunks s) :
    (∀ t ∈ s.delivered, t ∈ s.log ∧ t ∈ chunks.flatten) ∧ s.delivered.Nodup :=
  ⟨fun t ht => Mpire.Proofs.delivered_were_executed n chunks s h t ht, Mpire.Proofs.delivered_at_most_once n chunks hnd s h⟩

/-! ## Who reports the failure, and what the caller raises (Model/FirstFailure.lean)

Any number of workers whose function raised, the timeout handler, the death handler and the calling thread itself, in every
interleaving; several of them can get through the unlocked look-then-write and overwrite the one slot that names the failing job. -/
open Mpire.FirstFailure in
/-- What the caller raises was produced by a party of this call that found the flag down (or by the calling thread itself), and was
stored for the job whose id the caller read: that party's own job, or — a failure of `worker_init` — every open job, or the error the
death handler fails every other job with. -/
theorem raised_is_real (kinds : List (Kind × Job)) (jobs : List Job) (s : St) (h : Reachable kinds jobs s)
    (j : Job) (who : Nat) (hm : s.main = .raised j who) :
    ∃ g, s.sigs[who]? = some g ∧ g.through = true ∧
      (g.job = j ∨ (g.job = INIT ∧ j ∈ jobs) ∨ (∃ k, kinds[who]? = some (.death, k) ∧ j ∈ INIT :: EXIT :: jobs)) :=
  Mpire.Proofs.FirstFailure.raised_is_real kinds jobs s h j who hm

open Mpire.FirstFailure in
/-- Once the flag is up, a failure for the job named by the slot is in the cache or on its way there (queued, or its producer is
about to queue or store it) — whoever wrote the slot last. -/
theorem flag_names_a_failure (kinds : List (Kind × Job)) (jobs : List Job) (s : St) (h : Reachable kinds jobs s)
    (hf : s.flag = true) : pendingOrThere s s.slot :=
  Mpire.Proofs.FirstFailure.flag_names_a_failure kinds jobs s h hf

open Mpire.FirstFailure in
/-- The same for the job id the caller has read, however long ago and whatever was written into the slot since. -/
theorem read_names_a_failure (kinds : List (Kind × Job)) (jobs : List Job) (s : St) (h : Reachable kinds jobs s)
    (j : Job) (hm : s.main = .read j) : pendingOrThere s j :=
  Mpire.Proofs.FirstFailure.read_names_a_failure kinds jobs s h j hm

open Mpire.FirstFailure in
/-- "Within bounded time", part 1: with the flag up and nothing raised yet, somebody can always take a step … -/
theorem never_stuck (kinds : List (Kind × Job)) (jobs : List Job) (s : St) (h : Reachable kinds jobs s)
    (hf : s.flag = true) (hm : isRaised s.main = false) : ∃ t s', step s t = some s' :=
  Mpire.Proofs.FirstFailure.never_stuck kinds jobs s h hf hm

open Mpire.FirstFailure in
/-- … part 2: every step uses up some of a finite amount of work, so no run is longer than the rank of the state it starts in … -/
theorem run_bounded (s s' : St) (ts : List Step) (h : runSteps s ts = some s') : ts.length + rank s' ≤ rank s :=
  Mpire.Proofs.FirstFailure.run_bounded s s' ts h

open Mpire.FirstFailure in
/-- … part 3: and a run that cannot be extended has ended with the caller raising. -/
theorem maximal_runs_end_raised (kinds : List (Kind × Job)) (jobs : List Job) (s : St) (h : Reachable kinds jobs s)
    (hf : s.flag = true) (ts : List Step) (s' : St) (hr : runSteps s ts = some s') (hmax : ∀ t, step s' t = none) :
    isRaised s'.main = true :=
  Mpire.Proofs.FirstFailure.maximal_runs_end_raised kinds jobs s h hf ts s' hr hmax

open Mpire.FirstFailure in
/-- Not vacuous: two workers get through their looks before either raises the flag, the second overwrites the slot, a task
overruns at the same moment; the caller reads the slot and raises the failure of a worker — a maximal run. -/
example :
    (runSteps (init [(.worker, 3), (.worker, 3), (.timeout, 3)] [3])
      [.sig 0, .sig 1, .sig 2, .sig 0, .sig 1, .sig 1, .sig 0, .sig 2, .sig 2, .main, .sig 1, .sig 0, .main, .handler 1, .store 0, .main, .sig 2, .handler 0, .store 1, .store 0]).map
      (fun s => (s.flag, s.slot, s.main, s.queue, s.pend, (step s (.sig 0)).isNone, (step s (.sig 1)).isNone, (step s (.sig 2)).isNone,
        (step s .main).isNone, (step s (.handler 0)).isNone, (step s (.store 0)).isNone))
    = some (true, 3, MainPc.raised 3 0, [], [], true, true, true, true, true, true) := by
  rfl

end Mpire.C04
