import MpireModel.Model.Worker
import MpireModel.Model.Protocol
import MpireModel.Proofs.Worker
import MpireModel.Proofs.Protocol
import MpireModel.Model.Watch
import MpireModel.Proofs.Watch
/-!
# C12 — worker_lifespan bounds the work of every worker instance
-/
namespace Mpire.C12
open Mpire.Worker Mpire.Proofs.Worker

/-- With lifespan `L` and chunks of at most `c` tasks an instance executes at most `L + c − 1` tasks — for EVERY
script (any pills, parameter updates keeping the lifespan, apply tasks, failures). -/
theorem lifespan_bound (p : Params) (env : Env) (items : List Item) (L c : Nat) (hL : p.lifespan = some L) (hc : 1 ≤ c)
    (hsz : chunkSizeLe c items = true) (hl : sameLifespan p items = true) (hni : noInterrupt items = true) :
    (taskIds (run p env items)).length ≤ L + c - 1 :=
  Mpire.Proofs.Worker.lifespan_bound p env items L c hL hc hsz hl hni

/-- In a successful call the instance asks to be replaced iff it completed `L` or more tasks … -/
theorem restart_iff (p : Params) (env : Env) (items : List Item) (L : Nat) (hL : p.lifespan = some L)
    (hok : allOk items = true) (henv : okEnv env) (hl : sameLifespan p items = true) :
    (Act.restartReq ∈ run p env items ↔ L ≤ (taskIds (run p env items)).length) :=
  Mpire.Proofs.Worker.restart_iff p env items L hL hok henv hl

/-- … never without a lifespan … -/
theorem no_restart_without_lifespan (p : Params) (env : Env) (items : List Item) (hL : p.lifespan = none)
    (hl : sameLifespan p items = true) : Act.restartReq ∉ run p env items :=
  Mpire.Proofs.Worker.no_restart_without_lifespan p env items hL hl

/-- … and never once the call has failed. -/
theorem no_restart_after_failure (p : Params) (env : Env) (items : List Item) (h : env.excAtEnd = true) :
    Act.restartReq ∉ run p env items :=
  Mpire.Proofs.Worker.no_restart_after_failure p env items h

/-- Restarts never lose, duplicate or reorder work: a restart moves nothing in the protocol state (it is only
possible when the leaving instance holds no task and no unsent result), so the conservation laws of C02 hold
across any number of restarts. -/
theorem restart_moves_nothing (s s' : Mpire.Proto.Sys) (w : Nat) (h : Mpire.Proto.step s (.restart w) = some s') :
    s' = s ∧ ∃ sl, s.slots[w]? = some sl ∧ sl.hand = [] ∧ sl.buf = [] := by
  simp only [Mpire.Proto.step] at h
  split at h
  · rename_i sl hsl
    split at h
    · rename_i hc
      simp at h
      exact ⟨h.symm, sl, hsl, hc.1, hc.2⟩
    · simp at h
  · simp at h

example : (taskIds (run { lifespan := some 2 } {} [.chunk 5 [⟨0, .ok⟩, ⟨1, .ok⟩, ⟨2, .ok⟩], .chunk 5 [⟨3, .ok⟩]])).length = 3
    ∧ Act.restartReq ∈ run { lifespan := some 2 } {} [.chunk 5 [⟨0, .ok⟩, ⟨1, .ok⟩, ⟨2, .ok⟩], .chunk 5 [⟨3, .ok⟩]] := by
  decide +kernel

/-- "A routine restart is never mistaken for a failure": for every interleaving of the life of a worker slot — start (the child may
run before `Process.start()` has returned in the parent), marking itself alive, marking itself dead, process exit, replacement by a new
process object at the end of a lifespan — with the individual reads of the death handler's scan, the scan never reports a death as long
as nobody was killed. -/
theorem routine_restart_not_mistaken_for_failure (s : Mpire.Watch.DSt) (h : Mpire.Watch.DReachable s)
    (hk : s.everKilled = false) : s.scan ≠ .verdict true :=
  Mpire.Proofs.Watch.restart_not_death s h hk

end Mpire.C12
