import MpireModel.Model.Async
import MpireModel.Proofs.Async
/-!
# C09 — apply/apply_async: correct value, single callback, failures isolated

An apply job can be set by the results handler (the function returned or raised), by the timeout scan, by the
unexpected-death scan or by the worker_init-failure broadcast, in any order and any number of times (`vs`, `sets`:
arbitrary lists).
-/
namespace Mpire.C09
open Mpire.Async Mpire.Proofs.Async

/-- The first outcome wins; the job is ready and leaves the cache. -/
theorem set_at_most_once (cb ecb : Bool) (v : Val) (vs : List Val) :
    ((v :: vs).foldl AR.set (fresh cb ecb)).outcome = some v ∧
    ((v :: vs).foldl AR.set (fresh cb ecb)).ready = true ∧
    ((v :: vs).foldl AR.set (fresh cb ecb)).inCache = false :=
  set_first_wins cb ecb v vs

/-- Exactly one of callback / error_callback runs, exactly once, with that outcome. -/
theorem exactly_one_callback (v : Val) (vs : List Val) :
    ((v :: vs).foldl AR.set (fresh true true)).cbLog = [(match v with | .ok _ => true | .err _ => false, v)] :=
  Mpire.Proofs.Async.exactly_one_callback v vs

/-- Never more than one callback, whichever callbacks were given and whatever happens. -/
theorem at_most_one_callback (cb ecb : Bool) (vs : List Val) :
    ((vs.foldl AR.set (fresh cb ecb)).cbLog).length ≤ 1 :=
  Mpire.Proofs.Async.at_most_one_callback cb ecb vs

/-- `get()` returns the value / raises the exception of that first outcome. -/
theorem value_correct (cb ecb : Bool) (v : Val) (vs : List Val) :
    ((v :: vs).foldl AR.set (fresh cb ecb)).get = (match v with | .ok x => GetRes.value x | .err e => GetRes.raises e) :=
  get_returns_first cb ecb v vs

/-- Whatever is set on other jobs (failures, timeouts), job `j` is untouched. -/
theorem failure_isolated (c : Cache) (sets : List (Nat × Val)) (j : Nat) (hj : ∀ p ∈ sets, p.1 ≠ j) :
    (applySets c sets)[j]? = c[j]? :=
  Mpire.Proofs.Async.failure_isolated c sets j hj

/-- In a cache of fresh jobs every job ends with the first outcome proposed for IT, independently of the others. -/
theorem job_outcome (c : Cache) (hfresh : ∀ r ∈ c, r.isSet = false ∧ r.outcome = none) (sets : List (Nat × Val))
    (j : Nat) (r : AR) (hr : (applySets c sets)[j]? = some r) : r.outcome = firstFor j sets :=
  Mpire.Proofs.Async.job_outcome_of_fresh c hfresh sets j r hr

example : ((applySets [fresh true true, fresh true true] [(1, .err 7), (0, .ok 3), (1, .ok 9)]).map (·.cbLog)) =
    [[(true, .ok 3)], [(false, .err 7)]] := by decide +kernel

end Mpire.C09
