import MpireModel.Model.Async
import MpireModel.Proofs.Async
import MpireModel.Model.ApplyProto
import MpireModel.Proofs.ApplyProto
/-!
# C09 — apply/apply_async: correct value, single callback, failures isolated

An apply job can be set by the results handler (the function returned or raised), by the timeout scan, by the
unexpected-death scan or by the worker_init-failure broadcast, in any order and any number of times (`vs`, `sets`:
arbitrary lists).
-/
namespace Mpire.C09
open Mpire.Async Mpire.Proofs.Async

/-- The first outcome wins; the job is ready and leaves the cache. -/
theorem set_at_most_once (cb ecb : Bool) (v : Val) (vs : List Val) :
    ((v :: vs).foldl AR.set (fresh cb ecb)).outcome = some v ∧
    ((v :: vs).foldl AR.set (fresh cb ecb)).ready = true ∧
    ((v :: vs).foldl AR.set (fresh cb ecb)).inCache = false :=
  set_first_wins cb ecb v vs

/-- Exactly one of callback / error_callback runs, exactly once, with that outcome. -/
theorem exactly_one_callback (v : Val) (vs : List Val) :
    ((v :: vs).foldl AR.set (fresh true true)).cbLog = [(match v with | .ok _ => true | .err _ => false, v)] :=
  Mpire.Proofs.Async.exactly_one_callback v vs

/-- Never more than one callback, whichever callbacks were given and whatever happens. -/
theorem at_most_one_callback (cb ecb : Bool) (vs : List Val) :
    ((vs.foldl AR.set (fresh cb ecb)).cbLog).length ≤ 1 :=
  Mpire.Proofs.Async.at_most_one_callback cb ecb vs

/-- `get()` returns the value / raises the exception of that first outcome. -/
theorem value_correct (cb ecb : Bool) (v : Val) (vs : List Val) :
    ((v :: vs).foldl AR.set (fresh cb ecb)).get = (match v with | .ok x => GetRes.value x | .err e => GetRes.raises e) :=
  get_returns_first cb ecb v vs

/-- Whatever is set on other jobs (failures, timeouts), job `j` is untouched. -/
theorem failure_isolated (c : Cache) (sets : List (Nat × Val)) (j : Nat) (hj : ∀ p ∈ sets, p.1 ≠ j) :
    (applySets c sets)[j]? = c[j]? :=
  Mpire.Proofs.Async.failure_isolated c sets j hj

/-- In a cache of fresh jobs every job ends with the first outcome proposed for IT, independently of the others. -/
theorem job_outcome (c : Cache) (hfresh : ∀ r ∈ c, r.isSet = false ∧ r.outcome = none) (sets : List (Nat × Val))
    (j : Nat) (r : AR) (hr : (applySets c sets)[j]? = some r) : r.outcome = firstFor j sets :=
  Mpire.Proofs.Async.job_outcome_of_fresh c hfresh sets j r hr

example : ((applySets [fresh true true, fresh true true] [(1, .err 7), (0, .ok 3), (1, .ok 9)]).map (·.cbLog)) =
    [[(true, .ok 3)], [(false, .err 7)]] := by decide +kernel

/-! ## The pool as a whole (Model/ApplyProto.lean)

`s` is ANY state reachable from a fresh pool with `n` workers by ANY finite sequence of: submissions to any worker, workers
taking and finishing tasks (returning or raising), the results handler setting jobs, the timeout scan (interrupting a process
worker, or only setting the job when the function cannot be interrupted / its result is already on its way), and workers being
killed while they run a task.  The events of real pools are replayed through `step` by the C09 and C07 checks. -/
section pool
open Mpire.ApplyProto

/-- Nothing is lost and nothing is duplicated: a submitted job is settled or still somewhere in the machinery, and it is in
at most one place there. -/
theorem apply_no_job_lost (n : Nat) (s : Sys) (h : Reachable n s) :
    (∀ j ∈ s.submitted, isSettled s j = true ∨ j ∈ queued s ∨ j ∈ inHand s ∨ j ∈ inRq s) ∧
    (queued s ++ inHand s ++ inRq s).Nodup :=
  ⟨Mpire.Proofs.ApplyProto.no_loss n s h, Mpire.Proofs.ApplyProto.located_once n s h⟩

/-- Every job is settled at most once (one outcome, hence one callback — `exactly_one_callback` above). -/
theorem apply_settled_once (n : Nat) (s : Sys) (h : Reachable n s) : (s.settled.map (·.1)).Nodup :=
  Mpire.Proofs.ApplyProto.settled_nodup n s h

/-- "Every result becomes ready … once stop_and_join() returned": when nothing is in flight any more, the settled jobs are
exactly the submitted jobs, each once. -/
theorem apply_ready_after_join (n : Nat) (s : Sys) (h : Reachable n s) (hq : quiescent s = true) :
    (∀ j ∈ s.submitted, isSettled s j = true) ∧ (s.settled.map (·.1)).Perm s.submitted :=
  ⟨Mpire.Proofs.ApplyProto.quiescent_all_settled n s h hq, Mpire.Proofs.ApplyProto.quiescent_settled_perm n s h hq⟩

/-- The first outcome of a job is final, whatever happens afterwards. -/
theorem apply_first_outcome_final (s s' : Sys) (e : Ev) (j : Job) (o : Out) (hs : step s e = some s')
    (ho : outcomeOf s j = some o) : outcomeOf s' j = some o :=
  Mpire.Proofs.ApplyProto.outcome_stable s s' e j o hs ho

/-- "An exception or timeout in one apply task never changes the outcome of any other task": an event that concerns another
job (its submission, its run, its result, its timeout, the death of the worker running it) changes neither the outcome of job
`j` nor where `j` is. -/
theorem apply_failure_isolated (s s' : Sys) (e : Ev) (j : Job) (hs : step s e = some s') (hc : concerns s j e = false) :
    outcomeOf s' j = outcomeOf s j ∧ (j ∈ queued s' ↔ j ∈ queued s) ∧ (j ∈ inHand s' ↔ j ∈ inHand s) ∧
    (j ∈ inRq s' ↔ j ∈ inRq s) :=
  Mpire.Proofs.ApplyProto.isolation s s' e j hs hc

/-- "… and never stops the pool": while anything is in flight some worker or the results handler can move, and every such
move brings the pool closer to quiescence (the measure strictly decreases; only `timeoutOnly` leaves it unchanged, and that
happens at most once per job). -/
theorem apply_never_stuck (n : Nat) (s : Sys) (h : Reachable n s) (hq : quiescent s = false) :
    ∃ e s', step s e = some s' ∧ mu s' < mu s :=
  Mpire.Proofs.ApplyProto.progress n s h hq

theorem apply_moves_terminate (s s' : Sys) (e : Ev) (hs : step s e = some s')
    (he : (∀ j k, e ≠ .submit j k) ∧ (∀ j, e ≠ .timeoutOnly j)) : mu s' < mu s :=
  Mpire.Proofs.ApplyProto.mu_decreases s s' e hs he

/-- a mixed history: job 1 returns, job 2 raises, job 3 times out in a process worker, job 4 times out in a thread worker
and its late result is dropped, job 5's worker is killed -/
example : (run (init 2) [.submit 1 0, .submit 2 1, .submit 3 0, .submit 4 1, .submit 5 0, .take 0, .take 1, .finish 0 true,
    .finish 1 false, .handle, .handle, .take 0, .take 1, .timeoutProc 0, .timeoutOnly 4, .finish 1 true, .handle, .take 0,
    .die 0]).map (fun s => (s.settled, quiescent s)) =
    some ([(1, .ok), (2, .raised), (3, .timedOut), (4, .timedOut), (5, .died)], true) := by decide +kernel

end pool

end Mpire.C09
