import MpireModel.Model.Progress
import MpireModel.Model.Worker
import MpireModel.Proofs.Progress
import MpireModel.Proofs.Worker
import MpireModel.Proofs.Insights
/-!
# C18 — worker insights account for every task
-/
namespace Mpire.C18
open Mpire.Progress

/-- The five ratios lie in [0,1] … -/
theorem ratios_in_unit (parts : List Rat) (eps : Rat) (hp : ∀ p ∈ parts, 0 ≤ p) (he : 0 < eps) :
    ∀ r ∈ ratios parts eps, 0 ≤ r ∧ r ≤ 1 :=
  Mpire.Proofs.Progress.ratios_in_unit parts eps hp he

/-- … and sum to `T / (T + ε)`, i.e. to 1 up to the ε of the code. -/
theorem ratios_sum (parts : List Rat) (eps : Rat) (hp : ∀ p ∈ parts, 0 ≤ p) (he : 0 < eps) :
    (ratios parts eps).sum = parts.sum / (parts.sum + eps) ∧ (ratios parts eps).sum < 1 :=
  Mpire.Proofs.Progress.ratios_sum parts eps hp he

/-- At most five longest tasks, by decreasing duration, zero durations and unsynced arguments excluded, all taken from
the recorded entries. -/
theorem top5 (es : List (Nat × String)) :
    (top5 es).length ≤ 5 ∧ (Mpire.Progress.top5 es).Pairwise (fun a b => b.1 ≤ a.1) ∧
    (∀ e ∈ Mpire.Progress.top5 es, e.1 ≠ 0 ∧ e.2 ≠ "") ∧ (∀ e ∈ Mpire.Progress.top5 es, e ∈ es) :=
  ⟨Mpire.Proofs.Progress.top5_length es, Mpire.Proofs.Progress.top5_sorted es, Mpire.Proofs.Progress.top5_nonzero es,
   Mpire.Proofs.Progress.top5_from_input es⟩

/-- The completed-task counter of a worker id is bumped once per task that returns — so, summed over ids and over the
instances that successively hold an id, it is the number of successfully executed tasks: every successful task's result
is shipped exactly once (transducer), restarts included. -/
theorem completed_counts_every_task (p : Mpire.Worker.Params) (env : Mpire.Worker.Env) (items : List Mpire.Worker.Item)
    (hok : Mpire.Worker.allOk items = true) (henv : Mpire.Proofs.Worker.okEnv env)
    (hj : Mpire.Proofs.Worker.noExitJob items = true) :
    Mpire.Worker.sentOk (Mpire.Worker.run p env items) = Mpire.Worker.taskIds (Mpire.Worker.run p env items) :=
  Mpire.Proofs.Worker.results_sent_once p env items hok henv hj

example : ratios [1, 1, 2] 1 = [1/5, 1/5, 2/5] := by decide +kernel

/-! ## The bookkeeping over the life of a pool (Model/Insights.lean) -/
open Mpire.Insights in
/-- One entry per worker id, and the counters are exactly the numbers of tasks finished since the pool last started its workers —
whatever happened before that start, and however many worker instances reached their lifespan or were replaced since. -/
theorem counts_account_for_every_task (pre ops : List Op) (n : Nat) (h : ∀ o ∈ ops, o.isStart = false) :
    (counts (run (pre ++ .start n :: ops))).length = n ∧
    (counts (run (pre ++ .start n :: ops))).sum = nTasks n ops ∧
    ∀ w, w < n → (counts (run (pre ++ .start n :: ops)))[w]? = some (tasksOf ops w).length :=
  Mpire.Proofs.Insights.counts_account_for_every_task pre ops n h

open Mpire.Insights in
/-- the hypotheses are met by a history with an earlier start, a restart and a replaced instance; three tasks since the start -/
example : counts (run ([.start 3, .task 0 4 "x"] ++ .start 2 :: [.task 0 5 "a", .restart 0, .task 0 1 "b", .replace 1, .task 1 2 "c", .task 7 9 "z"])) = [2, 1] ∧
    nTasks 2 [.task 0 5 "a", .restart 0, .task 0 1 "b", .replace 1, .task 1 2 "c", .task 7 9 "z"] = 3 := by decide

open Mpire.Insights in
/-- A restart at the end of a lifespan changes no counter, leaves the successor with its predecessor's list of longest tasks, and
publishes that list. -/
theorem restart_is_invisible (s : St) (w : Nat) :
    counts (step s (.restart w)) = counts s ∧
    ((step s (.restart w))[w]?).map (·.own) = (s[w]?).map (·.own) ∧
    ((step s (.restart w))[w]?).map (·.pub) = (s[w]?).map (·.own) :=
  Mpire.Proofs.Insights.restart_is_invisible s w

open Mpire.Insights in
/-- Every history: five slots per worker id are published, and each holds a task that a worker really ran since the start, or is
empty. -/
theorem published_are_real_tasks (pre ops : List Op) (n : Nat) (h : ∀ o ∈ ops, o.isStart = false) :
    (published (run (pre ++ .start n :: ops))).length = 5 * n ∧
    ∀ e ∈ published (run (pre ++ .start n :: ops)), e = (0, "") ∨ ∃ w, w < n ∧ e ∈ tasksOf ops w :=
  Mpire.Proofs.Insights.published_are_real_tasks pre ops n h

open Mpire.Insights in
/-- When no instance was replaced after dying (always so in a call that succeeds outside apply mode), what a worker id has
published once it wrote back after its last task — as it does at the end of every call — are five entries, each a task it ran since
the start (or still empty), and every task it ran that is not among them took no longer than any that is: the five longest. -/
theorem published_holds_the_longest (pre ops : List Op) (n : Nat) (h : ∀ o ∈ ops, o.isStart = false)
    (hk : ∀ o ∈ ops, o.isReplace = false) (w : Nat) (hw : w < n) :
    ∃ x, (run (pre ++ .start n :: (ops ++ [.sync w])))[w]? = some x ∧ x.pub.length = 5 ∧
      (∀ e ∈ x.pub, e ∈ tasksOf ops w ∨ e = (0, "")) ∧
      (∀ t ∈ tasksOf ops w, t ∈ x.pub ∨ ∀ e ∈ x.pub, t.1 ≤ e.1) :=
  Mpire.Proofs.Insights.published_holds_the_longest pre ops n h hk w hw

open Mpire.Insights in
/-- Without that hypothesis the statement fails: an instance that dies takes what it had not yet written back with it (the property
asks for no more than "at most five, sorted"; this is recorded as a limit, not as a defect). -/
theorem replaced_instance_can_lose_a_record :
    ∃ ops : List Op, ∃ x, (run (.start 1 :: (ops ++ [.sync 0])))[0]? = some x ∧ (9, "long") ∈ tasksOf ops 0 ∧ (9, "long") ∉ x.pub ∧
      ∃ e ∈ x.pub, e.1 < 9 :=
  ⟨[.task 0 9 "long", .replace 0, .task 0 1 "short"], _, rfl, by decide, by decide, (1, "short"), by decide, by decide⟩

end Mpire.C18
