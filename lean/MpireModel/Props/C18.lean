import MpireModel.Model.Progress
import MpireModel.Model.Worker
import MpireModel.Proofs.Progress
import MpireModel.Proofs.Worker
/-!
# C18 — worker insights account for every task
-/
namespace Mpire.C18
open Mpire.Progress

/-- The five ratios lie in [0,1] … -/
theorem ratios_in_unit (parts : List Rat) (eps : Rat) (hp : ∀ p ∈ parts, 0 ≤ p) (he : 0 < eps) :
    ∀ r ∈ ratios parts eps, 0 ≤ r ∧ r ≤ 1 :=
  Mpire.Proofs.Progress.ratios_in_unit parts eps hp he

/-- … and sum to `T / (T + ε)`, i.e. to 1 up to the ε of the code. -/
theorem ratios_sum (parts : List Rat) (eps : Rat) (hp : ∀ p ∈ parts, 0 ≤ p) (he : 0 < eps) :
    (ratios parts eps).sum = parts.sum / (parts.sum + eps) ∧ (ratios parts eps).sum < 1 :=
  Mpire.Proofs.Progress.ratios_sum parts eps hp he

/-- At most five longest tasks, by decreasing duration, zero durations and unsynced arguments excluded, all taken from
the recorded entries. -/
theorem top5 (es : List (Nat × String)) :
    (top5 es).length ≤ 5 ∧ (Mpire.Progress.top5 es).Pairwise (fun a b => b.1 ≤ a.1) ∧
    (∀ e ∈ Mpire.Progress.top5 es, e.1 ≠ 0 ∧ e.2 ≠ "") ∧ (∀ e ∈ Mpire.Progress.top5 es, e ∈ es) :=
  ⟨Mpire.Proofs.Progress.top5_length es, Mpire.Proofs.Progress.top5_sorted es, Mpire.Proofs.Progress.top5_nonzero es,
   Mpire.Proofs.Progress.top5_from_input es⟩

/-- The completed-task counter of a worker id is bumped once per task that returns — so, summed over ids and over the
instances that successively hold an id, it is the number of successfully executed tasks: every successful task's result
is shipped exactly once (transducer), restarts included. -/
theorem completed_counts_every_task (p : Mpire.Worker.Params) (env : Mpire.Worker.Env) (items : List Mpire.Worker.Item)
    (hok : Mpire.Worker.allOk items = true) (henv : Mpire.Proofs.Worker.okEnv env)
    (hj : Mpire.Proofs.Worker.noExitJob items = true) :
    Mpire.Worker.sentOk (Mpire.Worker.run p env items) = Mpire.Worker.taskIds (Mpire.Worker.run p env items) :=
  Mpire.Proofs.Worker.results_sent_once p env items hok henv hj

example : ratios [1, 1, 2] 1 = [1/5, 1/5, 2/5] := by decide +kernel

end Mpire.C18
