import MpireModel.Model.Watch
import MpireModel.Model.ApplyHandover
import MpireModel.Model.Protocol
import MpireModel.Proofs.Watch
import MpireModel.Proofs.Protocol
/-!
# C07 — abrupt worker death is contained (watch logic; death while holding OS locks and the start-up window are excluded
by the property; crash points are enumerated on the real code under DetSim by the check)
-/
namespace Mpire.C07
open Mpire.Watch

/-- **No false positive**: for every interleaving of a worker's normal life (start, alive, exit, restart by a new
object) with the death scan's individual reads, the scan never declares a death when nobody was killed. -/
theorem restart_not_death (s : DSt) (h : DReachable s) (hk : s.everKilled = false) : s.scan ≠ .verdict true :=
  Mpire.Proofs.Watch.restart_not_death s h hk

/-- A killed worker does nothing any more (in particular it never clears its alive flag) … -/
theorem kill_freezes_worker (s : DSt) (hk : s.w.killed = true) (hos : s.w.osAlive = false) :
    dstep s .signalAlive = none ∧ dstep s .signalDead = none ∧ dstep s .processExit = none ∧ dstep s .restart = none :=
  Mpire.Proofs.Watch.kill_freezes_worker s hk hos

/-- … so **the next full pass of the scan detects it**: killed while its alive flag is set ⇒ verdict "died". -/
theorem death_detected (s : DSt) (h : DReachable s) (hk : s.w.killed = true) (hf : s.w.flag = true) (hi : s.scan = .idle) :
    (drun s [.read, .read, .read, .read, .read]).map (·.scan) = some (.verdict true) :=
  Mpire.Proofs.Watch.death_detected s h hk hf hi

/-- **Containment**: the death is a failure event of the protocol; whatever the dead instance held is dropped, nothing is
executed twice, nothing wrong is delivered, and a result list is complete only if every result had been delivered. -/
theorem contained (n : Nat) (chunks : List (List Mpire.Proto.Tid)) (hnd : chunks.flatten.Nodup) (s : Mpire.Proto.Sys)
    (h : Mpire.Proto.Reachable n chunks s) :
    (∀ t, s.log.count t ≤ 1) ∧ (∀ t ∈ s.delivered, t ∈ chunks.flatten) ∧
    (s.failed = false → s.quiescent = true → s.delivered.Perm chunks.flatten) :=
  ⟨fun t => Mpire.Proofs.exec_at_most_once n chunks hnd s h t,
   fun t ht => (Mpire.Proofs.delivered_were_executed n chunks s h t ht).2,
   fun hf hq => Mpire.Proofs.complete_delivers_all n chunks s h hf hq⟩

/-! ### Known finding, formalised (see DESIGN.md §7 and corpus/C07/apply_dequeue_window.json)

The apply hand-over is two queue entries.  The model below exhibits — and the implementation replays — the two ways in
which a worker killed between taking the pill and announcing the job makes the property fail; outside that window the
property holds (`apply_death_isolated_partial`). -/

/-- witness 1: killed after taking the task, before announcing it — the task is lost for good. -/
theorem known_finding_task_lost :
    Mpire.Handover.run {} [.takePill, .takeTask, .kill, .deathHandled] = some { w := .lost, alive := true } := by
  decide

/-- witness 2: killed after taking the pill — the replacement runs the bare task entry as a map chunk. -/
theorem known_finding_ran_as_chunk :
    Mpire.Handover.run {} [.takePill, .kill, .deathHandled, .replacementTakes] = some { w := .ranAsChunk, alive := true } := by
  decide

/-- Outside the window — the worker is killed before it touched the hand-over, or after it announced the job — the job
can still complete or has been failed with the death error: only the victim's own task is affected. -/
theorem apply_death_isolated_partial (s s1 s2 : Mpire.Handover.St) (hw : s.w = .queuedBoth ∨ s.w = .announced) (ha : s.alive = true)
    (h1 : Mpire.Handover.step s .kill = some s1) (h2 : Mpire.Handover.step s1 .deathHandled = some s2) :
    Mpire.Handover.canComplete s2 = true ∧ (s.w = .announced → s2.w = .done false) ∧ (s.w = .queuedBoth → s2.w = .queuedBoth) := by
  rcases hw with hw | hw <;> simp_all [Mpire.Handover.step, Mpire.Handover.canComplete] <;>
    (obtain ⟨_, rfl⟩ := h1; simp_all [Mpire.Handover.step, Mpire.Handover.canComplete]; try (subst h2; simp))

example : (drun {} [.signalAlive, .read, .read, .signalDead, .processExit, .read, .read, .read]).map (·.scan) =
    some (.verdict false) := by decide +kernel
example : (drun {} [.signalAlive, .kill, .read, .read, .read, .read, .read]).map (·.scan) = some (.verdict true) := by
  decide +kernel

end Mpire.C07
