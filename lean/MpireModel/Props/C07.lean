import MpireModel.Model.GracefulStop
import MpireModel.Proofs.GracefulStop
import MpireModel.Model.Watch
import MpireModel.Model.ApplyHandover
import MpireModel.Model.Protocol
import MpireModel.Proofs.Watch
import MpireModel.Proofs.Protocol
/-!
# C07 — abrupt worker death is contained (watch logic; death while holding OS locks and the start-up window are excluded
by the property; crash points are enumerated on the real code under DetSim by the check)
-/
namespace Mpire.C07
open Mpire.Watch

/-- **No false positive**: for every interleaving of a worker's normal life (start — with the child running before
`Process.start()` has returned in the parent —, alive, exit, restart by a new object) with the death scan's individual reads,
the scan never declares a death when nobody was killed. -/
theorem restart_not_death (s : DSt) (h : DReachable s) (hk : s.everKilled = false) : s.scan ≠ .verdict true :=
  Mpire.Proofs.Watch.restart_not_death s h hk

/-- A killed worker does nothing any more (in particular it never clears its alive flag) … -/
theorem kill_freezes_worker (s : DSt) (hk : s.w.killed = true) (hos : s.w.osAlive = false) :
    dstep s .signalAlive = none ∧ dstep s .signalDead = none ∧ dstep s .processExit = none ∧ dstep s .restart = none :=
  Mpire.Proofs.Watch.kill_freezes_worker s hk hos

/-- … so **the next full pass of the scan detects it**: killed while its alive flag is set ⇒ verdict "died". -/
theorem death_detected (s : DSt) (h : DReachable s) (hk : s.w.killed = true) (hf : s.w.flag = true) (hkn : s.w.known = true)
    (hi : s.scan = .idle) :
    (drun s [.read, .read, .read, .read, .read, .read]).map (·.scan) = some (.verdict true) :=
  Mpire.Proofs.Watch.death_detected s h hk hf hkn hi

/-- **Containment**: the death is a failure event of the protocol; whatever the dead instance held is dropped, nothing is
executed twice, nothing wrong is delivered, and a result list is complete only if every result had been delivered. -/
theorem contained (n : Nat) (chunks : List (List Mpire.Proto.Tid)) (hnd : chunks.flatten.Nodup) (s : Mpire.Proto.Sys)
    (h : Mpire.Proto.Reachable n chunks s) :
    (∀ t, s.log.count t ≤ 1) ∧ (∀ t ∈ s.delivered, t ∈ chunks.flatten) ∧
    (s.failed = false → s.quiescent = true → s.delivered.Perm chunks.flatten) :=
  ⟨fun t => Mpire.Proofs.exec_at_most_once n chunks hnd s h t,
   fun t ht => (Mpire.Proofs.delivered_were_executed n chunks s h t ht).2,
   fun hf hq => Mpire.Proofs.complete_delivers_all n chunks s h hf hq⟩

/-! ### Known findings, formalised (see DESIGN.md §7 and corpus/C07/)

The apply hand-over is two queue entries, each acknowledged only after it was processed.  The model exhibits — and the
implementation replays, from corpus/C07/ on every run — the crash points at which a killed worker makes the property
fail; at the other points it holds (`apply_death_isolated_partial`). -/

/-- witness 1 (dequeue window): killed after taking the task, before announcing it — the task is lost for good. -/
theorem known_finding_task_lost :
    (Mpire.Handover.run {} [.takePill, .ackPill, .takeTask, .kill, .deathHandled]).map (·.w) = some .lost := by
  decide

/-- witness 2 (dequeue window): killed after taking the pill — the replacement runs the bare task entry as a map chunk. -/
theorem known_finding_ran_as_chunk :
    (Mpire.Handover.run {} [.takePill, .kill, .deathHandled, .replacementTakes]).map (·.w) = some .ranAsChunk := by
  decide

/-- witness 3: killed inside worker_init — the death is attributed to the INIT job and the whole pool is flagged as failed. -/
theorem known_finding_death_in_worker_init :
    (Mpire.Handover.run { hasInit := true } [.takePill, .ackPill, .takeTask, .startInit, .kill, .deathHandled]).map
      (fun s => (s.w, s.poolFailed)) = some (.done false, true) := by
  decide

/-- witness 4: killed after sending the result, before acknowledging the task — the job completes, but the queue can
never be joined again. -/
theorem known_finding_unacknowledged_after_result :
    (Mpire.Handover.run {} [.takePill, .ackPill, .takeTask, .announce, .sendResult, .kill, .deathHandled]).map
      (fun s => (s.w, Mpire.Handover.joinable s)) = some (.done true, false) := by
  decide

/-- At the other crash points — the worker is killed before it touched the hand-over, or while the job it announced is the
task (it is running the user's function) — the death stays isolated: the job can still complete or has been failed with
the death error, the queue can still be joined and the pool is not flagged. -/
theorem apply_death_isolated_partial (s s1 s2 : Mpire.Handover.St)
    (hw : (s.w = .queuedBoth ∧ s.unacked = 0) ∨ (s.w = .announced ∧ s.unacked = 1)) (ha : s.alive = true) (hp : s.poolFailed = false)
    (h1 : Mpire.Handover.step s .kill = some s1) (h2 : Mpire.Handover.step s1 .deathHandled = some s2) :
    Mpire.Handover.isolated s2 = true ∧ (s.w = .announced → s2.w = .done false) ∧ (s.w = .queuedBoth → s2.w = .queuedBoth) := by
  obtain ⟨w, al, un, pf, hi⟩ := s
  simp only at hw ha hp
  subst ha hp
  rcases hw with ⟨hw, hu⟩ | ⟨hw, hu⟩ <;> subst hw hu <;>
    simp [Mpire.Handover.step] at h1 <;> subst h1 <;> simp [Mpire.Handover.step] at h2 <;> subst h2 <;>
    simp [Mpire.Handover.isolated, Mpire.Handover.canComplete, Mpire.Handover.joinable]

/-- the hypotheses of `apply_death_isolated_partial` are met by a reachable state: a worker that runs the task -/
example : (Mpire.Handover.run {} [.takePill, .ackPill, .takeTask, .announce]).map (fun s => (s.w, s.unacked, s.alive, s.poolFailed)) =
    some (.announced, 1, true, false) := by decide

example : (drun {} [.startReturns, .signalAlive, .read, .read, .signalDead, .processExit, .read, .read, .read, .read]).map (·.scan) =
    some (.verdict false) := by decide +kernel
example : (drun {} [.startReturns, .signalAlive, .kill, .read, .read, .read, .read, .read, .read]).map (·.scan) = some (.verdict true) := by
  decide +kernel
/-- the start window: the child has marked itself alive, the parent's object does not know it yet — not a death -/
example : (drun {} [.signalAlive, .read, .read, .read]).map (·.scan) = some (.verdict false) := by decide +kernel

/-! ## a worker killed on its way out of a call (Model/GracefulStop.lean; defect D30 and its repair) -/
section GracefulStop
open Mpire.GracefulStop

/-- The repaired `stop_and_join`, map-family call: for EVERY interleaving of the worker on its way out (poison pill, worker_exit,
exit result, marking itself dead), a kill at any moment, the death handler's two steps and `stop_and_join` itself — if
`stop_and_join` returns normally, the worker's exit result is with the main process (so a call completes after a death only when
every result, exit results included, had been delivered). -/
theorem repaired_join_returns_only_complete (s : S) (h : Reachable .final false s) (hr : s.mpc = .returned) : s.gotExit = true :=
  Mpire.Proofs.GracefulStop.final_returns_only_complete s h hr

/-- … it never hangs, in a map-family call or in apply mode (where the victim is replaced) … -/
theorem repaired_join_never_hangs (ap : Bool) (s : S) (h : Reachable .final ap s) : hung s = false :=
  Mpire.Proofs.GracefulStop.final_never_hangs ap s h

/-- … and from every reachable state it can come to an end within 12 steps. -/
theorem repaired_join_can_always_finish (ap : Bool) (s : S) (h : Reachable .final ap s) :
    ∃ es s', es.length ≤ 12 ∧ run s es = some s' ∧ (s'.mpc = .returned ∨ s'.mpc = .raised) :=
  Mpire.Proofs.GracefulStop.final_can_always_finish ap s h

/-- The pinned code (defect D30): a worker killed inside worker_exit while the death handler does not look in time — the call
returns without that worker's exit result. -/
theorem pinned_join_can_lose_exit_result :
    ∃ es s, run { variant := .pinned, apply := false } es = some s ∧ s.mpc = .returned ∧ s.gotExit = false :=
  Mpire.Proofs.GracefulStop.pinned_can_lose_exit_result

/-- A first attempt at the repair (wait while the slot's alive flag is set) spins forever in apply mode, where the death handler
starts a replacement that sets the flag again. -/
theorem first_attempt_can_hang : ∃ es s, run { variant := .waitSlot, apply := true } es = some s ∧ hung s = true :=
  Mpire.Proofs.GracefulStop.wait_slot_can_hang

/-- A second attempt (no look at the exception event after the handler threads are stopped) still loses the exit result: the
death handler clears the victim's flag before it fails the call, and `stop_and_join` slips through in between. -/
theorem second_attempt_can_lose_exit_result :
    ∃ es s, run { variant := .waitObject, apply := false } es = some s ∧ s.mpc = .returned ∧ s.gotExit = false :=
  Mpire.Proofs.GracefulStop.wait_object_can_lose_exit_result

/-- non-vacuity: an undisturbed shutdown is reachable and returns with the exit result -/
example : (run { variant := .final, apply := false } [.worker, .worker, .worker, .worker, .main, .main, .main, .main]).map
    (fun s => (s.mpc, s.gotExit)) = some (.returned, true) := by decide +kernel
/-- … and a kill inside worker_exit ends in `raised` -/
example : (run { variant := .final, apply := false } [.worker, .kill, .main, .handler, .main, .main, .handler, .main]).map
    (fun s => (s.mpc, s.gotExit)) = some (.raised, false) := by decide +kernel

end GracefulStop

end Mpire.C07
