import MpireModel.Model.Worker
import MpireModel.Proofs.Worker
/-!
# C11 — worker_init / worker_exit run exactly once per working worker instance

`run p env items` is everything one worker instance does (Model/Worker.lean, checked against the real
`AbstractWorker.run` on every run of the check) for its start parameters `p`, for what `get_task` returns
(`items`: chunks, pills, new map parameters, apply tasks — any sequence) and for how user functions end.
All theorems are for EVERY such script.
-/
namespace Mpire.C11
open Mpire.Worker Mpire.Proofs.Worker

/-- In a successful call the user-function invocations of an instance are `init? task+ exit?`, or none at all
(`posLifespan`: the lifespan is never 0 — `worker_lifespan` is validated to be a positive integer; with lifespan 0
the instance would run `worker_exit` without having run any task). -/
theorem instance_shape (p : Params) (env : Env) (items : List Item) (hok : allOk items = true) (henv : okEnv env)
    (hh : sameHooks p items = true) (hpos : posLifespan p items = true) : Shape (userActs (run p env items)) :=
  shape p env items hok henv hh hpos

/-- `worker_init` runs iff it is configured and the instance executes at least one task. -/
theorem init_iff_work (p : Params) (env : Env) (items : List Item) (hok : allOk items = true) (henv : okEnv env)
    (hh : sameHooks p items = true) :
    ((Kind.init, 0) ∈ userActs (run p env items) ↔ p.hasInit = true ∧ taskIds (run p env items) ≠ []) :=
  Mpire.Proofs.Worker.init_iff_work p env items hok henv hh

/-- At shutdown (the script ends with the poison pill — whether or not the lifespan ended the instance before it)
`worker_exit` runs iff it is configured and the instance executed at least one task. -/
theorem exit_iff_work_at_shutdown (p : Params) (env : Env) (pre : List Item) (hok : allOk pre = true) (henv : okEnv env)
    (hh : sameHooks p pre = true) (hpos : posLifespan p pre = true) :
    ((Kind.exit, 0) ∈ userActs (run p env (pre ++ [.pill])) ↔
      p.hasExit = true ∧ taskIds (run p env (pre ++ [.pill])) ≠ []) :=
  Mpire.Proofs.Worker.exit_iff_work_at_shutdown p env pre hok henv hh hpos

/-- One exit result is shipped per `worker_exit` invocation that returned (any script, any failures elsewhere;
`noExitJob`: no chunk or apply task carries the job id reserved for the exit function — real job ids are ≥ 0). -/
theorem exit_results_conserved (p : Params) (env : Env) (items : List Item) (henv : env.exitOut = .ok)
    (hj : noExitJob items = true) :
    exitResults (run p env items) = (userActs (run p env items)).count (Kind.exit, 0) :=
  Mpire.Proofs.Worker.exit_results_conserved p env items henv hj

/-- Every task an instance executes has its result shipped exactly once, in execution order. -/
theorem results_sent_once (p : Params) (env : Env) (items : List Item) (hok : allOk items = true) (henv : okEnv env)
    (hj : noExitJob items = true) :
    sentOk (run p env items) = taskIds (run p env items) :=
  Mpire.Proofs.Worker.results_sent_once p env items hok henv hj

/-- Every queue entry the instance takes is acknowledged by exactly one `task_done` — for EVERY script, failures
included (this is what lets `join_task_queues` return; used by C03). -/
theorem task_done_balance (p : Params) (env : Env) (items : List Item) :
    (run p env items).count .taskDone = (run p env items).count .got :=
  Mpire.Proofs.Worker.task_done_balance p env items

/-- The instance always ends by waiting for its results to be received and then declaring itself dead (a restart
request, if any, comes in between) — for EVERY script. -/
theorem dead_last (p : Params) (env : Env) (items : List Item) :
    ∃ pre, run p env items = pre ++ [.waitAllReceived, .dead] ∨ run p env items = pre ++ [.waitAllReceived, .restartReq, .dead] :=
  Mpire.Proofs.Worker.dead_last p env items

example : userActs (run { hasInit := true, hasExit := true, lifespan := some 2 } {}
    [.chunk 5 [⟨0, .ok⟩, ⟨1, .ok⟩], .chunk 5 [⟨2, .ok⟩], .pill]) = [(.init, 0), (.task, 0), (.task, 1), (.exit, 0)] := by
  decide +kernel

end Mpire.C11
