import MpireModel.Model.History
import MpireModel.Proofs.History
/-!
# C06 — a pool stays fully correct after any failed call

`ops` is ANY finite history of operations on one pool object (map-family calls in either ordering mode with any
parameters and ANY outcome — success, handled failure, lazy call left open, lazy call closed early, rejected while its
arguments are validated —, batches of apply/apply_async submissions that settle task by task or flag the whole pool as
failed (worker_init / worker_exit error), the setters, stop_and_join, terminate).  `callStart` is the prologue of the next map-family call up to the point where it starts
dispatching.  With the per-call state fresh, the call is an instance of the single-call protocol of C01/C02.
-/
namespace Mpire.C06
open Mpire.History

/-- Whatever happened before, a call that is admitted starts dispatching in the state of a fresh pool: exception flag
clear, ITS ordering mode, chunk numbering at 0, no completions recorded, workers holding ITS parameters. -/
theorem fresh_at_call_start (ops : List Op) (ordered : Bool) (p : ParamsId) (s1 : Ctl)
    (h : callStart (runOps {} ops) ordered p = some s1) : FreshFor s1 ordered p :=
  Mpire.Proofs.History.fresh_at_call_start ops ordered p s1 h

/-- A call is refused ("another map is running") only while a lazy call is still open … -/
theorem rejected_only_while_open (ops : List Op) (ordered : Bool) (p : ParamsId)
    (h : callStart (runOps {} ops) ordered p = none) : (runOps {} ops).mapRunning = true :=
  Mpire.Proofs.History.rejected_only_while_open ops ordered p h

/-- … and a call that finished, failed or whose generator was closed is no longer open. -/
theorem closed_or_finished_is_not_running (ops : List Op) (ordered : Bool) (p : ParamsId) (o : Outcome)
    (ho : ∀ d c, o ≠ .leftOpen d c) (hr : o ≠ .rejected) : (runOps {} (ops ++ [.call ordered p o])).mapRunning = false :=
  Mpire.Proofs.History.closed_or_finished_is_not_running ops ordered p o ho hr

/-- A call that is rejected while its arguments are validated starts nothing and leaves nothing behind: in particular not
the order mode it had announced. -/
theorem rejected_call_leaves_nothing (ops : List Op) (ordered : Bool) (p : ParamsId) :
    runOps {} (ops ++ [.call ordered p .rejected]) = { runOps {} ops with keepOrder := false } := by
  rw [Mpire.Proofs.History.runOps_snoc]; exact Mpire.Proofs.History.rejected_changes_nothing _ ordered p

/-- After an apply batch that flagged the pool as failed (worker_init / worker_exit error) the next call does not reuse the
stopped workers and does not see the stale exception flag. -/
theorem next_call_after_failed_apply_starts_workers (ops : List Op) (o2 : Bool) (p q : ParamsId) (d : Nat) (c : List Nat)
    (s1 : Ctl) (h : callStart (runOps {} (ops ++ [.apply p (.poolFailed d c)])) o2 q = some s1) :
    s1.generation = (runOps {} (ops ++ [.apply p (.poolFailed d c)])).generation + 1 ∧ s1.excFlag = false :=
  Mpire.Proofs.History.next_call_after_failed_apply_starts_workers ops o2 p q d c s1 h

/-- After a failed (or early-closed) call no worker survives, and the next call starts fresh ones. -/
theorem failure_drops_workers (ops : List Op) (ordered : Bool) (p : ParamsId) (d : Nat) (c : List Nat) :
    (runOps {} (ops ++ [.call ordered p (.fails d c)])).workers = none ∧
    (runOps {} (ops ++ [.call ordered p (.closedEarly d c)])).workers = none :=
  Mpire.Proofs.History.failure_drops_workers ops ordered p d c

theorem next_call_after_failure_starts_workers (ops : List Op) (o1 o2 : Bool) (p q : ParamsId) (d : Nat) (c : List Nat)
    (s1 : Ctl) (h : callStart (runOps {} (ops ++ [.call o1 p (.fails d c)])) o2 q = some s1) :
    s1.generation = (runOps {} (ops ++ [.call o1 p (.fails d c)])).generation + 1 :=
  Mpire.Proofs.History.next_call_after_failure_starts_workers ops o1 o2 p q d c s1 h

example : (callStart (runOps {} [.setKeepAlive true, .call true 1 (.ok 3 [0, 1]), .call false 1 (.fails 2 [1]),
    .call true 2 (.leftOpen 1 []), .call false 3 (.ok 1 [])]) false 4).map (fun s => (s.keepOrder, s.excFlag, s.taskIdx, s.workers)) =
    some (false, false, 0, some 4) := by decide +kernel

example : (callStart (runOps {} [.apply 1 (.settled 4 [0, 1, 1]), .call true 2 .rejected, .apply 1 (.poolFailed 2 [0]),
    .call false 3 (.fails 1 [])]) false 4).map (fun s => (s.excFlag, s.taskIdx, s.workers, s.generation)) =
    some (false, 0, some 4, 3) := by decide +kernel

end Mpire.C06
