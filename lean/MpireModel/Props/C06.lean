import MpireModel.Model.History
import MpireModel.Proofs.History
import MpireModel.Model.Permanent
import MpireModel.Proofs.Permanent
/-!
# C06 — a pool stays fully correct after any failed call

`ops` is ANY finite history of operations on one pool object (map-family calls in either ordering mode with any
parameters and ANY outcome — success, handled failure, lazy call left open, lazy call closed early, rejected while its
arguments are validated —, batches of apply/apply_async submissions that settle task by task or flag the whole pool as
failed (worker_init / worker_exit error), the setters, stop_and_join, terminate).  `callStart` is the prologue of the next map-family call up to the point where it starts
dispatching.  With the per-call state fresh, the call is an instance of the single-call protocol of C01/C02.
-/
namespace Mpire.C06
open Mpire.History

/-- Whatever happened before, a call that is admitted starts dispatching in the state of a fresh pool: exception flag
clear, ITS ordering mode, chunk numbering at 0, no completions recorded, workers holding ITS parameters. -/
theorem fresh_at_call_start (ops : List Op) (ordered : Bool) (p : ParamsId) (s1 : Ctl)
    (h : callStart (runOps {} ops) ordered p = some s1) : FreshFor s1 ordered p :=
  Mpire.Proofs.History.fresh_at_call_start ops ordered p s1 h

/-- A call is refused ("another map is running") only while a lazy call is still open … -/
theorem rejected_only_while_open (ops : List Op) (ordered : Bool) (p : ParamsId)
    (h : callStart (runOps {} ops) ordered p = none) : (runOps {} ops).mapRunning = true :=
  Mpire.Proofs.History.rejected_only_while_open ops ordered p h

/-- … and a call that finished, failed or whose generator was closed is no longer open. -/
theorem closed_or_finished_is_not_running (ops : List Op) (ordered : Bool) (p : ParamsId) (o : Outcome)
    (ho : ∀ d c, o ≠ .leftOpen d c) (hr : o ≠ .rejected) : (runOps {} (ops ++ [.call ordered p o])).mapRunning = false :=
  Mpire.Proofs.History.closed_or_finished_is_not_running ops ordered p o ho hr

/-- A call that is rejected while its arguments are validated starts nothing and leaves nothing behind: in particular not
the order mode it had announced. -/
theorem rejected_call_leaves_nothing (ops : List Op) (ordered : Bool) (p : ParamsId) :
    runOps {} (ops ++ [.call ordered p .rejected]) = { runOps {} ops with keepOrder := false } := by
  rw [Mpire.Proofs.History.runOps_snoc]; exact Mpire.Proofs.History.rejected_changes_nothing _ ordered p

/-- After an apply batch that flagged the pool as failed (worker_init / worker_exit error) the next call does not reuse the
stopped workers and does not see the stale exception flag. -/
theorem next_call_after_failed_apply_starts_workers (ops : List Op) (o2 : Bool) (p q : ParamsId) (d : Nat) (c : List Nat)
    (s1 : Ctl) (h : callStart (runOps {} (ops ++ [.apply p (.poolFailed d c)])) o2 q = some s1) :
    s1.generation = (runOps {} (ops ++ [.apply p (.poolFailed d c)])).generation + 1 ∧ s1.excFlag = false :=
  Mpire.Proofs.History.next_call_after_failed_apply_starts_workers ops o2 p q d c s1 h

/-- After a failed (or early-closed) call no worker survives, and the next call starts fresh ones. -/
theorem failure_drops_workers (ops : List Op) (ordered : Bool) (p : ParamsId) (d : Nat) (c : List Nat) :
    (runOps {} (ops ++ [.call ordered p (.fails d c)])).workers = none ∧
    (runOps {} (ops ++ [.call ordered p (.closedEarly d c)])).workers = none :=
  Mpire.Proofs.History.failure_drops_workers ops ordered p d c

theorem next_call_after_failure_starts_workers (ops : List Op) (o1 o2 : Bool) (p q : ParamsId) (d : Nat) (c : List Nat)
    (s1 : Ctl) (h : callStart (runOps {} (ops ++ [.call o1 p (.fails d c)])) o2 q = some s1) :
    s1.generation = (runOps {} (ops ++ [.call o1 p (.fails d c)])).generation + 1 :=
  Mpire.Proofs.History.next_call_after_failure_starts_workers ops o1 o2 p q d c s1 h

example : (callStart (runOps {} [.setKeepAlive true, .call true 1 (.ok 3 [0, 1]), .call false 1 (.fails 2 [1]),
    .call true 2 (.leftOpen 1 []), .call false 3 (.ok 1 [])]) false 4).map (fun s => (s.keepOrder, s.excFlag, s.taskIdx, s.workers)) =
    some (false, false, 0, some 4) := by decide +kernel

example : (callStart (runOps {} [.apply 1 (.settled 4 [0, 1, 1]), .call true 2 .rejected, .apply 1 (.poolFailed 2 [0]),
    .call false 3 (.fails 1 [])]) false 4).map (fun s => (s.excFlag, s.taskIdx, s.workers, s.generation)) =
    some (false, 0, some 4, 3) := by decide +kernel

/-! ## The permanent entries of the job cache are as new after a reset (`Mpire.Permanent`)

`_start_workers` resets the MAIN_PROCESS / INIT_FUNC result objects and the exit-result collector; between two resets the
getter hands out the MOST RECENT error and the collector every exit result in arrival order. -/
section PermanentEntries
open Mpire.Permanent

def exitOks : List EOp → List Nat
  | [] => []
  | .setOk v :: r => v :: exitOks r
  | _ :: r => exitOks r

/-- Whatever happened before a reset is gone: the object behaves as a fresh one (so a call after a failed call never
raises the earlier call's error). -/
theorem getter_reset_forgets (g : Getter) (before after : List GOp) :
    g.run (before ++ .reset :: after) = ({} : Getter).run after := by
  simp [Getter.run, List.foldl_append, Getter.step]

/-- The most recent store is what `get_exception` returns, however many stores preceded it. -/
theorem getter_latest_wins (g : Getter) (ops : List GOp) (v : Val) :
    (g.run (ops ++ [.set v])).getException = some v := by
  simp [Getter.run, List.foldl_append, Getter.step, Getter.getException]

/-- Nothing stored since the reset: not ready (a caller would wait, not read a stale error). -/
theorem getter_fresh_not_ready (g : Getter) (ops : List GOp) :
    (g.run (ops ++ [.reset])).ready = false ∧ (g.run (ops ++ [.reset])).getException = none := by
  simp [Getter.run, List.foldl_append, Getter.step, Getter.getException]

theorem exit_reset_forgets (s : ExitIt) (before after : List EOp) :
    s.run (before ++ .reset :: after) = ({} : ExitIt).run after := by
  simp [ExitIt.run, List.foldl_append, ExitIt.step]

/-- `get_exit_results()` after a reset and any stores: exactly the exit results stored since, in arrival order. -/
theorem exit_results_since_reset (s : ExitIt) (before after : List EOp) (hnr : ∀ op ∈ after, op ≠ .reset) :
    (s.run (before ++ .reset :: after)).getResults = exitOks after := by
  rw [exit_reset_forgets]
  have key : ∀ (ops : List EOp) (s0 : ExitIt), (∀ op ∈ ops, op ≠ .reset) →
      (s0.run ops).getResults = s0.items ++ exitOks ops := by
    intro ops
    induction ops with
    | nil => intro s0 _; simp [ExitIt.run, ExitIt.getResults, exitOks]
    | cons op r ih =>
      intro s0 h
      have hr := ih (s0.step op) (fun o ho => h o (by simp [ho]))
      simp only [ExitIt.run, List.foldl_cons] at hr ⊢
      rw [hr]
      cases op with
      | setOk v => simp [ExitIt.step, exitOks]
      | setErr e => simp [ExitIt.step, exitOks]
      | reset => exact absurd rfl (h .reset (by simp))
  simpa using key after {} hnr

example : (({} : Getter).run [.set (.err 1), .set (.err 2), .reset, .set (.err 3), .set (.err 4)]).getException = some (.err 4) := by decide
example : (({} : ExitIt).run [.setOk 1, .reset, .setOk 2, .setErr 9, .setOk 3]).getResults = [2, 3] := by decide

end PermanentEntries

end Mpire.C06
