import MpireModel.Model.Dispatch
import MpireModel.Proofs.Dispatch
/-!
# C15 — bounded look-ahead: max_tasks_active limits consumption of the input

`Reachable m chunks s`: `s` is reachable by SOME interleaving of consumer requests, dispatcher actions and worker
completions, for `max_tasks_active = m` and an input whose chunker yields chunks of the given lengths (any number
of them, any lengths — also larger than `m`).
-/
namespace Mpire.C15
open Mpire.Dispatch

/-- Every element drawn is in exactly one place: in the dispatcher's hand, being worked on, in the iterator, or
delivered. -/
theorem conservation (m : Nat) (chunks : List Nat) (s : D) (h : Reachable m chunks s) :
    s.drawn = s.delivered + s.running + s.ready + s.hand.getD 0 ∧ s.drawn + s.input.sum = chunks.sum :=
  Mpire.Proofs.Dispatch.conservation m chunks s h

/-- **The bound**: at every moment, elements drawn minus results delivered ≤ max_tasks_active + one chunk. -/
theorem lookahead_bound (m c : Nat) (chunks : List Nat) (hc : ∀ k ∈ chunks, k ≤ c) (s : D) (h : Reachable m chunks s) :
    s.drawn - s.delivered ≤ m + c :=
  Mpire.Proofs.Dispatch.lookahead_bound m c chunks hc s h

/-- Nothing is drawn while the consumer is not asking for results. -/
theorem no_draw_unasked (s s' : D) (h : step s .draw = some s') : s.waiting = true :=
  Mpire.Proofs.Dispatch.no_draw_unasked s s' h

/-- **Never stalls**: while the consumer is asking and the call is not over, some action is enabled — … -/
theorem never_stalls (m : Nat) (chunks : List Nat) (hpos : ∀ k ∈ chunks, 0 < k) (s : D) (h : Reachable m chunks s)
    (hw : s.waiting = true) (hnf : s.finished = false) :
    (∃ s', step s .draw = some s') ∨ (∃ s', step s .dispatch = some s') ∨ (∃ s', step s .complete = some s') ∨
      (∃ s', step s .yield = some s') :=
  Mpire.Proofs.Dispatch.never_stalls m chunks hpos s h hw hnf

/-- … and when nothing is in flight it is the dispatcher's own move (draw or submit), whatever the bound — also a
bound smaller than the chunk (this is the state in which the unrepaired loop spun forever). -/
theorem nothing_in_flight_progress (m : Nat) (chunks : List Nat) (hpos : ∀ k ∈ chunks, 0 < k) (s : D)
    (h : Reachable m chunks s) (hw : s.waiting = true) (hnf : s.finished = false) (hr : s.running = 0) (hy : s.ready = 0) :
    (∃ s', step s .draw = some s') ∨ (∃ s', step s .dispatch = some s') :=
  Mpire.Proofs.Dispatch.nothing_in_flight_progress m chunks hpos s h hw hnf hr hy

/-- Every action strictly decreases a natural-number measure: no execution of the dispatch logic is infinite. -/
theorem variant (m : Nat) (chunks : List Nat) (hpos : ∀ k ∈ chunks, 0 < k) (s s' : D) (h : Reachable m chunks s) (e : Ev)
    (hs : step s e = some s') : s'.mu < s.mu :=
  Mpire.Proofs.Dispatch.variant m chunks hpos s s' h e hs

example : (run (init 2 [5, 5]) [.ask, .draw, .dispatch, .complete, .complete, .complete, .yield, .ask, .yield, .ask, .yield,
    .ask, .draw]).map (fun s => (s.drawn, s.delivered, s.nActive)) = some (10, 3, 2) := by decide +kernel

end Mpire.C15
