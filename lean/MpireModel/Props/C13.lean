import MpireModel.Model.Args
import MpireModel.Model.Protocol
import MpireModel.Proofs.Args
/-!
# C13 — worker identity, private state and argument order
-/
namespace Mpire.C13
open Mpire.Args

/-- The extra arguments are, in this order and only when enabled: worker id, shared objects, worker state. -/
theorem extras_order (cfg : Extras) (wid : Nat) (state : PyVal) (sh : PyVal) :
    (extras { cfg with shared := some sh } wid state).Sublist [.atom wid, sh, state] ∧
    (extras { cfg with shared := none } wid state).Sublist [.atom wid, state] :=
  Mpire.Proofs.Args.extras_sublist cfg wid state sh

theorem extras_count (cfg : Extras) (wid : Nat) (state : PyVal) :
    (extras cfg wid state).length =
      (if cfg.passWorkerId then 1 else 0) + (if cfg.shared.isSome then 1 else 0) + (if cfg.useState then 1 else 0) :=
  Mpire.Proofs.Args.extras_length cfg wid state

theorem worker_id_first (cfg : Extras) (wid : Nat) (state : PyVal) (h : cfg.passWorkerId = true) :
    (extras cfg wid state).head? = some (.atom wid) :=
  Mpire.Proofs.Args.extras_first cfg wid state h

theorem state_last (cfg : Extras) (wid : Nat) (state : PyVal) (h : cfg.useState = true) :
    (extras cfg wid state).getLast? = some state :=
  Mpire.Proofs.Args.extras_last cfg wid state h

/-- Tasks and apply tasks receive the extras BEFORE their own (unpacked) arguments; hooks receive only the extras. -/
theorem extras_before_task_args (cfg : Extras) (wid : Nat) (state : PyVal) (arg : PyVal) :
    (taskCall cfg wid state arg).pos = extras cfg wid state ++ (convert arg none).pos ∧
    (taskCall cfg wid state arg).kw = (convert arg none).kw :=
  Mpire.Proofs.Args.task_call_prefix cfg wid state arg

theorem extras_before_apply_args (cfg : Extras) (wid : Nat) (state : PyVal) (args : PyVal) (kw : List (String × PyVal)) :
    (applyCall cfg wid state args kw).pos = extras cfg wid state ++ (convert args (some kw)).pos ∧
    (applyCall cfg wid state args kw).kw = kw :=
  Mpire.Proofs.Args.apply_call_prefix cfg wid state args kw

theorem hooks_get_only_extras (cfg : Extras) (wid : Nat) (state : PyVal) :
    (hookCall cfg wid state).pos = extras cfg wid state ∧ (hookCall cfg wid state).kw = [] := ⟨rfl, rfl⟩

/-- A slot is handed to a fresh instance only when the previous one holds nothing (see C12.restart_moves_nothing): in the
protocol a worker id is a list position, so ids are in `[0, n_jobs)` by construction and one slot has one instance. -/
theorem id_range (n : Nat) (chunks : List (List Mpire.Proto.Tid)) : (Mpire.Proto.init n chunks).slots.length = n := by
  simp [Mpire.Proto.init]

end Mpire.C13
