import MpireModel.Model.Protocol
import MpireModel.Proofs.Protocol
import MpireModel.Proofs.Refine
/-!
# C02 — every task is executed exactly once

`Reachable n chunks s`: `s` is reachable from the initial state of a call with `n` workers over the chunked
input `chunks` by SOME sequence of protocol events — i.e. under some interleaving of dispatcher, workers,
results handler, consumer, restarts, failure and terminate.  No bound on tasks, chunks, workers, restarts.
-/
namespace Mpire.C02
open Mpire.Proto

/-- Conservation (tasks): every task id is, with its multiplicity in the input, in exactly one of: not yet drawn,
in one task queue, in one worker's hands, executed (`log`), or discarded after a failure. -/
theorem tasks_conserved (n : Nat) (chunks : List (List Tid)) (s : Sys) (h : Reachable n chunks s) (t : Tid) :
    s.unexecuted t + s.log.count t = chunks.flatten.count t :=
  Mpire.Proofs.unexecuted_conserved n chunks s h t

/-- **Never repeated**: in every reachable state — success or failure, any restarts — no task has been invoked
more than once. -/
theorem exec_at_most_once (n : Nat) (chunks : List (List Tid)) (hnd : chunks.flatten.Nodup) (s : Sys)
    (h : Reachable n chunks s) (t : Tid) : s.log.count t ≤ 1 :=
  Mpire.Proofs.exec_at_most_once n chunks hnd s h t

/-- **Never skipped**: when the call completes without failure, every task has been invoked exactly as often as
it occurs in the input (once, for distinct ids). -/
theorem exec_exactly_once_on_success (n : Nat) (chunks : List (List Tid)) (s : Sys) (h : Reachable n chunks s)
    (hf : s.failed = false) (hq : s.quiescent = true) (t : Tid) : s.log.count t = chunks.flatten.count t :=
  Mpire.Proofs.exec_exactly_once_on_success n chunks s h hf hq t

/-- Without a failure nothing is ever discarded. -/
theorem no_loss_without_failure (n : Nat) (chunks : List (List Tid)) (s : Sys) (h : Reachable n chunks s)
    (hf : s.failed = false) : s.dropped = [] ∧ s.lost = [] :=
  Mpire.Proofs.no_loss_without_failure n chunks s h hf

/-- One chunk goes to exactly one queue. -/
theorem one_chunk_one_queue (s s' : Sys) (w : Nat) (ids : List Tid) (h : step s (.dispatch w ids) = some s') :
    (∀ w', w' ≠ w → s'.slots[w']? = s.slots[w']?) ∧
    (∃ sl, s.slots[w]? = some sl ∧ s'.slots[w]? = some { sl with queue := sl.queue ++ [ids] }) ∧
    s.pending = ids :: s'.pending :=
  Mpire.Proofs.dispatch_one_queue s s' w ids h

/-- **The worker transducer refines the protocol** (layers fit together): in a successful call an instance processes a
prefix of the chunks in its queue, each completely and in order — one result batch per chunk with exactly that chunk's
tasks … -/
theorem worker_processes_prefix (p : Mpire.Worker.Params) (env : Mpire.Worker.Env) (items : List Mpire.Worker.Item)
    (hok : Mpire.Worker.allOk items = true) (henv : Mpire.Proofs.Worker.okEnv env)
    (hj : Mpire.Proofs.Worker.noExitJob items = true) :
    ∃ k, Mpire.Proofs.Refine.batches (Mpire.Worker.run p env items) = (Mpire.Proofs.Refine.chunkIds items).take k ∧
         Mpire.Worker.taskIds (Mpire.Worker.run p env items) = ((Mpire.Proofs.Refine.chunkIds items).take k).flatten :=
  Mpire.Proofs.Refine.worker_processes_prefix p env items hok henv hj

/-- … and exactly that behaviour (`pop ; exec* ; send` per chunk) is accepted by `step` on the instance's slot. -/
theorem slot_events_accepted (n w : Nat) (cs rest : List (List Nat)) (hne : ∀ c ∈ cs, c ≠ []) (s : Sys)
    (sl : Slot) (hs : s.slots[w]? = some sl) (hq : sl.queue = cs ++ rest) (hh : sl.hand = []) (hb : sl.buf = []) :
    ∃ s', run s (Mpire.Proofs.Refine.slotEvents w cs) = some s' ∧
      s'.slots[w]? = some { sl with queue := rest } ∧ s'.rq = s.rq ++ cs ∧ s'.log = s.log ++ cs.flatten :=
  Mpire.Proofs.Refine.slot_events_accepted n w cs rest hne s sl hs hq hh hb

/-! Non-vacuity: a concrete run with a restart reaches a quiescent success state. -/
example : (run (init 2 [[0, 1], [2]])
    [.dispatch 0 [0, 1], .dispatch 1 [2], .pop 1 [2], .exec 1 2, .pop 0 [0, 1], .exec 0 0, .send 1 [2], .restart 1,
     .exec 0 1, .send 0 [0, 1], .recv [2], .yield 2, .recv [0, 1], .yield 0, .yield 1]).map
      (fun s => (s.quiescent, s.failed, s.delivered, s.log)) = some (true, false, [2, 0, 1], [2, 0, 1]) := by
  decide +kernel

end Mpire.C02
