import MpireModel.Model.Dispatch
import MpireModel.Proofs.Dispatch
/-!
# C16 — order_tasks assigns chunk i to worker i mod n_jobs
-/
namespace Mpire.C16
open Mpire.Dispatch

/-- With `order_tasks`, for EVERY interleaving of assignments, result arrivals and per-call resets, the i-th chunk
since the last reset goes to worker `i mod n` — whatever results arrived meanwhile. -/
theorem assign_round_robin (n : Nat) (ops : List AOp) :
    ∀ p ∈ runOps true n reset 0 ops, p.2 = p.1 % n :=
  Mpire.Proofs.Dispatch.assign_round_robin n ops reset 0 rfl

/-- Every assignment (either mode) names an existing worker, provided completions do. -/
theorem assign_in_range (orderTasks : Bool) (n : Nat) (hn : 0 < n) (a : Assign) (h : ∀ w ∈ a.lastCompleted, w < n) :
    (assign orderTasks n a).1 < n ∧ ∀ w ∈ (assign orderTasks n a).2.lastCompleted, w < n :=
  Mpire.Proofs.Dispatch.assign_in_range orderTasks n hn a h

example : runOps true 3 reset 0 [.assign, .completed 2, .assign, .assign, .completed 0, .assign, .reset, .assign] =
    [(0, 0), (1, 1), (2, 2), (3, 0), (0, 0)] := by decide +kernel
example : runOps false 3 reset 0 [.assign, .completed 2, .assign, .assign] = [(0, 0), (1, 2), (2, 1)] := by decide +kernel

end Mpire.C16
