import MpireModel.Model.Dispatch
import MpireModel.Proofs.Dispatch
import MpireModel.Model.History
import MpireModel.Proofs.History
/-!
# C16 — order_tasks assigns chunk i to worker i mod n_jobs
-/
namespace Mpire.C16
open Mpire.Dispatch

/-- With `order_tasks`, for EVERY interleaving of assignments, result arrivals and per-call resets, the i-th chunk
since the last reset goes to worker `i mod n` — whatever results arrived meanwhile. -/
theorem assign_round_robin (n : Nat) (ops : List AOp) :
    ∀ p ∈ runOps true n reset 0 ops, p.2 = p.1 % n :=
  Mpire.Proofs.Dispatch.assign_round_robin n ops reset 0 rfl

/-- In particular apply tasks submitted while a call is open (`AOp.apply` anywhere in `ops`) do not shift the numbering of its
chunks: they are handed out in an order of their own.  The pinned code used one counter for both — a witness (defect D32): -/
theorem pinned_apply_shifts_numbering : ∃ ops, ∃ p ∈ runOpsPinned 3 reset 0 ops, p.2 ≠ p.1 % 3 :=
  ⟨[.assign, .apply, .assign], (1, 2), by decide, by decide⟩

/-- Every assignment (either mode) names an existing worker, provided completions do. -/
theorem assign_in_range (orderTasks : Bool) (n : Nat) (hn : 0 < n) (a : Assign) (h : ∀ w ∈ a.lastCompleted, w < n) :
    (assign orderTasks n a).1 < n ∧ ∀ w ∈ (assign orderTasks n a).2.lastCompleted, w < n :=
  Mpire.Proofs.Dispatch.assign_in_range orderTasks n hn a h

/-- "numbering restarts at 0 with every call": whatever happened on the pool before — calls with any outcome, apply
batches (which advance the same counter), setters, joins — the assignment state a call starts dispatching with has its
counter at 0, so its i-th chunk goes to worker `i mod n` for every interleaving of assignments and result arrivals. -/
theorem every_call_numbers_from_zero (hist : List Mpire.History.Op) (ordered : Bool) (p : Mpire.History.ParamsId)
    (s1 : Mpire.History.Ctl) (h : Mpire.History.callStart (Mpire.History.runOps {} hist) ordered p = some s1)
    (n : Nat) (ops : List AOp) :
    ∀ q ∈ runOps true n { taskIdx := s1.taskIdx, lastCompleted := s1.lastCompleted } 0 ops, q.2 = q.1 % n := by
  have hf := Mpire.Proofs.History.fresh_at_call_start hist ordered p s1 h
  exact Mpire.Proofs.Dispatch.assign_round_robin n ops _ 0 hf.2.2.1

/-- the hypothesis is met after a history that contains apply batches -/
example : ((Mpire.History.callStart (Mpire.History.runOps {} [.apply 1 (.settled 5 [0, 1]), .call false 2 (.ok 3 [1])]) true 3).map
    (fun s => (s.taskIdx, s.lastCompleted))) = some (0, []) := by decide +kernel

example : runOps true 3 reset 0 [.assign, .completed 2, .assign, .assign, .completed 0, .assign, .reset, .assign] =
    [(0, 0), (1, 1), (2, 2), (3, 0), (0, 0)] := by decide +kernel
example : runOps false 3 reset 0 [.assign, .completed 2, .assign, .assign] = [(0, 0), (1, 2), (2, 1)] := by decide +kernel
example : runOps true 3 reset 0 [.assign, .apply, .assign, .apply, .apply, .assign] = [(0, 0), (1, 1), (2, 2)] := by decide +kernel

/-- Seen from a worker: during one call with `order_tasks`, worker `w` finds in its queue exactly the chunks `w, w+n, w+2n, …` of
that call, in that order — whatever results arrive and whatever apply tasks are submitted meanwhile.  (A worker instance that
reaches its lifespan is replaced under the same id and reads on from the same queue, so this is also what "across restarts" means
here.) -/
theorem queue_of_worker (n : Nat) (ops : List AOp) (w : Nat) (h : ∀ o ∈ ops, o ≠ .reset) :
    ((runOps true n reset 0 ops).filter (·.2 == w)).map (·.1) =
      (List.range (Mpire.Proofs.Dispatch.nAssign ops)).filter (· % n == w) :=
  Mpire.Proofs.Dispatch.queue_of_worker n ops w h

example : ((runOps true 3 reset 0 [.assign, .completed 2, .assign, .apply, .assign, .assign, .completed 0, .assign]).filter (·.2 == 1)).map (·.1) = [1, 4] := by
  decide

end Mpire.C16
