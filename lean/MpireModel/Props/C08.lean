import MpireModel.Model.Watch
import MpireModel.Model.Worker
import MpireModel.Proofs.Watch
import MpireModel.Model.KillSignal
import MpireModel.Proofs.KillSignal
/-!
# C08 — timeouts fire iff exceeded, and promptly (watch logic over a discrete clock; real signal latency not modelled)
-/
namespace Mpire.C08
open Mpire.Watch

/-- An idle slot (stamp 0) never times out, however long it idles. -/
theorem idle_never_times_out (now t : Nat) : timedOut none now t = false :=
  Mpire.Proofs.Watch.idle_never_times_out now t

/-- The stamp is set exactly while a user function runs: for EVERY script of the worker, stamp writes alternate
start/clear of the same kind and end cleared (across pills, parameter updates, failures) … -/
theorem stamps_balanced (p : Mpire.Worker.Params) (env : Mpire.Worker.Env) (items : List Mpire.Worker.Item) :
    (Mpire.Worker.run p env items).foldl Mpire.Proofs.Watch.stampFold (some none) = some none :=
  Mpire.Proofs.Watch.stamps_balanced p env items

/-- … hence, for every history of starts, finishes and clock ticks, a scan flags a slot only if a function has really
been running there for at least the timeout (**no false timeout**) … -/
theorem no_false_timeout (es : List TEv) (s : TSt) (h : trun {} es = some s) (t : Nat)
    (hf : timedOut s.slot.stamp s.now t = true) : ∃ since, s.running = some since ∧ since + t ≤ s.now :=
  Mpire.Proofs.Watch.no_false_timeout es s h t hf

/-- … and any scan at or after `start + timeout` flags it (**fires**) … -/
theorem timeout_detected (es : List TEv) (s : TSt) (h : trun {} es = some s) (t since : Nat)
    (hr : s.running = some since) (hl : since + t ≤ s.now) : timedOut s.slot.stamp s.now t = true :=
  Mpire.Proofs.Watch.timeout_detected es s h t since hr hl

/-- … and with scans every `P` ticks there is one within `P` of that instant (**promptly**: latency ≤ timeout + period,
independent of how long the function would block and of how many workers block). -/
theorem scan_latency (P x : Nat) (hP : 0 < P) : ∃ k, x ≤ k * P ∧ k * P < x + P :=
  Mpire.Proofs.Watch.scan_latency P x hP

/-! ### Interrupting the overrunning function(s): the running-task hand-shake -/

/-- The interrupting signal is only ever handled inside the protected region of `_run_safely` — it never escapes into
the worker loop — for every interleaving of the worker entering/leaving user functions with kill attempts. -/
theorem kill_signal_never_escapes (w : Mpire.Kill.W) (h : Mpire.Kill.Reachable w) : w.phase ≠ .escaped :=
  Mpire.Proofs.Kill.never_escapes w h

/-- At most one signal per execution of a user function ("a signal should only be sent once"). -/
theorem at_most_one_signal_per_run (w : Mpire.Kill.W) (h : Mpire.Kill.Reachable w) : w.sent ≤ 1 :=
  Mpire.Proofs.Kill.at_most_one_signal_per_run w h

/-- **The pool-wide kill reaches every worker**: after one round of locked test-and-signal over all workers (what
terminate() does) and delivery, no worker is inside a user function any more — however many were blocked and however
long they would have blocked. -/
theorem pool_kill_reaches_all (ws : List Mpire.Kill.W) (h : ∀ w ∈ ws, Mpire.Kill.Reachable w) :
    ∀ w ∈ Mpire.Kill.deliverAll (Mpire.Kill.killAll ws), w.phase ≠ .inside ∧ w.phase ≠ .leaving ∧ w.phase ≠ .escaped :=
  Mpire.Proofs.Kill.kill_round_reaches_all ws h

/-- A worker blocked in a user function is stopped by one kill attempt. -/
theorem blocked_worker_is_stopped (w : Mpire.Kill.W) (h : Mpire.Kill.Reachable w) (hi : w.phase = .inside) (hr : w.running = true) :
    ((Mpire.Kill.step w .tryKill).bind fun w1 => Mpire.Kill.step w1 .deliver).map (·.phase) = some .stopped :=
  Mpire.Proofs.Kill.blocked_worker_is_stopped w h hi hr

example : timedOut (some 10) 12 3 = false ∧ timedOut (some 10) 13 3 = true := by decide

end Mpire.C08
