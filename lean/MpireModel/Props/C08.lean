import MpireModel.Model.Watch
import MpireModel.Model.Worker
import MpireModel.Proofs.Watch
import MpireModel.Model.KillSignal
import MpireModel.Proofs.KillSignal
import MpireModel.Model.TimeoutScan
import MpireModel.Proofs.TimeoutScan
/-!
# C08 — timeouts fire iff exceeded, and promptly (watch logic over a discrete clock; real signal latency not modelled)
-/
namespace Mpire.C08
open Mpire.Watch

/-- An idle slot (stamp 0) never times out, however long it idles. -/
theorem idle_never_times_out (now t : Nat) : timedOut none now t = false :=
  Mpire.Proofs.Watch.idle_never_times_out now t

/-- The stamp is set exactly while a user function runs: for EVERY script of the worker, stamp writes alternate
start/clear of the same kind and end cleared (across pills, parameter updates, failures) … -/
theorem stamps_balanced (p : Mpire.Worker.Params) (env : Mpire.Worker.Env) (items : List Mpire.Worker.Item) :
    (Mpire.Worker.run p env items).foldl Mpire.Proofs.Watch.stampFold (some none) = some none :=
  Mpire.Proofs.Watch.stamps_balanced p env items

/-- … hence, for every history of starts, finishes and clock ticks, a scan flags a slot only if a function has really
been running there for at least the timeout (**no false timeout**) … -/
theorem no_false_timeout (es : List TEv) (s : TSt) (h : trun {} es = some s) (t : Nat)
    (hf : timedOut s.slot.stamp s.now t = true) : ∃ since, s.running = some since ∧ since + t ≤ s.now :=
  Mpire.Proofs.Watch.no_false_timeout es s h t hf

/-- … and any scan at or after `start + timeout` flags it (**fires**) … -/
theorem timeout_detected (es : List TEv) (s : TSt) (h : trun {} es = some s) (t since : Nat)
    (hr : s.running = some since) (hl : since + t ≤ s.now) : timedOut s.slot.stamp s.now t = true :=
  Mpire.Proofs.Watch.timeout_detected es s h t since hr hl

/-- … and with scans every `P` ticks there is one within `P` of that instant (**promptly**: latency ≤ timeout + period,
independent of how long the function would block and of how many workers block). -/
theorem scan_latency (P x : Nat) (hP : 0 < P) : ∃ k, x ≤ k * P ∧ k * P < x + P :=
  Mpire.Proofs.Watch.scan_latency P x hP

/-! ### Interrupting the overrunning function(s): the running-task hand-shake -/

/-- The interrupting signal is only ever handled inside the protected region of `_run_safely` — it never escapes into
the worker loop — for every interleaving of the worker entering/leaving user functions with kill attempts. -/
theorem kill_signal_never_escapes (w : Mpire.Kill.W) (h : Mpire.Kill.Reachable w) : w.phase ≠ .escaped :=
  Mpire.Proofs.Kill.never_escapes w h

/-- At most one signal per execution of a user function ("a signal should only be sent once"). -/
theorem at_most_one_signal_per_run (w : Mpire.Kill.W) (h : Mpire.Kill.Reachable w) : w.sent ≤ 1 :=
  Mpire.Proofs.Kill.at_most_one_signal_per_run w h

/-- **The pool-wide kill reaches every worker**: after one round of locked test-and-signal over all workers (what
terminate() does) and delivery, no worker is inside a user function any more — however many were blocked and however
long they would have blocked. -/
theorem pool_kill_reaches_all (ws : List Mpire.Kill.W) (h : ∀ w ∈ ws, Mpire.Kill.Reachable w) :
    ∀ w ∈ Mpire.Kill.deliverAll (Mpire.Kill.killAll ws), w.phase ≠ .inside ∧ w.phase ≠ .leaving ∧ w.phase ≠ .escaped :=
  Mpire.Proofs.Kill.kill_round_reaches_all ws h

/-- A worker blocked in a user function is stopped by one kill attempt. -/
theorem blocked_worker_is_stopped (w : Mpire.Kill.W) (h : Mpire.Kill.Reachable w) (hi : w.phase = .inside) (hr : w.running = true) :
    ((Mpire.Kill.step w .tryKill).bind fun w1 => Mpire.Kill.step w1 .deliver).map (·.phase) = some .stopped :=
  Mpire.Proofs.Kill.blocked_worker_is_stopped w h hi hr

example : timedOut (some 10) 12 3 = false ∧ timedOut (some 10) 13 3 = true := by decide

/-! ## One round of the timeout handler over all workers (`Mpire.TimeoutScan`) -/
section Round
open Mpire.TimeoutScan

/-- "Independent of how many workers are blocked", apply half: in a round in which nothing overruns that ends the call
(no map-family job, worker_init or worker_exit), EVERY worker that overruns an apply task is signalled in that same
round - the workers signalled are exactly those, in worker order, for any number of workers - and the handler goes on. -/
theorem round_signals_every_apply_overrun (cfg : Cfg) (c : List Job) (ws : List Wk)
    (hn : nothingToCheck cfg c = false)
    (hp : ∀ wk ∈ ws, poolOverrun cfg c wk = false)
    (hd : (ws.map (·.working)).Pairwise (· ≠ ·)) :
    (round cfg c ws).killed = Mpire.Proofs.TimeoutScan.expected cfg c 0 ws ∧ (round cfg c ws).returned = false ∧
    (round cfg c ws).exc = none := by
  unfold round
  simp only [hn, Bool.false_eq_true, ↓reduceIte]
  have := Mpire.Proofs.TimeoutScan.go_apply_only cfg ws 0 { cache := c } rfl hp hd
  simpa using this

/-- "Only if": a worker is signalled only when what it works on has a time limit that has expired (and then exactly
that worker, once). -/
theorem signalled_only_when_overrun (cfg : Cfg) (acc : Acc) (w : Nat) (wk : Wk)
    (h : overrun cfg acc.cache wk = false) : visit cfg acc w wk = acc :=
  Mpire.Proofs.TimeoutScan.visit_quiet cfg acc w wk h

/-- An apply task that overruns: that worker is signalled, that job is failed and leaves the cache, nothing else
changes and the round goes on. -/
theorem apply_overrun_fails_only_that_task (cfg : Cfg) (acc : Acc) (w : Nat) (wk : Wk) (hr : acc.returned = false)
    (h : applyOverrun cfg acc.cache wk = true) :
    ∃ j, wk.working = .job j ∧
      visit cfg acc w wk = { acc with killed := acc.killed ++ [w], failed := acc.failed ++ [(.job j, w)],
                                      cache := acc.cache.filter (fun x => x.id != j) } :=
  Mpire.Proofs.TimeoutScan.visit_apply cfg acc w wk hr h

/-- A map-family task, worker_init or worker_exit that overruns: the exception is flagged under that job, the worker is
signalled, the job is failed and the handler ends (the call is torn down by its caller). -/
theorem pool_overrun_ends_the_call (cfg : Cfg) (acc : Acc) (w : Nat) (wk : Wk) (hr : acc.returned = false)
    (h : poolOverrun cfg acc.cache wk = true) :
    (visit cfg acc w wk).returned = true ∧ (visit cfg acc w wk).exc = some wk.working ∧
    (visit cfg acc w wk).killed = acc.killed ++ [w] ∧ (wk.working, w) ∈ (visit cfg acc w wk).failed :=
  Mpire.Proofs.TimeoutScan.visit_pool cfg acc w wk hr h

/-- Without any time limit a round does nothing. -/
theorem no_limits_no_action (cfg : Cfg) (c : List Job) (ws : List Wk) (h : nothingToCheck cfg c = true) :
    round cfg c ws = { cache := c } := by
  unfold round; simp [h]

-- non-vacuity: three workers overrun their apply tasks (limit 3, started at 1, now 10), a fourth does not
example : (round { now := 10, initTimeout := none, exitTimeout := none }
    [⟨1, false, some 3⟩, ⟨2, false, some 3⟩, ⟨3, false, some 3⟩, ⟨4, false, some 30⟩]
    [⟨.job 1, none, some 1, none⟩, ⟨.job 2, none, some 1, none⟩, ⟨.job 4, none, some 1, none⟩, ⟨.job 3, none, some 1, none⟩]).killed
    = [0, 1, 3] := by decide

end Round

end Mpire.C08
