import MpireModel.Model.Chunk
import MpireModel.Proofs.Chunk
/-!
# C14 — chunking is an order-preserving partition with the promised sizes

Property theorems only; helper lemmas live in `Proofs/Chunk.lean`.
`chunkLoop A c lim xs cur ret` is the `while True` loop of `chunk_tasks`; `chunkTasks` the whole function;
`getNChunks` the (repaired) `get_n_chunks`; `numpyChunks` is `apply_numpy_chunking`.
Structure theorems hold for EVERY arithmetic `A` (so also for IEEE doubles); the size theorems are for
exact rational arithmetic `ratA` / integer arithmetic `intA`.
-/
namespace Mpire.C14
open Mpire

/-- **Partition** (any arithmetic): whatever `chunk_tasks` yields is a list of non-empty chunks whose
concatenation is exactly the first `min(len, iterable_len)` elements, in order. -/
theorem chunks_partition {α β} (A : Arith α) (xs : List β) (sized : Bool) (lim : Option Nat) (cs : CS α)
    (ns : Option Nat) (chunks : List (List β)) (h : chunkTasks A xs sized lim cs ns = .ok chunks) :
    chunks.flatten = cut lim xs ∧ ∀ ch ∈ chunks, ch ≠ [] :=
  Mpire.Proofs.chunkTasks_partition A xs sized lim cs ns chunks h

/-- **Size of every chunk** (any arithmetic): the loop's first chunk has `min(max(1,⌈cur⌉), remaining)`
elements, where remaining also respects `iterable_len`; the rest is the loop from the updated state. -/
theorem chunk_i_size {α β} (A : Arith α) (c : α) (lim : Option Nat) (xs : List β) (cur : α) (ret : Nat)
    (ch : List β) (rest : List (List β)) (h : chunkLoop A c lim xs cur ret = ch :: rest) :
    ch.length = min (A.want cur) (match lim with | none => xs.length | some l => min xs.length (l - ret)) :=
  Mpire.Proofs.chunkLoop_head_length A c lim xs cur ret ch rest h

/-- **Announced = produced** (any arithmetic): the chunk count `apply_numpy_chunking` announces (from
`get_n_chunks`) is the number of chunks it produces, for every array length, `iterable_len`, chunk size,
`n_splits` and `n_jobs`; and it never fails. -/
theorem announced_eq_produced {α β} (A : Arith α) (rows : List β) (lim : Option Nat) (cs : CS α)
    (ns : Option Nat) (nj : Nat) :
    ∃ chunks, (numpyChunks A rows lim cs ns nj).2 = .ok chunks ∧
      (numpyChunks A rows lim cs ns nj).1 = chunks.length :=
  Mpire.Proofs.numpy_announced A rows lim cs ns nj

/-- **Integer chunk size** `k ≥ 1`: every chunk but the last has exactly `k` elements. -/
theorem int_chunk_size {β} (k : Nat) (hk : 1 ≤ k) (lim : Option Nat) (xs : List β) :
    ∀ s ∈ ((chunkLoop intA (k : Int) lim xs (k : Int) 0).map List.length).dropLast, s = k :=
  Mpire.Proofs.int_sizes k hk lim xs

/-- **Real chunk size** `c ≥ 1` (exact arithmetic): every chunk but the last has `⌊c⌋` or `⌈c⌉` elements. -/
theorem real_chunk_size {β} (c : Rat) (hc : 1 ≤ c) (lim : Option Nat) (xs : List β) :
    ∀ s ∈ ((chunkLoop ratA c lim xs c 0).map List.length).dropLast,
      (s : Int) = c.floor ∨ (s : Int) = c.ceil :=
  Mpire.Proofs.real_sizes c hc lim xs

/-- **n_splits** over `n` known elements (exact arithmetic): exactly `min(n, s)` chunks … -/
theorem n_splits_count {β} (xs : List β) (s : Nat) (hs : 1 ≤ s) (chunks : List (List β))
    (h : chunkTasks ratA xs true none .none (some s) = .ok chunks) :
    chunks.length = min xs.length s :=
  Mpire.Proofs.splits_count xs s hs chunks h

/-- … whose sizes differ by at most one. -/
theorem n_splits_balanced {β} (xs : List β) (s : Nat) (hs : 1 ≤ s) (chunks : List (List β))
    (h : chunkTasks ratA xs true none .none (some s) = .ok chunks) :
    ∀ a ∈ chunks, ∀ b ∈ chunks, a.length ≤ b.length + 1 :=
  Mpire.Proofs.splits_balanced xs s hs chunks h

/-- Same two facts when the number of tasks is given by `iterable_len = l ≤ len` (generators). -/
theorem n_splits_iterable_len {β} (xs : List β) (sized : Bool) (l s : Nat) (hs : 1 ≤ s) (hl : l ≤ xs.length)
    (chunks : List (List β)) (h : chunkTasks ratA xs sized (some l) .none (some s) = .ok chunks) :
    chunks.length = min l s ∧ ∀ a ∈ chunks, ∀ b ∈ chunks, a.length ≤ b.length + 1 :=
  Mpire.Proofs.splits_lim xs sized l s hs hl chunks h

/-- More splits than tasks: every chunk is a single task. -/
theorem more_splits_than_tasks {β} (xs : List β) (s : Nat) (hs : xs.length ≤ s) (hs1 : 1 ≤ s)
    (chunks : List (List β)) (h : chunkTasks ratA xs true none .none (some s) = .ok chunks) :
    ∀ a ∈ chunks, a.length = 1 :=
  Mpire.Proofs.splits_singletons xs s hs hs1 chunks h

/-! Non-vacuity: concrete instances of the hypotheses (these are tests, not the claim). -/
example : (chunkTasks ratA [10, 11, 12, 13, 14] true none .none (some 2)).toOption = some [[10, 11, 12], [13, 14]] := by
  decide +kernel
example : (chunkTasks ratA [0, 1, 2, 3, 4, 5, 6] false (some 5) (.real (5/2)) none).toOption = some [[0, 1, 2], [3, 4]] := by
  decide +kernel
example : (numpyChunks ratA (List.range 15) none .none (some 13) 2).1 = 13 := by decide +kernel

end Mpire.C14
