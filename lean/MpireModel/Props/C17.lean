import MpireModel.Model.Signal
import MpireModel.Model.Protocol
import MpireModel.Proofs.Signal
import MpireModel.Proofs.Protocol
/-!
# C17 — SIGINT yields KeyboardInterrupt after clean shutdown, or correct completion

Model part: the mask logic (which of the two outcomes a SIGINT at a given point leads to) and the protocol facts
that make each outcome safe.  The instants themselves (every scheduling point of the caller) are enumerated on the
real code under DetSim by the check.
-/
namespace Mpire.C17
open Mpire.Signal Mpire.Proofs.Signal

/-- A SIGINT is ignored only while `DisableKeyboardInterruptSignal` is active (worker start-up, progress-bar thread
start): outside of it, with the default handler installed around the call, nothing is ever dropped. -/
theorem dropped_only_when_ignored (n : Nat) (ops : List Op) (s : St) (hr : run (idle .dfl n) ops = some s)
    (hnd : ∀ o ∈ ops, o ≠ .enterDisabled) : s.dropped = 0 :=
  Mpire.Proofs.Signal.dropped_only_when_ignored n ops s hr hnd

/-- A SIGINT that arrives while interrupts are deferred (`DelayedKeyboardInterrupt` around a queue operation) is not
lost: once the deferring blocks are left, KeyboardInterrupt has been raised in the caller. -/
theorem interrupt_reaches_caller (n : Nat) (ops : List Op) (s : St) (hr : run (idle .dfl n) ops = some s)
    (hnd : ∀ o ∈ ops, o ≠ .enterDisabled) (he : s.stack = []) (hc : 0 < countSig ops) : 0 < s.raised :=
  Mpire.Proofs.Signal.interrupt_reaches_caller n ops s hr hnd he hc

/-- The handler afterwards is the handler before (shared with C05). -/
theorem handler_restored (h : H) (n : Nat) (hx : h = .dfl ∨ h = .ign) (ops : List Op) (s : St)
    (hr : run (idle h n) ops = some s) (he : s.stack = []) : s.handler = h :=
  Mpire.Proofs.Signal.handler_balanced h n hx ops s hr he

/-- Outcome "KeyboardInterrupt": the interrupt is a failure event of the protocol; whatever happens afterwards no task
is executed twice and nothing delivered before was wrong (C02/C01 hold in every reachable state, failed or not). -/
theorem interrupted_call_is_safe (n : Nat) (chunks : List (List Mpire.Proto.Tid)) (hnd : chunks.flatten.Nodup)
    (s : Mpire.Proto.Sys) (h : Mpire.Proto.Reachable n chunks s) :
    (∀ t, s.log.count t ≤ 1) ∧ (∀ t ∈ s.delivered, t ∈ s.log ∧ t ∈ chunks.flatten) :=
  ⟨fun t => Mpire.Proofs.exec_at_most_once n chunks hnd s h t,
   fun t ht => Mpire.Proofs.delivered_were_executed n chunks s h t ht⟩

/-- Outcome "completion": a call that reaches the quiescent state without a failure event delivered everything. -/
theorem ignored_interrupt_completes_correctly (n : Nat) (chunks : List (List Mpire.Proto.Tid)) (s : Mpire.Proto.Sys)
    (h : Mpire.Proto.Reachable n chunks s) (hf : s.failed = false) (hq : s.quiescent = true) :
    s.delivered.Perm chunks.flatten :=
  Mpire.Proofs.complete_delivers_all n chunks s h hf hq

end Mpire.C17
