import MpireModel.Model.Protocol
import MpireModel.Model.Reorder
import MpireModel.Model.Chunk
import MpireModel.Proofs.Protocol
import MpireModel.Proofs.Reorder
import MpireModel.Proofs.Chunk
import MpireModel.Model.ResultIter
import MpireModel.Proofs.ResultIter
/-!
# C01 — map-family results equal sequential evaluation

Composition of three layers: chunking is a partition of the (cut) input (C14); the protocol delivers, on
success, exactly the multiset of tasks whatever the interleaving / number of workers / restarts (this file,
from the conservation laws of C02); the ordering layer (imap's reorder buffer, map's sort) turns any arrival
order into input order.
-/
namespace Mpire.C01
open Mpire.Proto Mpire.Reorder

/-- **Unordered variants**: a call that completes successfully has delivered exactly the multiset of its tasks. -/
theorem complete_delivers_all (n : Nat) (chunks : List (List Tid)) (s : Sys) (h : Reachable n chunks s)
    (hf : s.failed = false) (hq : s.quiescent = true) : s.delivered.Perm chunks.flatten :=
  Mpire.Proofs.complete_delivers_all n chunks s h hf hq

/-- Everything ever handed to the consumer — also before a later failure — is the result of a task of this call
that was really executed, and no result is handed out twice. -/
theorem delivered_are_results (n : Nat) (chunks : List (List Tid)) (hnd : chunks.flatten.Nodup) (s : Sys)
    (h : Reachable n chunks s) :
    (∀ t ∈ s.delivered, t ∈ s.log ∧ t ∈ chunks.flatten) ∧ s.delivered.Nodup :=
  ⟨fun t ht => Mpire.Proofs.delivered_were_executed n chunks s h t ht,
   Mpire.Proofs.delivered_at_most_once n chunks hnd s h⟩

/-- **imap**: whatever order the tagged results arrive in, at every moment the values yielded so far are a prefix
of the sequential results … -/
theorem reorder_prefix {β} (vals : List β) (arrivals : List (Nat × β)) (h : arrivals.Perm (tagged vals)) (k : Nat) :
    imapPrefix (arrivals.take k) <+: vals :=
  Mpire.Proofs.reorder_prefix vals arrivals h k

/-- … and once all have arrived, exactly the sequential results. -/
theorem reorder_complete {β} (vals : List β) (arrivals : List (Nat × β)) (h : arrivals.Perm (tagged vals)) :
    imap arrivals = vals :=
  Mpire.Proofs.reorder_complete vals arrivals h

/-- **map**: sorting the tagged results by index gives the sequential results. -/
theorem map_sort {β} (vals : List β) (results : List (Nat × β)) (h : results.Perm (tagged vals)) :
    mapSort results = vals :=
  Mpire.Proofs.map_sort vals results h

/-- **Chunking is transparent**: the chunks the dispatcher works through concatenate to the cut input, whatever
`chunk_size` / `n_splits` (re-export of C14 for any arithmetic). -/
theorem chunking_transparent {α β} (A : Arith α) (xs : List β) (sized : Bool) (lim : Option Nat) (cs : CS α)
    (ns : Option Nat) (chunks : List (List β)) (h : chunkTasks A xs sized lim cs ns = .ok chunks) :
    chunks.flatten = cut lim xs :=
  (Mpire.Proofs.chunkTasks_partition A xs sized lim cs ns chunks h).1

/-- **End to end, ordered**: if the input elements are numbered `0..m-1`, the call over ANY chunking of them
completed successfully, and each delivered task `t` carries the tagged value `(t, f t)`, then `map` (sort) and
`imap` (reorder buffer, fed in delivery order) both return `[f 0, …, f (m-1)]`. -/
theorem ordered_equals_sequential {β} (f : Nat → β) (m n : Nat) (chunks : List (List Tid))
    (hc : chunks.flatten = List.range m) (s : Sys) (h : Reachable n chunks s)
    (hf : s.failed = false) (hq : s.quiescent = true) :
    mapSort (s.delivered.map fun t => (t, f t)) = (List.range m).map f ∧
    imap (s.delivered.map fun t => (t, f t)) = (List.range m).map f := by
  have hp := Mpire.Proofs.complete_delivers_all n chunks s h hf hq
  rw [hc] at hp
  have ht := Mpire.Proofs.tagged_range f m
  have hperm : (s.delivered.map fun t => (t, f t)).Perm (tagged ((List.range m).map f)) := by
    rw [ht]; exact hp.map _
  exact ⟨Mpire.Proofs.map_sort _ _ hperm, Mpire.Proofs.reorder_complete _ _ hperm⟩

example : imap [(2, "c"), (0, "a"), (1, "b")] = ["a", "b", "c"] ∧ imapPrefix [(2, "c"), (0, "a")] = ["a"] := by
  decide +kernel

/-! ## The object the caller reads the results from (`Mpire.ResultIter`, async_result.py UnorderedAsyncResultIterator) -/
section ResultIterator
open Mpire.ResultIter

/-- Every result the results handler stores is handed to the caller exactly once and in arrival order, for EVERY
history of `_set` (results and the call's exception), `set_length`, blocking and non-blocking `next`, and time-outs of
a waiting `next`: what `next` returned so far, followed by what is still queued, is the sequence of stored results. -/
theorem results_handed_over_once_in_arrival_order (n : Option Nat) (ops : List Op) :
    values (run (init n) ops).2 ++ (run (init n) ops).1.items = oks ops := by
  have h := Mpire.Proofs.ResultIter.run_fifo ops (init n) (Mpire.Proofs.ResultIter.inv_init n)
  simpa [ResultIter.init] using h

/-- The counters are those of that sequence: received = returned + queued, and a caller waits only on an empty queue. -/
theorem iterator_counters (n : Option Nat) (ops : List Op) :
    let s := (run (init n) ops).1
    s.nReceived = s.nReturned + s.items.length ∧ (s.waiting = true → s.items = []) := by
  have h := Mpire.Proofs.ResultIter.run_inv ops (init n) (Mpire.Proofs.ResultIter.inv_init n)
  exact ⟨h.2, h.1⟩

/-- Iteration ends (`StopIteration`) only when nothing is queued and the number returned equals both the announced
length and the number received: the caller never loses a result to an early end. -/
theorem stop_only_after_everything (n : Option Nat) (ops : List Op) (op : Op)
    (hs : (step (run (init n) ops).1 op).2 = .stop) :
    let s := (step (run (init n) ops).1 op).1
    s.items = [] ∧ s.nTasks = some s.nReturned ∧ s.nReceived = s.nReturned ∧ s.waiting = false :=
  Mpire.Proofs.ResultIter.stop_means_all _ op
    (Mpire.Proofs.ResultIter.run_inv ops (init n) (Mpire.Proofs.ResultIter.inv_init n)) hs

/-- A second, different length is refused and changes nothing (this is the `ValueError` by which defect D1 showed). -/
theorem conflicting_length_refused (s : It) (m k : Nat) (hm : s.nTasks = some m) (hk : m ≠ k) :
    step s (.setLength k) = (s, .valueError) := by
  simp [ResultIter.step, hm, hk]

example : (run (init none) [.setOk 7, .next true, .next true, .setOk 8, .setLength 2, .next false]).2 =
    [.none, .value 7, .waits, .value 8, .none, .stop] := by decide

end ResultIterator

end Mpire.C01
