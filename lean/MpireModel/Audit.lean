import MpireModel.Props.C14
#print axioms Mpire.C14.chunks_partition
#print axioms Mpire.C14.chunk_i_size
#print axioms Mpire.C14.announced_eq_produced
#print axioms Mpire.C14.int_chunk_size
#print axioms Mpire.C14.real_chunk_size
#print axioms Mpire.C14.n_splits_count
#print axioms Mpire.C14.n_splits_balanced
#print axioms Mpire.C14.n_splits_iterable_len
#print axioms Mpire.C14.more_splits_than_tasks
