import MpireModel.Props.C14
#print axioms Mpire.C14.placeholder
