import MpireModel.Model.TimeoutScan
/-! Proofs about one round of the timeout handler. Core Lean only. -/
namespace Mpire.Proofs.TimeoutScan
open Mpire.TimeoutScan

theorem findJob_filter_ne (c : List Job) (j j' : Nat) (h : j' ≠ j) :
    findJob (c.filter (fun x => x.id != j)) j' = findJob c j' := by
  unfold findJob
  induction c with
  | nil => rfl
  | cons a t ih =>
    by_cases ha : a.id = j
    · have hne : (a.id == j') = false := by
        rw [beq_eq_false_iff_ne]; omega
      have hf : (a.id != j) = false := by simp [ha]
      rw [List.filter_cons, List.find?_cons, hne]
      simp only [hf, Bool.false_eq_true, ↓reduceIte]
      exact ih
    · have hf : (a.id != j) = true := by simp [ha]
      rw [List.filter_cons]
      simp only [hf, ↓reduceIte, List.find?_cons]
      rw [ih]

theorem findJob_filter_self (c : List Job) (j : Nat) : findJob (c.filter (fun x => x.id != j)) j = none := by
  unfold findJob
  simp [List.find?_eq_none]

theorem overrun_filter_ne (cfg : Cfg) (c : List Job) (j : Nat) (wk : Wk) (h : wk.working ≠ .job j) :
    overrun cfg (c.filter (fun x => x.id != j)) wk = overrun cfg c wk := by
  unfold overrun
  cases hw : wk.working with
  | init => rfl
  | exit => rfl
  | job j' =>
    have : j' ≠ j := by intro e; subst e; exact h hw
    simp only [findJob_filter_ne c j j' this]

theorem applyOverrun_filter_ne (cfg : Cfg) (c : List Job) (j : Nat) (wk : Wk) (h : wk.working ≠ .job j) :
    applyOverrun cfg (c.filter (fun x => x.id != j)) wk = applyOverrun cfg c wk := by
  unfold applyOverrun
  cases hw : wk.working with
  | init => rfl
  | exit => rfl
  | job j' =>
    have hne : j' ≠ j := by intro e; subst e; exact h hw
    simp only [findJob_filter_ne c j j' hne, overrun_filter_ne cfg c j wk h]

/-- the step for a worker that does not overrun -/
theorem visit_quiet (cfg : Cfg) (acc : Acc) (w : Nat) (wk : Wk) (h : overrun cfg acc.cache wk = false) :
    visit cfg acc w wk = acc := by
  unfold visit; simp [h]

/-- the step for a worker that overruns an apply job -/
theorem visit_apply (cfg : Cfg) (acc : Acc) (w : Nat) (wk : Wk) (hr : acc.returned = false)
    (h : applyOverrun cfg acc.cache wk = true) :
    ∃ j, wk.working = .job j ∧
      visit cfg acc w wk = { acc with killed := acc.killed ++ [w], failed := acc.failed ++ [(.job j, w)],
                                      cache := acc.cache.filter (fun x => x.id != j) } := by
  unfold applyOverrun at h
  cases hw : wk.working with
  | init => simp [hw] at h
  | exit => simp [hw] at h
  | job j =>
    refine ⟨j, rfl, ?_⟩
    simp only [hw] at h
    cases hf : findJob acc.cache j with
    | none => simp [hf] at h
    | some job =>
      simp only [hf, Bool.and_eq_true, Bool.not_eq_true'] at h
      unfold visit
      simp [hr, h.2, hw, hf, h.1]

/-- the step for a worker that overruns what ends the call -/
theorem visit_pool (cfg : Cfg) (acc : Acc) (w : Nat) (wk : Wk) (hr : acc.returned = false)
    (h : poolOverrun cfg acc.cache wk = true) :
    (visit cfg acc w wk).returned = true ∧ (visit cfg acc w wk).exc = some wk.working ∧
    (visit cfg acc w wk).killed = acc.killed ++ [w] ∧ (wk.working, w) ∈ (visit cfg acc w wk).failed := by
  unfold poolOverrun at h
  simp only [Bool.and_eq_true, Bool.not_eq_true'] at h
  obtain ⟨ho, ha⟩ := h
  unfold visit
  simp only [hr, Bool.false_eq_true, ↓reduceIte, ho, Bool.not_true]
  cases hw : wk.working with
  | init => simp
  | exit => simp
  | job j =>
    unfold applyOverrun at ha
    unfold overrun at ho
    simp only [hw] at ha ho ⊢
    cases hf : findJob acc.cache j with
    | none => simp [hf] at ho
    | some job =>
      simp only [hf] at ha ho ⊢
      have hm : job.isMap = true := by
        cases hmm : job.isMap with
        | true => rfl
        | false =>
          unfold overrun at ha
          simp [hmm, hw, hf, ho] at ha
      simp [hm]

/-- once the handler has ended nothing more happens -/
theorem go_returned (cfg : Cfg) (ws : List Wk) (w : Nat) (acc : Acc) (h : acc.returned = true) :
    go cfg w ws acc = acc := by
  induction ws generalizing w with
  | nil => rfl
  | cons wk r ih => simp only [go]; rw [show visit cfg acc w wk = acc by unfold visit; simp [h]]; exact ih (w + 1)

/-- the workers a round has to signal when nothing ends the call: those that overrun an apply job, in order -/
def expected (cfg : Cfg) (c : List Job) : Nat → List Wk → List Nat
  | _, [] => []
  | w, wk :: r => if applyOverrun cfg c wk then w :: expected cfg c (w + 1) r else expected cfg c (w + 1) r

theorem expected_filter (cfg : Cfg) (c : List Job) (j : Nat) (ws : List Wk) (w : Nat)
    (h : ∀ wk ∈ ws, wk.working ≠ .job j) :
    expected cfg (c.filter (fun x => x.id != j)) w ws = expected cfg c w ws := by
  induction ws generalizing w with
  | nil => rfl
  | cons wk r ih =>
    simp only [expected, applyOverrun_filter_ne cfg c j wk (h wk (by simp))]
    rw [ih (w + 1) (fun x hx => h x (by simp [hx]))]

theorem go_apply_only (cfg : Cfg) (ws : List Wk) (w : Nat) (acc : Acc) (hr : acc.returned = false)
    (hp : ∀ wk ∈ ws, poolOverrun cfg acc.cache wk = false)
    (hd : (ws.map (·.working)).Pairwise (· ≠ ·)) :
    (go cfg w ws acc).killed = acc.killed ++ expected cfg acc.cache w ws ∧ (go cfg w ws acc).returned = false ∧
    (go cfg w ws acc).exc = acc.exc := by
  induction ws generalizing w acc with
  | nil => simp [go, expected, hr]
  | cons wk r ih =>
    simp only [go, expected]
    have hpk := hp wk (by simp)
    simp only [List.map_cons, List.pairwise_cons] at hd
    by_cases ha : applyOverrun cfg acc.cache wk = true
    · obtain ⟨j, hj, hv⟩ := visit_apply cfg acc w wk hr ha
      have hne : ∀ x ∈ r, x.working ≠ .job j := by
        intro x hx e
        exact hd.1 x.working (List.mem_map.mpr ⟨x, hx, rfl⟩) (by rw [hj, e])
      rw [hv]
      have := ih (w + 1) { acc with killed := acc.killed ++ [w], failed := acc.failed ++ [(.job j, w)],
                                    cache := acc.cache.filter (fun x => x.id != j) } hr
        (by
          intro x hx
          have h1 := hp x (by simp [hx])
          unfold poolOverrun at h1 ⊢
          simp only [overrun_filter_ne cfg acc.cache j x (hne x hx), applyOverrun_filter_ne cfg acc.cache j x (hne x hx)]
          exact h1) hd.2
      simp only [expected_filter cfg acc.cache j r (w + 1) hne] at this
      simp [ha, this]
    · have hq : overrun cfg acc.cache wk = false := by
        unfold poolOverrun at hpk
        cases ho : overrun cfg acc.cache wk with
        | false => rfl
        | true => simp [ho, ha] at hpk
      rw [visit_quiet cfg acc w wk hq]
      have := ih (w + 1) acc hr (fun x hx => hp x (by simp [hx])) hd.2
      simp [ha, this]

end Mpire.Proofs.TimeoutScan
