import MpireModel.Model.Async
/-! Proofs for `Props/C09.lean`.  Helpers live in `Mpire.Proofs.Async`. -/
namespace Mpire.Proofs.Async
open Mpire.Async

/-- a job freshly created by apply_async -/
def fresh (cb ecb : Bool) : AR := { hasCb := cb, hasEcb := ecb }

-- counterexample to job_outcome as stated
def weird : AR := { hasCb := false, hasEcb := false, isSet := false, outcome := some (.ok 1) }
example : ¬ (∀ (c : Cache) (_ : ∀ r ∈ c, r.isSet = false) (sets : List (Nat × Val)) (j : Nat) (r : AR)
    (_ : (applySets c sets)[j]? = some r), r.outcome = firstFor j sets) := by
  intro h
  have := h [weird] (by simp [weird]) [] 0 weird rfl
  simp [weird, firstFor] at this

theorem foldl_set_of_isSet (vs : List Val) : ∀ r : AR, r.isSet = true → vs.foldl AR.set r = r := by
  induction vs with
  | nil => intro r _; rfl
  | cons v vs ih =>
    intro r h
    have : r.set v = r := by simp [AR.set, h]
    simp [List.foldl_cons, this, ih r h]

theorem foldl_set_fresh (cb ecb : Bool) (v : Val) (vs : List Val) :
    (v :: vs).foldl AR.set (fresh cb ecb) = (fresh cb ecb).set v := by
  rw [List.foldl_cons]
  apply foldl_set_of_isSet
  simp [AR.set, fresh]

theorem set_first_wins (cb ecb : Bool) (v : Val) (vs : List Val) :
    ((v :: vs).foldl AR.set (fresh cb ecb)).outcome = some v ∧
    ((v :: vs).foldl AR.set (fresh cb ecb)).ready = true ∧
    ((v :: vs).foldl AR.set (fresh cb ecb)).inCache = false := by
  rw [foldl_set_fresh]
  simp [AR.set, fresh]

theorem exactly_one_callback (v : Val) (vs : List Val) :
    ((v :: vs).foldl AR.set (fresh true true)).cbLog = [(match v with | .ok _ => true | .err _ => false, v)] := by
  rw [foldl_set_fresh]
  cases v <;> simp [AR.set, fresh]

theorem at_most_one_callback (cb ecb : Bool) (vs : List Val) :
    ((vs.foldl AR.set (fresh cb ecb)).cbLog).length ≤ 1 := by
  cases vs with
  | nil => simp [fresh]
  | cons v vs =>
    rw [foldl_set_fresh]
    cases v <;> cases cb <;> cases ecb <;> simp [AR.set, fresh]

theorem get_returns_first (cb ecb : Bool) (v : Val) (vs : List Val) :
    ((v :: vs).foldl AR.set (fresh cb ecb)).get = (match v with | .ok x => GetRes.value x | .err e => GetRes.raises e) := by
  rw [foldl_set_fresh]
  cases v <;> simp [AR.set, fresh, AR.get]

theorem not_ready_until_set (cb ecb : Bool) : (fresh cb ecb).get = .timeout ∧ (fresh cb ecb).ready = false := by
  simp [fresh, AR.get]

theorem setJob_getElem?_ne (c : Cache) (i j : Nat) (v : Val) (h : i ≠ j) : (setJob c i v)[j]? = c[j]? := by
  unfold setJob
  split
  · rw [List.getElem?_set_ne h]
  · rfl

theorem failure_isolated (c : Cache) (sets : List (Nat × Val)) (j : Nat) (hj : ∀ p ∈ sets, p.1 ≠ j) :
    (applySets c sets)[j]? = c[j]? := by
  induction sets generalizing c with
  | nil => rfl
  | cons p sets ih =>
    obtain ⟨i, v⟩ := p
    simp only [applySets, List.foldl_cons]
    have := ih (setJob c i v) (fun p hp => hj p (List.mem_cons_of_mem _ hp))
    simp only [applySets] at this
    rw [this]
    exact setJob_getElem?_ne c i j v (hj (i, v) List.mem_cons_self)

theorem setJob_getElem?_self (c : Cache) (j : Nat) (v : Val) (r : AR) (h : c[j]? = some r) :
    (setJob c j v)[j]? = some (r.set v) := by
  unfold setJob
  rw [h]
  have hlt : j < c.length := (List.getElem?_eq_some_iff.mp h).1
  simp [List.getElem?_set_self hlt]

/-- general form: the final outcome of job `j` is its old outcome if it was already set, else the first proposal
for `j`, else (no proposal) its old outcome. -/
theorem outcome_after (sets : List (Nat × Val)) : ∀ (c : Cache) (j : Nat) (r0 r : AR), c[j]? = some r0 →
    (applySets c sets)[j]? = some r →
    r.outcome = if r0.isSet then r0.outcome else (match firstFor j sets with | some v => some v | none => r0.outcome) := by
  induction sets with
  | nil =>
    intro c j r0 r h0 hr
    simp only [applySets, List.foldl_nil] at hr
    rw [h0] at hr
    cases hr
    simp [firstFor]
  | cons p sets ih =>
    intro c j r0 r h0 hr
    obtain ⟨i, v⟩ := p
    simp only [applySets, List.foldl_cons] at hr
    by_cases hij : i = j
    · subst hij
      have h1 := setJob_getElem?_self c i v r0 h0
      have := ih (setJob c i v) i (r0.set v) r h1 hr
      rw [this]
      cases hs : r0.isSet <;> simp [AR.set, hs, firstFor]
    · have h1 : (setJob c i v)[j]? = some r0 := by rw [setJob_getElem?_ne c i j v hij]; exact h0
      have := ih (setJob c i v) j r0 r h1 hr
      rw [this]
      have : firstFor j ((i, v) :: sets) = firstFor j sets := by
        simp [firstFor, hij]
      rw [this]

theorem applySets_length (sets : List (Nat × Val)) : ∀ c : Cache, (applySets c sets).length = c.length := by
  induction sets with
  | nil => intro c; rfl
  | cons p sets ih =>
    intro c
    obtain ⟨i, v⟩ := p
    simp only [applySets, List.foldl_cons]
    have := ih (setJob c i v)
    simp only [applySets] at this
    rw [this]
    unfold setJob
    split <;> simp

/-- corrected `job_outcome`: the jobs of the cache are really fresh (not set AND no outcome yet) -/
theorem job_outcome_of_fresh (c : Cache) (hfresh : ∀ r ∈ c, r.isSet = false ∧ r.outcome = none) (sets : List (Nat × Val))
    (j : Nat) (r : AR) (hr : (applySets c sets)[j]? = some r) : r.outcome = firstFor j sets := by
  have hlt : j < c.length := by
    have := (List.getElem?_eq_some_iff.mp hr).1
    rwa [applySets_length] at this
  have h0 : c[j]? = some c[j] := List.getElem?_eq_getElem hlt
  have hf := hfresh c[j] (List.getElem_mem hlt)
  rw [outcome_after sets c j c[j] r h0 hr, hf.1, hf.2]
  cases firstFor j sets <;> simp

/-- `job_outcome` as stated holds whenever some attempt targets `j` -/
theorem job_outcome_of_targeted (c : Cache) (hfresh : ∀ r ∈ c, r.isSet = false) (sets : List (Nat × Val)) (j : Nat) (r : AR)
    (hr : (applySets c sets)[j]? = some r) (ht : ∃ p ∈ sets, p.1 = j) : r.outcome = firstFor j sets := by
  have hlt : j < c.length := by
    have := (List.getElem?_eq_some_iff.mp hr).1
    rwa [applySets_length] at this
  have h0 : c[j]? = some c[j] := List.getElem?_eq_getElem hlt
  have hf := hfresh c[j] (List.getElem_mem hlt)
  rw [outcome_after sets c j c[j] r h0 hr, hf]
  obtain ⟨p, hp, hpj⟩ := ht
  cases hfi : List.find? (fun x => x.1 == j) sets with
  | none =>
    have := List.find?_eq_none.mp hfi p hp
    simp [hpj] at this
  | some q => simp [firstFor, hfi]

end Mpire.Proofs.Async
