import MpireModel.Model.Dispatch
/-! Helper lemmas and proofs for `Props/C15.lean` and `Props/C16.lean`.  Helpers live in `Mpire.Proofs.Dispatch`. -/
namespace Mpire.Proofs.Dispatch
open Mpire.Dispatch

theorem assign_round_robin (n : Nat) (ops : List AOp) (a : Assign) (i : Nat) (ha : a.taskIdx = i) :
    ∀ p ∈ runOps true n a i ops, p.2 = p.1 % n := by
  induction ops generalizing a i with
  | nil => intro p hp; simp [runOps] at hp
  | cons op ops ih =>
    cases op with
    | assign =>
      intro p hp
      simp only [runOps, assign, Bool.true_or, if_true, List.mem_cons] at hp
      rcases hp with rfl | hp
      · simp [ha]
      · exact ih _ (i + 1) (by simp [ha]) p hp
    | completed w =>
      intro p hp
      simp only [runOps] at hp
      exact ih _ i (by simpa [completed] using ha) p hp
    | reset =>
      intro p hp
      simp only [runOps] at hp
      exact ih _ 0 rfl p hp
    | apply =>
      intro p hp
      simp only [runOps, assignApply, Bool.not_false, Bool.and_self, if_true] at hp
      exact ih _ i (by simpa using ha) p hp

theorem assign_in_range (orderTasks : Bool) (n : Nat) (hn : 0 < n) (a : Assign) (h : ∀ w ∈ a.lastCompleted, w < n) :
    (assign orderTasks n a).1 < n ∧ ∀ w ∈ (assign orderTasks n a).2.lastCompleted, w < n := by
  unfold assign
  split
  · exact ⟨Nat.mod_lt _ hn, h⟩
  · rename_i hne
    cases hl : a.lastCompleted with
    | nil => simp [hl] at hne
    | cons x xs =>
      rw [hl] at h
      refine ⟨?_, ?_⟩
      · simpa using h x (by simp)
      · intro w hw
        exact h w (by simp at hw; simp [hw])

/-- invariant of the dispatch loop -/
structure Inv (m : Nat) (chunks : List Nat) (s : D) : Prop where
  max   : s.maxActive = m
  cons  : s.drawn = s.delivered + s.running + s.ready + s.hand.getD 0
  total : s.drawn + s.input.sum = chunks.sum
  act   : s.exhausted = false → s.nActive = s.running + s.ready
  hand  : ∀ k, s.hand = some k → s.nActive ≤ m ∧ k ∈ chunks
  inp   : ∀ k ∈ s.input, k ∈ chunks
  exh   : s.exhausted = true → s.hand = none
  bound : ∀ c, (∀ k ∈ chunks, k ≤ c) → s.running + s.ready ≤ m + c

theorem inv_init (m : Nat) (chunks : List Nat) : Inv m chunks (init m chunks) := by
  refine ⟨rfl, rfl, ?_, ?_, ?_, ?_, ?_, ?_⟩ <;> simp [init]

theorem step_inv {m : Nat} {chunks : List Nat} {s s' : D} {e : Ev} (hi : Inv m chunks s) (h : step s e = some s') :
    Inv m chunks s' := by
  obtain ⟨hmax, hcons, htot, hact, hhand, hinp, hexh, hbound⟩ := hi
  cases e with
  | ask =>
    simp only [step] at h
    split at h
    · cases h
    · cases h
      exact ⟨hmax, hcons, htot, hact, hhand, hinp, hexh, hbound⟩
  | draw =>
    simp only [step] at h
    split at h
    · rename_i hg
      obtain ⟨_, hh, hne, hle⟩ := hg
      split at h
      · cases h
        refine ⟨hmax, hcons, htot, ?_, hhand, hinp, ?_, hbound⟩
        · intro hf; cases hf
        · intro _; exact hh
      · rename_i k rest hin
        cases h
        refine ⟨hmax, ?_, ?_, hact, ?_, ?_, ?_, hbound⟩
        · simp only [Option.getD_some]; rw [hh] at hcons; simp at hcons; omega
        · simp only; rw [hin] at htot; simp at htot; omega
        · intro k' hk'
          simp only [Option.some.injEq] at hk'
          subst hk'
          exact ⟨by dsimp only; omega, hinp _ (by simp [hin])⟩
        · intro k' hk'; exact hinp _ (by simp at hk'; simp [hin, hk'])
        · intro he; simp only at he; exact absurd he hne
    · cases h
  | dispatch =>
    simp only [step] at h
    split at h
    · rename_i k hk
      split at h
      · rename_i hg
        cases h
        have ⟨hna, hkc⟩ := hhand k hk
        have hne : s.exhausted = false := by
          cases he : s.exhausted with
          | false => rfl
          | true => rw [hexh he] at hk; exact absurd hk (by simp)
        have hact' := hact hne
        refine ⟨hmax, ?_, htot, ?_, ?_, hinp, ?_, ?_⟩
        · simp only [Option.getD_none]; rw [hk] at hcons; simp at hcons; omega
        · intro _; simp only; omega
        · intro k' hk'; cases hk'
        · intro _; rfl
        · intro c hc
          have := hc k hkc
          simp only; omega
      · cases h
    · cases h
  | complete =>
    simp only [step] at h
    split at h
    · cases h
      refine ⟨hmax, ?_, htot, ?_, hhand, hinp, hexh, ?_⟩
      · simp only; omega
      · intro he; have := hact he; simp only; omega
      · intro c hc; have := hbound c hc; simp only; omega
    · cases h
  | yield =>
    simp only [step, Option.ite_none_right_eq_some, Option.some.injEq] at h
    obtain ⟨⟨_, hr, _⟩, h⟩ := h
    · subst h
      refine ⟨hmax, ?_, htot, ?_, ?_, hinp, hexh, ?_⟩
      · simp only; omega
      · intro he
        simp only at he
        have := hact he
        simp only [he]; simp; omega
      · intro k hk
        have := hhand k hk
        simp only at hk ⊢
        refine ⟨?_, this.2⟩
        split <;> omega
      · intro c hc; have := hbound c hc; simp only; omega

theorem run_inv {P : D → Prop} (hP : ∀ s s' e, P s → step s e = some s' → P s') :
    ∀ (es : List Ev) (s s' : D), P s → run s es = some s' → P s' := by
  intro es
  induction es with
  | nil => intro s s' hs h; simp [run] at h; subst h; exact hs
  | cons e es ih =>
    intro s s' hs h
    simp only [run, List.foldlM_cons] at h
    cases hst : step s e with
    | none => rw [hst] at h; simp at h
    | some s1 =>
      rw [hst] at h
      simp only [Option.bind_eq_bind, Option.bind_some] at h
      exact ih s1 s' (hP _ _ _ hs hst) h

theorem reachable_inv {m : Nat} {chunks : List Nat} {s : D} (h : Reachable m chunks s) : Inv m chunks s := by
  obtain ⟨es, hes⟩ := h
  exact run_inv (P := Inv m chunks) (fun _ _ _ hi hs => step_inv hi hs) es _ _ (inv_init m chunks) hes


theorem conservation (m : Nat) (chunks : List Nat) (s : D) (h : Reachable m chunks s) :
    s.drawn = s.delivered + s.running + s.ready + s.hand.getD 0 ∧ s.drawn + s.input.sum = chunks.sum :=
  ⟨(reachable_inv h).cons, (reachable_inv h).total⟩

theorem lookahead_bound (m c : Nat) (chunks : List Nat) (hc : ∀ k ∈ chunks, k ≤ c) (s : D) (h : Reachable m chunks s) :
    s.drawn - s.delivered ≤ m + c := by
  have hi := reachable_inv h
  have hcons := hi.cons
  cases hh : s.hand with
  | none =>
    have := hi.bound c hc
    rw [hh] at hcons; simp only [Option.getD_none] at hcons; omega
  | some k =>
    have ⟨hna, hk⟩ := hi.hand k hh
    have hkc := hc k hk
    have hne : s.exhausted = false := by
      cases he : s.exhausted with
      | false => rfl
      | true => rw [hi.exh he] at hh; exact absurd hh (by simp)
    have := hi.act hne
    rw [hh] at hcons; simp only [Option.getD_some] at hcons; omega

theorem no_draw_unasked (s s' : D) (h : step s .draw = some s') : s.waiting = true := by
  simp only [step] at h
  split at h
  · rename_i hg; exact hg.1
  · exact absurd h (by simp)

theorem complete_enabled (s : D) (h : 0 < s.running) : ∃ s', step s .complete = some s' := by
  simp only [step, if_pos h]; exact ⟨_, rfl⟩

theorem never_stalls (m : Nat) (chunks : List Nat) (hpos : ∀ k ∈ chunks, 0 < k) (s : D) (h : Reachable m chunks s)
    (hw : s.waiting = true) (hnf : s.finished = false) :
    (∃ s', step s .draw = some s') ∨ (∃ s', step s .dispatch = some s') ∨ (∃ s', step s .complete = some s') ∨
      (∃ s', step s .yield = some s') := by
  have _ := hpos  -- not needed: progress holds also with empty chunks
  have hi := reachable_inv h
  -- complete or yield, given something in flight and permission to wait
  have cy : 0 < s.running + s.ready →
      (s.exhausted || decide (s.maxActive < s.nActive) ||
        (match s.hand with | some k => decide (0 < s.nActive ∧ s.maxActive < s.nActive + k) | none => false)) = true →
      (∃ s', step s .complete = some s') ∨ (∃ s', step s .yield = some s') := by
    intro hpos' hmw
    by_cases hr : 0 < s.running
    · exact Or.inl (complete_enabled s hr)
    · right
      have hy : 0 < s.ready := by omega
      simp only [step]
      rw [if_pos ⟨hw, hy, hmw⟩]
      exact ⟨_, rfl⟩
  cases hh : s.hand with
  | some k =>
    have hne : s.exhausted = false := by
      cases he : s.exhausted with
      | false => rfl
      | true => rw [hi.exh he] at hh; exact absurd hh (by simp)
    have hact := hi.act hne
    by_cases hd : s.nActive = 0 ∨ s.nActive + k ≤ s.maxActive
    · right; left
      simp only [step, hh]
      rw [if_pos ⟨hw, hd⟩]
      exact ⟨_, rfl⟩
    · right; right
      apply cy
      · omega
      · simp only [hh, Bool.or_eq_true, decide_eq_true_eq]
        right; omega
  | none =>
    cases he : s.exhausted with
    | false =>
      have hact := hi.act he
      by_cases hle : s.nActive ≤ s.maxActive
      · left
        simp only [step]
        rw [if_pos ⟨hw, hh, by simp [he], hle⟩]
        split <;> exact ⟨_, rfl⟩
      · right; right
        apply cy
        · omega
        · simp only [Bool.or_eq_true, decide_eq_true_eq]
          left; right; omega
    | true =>
      right; right
      apply cy
      · simp only [D.finished, he, hh, Option.isNone_none, Bool.and_true, Bool.true_and, Bool.and_eq_false_iff,
          beq_eq_false_iff_ne, ne_eq] at hnf
        omega
      · simp [he]

theorem nothing_in_flight_progress (m : Nat) (chunks : List Nat) (hpos : ∀ k ∈ chunks, 0 < k) (s : D)
    (h : Reachable m chunks s) (hw : s.waiting = true) (hnf : s.finished = false) (hr : s.running = 0) (hy : s.ready = 0) :
    (∃ s', step s .draw = some s') ∨ (∃ s', step s .dispatch = some s') := by
  have _ := hpos  -- not needed: progress holds also with empty chunks
  have hi := reachable_inv h
  cases hh : s.hand with
  | some k =>
    have hne : s.exhausted = false := by
      cases he : s.exhausted with
      | false => rfl
      | true => rw [hi.exh he] at hh; exact absurd hh (by simp)
    have hact := hi.act hne
    right
    simp only [step, hh]
    rw [if_pos ⟨hw, Or.inl (by omega)⟩]
    exact ⟨_, rfl⟩
  | none =>
    cases he : s.exhausted with
    | false =>
      have hact := hi.act he
      left
      simp only [step]
      rw [if_pos ⟨hw, hh, by simp [he], by omega⟩]
      split <;> exact ⟨_, rfl⟩
    | true =>
      simp [D.finished, he, hh, hr, hy] at hnf

theorem variant (m : Nat) (chunks : List Nat) (hpos : ∀ k ∈ chunks, 0 < k) (s s' : D) (h : Reachable m chunks s) (e : Ev)
    (hs : step s e = some s') : s'.mu < s.mu := by
  have hi := reachable_inv h
  cases e with
  | ask =>
    simp only [step, Option.ite_none_left_eq_some, Option.some.injEq] at hs
    obtain ⟨hw, rfl⟩ := hs
    simp only [D.mu, hw]; simp
  | draw =>
    simp only [step] at hs
    split at hs
    · rename_i hg
      obtain ⟨hw, hh, hne, _⟩ := hg
      split at hs
      · rename_i hin
        simp only [Option.some.injEq] at hs; subst hs
        simp only [D.mu, hne]; simp
      · rename_i k rest hin
        simp only [Option.some.injEq] at hs; subst hs
        simp only [D.mu, hin, hh, List.sum_cons, List.length_cons, Option.getD_some, Option.getD_none]
        omega
    · exact absurd hs (by simp)
  | dispatch =>
    simp only [step] at hs
    split at hs
    · rename_i k hk
      have hk0 := hpos k (hi.hand k hk).2
      split at hs
      · simp only [Option.some.injEq] at hs; subst hs
        simp only [D.mu, hk, Option.getD_some, Option.getD_none]
        omega
      · exact absurd hs (by simp)
    · exact absurd hs (by simp)
  | complete =>
    simp only [step, Option.ite_none_right_eq_some, Option.some.injEq] at hs
    obtain ⟨hr, rfl⟩ := hs
    simp only [D.mu]; omega
  | yield =>
    simp only [step, Option.ite_none_right_eq_some, Option.some.injEq] at hs
    obtain ⟨⟨hw, hr, _⟩, rfl⟩ := hs
    simp only [D.mu, hw]; simp; omega

def nAssign (ops : List AOp) : Nat := (ops.filter (· == .assign)).length

/-- without a reset in between, the chunk indices handed out are i, i+1, … in that order -/
theorem indices_in_order (ord : Bool) (n : Nat) (ops : List AOp) (a : Assign) (i : Nat) (h : ∀ o ∈ ops, o ≠ .reset) :
    (runOps ord n a i ops).map (·.1) = List.range' i (nAssign ops) := by
  induction ops generalizing a i with
  | nil => simp [runOps, nAssign]
  | cons op ops ih =>
    have h' : ∀ o ∈ ops, o ≠ .reset := fun o ho => h o (List.mem_cons_of_mem _ ho)
    cases op with
    | assign =>
      simp only [runOps, List.map_cons]
      rw [ih _ _ h']
      simp [nAssign, List.range'_succ]
    | completed w =>
      simp only [runOps]
      rw [ih _ _ h']
      simp [nAssign]
    | reset => exact absurd rfl (h .reset (List.mem_cons_self ..))
    | apply =>
      simp only [runOps]
      rw [ih _ _ h']
      simp [nAssign]

/-- what worker `w` finds in its queue during one call with order_tasks: the chunks `w, w+n, w+2n, …`, in that order -/
theorem queue_of_worker (n : Nat) (ops : List AOp) (w : Nat) (h : ∀ o ∈ ops, o ≠ .reset) :
    ((runOps true n reset 0 ops).filter (·.2 == w)).map (·.1) = (List.range (nAssign ops)).filter (· % n == w) := by
  have hrr := assign_round_robin n ops reset 0 rfl
  have hidx := indices_in_order true n ops reset 0 h
  rw [List.range_eq_range', ← hidx, List.filter_map]
  congr 1
  apply List.filter_congr
  intro p hp
  simp [Function.comp, hrr p hp]

end Mpire.Proofs.Dispatch
