import MpireModel.Model.Insights
/-! Proofs about the insights accounting model (statements used by Props/C18.lean). -/
namespace Mpire.Proofs.Insights
open Mpire.Insights


/-! ### helpers -/

theorem getElem?_modify (s : St) (w : Nat) (f : Slot → Slot) (i : Nat) :
    (Insights.modify s w f)[i]? = (s[i]?).map (fun x => if i = w then f x else x) := by
  simp [Insights.modify, List.getElem?_mapIdx]

theorem length_modify (s : St) (w : Nat) (f : Slot → Slot) : (Insights.modify s w f).length = s.length := by
  simp [Insights.modify]

theorem modify_nil (w : Nat) (f : Slot → Slot) : Insights.modify [] w f = [] := by
  simp [Insights.modify]

theorem modify_cons_zero (x : Slot) (s : St) (f : Slot → Slot) : Insights.modify (x :: s) 0 f = f x :: s := by
  apply List.ext_getElem?
  intro i
  cases i with
  | zero => simp [getElem?_modify]
  | succ i =>
    rw [getElem?_modify]
    simp only [List.getElem?_cons_succ]
    cases s[i]? <;> simp

theorem modify_cons_succ (x : Slot) (s : St) (w : Nat) (f : Slot → Slot) :
    Insights.modify (x :: s) (w + 1) f = x :: Insights.modify s w f := by
  apply List.ext_getElem?
  intro i
  cases i with
  | zero => simp [getElem?_modify]
  | succ i =>
    rw [getElem?_modify]
    simp only [List.getElem?_cons_succ, getElem?_modify, Nat.add_right_cancel_iff]

theorem run_start (pre ops : List Op) (n : Nat) :
    run (pre ++ .start n :: ops) = ops.foldl step (List.replicate n fresh) := by
  simp [run, List.foldl_append, step]

theorem foldl_inv (Q : Op → Prop) (P : List Op → St → Prop)
    (hstep : ∀ ops op s, Q op → P ops s → P (ops ++ [op]) (step s op)) :
    ∀ (ops pre : List Op) (s : St), (∀ o ∈ ops, Q o) → P pre s → P (pre ++ ops) (ops.foldl step s) := by
  intro ops
  induction ops with
  | nil => intro pre s _ h; simpa using h
  | cons op ops ih =>
    intro pre s hq h
    have := ih (pre ++ [op]) (step s op) (fun o ho => hq o (List.mem_cons_of_mem _ ho))
      (hstep pre op s (hq op List.mem_cons_self) h)
    simpa [List.append_assoc] using this

theorem length_step (s : St) (op : Op) (h : op.isStart = false) : (step s op).length = s.length := by
  cases op <;> simp_all [step, length_modify, Op.isStart]

/-! #### counters -/

theorem sum_counts_modify (s : St) (w : Nat) (f : Slot → Slot) (hf : ∀ x, (f x).count = x.count + 1) :
    (counts (Insights.modify s w f)).sum = (counts s).sum + (if w < s.length then 1 else 0) := by
  induction s generalizing w with
  | nil => simp [modify_nil, counts]
  | cons x s ih =>
    cases w with
    | zero => simp [modify_cons_zero, counts, hf]; omega
    | succ w =>
      have := ih w
      simp only [counts] at this
      simp [modify_cons_succ, counts, this]; omega

theorem counts_modify_same (s : St) (w : Nat) (f : Slot → Slot) (hf : ∀ x, (f x).count = x.count) :
    counts (Insights.modify s w f) = counts s := by
  apply List.ext_getElem?
  intro i
  simp only [counts, List.getElem?_map, getElem?_modify]
  cases s[i]? with
  | none => rfl
  | some x => by_cases hi : i = w <;> simp [hi, hf]

theorem nTasks_cons (n : Nat) (op : Op) (ops : List Op) :
    nTasks n (op :: ops) = (match op with | .task w _ _ => if w < n then 1 else 0 | _ => 0) + nTasks n ops := by
  cases op <;> simp [nTasks, List.filter_cons] 
  split <;> simp <;> omega

theorem sum_counts_foldl (ops : List Op) (s : St) (h : ∀ o ∈ ops, o.isStart = false) :
    (counts (ops.foldl step s)).sum = (counts s).sum + nTasks s.length ops := by
  induction ops generalizing s with
  | nil => simp [nTasks]
  | cons op ops ih =>
    have h1 : op.isStart = false := h op List.mem_cons_self
    rw [List.foldl_cons, ih _ (fun o ho => h o (List.mem_cons_of_mem _ ho)), length_step _ _ h1, nTasks_cons]
    cases op with
    | start n => simp [Op.isStart] at h1
    | task w d a =>
      simp only [step]
      rw [sum_counts_modify]
      · omega
      · intro x; rfl
    | sync w => simp only [step]; rw [counts_modify_same]; omega; intro x; rfl
    | restart w => simp only [step]; rw [counts_modify_same]; omega; intro x; rfl
    | replace w => simp only [step]; rw [counts_modify_same]; omega; intro x; rfl

/-! #### push -/

theorem entryLe_true {a b : Entry} (h : entryLe a b = true) : a.1 ≤ b.1 := by
  simp only [entryLe, Bool.or_eq_true, Bool.and_eq_true, decide_eq_true_eq, beq_iff_eq] at h
  rcases h with h | ⟨h, _⟩ <;> omega

theorem entryLe_false {a b : Entry} (h : entryLe a b = false) : b.1 ≤ a.1 := by
  simp only [entryLe, Bool.or_eq_false_iff, decide_eq_false_iff_not] at h
  have := h.1
  omega

theorem minEntry_none {l : List Entry} (h : minEntry l = none) : l = [] := by
  cases l with
  | nil => rfl
  | cons e es =>
    simp only [minEntry] at h
    split at h
    · cases h
    · split at h <;> cases h

theorem minEntry_spec {l : List Entry} {m : Entry} (h : minEntry l = some m) :
    m ∈ l ∧ ∀ e ∈ l, m.1 ≤ e.1 := by
  induction l generalizing m with
  | nil => simp [minEntry] at h
  | cons e es ih =>
    simp only [minEntry] at h
    split at h
    · rename_i hn
      have := minEntry_none hn
      subst this
      cases h
      simp
    · rename_i m' hm'
      have ⟨hmem, hle⟩ := ih hm'
      split at h
      · rename_i hle'
        cases h
        have := entryLe_true hle'
        refine ⟨List.mem_cons_self, ?_⟩
        intro x hx
        rcases List.mem_cons.1 hx with rfl | hx
        · exact Nat.le_refl _
        · exact Nat.le_trans this (hle x hx)
      · rename_i hle'
        cases h
        have := entryLe_false (Bool.eq_false_iff.2 hle')
        refine ⟨List.mem_cons_of_mem _ hmem, ?_⟩
        intro x hx
        rcases List.mem_cons.1 hx with rfl | hx
        · exact this
        · exact hle x hx

theorem push_length (l : List Entry) (e : Entry) : (push l e).length = l.length := by
  unfold push
  split
  · rfl
  · rename_i m hm
    split
    · have := (minEntry_spec hm).1
      have hpos : 0 < l.length := List.length_pos_of_mem this
      simp only [List.length_cons, List.length_erase_of_mem this]
      omega
    · rfl

theorem push_mem {l : List Entry} {e x : Entry} (h : x ∈ push l e) : x ∈ l ∨ x = e := by
  unfold push at h
  split at h
  · exact Or.inl h
  · split at h
    · rcases List.mem_cons.1 h with rfl | h
      · exact Or.inr rfl
      · exact Or.inl (List.mem_of_mem_erase h)
    · exact Or.inl h

theorem push_keeps {l : List Entry} {new t : Entry} (h : t ∈ l ∨ ∀ e ∈ l, t.1 ≤ e.1) :
    t ∈ push l new ∨ ∀ e ∈ push l new, t.1 ≤ e.1 := by
  unfold push
  split
  · exact h
  · rename_i m hm
    have ⟨hmem, hmin⟩ := minEntry_spec hm
    split
    · rename_i hlt
      rcases h with h | h
      · by_cases htm : t = m
        · subst htm
          right
          intro e he
          rcases List.mem_cons.1 he with rfl | he
          · omega
          · exact hmin e (List.mem_of_mem_erase he)
        · left
          exact List.mem_cons_of_mem _ ((List.mem_erase_of_ne htm).2 h)
      · right
        intro e he
        rcases List.mem_cons.1 he with rfl | he
        · have := h m hmem
          omega
        · exact h e (List.mem_of_mem_erase he)
    · exact h

theorem push_new (l : List Entry) (new : Entry) :
    new ∈ push l new ∨ ∀ e ∈ push l new, new.1 ≤ e.1 := by
  unfold push
  split
  · rename_i hn
    have := minEntry_none hn
    subst this
    right; simp
  · rename_i m hm
    have ⟨hmem, hmin⟩ := minEntry_spec hm
    split
    · left; exact List.mem_cons_self
    · rename_i hlt
      right
      intro e he
      have := hmin e he
      omega

theorem tasksOf_append (ops : List Op) (op : Op) (w : Nat) :
    tasksOf (ops ++ [op]) w =
      tasksOf ops w ++ (match op with | .task w' d a => if w' = w then [(d, a)] else [] | _ => []) := by
  cases op <;> simp [tasksOf, List.filterMap_append]
  split <;> simp_all

/-! #### invariants -/

theorem modify_get {s : St} {w i : Nat} {f : Slot → Slot} {y : Slot} (h : (Insights.modify s w f)[i]? = some y) :
    ∃ x, s[i]? = some x ∧ y = if i = w then f x else x := by
  rw [getElem?_modify] at h
  cases hx : s[i]? with
  | none => simp [hx] at h
  | some x =>
    refine ⟨x, rfl, ?_⟩
    simp [hx] at h
    exact h.symm

/-- holds in every history without a start -/
def InvA (n : Nat) (ops : List Op) (s : St) : Prop :=
  s.length = n ∧ ∀ w x, s[w]? = some x →
    x.count = (tasksOf ops w).length ∧ x.own.length = 5 ∧ x.pub.length = 5 ∧
    (∀ e ∈ x.own, e = (0, "") ∨ e ∈ tasksOf ops w) ∧ (∀ e ∈ x.pub, e = (0, "") ∨ e ∈ tasksOf ops w)

theorem InvA_step (n : Nat) (ops : List Op) (op : Op) (s : St) (hq : op.isStart = false) (h : InvA n ops s) :
    InvA n (ops ++ [op]) (step s op) := by
  obtain ⟨hlen, hinv⟩ := h
  refine ⟨by rw [length_step _ _ hq]; exact hlen, ?_⟩
  intro w y hy
  rw [tasksOf_append]
  cases op with
  | start k => simp [Op.isStart] at hq
  | task w' d a =>
    simp only [step] at hy
    obtain ⟨x, hx, rfl⟩ := modify_get hy
    obtain ⟨hc, ho, hp, heo, hep⟩ := hinv w x hx
    by_cases hw : w = w'
    · subst hw
      simp only [if_true, List.length_append, List.length_singleton, List.mem_append, List.mem_singleton]
      refine ⟨by omega, by rw [push_length]; exact ho, hp, ?_, ?_⟩
      · intro e he
        rcases push_mem he with he | he
        · rcases heo e he with h | h
          · exact Or.inl h
          · exact Or.inr (Or.inl h)
        · exact Or.inr (Or.inr he)
      · intro e he
        rcases hep e he with h | h
        · exact Or.inl h
        · exact Or.inr (Or.inl h)
    · have hw' : ¬ w' = w := fun h => hw h.symm
      simp only [hw, hw', if_false, List.append_nil]
      exact ⟨hc, ho, hp, heo, hep⟩
  | sync w' =>
    simp only [step] at hy
    obtain ⟨x, hx, rfl⟩ := modify_get hy
    obtain ⟨hc, ho, hp, heo, hep⟩ := hinv w x hx
    simp only [List.append_nil]
    split
    · exact ⟨hc, ho, ho, heo, heo⟩
    · exact ⟨hc, ho, hp, heo, hep⟩
  | restart w' =>
    simp only [step] at hy
    obtain ⟨x, hx, rfl⟩ := modify_get hy
    obtain ⟨hc, ho, hp, heo, hep⟩ := hinv w x hx
    simp only [List.append_nil]
    split
    · exact ⟨hc, ho, ho, heo, heo⟩
    · exact ⟨hc, ho, hp, heo, hep⟩
  | replace w' =>
    simp only [step] at hy
    obtain ⟨x, hx, rfl⟩ := modify_get hy
    obtain ⟨hc, ho, hp, heo, hep⟩ := hinv w x hx
    simp only [List.append_nil]
    split
    · exact ⟨hc, hp, hp, hep, hep⟩
    · exact ⟨hc, ho, hp, heo, hep⟩

theorem getElem?_replicate_fresh {n w : Nat} {x : Slot} (h : (List.replicate n fresh)[w]? = some x) : x = fresh := by
  have := List.mem_of_getElem? h
  exact (List.mem_replicate.1 this).2

theorem InvA_init (n : Nat) : InvA n [] (List.replicate n fresh) := by
  refine ⟨List.length_replicate, ?_⟩
  intro w x hx
  have := getElem?_replicate_fresh hx
  subst this
  refine ⟨rfl, rfl, rfl, ?_, ?_⟩ <;>
  · intro e he
    exact Or.inl (List.mem_replicate.1 he).2

theorem InvA_run (pre ops : List Op) (n : Nat) (h : ∀ o ∈ ops, o.isStart = false) :
    InvA n ops (run (pre ++ .start n :: ops)) := by
  rw [run_start]
  have := foldl_inv (fun o => o.isStart = false) (InvA n) (InvA_step n) ops [] _ h (InvA_init n)
  simpa using this

/-- holds in histories without a start and without a replacement -/
def InvB (ops : List Op) (s : St) : Prop :=
  ∀ w x, s[w]? = some x →
    x.own.length = 5 ∧ (∀ e ∈ x.own, e ∈ tasksOf ops w ∨ e = (0, "")) ∧
    (∀ t ∈ tasksOf ops w, t ∈ x.own ∨ ∀ e ∈ x.own, t.1 ≤ e.1)

theorem InvB_step (ops : List Op) (op : Op) (s : St) (hq : op.isStart = false ∧ op.isReplace = false)
    (hinv : InvB ops s) : InvB (ops ++ [op]) (step s op) := by
  intro w y hy
  rw [tasksOf_append]
  cases op with
  | start k => simp [Op.isStart] at hq
  | replace k => simp [Op.isReplace] at hq
  | task w' d a =>
    simp only [step] at hy
    obtain ⟨x, hx, rfl⟩ := modify_get hy
    obtain ⟨ho, heo, hto⟩ := hinv w x hx
    by_cases hw : w = w'
    · subst hw
      simp only [if_true, List.mem_append, List.mem_singleton]
      refine ⟨by rw [push_length]; exact ho, ?_, ?_⟩
      · intro e he
        rcases push_mem he with he | he
        · rcases heo e he with h | h
          · exact Or.inl (Or.inl h)
          · exact Or.inr h
        · exact Or.inl (Or.inr he)
      · intro t ht
        rcases ht with ht | ht
        · exact push_keeps (hto t ht)
        · subst ht
          exact push_new _ _
    · have hw' : ¬ w' = w := fun h => hw h.symm
      simp only [hw, hw', if_false, List.append_nil]
      exact ⟨ho, heo, hto⟩
  | sync w' =>
    simp only [step] at hy
    obtain ⟨x, hx, rfl⟩ := modify_get hy
    obtain ⟨ho, heo, hto⟩ := hinv w x hx
    simp only [List.append_nil]
    split <;> exact ⟨ho, heo, hto⟩
  | restart w' =>
    simp only [step] at hy
    obtain ⟨x, hx, rfl⟩ := modify_get hy
    obtain ⟨ho, heo, hto⟩ := hinv w x hx
    simp only [List.append_nil]
    split <;> exact ⟨ho, heo, hto⟩

theorem InvB_init (n : Nat) : InvB [] (List.replicate n fresh) := by
  intro w x hx
  have := getElem?_replicate_fresh hx
  subst this
  refine ⟨rfl, ?_, ?_⟩
  · intro e he
    exact Or.inr (List.mem_replicate.1 he).2
  · intro t ht
    simp [tasksOf] at ht

theorem InvB_run (pre ops : List Op) (n : Nat) (h : ∀ o ∈ ops, o.isStart = false)
    (hk : ∀ o ∈ ops, o.isReplace = false) : InvB ops (run (pre ++ .start n :: ops)) := by
  rw [run_start]
  have := foldl_inv (fun o => o.isStart = false ∧ o.isReplace = false) InvB InvB_step ops [] _
    (fun o ho => ⟨h o ho, hk o ho⟩) (InvB_init n)
  simpa using this

theorem length_flatten_five {α : Type} (l : List (List α)) (h : ∀ x ∈ l, x.length = 5) :
    l.flatten.length = 5 * l.length := by
  induction l with
  | nil => rfl
  | cons x l ih =>
    have h1 := h x List.mem_cons_self
    have h2 := ih (fun y hy => h y (List.mem_cons_of_mem _ hy))
    simp only [List.flatten_cons, List.length_append, List.length_cons, h1, h2]
    omega

/-- One entry per worker id, and the counters are exactly the numbers of tasks finished since the pool last started its workers —
whatever happened before that start, and however many instances were restarted or replaced since. -/
theorem counts_account_for_every_task (pre ops : List Op) (n : Nat) (h : ∀ o ∈ ops, o.isStart = false) :
    (counts (run (pre ++ .start n :: ops))).length = n ∧
    (counts (run (pre ++ .start n :: ops))).sum = nTasks n ops ∧
    ∀ w, w < n → (counts (run (pre ++ .start n :: ops)))[w]? = some (tasksOf ops w).length := by
  obtain ⟨hlen, hinv⟩ := InvA_run pre ops n h
  refine ⟨by simp [counts, hlen], ?_, ?_⟩
  · rw [run_start, sum_counts_foldl ops _ h]
    simp [counts, fresh]
  · intro w hw
    have hw' : w < (run (pre ++ .start n :: ops)).length := by omega
    have hx : (run (pre ++ .start n :: ops))[w]? = some (run (pre ++ .start n :: ops))[w] :=
      List.getElem?_eq_getElem hw'
    simp only [counts, List.getElem?_map, hx, Option.map_some, (hinv w _ hx).1]

/-- Histories in which no instance was replaced after dying: a worker id's private list has five entries, each of them a task
that worker id ran since the start (or a slot still empty), and every task it ran that is not in the list took no longer than
any that is. -/
theorem own_holds_the_longest (pre ops : List Op) (n : Nat) (h : ∀ o ∈ ops, o.isStart = false)
    (hk : ∀ o ∈ ops, o.isReplace = false) (w : Nat) (hw : w < n) :
    ∃ x, (run (pre ++ .start n :: ops))[w]? = some x ∧ x.own.length = 5 ∧
      (∀ e ∈ x.own, e ∈ tasksOf ops w ∨ e = (0, "")) ∧
      (∀ t ∈ tasksOf ops w, t ∈ x.own ∨ ∀ e ∈ x.own, t.1 ≤ e.1) := by
  obtain ⟨hlen, _⟩ := InvA_run pre ops n h
  have hw' : w < (run (pre ++ .start n :: ops)).length := by omega
  have hx : (run (pre ++ .start n :: ops))[w]? = some (run (pre ++ .start n :: ops))[w] :=
    List.getElem?_eq_getElem hw'
  exact ⟨_, hx, InvB_run pre ops n h hk w _ hx⟩

/-- What a write-back publishes is the private list. -/
theorem sync_publishes (s : St) (w : Nat) :
    ((step s (.sync w))[w]?).map (·.pub) = (s[w]?).map (·.own) := by
  simp only [step, getElem?_modify]
  cases s[w]? <;> simp

/-- A restart at the end of a lifespan changes no counter, leaves the successor with the predecessor's list, and publishes it. -/
theorem restart_is_invisible (s : St) (w : Nat) :
    counts (step s (.restart w)) = counts s ∧
    ((step s (.restart w))[w]?).map (·.own) = (s[w]?).map (·.own) ∧
    ((step s (.restart w))[w]?).map (·.pub) = (s[w]?).map (·.own) := by
  refine ⟨?_, ?_, ?_⟩
  · simp only [step]
    exact counts_modify_same _ _ _ (fun _ => rfl)
  · simp only [step, getElem?_modify]
    cases s[w]? <;> simp
  · simp only [step, getElem?_modify]
    cases s[w]? <;> simp

/-- Every history: five slots per worker id are published, and each holds a task that was run since the start or is empty. -/
theorem published_are_real_tasks (pre ops : List Op) (n : Nat) (h : ∀ o ∈ ops, o.isStart = false) :
    (published (run (pre ++ .start n :: ops))).length = 5 * n ∧
    ∀ e ∈ published (run (pre ++ .start n :: ops)), e = (0, "") ∨ ∃ w, w < n ∧ e ∈ tasksOf ops w := by
  obtain ⟨hlen, hinv⟩ := InvA_run pre ops n h
  constructor
  · unfold published
    rw [length_flatten_five, List.length_map, hlen]
    intro l hl
    obtain ⟨x, hx, rfl⟩ := List.mem_map.1 hl
    obtain ⟨w, hw⟩ := List.mem_iff_getElem?.1 hx
    exact (hinv w x hw).2.2.1
  · intro e he
    unfold published at he
    obtain ⟨l, hl, hel⟩ := List.mem_flatten.1 he
    obtain ⟨x, hx, rfl⟩ := List.mem_map.1 hl
    obtain ⟨w, hw⟩ := List.mem_iff_getElem?.1 hx
    rcases (hinv w x hw).2.2.2.2 e hel with h | h
    · exact Or.inl h
    · refine Or.inr ⟨w, ?_, h⟩
      have := (List.getElem?_eq_some_iff.1 hw).1
      omega

/-- Once every worker id wrote back after its last task (the end of a call), what is published is what own_holds_the_longest
describes. -/
theorem published_holds_the_longest (pre ops : List Op) (n : Nat) (h : ∀ o ∈ ops, o.isStart = false)
    (hk : ∀ o ∈ ops, o.isReplace = false) (w : Nat) (hw : w < n) :
    ∃ x, (run (pre ++ .start n :: (ops ++ [.sync w])))[w]? = some x ∧ x.pub.length = 5 ∧
      (∀ e ∈ x.pub, e ∈ tasksOf ops w ∨ e = (0, "")) ∧
      (∀ t ∈ tasksOf ops w, t ∈ x.pub ∨ ∀ e ∈ x.pub, t.1 ≤ e.1) := by
  obtain ⟨x, hx, h1, h2, h3⟩ := own_holds_the_longest pre ops n h hk w hw
  have hrun : run (pre ++ .start n :: (ops ++ [.sync w])) = step (run (pre ++ .start n :: ops)) (.sync w) := by
    simp only [run_start, List.foldl_append, List.foldl_cons, List.foldl_nil]
  refine ⟨{ x with pub := x.own }, ?_, h1, h2, h3⟩
  rw [hrun]
  simp only [step, getElem?_modify, hx, Option.map_some, if_true]

end Mpire.Proofs.Insights
