import MpireModel.Model.Worker
/-! Helper lemmas and proofs for `Props/C11.lean` and `Props/C12.lean`.  Helpers live in `Mpire.Proofs.Worker`.

Method: `St.acts` is kept in reverse order and only reversed by `finish`, so everything is stated on
`s.acts.reverse`, filtered by `obs` (drops the acts no property looks at) or `obs2` (keeps only user-function
entries, shipped results and the restart request).  Each function of the model gets a `_spec` lemma (any
outcome) and an `_ok` lemma (nothing fails) saying what it appends to that filtered trace; `loop_inv` /
`loop_prefix` turn per-entry facts about `handle` into facts about `run`. -/
namespace Mpire.Proofs.Worker
open Mpire.Worker

/-- shape predicate: `init? task+ exit?`, or nothing at all -/
def Shape (us : List (Kind × Nat)) : Prop :=
  us = [] ∨ ∃ (i e : Bool) (ts : List Nat), ts ≠ [] ∧
    us = (if i then [(Kind.init, 0)] else []) ++ ts.map (fun t => (Kind.task, t)) ++ (if e then [(Kind.exit, 0)] else [])

def okEnv (env : Env) : Prop := env.initOut = .ok ∧ env.exitOut = .ok ∧ env.excAtEnd = false

/-! ## The loop: every run ends in `finish` of some state -/

def lifespanSt (s : St) (env : Env) : St :=
  if (forcedPB s).params.hasExit then (runExit (forcedPB s) env).1 else forcedPB s

theorem lifespanEnd_eq (s : St) (env : Env) : lifespanEnd s env = finish (lifespanSt s env) env := by
  unfold lifespanEnd lifespanSt
  dsimp only
  split <;> rfl

theorem loop_prefix (env : Env) (Inv Fin : St → Prop) (pre rest : List Item)
    (hstep : ∀ s it, it ∈ pre → Inv s → reached s = false → s.flag = false →
      ((handle s env it).2 = true → Fin (handle s env it).1) ∧
      ((handle s env it).2 = false → Inv (handle s env it).1))
    (hreached : ∀ s, Inv s → reached s = true → Fin (lifespanSt s env))
    (hflag : ∀ s, Inv s → reached s = false → s.flag = true → Fin s) :
    ∀ s, Inv s → ∃ s', (Fin s' ∧ loop env s (pre ++ rest) = finish s' env) ∨
      (Inv s' ∧ loop env s (pre ++ rest) = loop env s' rest) := by
  induction pre with
  | nil => intro s hs; exact ⟨s, Or.inr ⟨hs, rfl⟩⟩
  | cons it pre ih =>
    intro s hs
    have ih' := ih (fun s it' hm => hstep s it' (List.mem_cons_of_mem _ hm))
    simp only [List.cons_append, loop]
    cases hr : reached s with
    | true => exact ⟨_, Or.inl ⟨hreached s hs hr, by simp [lifespanEnd_eq]⟩⟩
    | false =>
      cases hf : s.flag with
      | true => exact ⟨_, Or.inl ⟨hflag s hs hr hf, by simp⟩⟩
      | false =>
        have hst := hstep s it (List.mem_cons_self ..) hs hr hf
        cases hret : (handle s env it).2 with
        | true => exact ⟨_, Or.inl ⟨hst.1 hret, by simp⟩⟩
        | false =>
          obtain ⟨s', h⟩ := ih' _ (hst.2 hret)
          exact ⟨s', by simpa [hret] using h⟩

theorem loop_inv (env : Env) (Inv Fin : St → Prop) (items : List Item)
    (hstep : ∀ s it, it ∈ items → Inv s → reached s = false → s.flag = false →
      ((handle s env it).2 = true → Fin (handle s env it).1) ∧
      ((handle s env it).2 = false → Inv (handle s env it).1))
    (hreached : ∀ s, Inv s → reached s = true → Fin (lifespanSt s env))
    (hnil : ∀ s, Inv s → reached s = false → Fin s) :
    ∀ s, Inv s → ∃ s', Fin s' ∧ loop env s items = finish s' env := by
  intro s hs
  obtain ⟨s', h⟩ := loop_prefix env Inv Fin items [] hstep hreached (fun s h1 h2 _ => hnil s h1 h2) s hs
  rw [List.append_nil] at h
  rcases h with h | ⟨hi, he⟩
  · exact ⟨s', h⟩
  · rw [he]
    simp only [loop]
    cases hr : reached s' with
    | true => exact ⟨_, hreached s' hi hr, by simp [lifespanEnd_eq]⟩
    | false => exact ⟨_, hnil s' hi hr, by simp⟩

/-! ## Observable part of a trace -/

/-- acts no property looks at -/
def noise : Act → Bool
  | .workingOn _ | .stampStart _ | .stampClear _ | .raise_ _ | .pb _ | .waitPB => true
  | _ => false

def obs (l : List Act) : List Act := l.filter (fun a => !noise a)

@[simp] theorem obs_nil : obs [] = [] := rfl
@[simp] theorem obs_append (a b : List Act) : obs (a ++ b) = obs a ++ obs b := by simp [obs]
theorem obs_cons (a : Act) (l : List Act) : obs (a :: l) = if noise a then obs l else a :: obs l := by
  simp only [obs, List.filter_cons]; cases noise a <;> simp

@[simp] theorem emit_acts (s : St) (l : List Act) : (s.emit l).acts = l.reverse ++ s.acts := rfl
@[simp] theorem emit_params (s : St) (l : List Act) : (s.emit l).params = s.params := rfl
@[simp] theorem emit_executed (s : St) (l : List Act) : (s.emit l).executed = s.executed := rfl
@[simp] theorem emit_initDone (s : St) (l : List Act) : (s.emit l).initDone = s.initDone := rfl
@[simp] theorem emit_flag (s : St) (l : List Act) : (s.emit l).flag = s.flag := rfl
@[simp] theorem emit_lastJob (s : St) (l : List Act) : (s.emit l).lastJob = s.lastJob := rfl

theorem runSafely_obs (k : Kind) (id : Nat) (job : Int) (ia : Bool) (o : Outcome) :
    obs (runSafely k id job ia o).1 = if o = .excAlready then [] else [.user k id] := by
  cases o <;> cases ia <;> simp [runSafely, obs_cons, noise]

/-- `runInit`, any outcome -/
theorem runInit_spec (s : St) (env : Env) :
    ∃ b : Bool, obs (runInit s env).1.acts.reverse = obs s.acts.reverse ++ (if b then [.user .init 0] else []) ∧
      (runInit s env).1.params = s.params ∧ (runInit s env).1.executed = s.executed := by
  unfold runInit
  split
  · exact ⟨false, by simp⟩
  · generalize (if s.flag then Outcome.excAlready else env.initOut) = o
    refine ⟨o != .excAlready, ?_⟩
    have h := runSafely_obs .init 0 INIT_FUNC false o
    cases hi : s.params.initTimeout <;> cases o <;>
      simp_all [obs_cons, noise, runSafely]

/-- `runInit` when nothing fails -/
theorem runInit_ok (s : St) (env : Env) (hf : s.flag = false) (he : env.initOut = .ok) :
    (runInit s env).2 = false ∧ (runInit s env).1.flag = false ∧ (runInit s env).1.initDone = true ∧
    (runInit s env).1.params = s.params ∧ (runInit s env).1.executed = s.executed ∧
    obs (runInit s env).1.acts.reverse = obs s.acts.reverse ++ (if s.initDone then [] else [.user .init 0]) := by
  unfold runInit
  cases hd : s.initDone
  · cases hi : s.params.initTimeout <;> simp [hf, he, runSafely, obs_cons, noise]
  · simp [hf, hd]

def exitRes : Act := .addResults [(EXIT_FUNC, true, 0)]

/-- `runExit`, any outcome -/
theorem runExit_spec (s : St) (env : Env) :
    ∃ b b' : Bool, obs (runExit s env).1.acts.reverse =
        obs s.acts.reverse ++ (if b then [.user .exit 0] else []) ++ (if b' then [exitRes] else []) ∧
      (env.exitOut = .ok → b' = b) ∧
      (runExit s env).1.params = s.params ∧ (runExit s env).1.executed = s.executed := by
  refine ⟨!s.flag && env.exitOut != .excAlready, !s.flag && env.exitOut == .ok, ?_⟩
  unfold runExit
  cases hf : s.flag <;> cases hi : s.params.exitTimeout <;> cases he : env.exitOut <;>
    simp [runSafely, obs_cons, noise, exitRes]

theorem forcedPB_spec (s : St) : obs (forcedPB s).acts.reverse = obs s.acts.reverse ∧
    (forcedPB s).params = s.params ∧ (forcedPB s).executed = s.executed ∧ (forcedPB s).flag = s.flag ∧
    (forcedPB s).initDone = s.initDone := by
  unfold forcedPB; split <;> simp [obs_cons, noise]

theorem runExit_ok (s : St) (env : Env) (hf : s.flag = false) (he : env.exitOut = .ok) :
    (runExit s env).1.flag = false ∧ (runExit s env).1.params = s.params ∧
    (runExit s env).1.executed = s.executed ∧ (runExit s env).1.initDone = s.initDone ∧
    obs (runExit s env).1.acts.reverse = obs s.acts.reverse ++ [.user .exit 0, exitRes] := by
  unfold runExit
  cases hi : s.params.exitTimeout <;> simp [hf, he, runSafely, obs_cons, noise, exitRes]

/-! ## `runTasks` -/

def workOn (s : St) (job : Int) : St :=
  if s.lastJob ≠ some job then { (s.emit [.workingOn job]) with lastJob := some job } else s

def taskRes (s : St) (job : Int) (ia : Bool) (t : TaskIn) : List Act × Bool × Bool × Bool × Bool :=
  runSafely .task t.id job ia (if (workOn s job).flag then .excAlready else t.out)

def afterTask0 (s : St) (job : Int) (ia : Bool) (t : TaskIn) : St :=
  { ((workOn s job).emit ([.stampStart .task] ++ (taskRes s job ia t).1 ++ [.stampClear .task])) with
    flag := (workOn s job).flag || (taskRes s job ia t).2.2.2.2 }

def afterTask (s : St) (job : Int) (ia : Bool) (t : TaskIn) : St :=
  if !ia && (afterTask0 s job ia t).params.progressBar then (afterTask0 s job ia t).emit [.pb false]
  else afterTask0 s job ia t

theorem runTasks_cons (s : St) (job : Int) (ia : Bool) (t : TaskIn) (ts : List TaskIn) (res : List (Int × Bool × Nat)) :
    runTasks s job ia (t :: ts) res =
      if (taskRes s job ia t).2.2.2.1 then (afterTask0 s job ia t, res, true)
      else runTasks (afterTask s job ia t) job ia ts
        (if (taskRes s job ia t).2.2.1 then (job, (taskRes s job ia t).2.1, t.id) :: res else res) := by
  rfl

theorem workOn_props (s : St) (job : Int) : (workOn s job).flag = s.flag ∧ (workOn s job).params = s.params ∧
    (workOn s job).executed = s.executed ∧ (workOn s job).initDone = s.initDone ∧
    obs (workOn s job).acts.reverse = obs s.acts.reverse := by
  unfold workOn; split <;> simp [obs_cons, noise]

theorem taskRes_eq (s : St) (job : Int) (ia : Bool) (t : TaskIn) :
    taskRes s job ia t = runSafely .task t.id job ia (if s.flag then .excAlready else t.out) := by
  simp [taskRes, (workOn_props s job).1]

/-- the task is entered -/
def enters (s : St) (t : TaskIn) : Bool := !s.flag && t.out != .excAlready

theorem afterTask0_props (s : St) (job : Int) (ia : Bool) (t : TaskIn) :
    (afterTask0 s job ia t).params = s.params ∧ (afterTask0 s job ia t).executed = s.executed ∧
    (afterTask0 s job ia t).initDone = s.initDone ∧
    obs (afterTask0 s job ia t).acts.reverse = obs s.acts.reverse ++ (if enters s t then [.user .task t.id] else []) := by
  obtain ⟨h1, h2, h3, h4, h5⟩ := workOn_props s job
  have h := runSafely_obs .task t.id job ia (if s.flag then .excAlready else t.out)
  simp only [afterTask0, taskRes_eq, emit_params, emit_executed, emit_initDone, emit_acts, h2, h3, h4, true_and]
  simp only [List.reverse_append, List.reverse_reverse, obs_append, h5, h]
  cases hf : s.flag <;> cases ho : t.out <;> simp [obs_cons, noise, enters, hf, ho]

theorem afterTask_props (s : St) (job : Int) (ia : Bool) (t : TaskIn) :
    (afterTask s job ia t).params = s.params ∧ (afterTask s job ia t).executed = s.executed ∧
    (afterTask s job ia t).initDone = s.initDone ∧
    obs (afterTask s job ia t).acts.reverse = obs s.acts.reverse ++ (if enters s t then [.user .task t.id] else []) ∧
    (afterTask s job ia t).flag = (afterTask0 s job ia t).flag := by
  obtain ⟨h2, h3, h4, h5⟩ := afterTask0_props s job ia t
  unfold afterTask
  split <;> simp [h2, h3, h4, h5, obs_cons, noise]

/-- when a task does not end the worker and is not interrupted, it was entered and its result is kept -/
theorem taskRes_cont (s : St) (job : Int) (ia : Bool) (t : TaskIn) (hsd : (taskRes s job ia t).2.2.2.1 = false)
    (hni : t.out ≠ .interrupt) : enters s t = true ∧ (taskRes s job ia t).2.2.1 = true := by
  rw [taskRes_eq] at *
  cases hf : s.flag <;> cases ho : t.out <;> cases ia <;> simp_all [runSafely, enters]

theorem taskRes_ok (s : St) (job : Int) (ia : Bool) (t : TaskIn) (hf : s.flag = false) (ho : t.out = .ok) :
    (taskRes s job ia t).2.2.2.1 = false ∧ (taskRes s job ia t).2.2.1 = true ∧ (taskRes s job ia t).2.1 = true ∧
    enters s t = true ∧ (afterTask s job ia t).flag = false := by
  rw [(afterTask_props s job ia t).2.2.2.2]
  simp [afterTask0, taskRes_eq, hf, ho, runSafely, enters, (workOn_props s job).1]

theorem taskRes_enters (s : St) (job : Int) (ia : Bool) (t : TaskIn) (hsd : (taskRes s job ia t).2.2.2.1 = false) :
    enters s t = true := by
  rw [taskRes_eq] at *
  cases hf : s.flag <;> cases ho : t.out <;> cases ia <;> simp_all [runSafely, enters]

def userTask (t : TaskIn) : Act := .user .task t.id

/-- `runTasks`, any outcomes: a prefix of the tasks is entered -/
theorem runTasks_spec (job : Int) (ia : Bool) : ∀ (ts : List TaskIn) (s : St) (res : List (Int × Bool × Nat)),
    ∃ n, n ≤ ts.length ∧
      obs (runTasks s job ia ts res).1.acts.reverse = obs s.acts.reverse ++ (ts.take n).map userTask ∧
      (runTasks s job ia ts res).1.params = s.params ∧ (runTasks s job ia ts res).1.executed = s.executed ∧
      (runTasks s job ia ts res).1.initDone = s.initDone ∧
      (∀ x ∈ (runTasks s job ia ts res).2.1, x ∈ res ∨ x.1 = job) ∧
      (ts.all (·.out != .interrupt) = true → (runTasks s job ia ts res).2.2 = false →
        n = ts.length ∧ (runTasks s job ia ts res).2.1.length = res.length + ts.length) := by
  intro ts
  induction ts with
  | nil =>
    intro s res
    exact ⟨0, Nat.le_refl _, by simp [runTasks], rfl, rfl, rfl, fun x hx => Or.inl hx, fun _ _ => ⟨rfl, rfl⟩⟩
  | cons t ts ih =>
    intro s res
    rw [runTasks_cons]
    obtain ⟨a1, a2, a3, a4⟩ := afterTask0_props s job ia t
    obtain ⟨b1, b2, b3, b4, _⟩ := afterTask_props s job ia t
    cases hsd : (taskRes s job ia t).2.2.2.1 with
    | true =>
      simp only [↓reduceIte]
      refine ⟨if enters s t then 1 else 0, ?_, ?_, a1, a2, a3, fun x hx => Or.inl hx, ?_⟩
      · cases enters s t <;> simp
      · rw [a4]; cases enters s t <;> simp [userTask]
      · intro _ h; simp at h
    | false =>
      obtain ⟨n, hn, c1, c2, c3, c4, c5, c6⟩ := ih (afterTask s job ia t)
        (if (taskRes s job ia t).2.2.1 then (job, (taskRes s job ia t).2.1, t.id) :: res else res)
      simp only [Bool.false_eq_true, if_false]
      have he := taskRes_enters s job ia t hsd
      refine ⟨n + 1, ?_, ?_, c2.trans b1, c3.trans b2, c4.trans b3, ?_, ?_⟩
      · simp; omega
      · rw [c1, b4]
        simp [userTask, he]
      · intro x hx
        rcases c5 x hx with h | h
        · split at h
          · rcases List.mem_cons.1 h with h | h
            · exact Or.inr (by rw [h])
            · exact Or.inl h
          · exact Or.inl h
        · exact Or.inr h
      · intro hall hsd'
        simp only [List.all_cons, Bool.and_eq_true, bne_iff_ne, ne_eq] at hall
        obtain ⟨_, hsend⟩ := taskRes_cont s job ia t hsd hall.1
        obtain ⟨d1, d2⟩ := c6 hall.2 hsd'
        simp only [hsend, if_true, List.length_cons] at d2 ⊢
        simp only [d1, d2, true_and]; omega

/-- `runTasks` when nothing fails -/
theorem runTasks_ok (job : Int) (ia : Bool) : ∀ (ts : List TaskIn) (s : St) (res : List (Int × Bool × Nat)),
    s.flag = false → ts.all (·.out == .ok) = true →
      (runTasks s job ia ts res).2.2 = false ∧
      (runTasks s job ia ts res).2.1 = (ts.map fun t => (job, true, t.id)).reverse ++ res ∧
      (runTasks s job ia ts res).1.flag = false ∧
      obs (runTasks s job ia ts res).1.acts.reverse = obs s.acts.reverse ++ ts.map userTask ∧
      (runTasks s job ia ts res).1.params = s.params ∧ (runTasks s job ia ts res).1.executed = s.executed ∧
      (runTasks s job ia ts res).1.initDone = s.initDone := by
  intro ts
  induction ts with
  | nil => intro s res hf _; simp [runTasks, hf]
  | cons t ts ih =>
    intro s res hf hall
    simp only [List.all_cons, Bool.and_eq_true, beq_iff_eq] at hall
    obtain ⟨h1, h2, h3, h4, h5⟩ := taskRes_ok s job ia t hf hall.1
    obtain ⟨b1, b2, b3, b4, _⟩ := afterTask_props s job ia t
    rw [runTasks_cons]
    simp only [h1, h2, h3, Bool.false_eq_true, if_false, if_true]
    obtain ⟨c1, c2, c3, c4, c5, c6, c7⟩ := ih (afterTask s job ia t) ((job, true, t.id) :: res) h5 hall.2
    refine ⟨c1, ?_, c3, ?_, c5.trans b1, c6.trans b2, c7.trans b3⟩
    · rw [c2]; simp
    · rw [c4, b4]; simp [h4, userTask]

/-! ## `runChunk` -/

def chunkInit (s : St) (env : Env) : St × Bool := if s.params.hasInit then runInit s env else (s, false)

theorem runChunk_eq (s : St) (env : Env) (job : Int) (ia : Bool) (ts : List TaskIn) :
    runChunk s env job ia ts =
      if (chunkInit s env).2 then ((chunkInit s env).1.emit [.taskDone], true) else
      if (runTasks (chunkInit s env).1 job ia ts []).2.2 then
        ((runTasks (chunkInit s env).1 job ia ts []).1.emit [.taskDone], true) else
      ({ ((if (runTasks (chunkInit s env).1 job ia ts []).2.1 ≠ [] then
            (runTasks (chunkInit s env).1 job ia ts []).1.emit
              [.addResults (runTasks (chunkInit s env).1 job ia ts []).2.1.reverse]
          else (runTasks (chunkInit s env).1 job ia ts []).1).emit [.taskDone]) with
          executed := (if (runTasks (chunkInit s env).1 job ia ts []).2.1 ≠ [] then
            (runTasks (chunkInit s env).1 job ia ts []).1.emit
              [.addResults (runTasks (chunkInit s env).1 job ia ts []).2.1.reverse]
          else (runTasks (chunkInit s env).1 job ia ts []).1).executed +
            (runTasks (chunkInit s env).1 job ia ts []).2.1.length }, false) := by
  rfl

theorem chunkInit_spec (s : St) (env : Env) :
    ∃ b : Bool, obs (chunkInit s env).1.acts.reverse = obs s.acts.reverse ++ (if b then [.user .init 0] else []) ∧
      (chunkInit s env).1.params = s.params ∧ (chunkInit s env).1.executed = s.executed := by
  unfold chunkInit
  split
  · exact runInit_spec s env
  · exact ⟨false, by simp⟩

/-- `runChunk`, any outcomes -/
theorem runChunk_spec (s : St) (env : Env) (job : Int) (ia : Bool) (ts : List TaskIn) :
    ∃ (bi : Bool) (n : Nat) (res : List (Int × Bool × Nat)), n ≤ ts.length ∧
      obs (runChunk s env job ia ts).1.acts.reverse =
        obs s.acts.reverse ++ (if bi then [.user .init 0] else []) ++ (ts.take n).map userTask ++
          (if res ≠ [] then [.addResults res] else []) ++ [.taskDone] ∧
      (runChunk s env job ia ts).1.params = s.params ∧
      (runChunk s env job ia ts).1.executed = s.executed + res.length ∧
      (∀ x ∈ res, x.1 = job) ∧
      (ts.all (·.out != .interrupt) = true → (runChunk s env job ia ts).2 = false →
        n = ts.length ∧ res.length = ts.length) := by
  obtain ⟨bi, i1, i2, i3⟩ := chunkInit_spec s env
  obtain ⟨n, hn, t1, t2, t3, _, t5, t6⟩ := runTasks_spec job ia ts (chunkInit s env).1 []
  rw [runChunk_eq]
  cases hsd : (chunkInit s env).2 with
  | true =>
    refine ⟨bi, 0, [], Nat.zero_le _, ?_, ?_, ?_, ?_, ?_⟩ <;> simp [i1, i2, i3, obs_cons, noise]
  | false =>
    simp only [Bool.false_eq_true, if_false]
    cases hsd' : (runTasks (chunkInit s env).1 job ia ts []).2.2 with
    | true =>
      refine ⟨bi, n, [], hn, ?_, ?_, ?_, ?_, ?_⟩ <;> simp [i1, i2, i3, t1, t2, t3, obs_cons, noise]
    | false =>
      simp only [Bool.false_eq_true, if_false]
      refine ⟨bi, n, (runTasks (chunkInit s env).1 job ia ts []).2.1.reverse, hn, ?_, ?_, ?_, ?_, ?_⟩
      · split <;> simp_all [obs_cons, noise]
      · split <;> simp [i2, t2]
      · split <;> simp [i3, t3]
      · intro x hx
        rcases t5 x (List.mem_reverse.1 hx) with h | h
        · simp at h
        · exact h
      · intro hall _
        have := t6 hall hsd'
        simpa using this

theorem chunkInit_ok (s : St) (env : Env) (hf : s.flag = false) (he : env.initOut = .ok) :
    (chunkInit s env).2 = false ∧ (chunkInit s env).1.flag = false ∧
    (chunkInit s env).1.initDone = (s.initDone || s.params.hasInit) ∧
    (chunkInit s env).1.params = s.params ∧ (chunkInit s env).1.executed = s.executed ∧
    obs (chunkInit s env).1.acts.reverse =
      obs s.acts.reverse ++ (if s.params.hasInit && !s.initDone then [.user .init 0] else []) := by
  unfold chunkInit
  cases hi : s.params.hasInit
  · simp [hf]
  · obtain ⟨h1, h2, h3, h4, h5, h6⟩ := runInit_ok s env hf he
    simp only [if_true, h1, h2, h3, h4, h5, h6]
    cases s.initDone <;> simp

/-- `runChunk` when nothing fails -/
theorem runChunk_ok (s : St) (env : Env) (job : Int) (ia : Bool) (ts : List TaskIn) (hf : s.flag = false)
    (he : env.initOut = .ok) (hall : ts.all (·.out == .ok) = true) :
    (runChunk s env job ia ts).2 = false ∧ (runChunk s env job ia ts).1.flag = false ∧
    (runChunk s env job ia ts).1.initDone = (s.initDone || s.params.hasInit) ∧
    (runChunk s env job ia ts).1.params = s.params ∧
    (runChunk s env job ia ts).1.executed = s.executed + ts.length ∧
    obs (runChunk s env job ia ts).1.acts.reverse =
      obs s.acts.reverse ++ (if s.params.hasInit && !s.initDone then [.user .init 0] else []) ++ ts.map userTask ++
        (if ts ≠ [] then [.addResults (ts.map fun t => (job, true, t.id))] else []) ++ [.taskDone] := by
  obtain ⟨i1, i2, i3, i4, i5, i6⟩ := chunkInit_ok s env hf he
  obtain ⟨t1, t2, t3, t4, t5, t6, t7⟩ := runTasks_ok job ia ts (chunkInit s env).1 [] i2 hall
  rw [runChunk_eq]
  simp only [i1, t1, t2, Bool.false_eq_true, if_false, List.append_nil]
  cases ts with
  | nil => simp [t3, t4, t5, t6, t7, i3, i4, i5, i6, obs_cons, noise]
  | cons t ts => simp [t3, t4, t5, t6, t7, i3, i4, i5, i6, obs_cons, noise]

/-! ## `handle`, `finish` -/

theorem handle_pill_spec (s : St) (env : Env) :
    ∃ b b' : Bool, obs (handle s env .pill).1.acts.reverse =
        obs s.acts.reverse ++ [.got, .taskDone] ++ (if b then [.user .exit 0] else []) ++ (if b' then [exitRes] else []) ∧
      (env.exitOut = .ok → b' = b) ∧ (b = true → s.params.hasExit = true ∧ 0 < s.executed) ∧
      (handle s env .pill).1.params = s.params ∧ (handle s env .pill).1.executed = s.executed ∧
      (handle s env .pill).2 = true := by
  obtain ⟨p1, p2, p3, p4, p5⟩ := forcedPB_spec (s.emit [.got])
  simp only [handle]
  cases he : ((forcedPB (s.emit [.got])).emit [.taskDone]).params.hasExit &&
      decide (0 < ((forcedPB (s.emit [.got])).emit [.taskDone]).executed) with
  | false =>
    refine ⟨false, false, ?_⟩
    simp only [Bool.false_eq_true, if_false]
    split <;> simp_all [obs_cons, noise]
  | true =>
    obtain ⟨b, b', e1, e2, e3, e4⟩ := runExit_spec ((forcedPB (s.emit [.got])).emit [.taskDone]) env
    refine ⟨b, b', ?_⟩
    simp only [if_true]
    simp only [emit_params, emit_executed, p2, p3, Bool.and_eq_true, decide_eq_true_eq] at he
    split <;> simp_all [obs_cons, noise]

theorem handle_pill_ok (s : St) (env : Env) (hf : s.flag = false) (hx : env.exitOut = .ok) :
    obs (handle s env .pill).1.acts.reverse = obs s.acts.reverse ++ [.got, .taskDone] ++
        (if s.params.hasExit && decide (0 < s.executed) then [.user .exit 0, exitRes] else []) ∧
      (handle s env .pill).1.flag = false ∧
      (handle s env .pill).1.params = s.params ∧ (handle s env .pill).1.executed = s.executed ∧
      (handle s env .pill).2 = true ∧ (handle s env .pill).1.initDone = s.initDone := by
  obtain ⟨p1, p2, p3, p4, p5⟩ := forcedPB_spec (s.emit [.got])
  simp only [handle]
  simp only [emit_params, emit_executed, p2, p3]
  cases he : s.params.hasExit && decide (0 < s.executed) with
  | false =>
    simp only [Bool.false_eq_true, if_false]
    split <;> simp_all [obs_cons, noise]
  | true =>
    obtain ⟨e1, e2, e3, e4, e5⟩ := runExit_ok ((forcedPB (s.emit [.got])).emit [.taskDone]) env
      (by simp [p4, hf]) hx
    simp only [if_true]
    split <;> simp_all [obs_cons, noise]

theorem lifespanSt_spec (s : St) (env : Env) :
    ∃ b b' : Bool, obs (lifespanSt s env).acts.reverse =
        obs s.acts.reverse ++ (if b then [.user .exit 0] else []) ++ (if b' then [exitRes] else []) ∧
      (env.exitOut = .ok → b' = b) ∧
      (lifespanSt s env).params = s.params ∧ (lifespanSt s env).executed = s.executed := by
  obtain ⟨p1, p2, p3, p4, p5⟩ := forcedPB_spec s
  unfold lifespanSt
  split
  · obtain ⟨b, b', e1, e2, e3, e4⟩ := runExit_spec (forcedPB s) env
    exact ⟨b, b', by simp_all⟩
  · exact ⟨false, false, by simp_all⟩

theorem lifespanSt_ok (s : St) (env : Env) (hf : s.flag = false) (hx : env.exitOut = .ok) :
    obs (lifespanSt s env).acts.reverse =
        obs s.acts.reverse ++ (if s.params.hasExit then [.user .exit 0, exitRes] else []) ∧
      (lifespanSt s env).flag = false ∧
      (lifespanSt s env).params = s.params ∧ (lifespanSt s env).executed = s.executed := by
  obtain ⟨p1, p2, p3, p4, p5⟩ := forcedPB_spec s
  unfold lifespanSt
  rw [p2]
  split
  · obtain ⟨e1, e2, e3, e4, e5⟩ := runExit_ok (forcedPB s) env (by simp [p4, hf]) hx
    simp_all
  · simp_all

theorem finish_eq (s : St) (env : Env) : finish s env = s.acts.reverse ++ ([.waitAllReceived] ++
    (if (!(env.excAtEnd || s.flag) && reached s) then [.restartReq] else []) ++ [.dead]) := by
  simp [finish, reached]

theorem finish_obs (s : St) (env : Env) : obs (finish s env) = obs s.acts.reverse ++ ([.waitAllReceived] ++
    (if (!(env.excAtEnd || s.flag) && reached s) then [.restartReq] else []) ++ [.dead]) := by
  rw [finish_eq, obs_append]
  congr 1
  split <;> simp [obs_cons, noise]

/-! ## Observations only look at `obs` -/

theorem userActs_obs (l : List Act) : userActs (obs l) = userActs l := by
  induction l with
  | nil => rfl
  | cons a l ih => cases a <;> simp_all [userActs, obs_cons, noise]

theorem taskIds_obs (l : List Act) : taskIds (obs l) = taskIds l := by
  induction l with
  | nil => rfl
  | cons a l ih =>
    simp only [taskIds] at ih ⊢
    rw [obs_cons]
    cases hn : noise a
    · simp only [Bool.false_eq_true, if_false, List.filterMap_cons, ih]
    · cases a <;> simp_all [noise]

theorem sentOk_obs (l : List Act) : sentOk (obs l) = sentOk l := by
  induction l with
  | nil => rfl
  | cons a l ih => cases a <;> simp_all [sentOk, obs_cons, noise]

theorem count_obs (a : Act) (h : noise a = false) (l : List Act) : (obs l).count a = l.count a := by
  induction l with
  | nil => rfl
  | cons b l ih =>
    rw [obs_cons]
    cases hb : noise b
    · simp [List.count_cons, ih]
    · have : (b == a) = false := by
        apply beq_false_of_ne; intro hba; rw [hba, h] at hb; cases hb
      simp [List.count_cons, ih, this]

theorem mem_obs (a : Act) (h : noise a = false) (l : List Act) : a ∈ obs l ↔ a ∈ l := by
  simp [obs, h]

/-! ## Every script: `got`/`taskDone` balance, no `restartReq` before `finish` -/

theorem count_map_userTask (a : Act) (h : ∀ t, userTask t ≠ a) (l : List TaskIn) : (l.map userTask).count a = 0 := by
  rw [List.count_eq_zero]
  intro hm
  obtain ⟨t, _, ht⟩ := List.mem_map.1 hm
  exact h t ht

/-- what an extension of the trace by one queue entry satisfies, for every script -/
def Balanced (X : List Act) : Prop := X.count .taskDone = X.count .got ∧ Act.restartReq ∉ X

theorem runChunk_balanced (s : St) (env : Env) (job : Int) (ia : Bool) (ts : List TaskIn) :
    ∃ X, obs (runChunk s env job ia ts).1.acts.reverse = obs s.acts.reverse ++ X ∧
      X.count .taskDone = 1 ∧ X.count .got = 0 ∧ Act.restartReq ∉ X := by
  obtain ⟨bi, n, res, _, h, _⟩ := runChunk_spec s env job ia ts
  refine ⟨_, by rw [h]; simp only [List.append_assoc]; rfl, ?_, ?_, ?_⟩
  · simp only [List.count_append, count_map_userTask .taskDone (by intro t; simp [userTask])]
    by_cases hr : res = [] <;> cases bi <;> simp [hr]
  · simp only [List.count_append, count_map_userTask .got (by intro t; simp [userTask])]
    by_cases hr : res = [] <;> cases bi <;> simp [hr]
  · simp only [List.mem_append, List.mem_map, userTask, not_or]
    by_cases hr : res = [] <;> cases bi <;> simp [hr]

theorem handle_balanced (s : St) (env : Env) (it : Item) :
    ∃ X, obs (handle s env it).1.acts.reverse = obs s.acts.reverse ++ X ∧ Balanced X := by
  cases it with
  | stopNow => exact ⟨[], by simp [handle, Balanced]⟩
  | pill =>
    obtain ⟨b, b', h, _⟩ := handle_pill_spec s env
    refine ⟨_, by rw [h]; simp only [List.append_assoc]; rfl, ?_⟩
    cases b <;> cases b' <;> simp [Balanced, exitRes]
  | pillNL =>
    obtain ⟨p1, _⟩ := forcedPB_spec (s.emit [.got])
    exact ⟨[.got, .taskDone], by simp [handle, p1, obs_cons, noise], by simp [Balanced]⟩
  | newParams q =>
    cases q with
    | none => exact ⟨[.got, .taskDone], by simp [handle, obs_cons, noise], by simp [Balanced]⟩
    | some q => exact ⟨[.got, .taskDone, .got, .taskDone], by simp [handle, obs_cons, noise], by simp [Balanced]⟩
  | apply t =>
    cases t with
    | none => exact ⟨[.got, .taskDone], by simp [handle, obs_cons, noise], by simp [Balanced]⟩
    | some jt =>
      obtain ⟨job, t⟩ := jt
      obtain ⟨X, h, c1, c2, c3⟩ := runChunk_balanced (s.emit [.got, .taskDone, .got]) env job true [t]
      refine ⟨[.got, .taskDone, .got] ++ X, ?_, ?_⟩
      · simp only [handle, h]; simp [obs_cons, noise]
      · simp [Balanced, c1, c2, c3]
  | chunk job ts =>
    obtain ⟨X, h, c1, c2, c3⟩ := runChunk_balanced (s.emit [.got]) env job false ts
    refine ⟨[.got] ++ X, ?_, ?_⟩
    · simp only [handle, h]; simp [obs_cons, noise]
    · simp [Balanced, c1, c2, c3]

theorem lifespanSt_balanced (s : St) (env : Env) :
    ∃ X, obs (lifespanSt s env).acts.reverse = obs s.acts.reverse ++ X ∧ Balanced X := by
  obtain ⟨b, b', h, _⟩ := lifespanSt_spec s env
  refine ⟨_, by rw [h]; simp only [List.append_assoc]; rfl, ?_⟩
  cases b <;> cases b' <;> simp [Balanced, exitRes]

theorem handle_params (s : St) (env : Env) (it : Item) :
    (handle s env it).1.params = s.params ∨ ∃ q, it = .newParams (some q) ∧ (handle s env it).1.params = q := by
  cases it with
  | stopNow => exact Or.inl rfl
  | pill => obtain ⟨_, _, _, _, _, h, _⟩ := handle_pill_spec s env; exact Or.inl h
  | pillNL => exact Or.inl (by simp [handle, (forcedPB_spec (s.emit [.got])).2.1])
  | newParams q =>
    cases q with
    | none => exact Or.inl rfl
    | some q => exact Or.inr ⟨q, rfl, rfl⟩
  | apply t =>
    cases t with
    | none => exact Or.inl rfl
    | some jt =>
      obtain ⟨_, _, _, _, _, h, _⟩ := runChunk_spec (s.emit [.got, .taskDone, .got]) env jt.1 true [jt.2]
      exact Or.inl h
  | chunk job ts =>
    obtain ⟨_, _, _, _, _, h, _⟩ := runChunk_spec (s.emit [.got]) env job false ts
    exact Or.inl h

/-- every run ends in `finish` of a state whose trace extends the start by balanced pieces -/
theorem loop_balanced (env : Env) (items : List Item) (P : Params → Prop)
    (hP : ∀ q, Item.newParams (some q) ∈ items → P q) (s : St)
    (h : ((obs s.acts.reverse).count .taskDone = (obs s.acts.reverse).count .got ∧
      Act.restartReq ∉ obs s.acts.reverse) ∧ P s.params) :
    ∃ s', (((obs s'.acts.reverse).count .taskDone = (obs s'.acts.reverse).count .got ∧
      Act.restartReq ∉ obs s'.acts.reverse) ∧ P s'.params) ∧ loop env s items = finish s' env := by
  refine loop_inv env _ _ items ?_ ?_ (fun s hs _ => hs) s h
  · intro s it hit hs _ _
    obtain ⟨X, hX, hb1, hb2⟩ := handle_balanced s env it
    have : ((obs (handle s env it).1.acts.reverse).count .taskDone = (obs (handle s env it).1.acts.reverse).count .got ∧
        Act.restartReq ∉ obs (handle s env it).1.acts.reverse) ∧ P (handle s env it).1.params := by
      refine ⟨?_, ?_⟩
      · rw [hX]; simp only [List.count_append, List.mem_append, not_or]; exact ⟨by omega, hs.1.2, hb2⟩
      · rcases handle_params s env it with h | ⟨q, hq, h⟩
        · rw [h]; exact hs.2
        · rw [h]; exact hP q (hq ▸ hit)
    exact ⟨fun _ => this, fun _ => this⟩
  · intro s hs _
    obtain ⟨X, hX, hb1, hb2⟩ := lifespanSt_balanced s env
    refine ⟨?_, ?_⟩
    · rw [hX]; simp only [List.count_append, List.mem_append, not_or]; exact ⟨by omega, hs.1.2, hb2⟩
    · rw [(lifespanSt_spec s env).choose_spec.choose_spec.2.2.1]; exact hs.2

theorem run_balanced (p : Params) (env : Env) (items : List Item) (P : Params → Prop)
    (hP : ∀ q, Item.newParams (some q) ∈ items → P q) (hp : P p) :
    ∃ s', (((obs s'.acts.reverse).count .taskDone = (obs s'.acts.reverse).count .got ∧
      Act.restartReq ∉ obs s'.acts.reverse) ∧ P s'.params) ∧ run p env items = finish s' env :=
  loop_balanced env items P hP _ ⟨by simp [obs_cons, noise], hp⟩

theorem mem_finish_restart (s : St) (env : Env) (h : Act.restartReq ∉ obs s.acts.reverse) :
    Act.restartReq ∈ finish s env ↔ (env.excAtEnd = false ∧ s.flag = false) ∧ reached s = true := by
  rw [← mem_obs _ rfl, finish_obs]
  simp only [List.mem_append, h, false_or]
  split <;> simp_all

/-! ## Exit results -/

/-- no chunk or apply task carries the job id reserved for the exit function (real job ids are ≥ 0) -/
def noExitJob (items : List Item) : Bool :=
  items.all fun it => match it with
    | .chunk j _ => j != EXIT_FUNC
    | .apply (some (j, _)) => j != EXIT_FUNC
    | _ => true

theorem count_userActs_exit (l : List Act) : (userActs l).count (Kind.exit, 0) = l.count (.user .exit 0) := by
  induction l with
  | nil => rfl
  | cons a l ih =>
    simp only [userActs] at ih ⊢
    cases a <;> simp_all [List.count_cons]

def ExitC (X : List Act) : Prop := X.count exitRes = X.count (.user .exit 0)

theorem runChunk_exitc (s : St) (env : Env) (job : Int) (ia : Bool) (ts : List TaskIn) (hj : job ≠ EXIT_FUNC) :
    ∃ X, obs (runChunk s env job ia ts).1.acts.reverse = obs s.acts.reverse ++ X ∧
      X.count exitRes = 0 ∧ X.count (.user .exit 0) = 0 := by
  obtain ⟨bi, n, res, _, h, _, _, hres, _⟩ := runChunk_spec s env job ia ts
  refine ⟨_, by rw [h]; simp only [List.append_assoc]; rfl, ?_, ?_⟩
  · simp only [List.count_append, count_map_userTask exitRes (by intro t; simp [userTask, exitRes])]
    have : res ≠ [(EXIT_FUNC, true, 0)] := by
      intro he
      exact hj (hres (EXIT_FUNC, true, 0) (by simp [he])).symm
    by_cases hr : res = [] <;> cases bi <;> simp [hr, exitRes, this]
  · simp only [List.count_append, count_map_userTask (.user .exit 0) (by intro t; simp [userTask])]
    by_cases hr : res = [] <;> cases bi <;> simp [hr]

def itemJobOk (it : Item) : Bool :=
  match it with
  | .chunk j _ => j != EXIT_FUNC
  | .apply (some (j, _)) => j != EXIT_FUNC
  | _ => true

theorem handle_exitc (s : St) (env : Env) (it : Item) (hx : env.exitOut = .ok) (hj : itemJobOk it = true) :
    ∃ X, obs (handle s env it).1.acts.reverse = obs s.acts.reverse ++ X ∧ ExitC X := by
  cases it with
  | stopNow => exact ⟨[], by simp [handle, ExitC]⟩
  | pill =>
    obtain ⟨b, b', h, hb, _⟩ := handle_pill_spec s env
    refine ⟨_, by rw [h]; simp only [List.append_assoc]; rfl, ?_⟩
    rw [hb hx]
    cases b <;> simp [ExitC, exitRes]
  | pillNL =>
    obtain ⟨p1, _⟩ := forcedPB_spec (s.emit [.got])
    exact ⟨[.got, .taskDone], by simp [handle, p1, obs_cons, noise], by simp [ExitC, exitRes]⟩
  | newParams q =>
    cases q with
    | none => exact ⟨[.got, .taskDone], by simp [handle, obs_cons, noise], by simp [ExitC, exitRes]⟩
    | some q =>
      exact ⟨[.got, .taskDone, .got, .taskDone], by simp [handle, obs_cons, noise], by simp [ExitC, exitRes]⟩
  | apply t =>
    cases t with
    | none => exact ⟨[.got, .taskDone], by simp [handle, obs_cons, noise], by simp [ExitC, exitRes]⟩
    | some jt =>
      obtain ⟨job, t⟩ := jt
      obtain ⟨X, h, c1, c2⟩ := runChunk_exitc (s.emit [.got, .taskDone, .got]) env job true [t]
        (by simpa [itemJobOk] using hj)
      refine ⟨[.got, .taskDone, .got] ++ X, ?_, ?_⟩
      · simp only [handle, h]; simp [obs_cons, noise]
      · simp_all [ExitC, exitRes]
  | chunk job ts =>
    obtain ⟨X, h, c1, c2⟩ := runChunk_exitc (s.emit [.got]) env job false ts (by simpa [itemJobOk] using hj)
    refine ⟨[.got] ++ X, ?_, ?_⟩
    · simp only [handle, h]; simp [obs_cons, noise]
    · simp_all [ExitC, exitRes]

/-! ## Lifespan bound -/

theorem taskIds_append (a b : List Act) : taskIds (a ++ b) = taskIds a ++ taskIds b := by
  simp [taskIds]

theorem taskIds_map_userTask (l : List TaskIn) : taskIds (l.map userTask) = l.map (·.id) := by
  induction l with
  | nil => rfl
  | cons t l ih => simp only [taskIds] at ih ⊢; simp [userTask, ih]

theorem taskIds_finish (s : St) (env : Env) : taskIds (finish s env) = taskIds (obs s.acts.reverse) := by
  rw [← taskIds_obs, finish_obs, taskIds_append]
  split <;> simp [taskIds]

theorem runChunk_lb (s : St) (env : Env) (job : Int) (ia : Bool) (ts : List TaskIn)
    (hni : ts.all (·.out != .interrupt) = true) :
    ∃ k, k ≤ ts.length ∧
      (taskIds (obs (runChunk s env job ia ts).1.acts.reverse)).length = (taskIds (obs s.acts.reverse)).length + k ∧
      ((runChunk s env job ia ts).2 = false → (runChunk s env job ia ts).1.executed = s.executed + k) := by
  obtain ⟨bi, n, res, hn, h, _, he, _, hr⟩ := runChunk_spec s env job ia ts
  refine ⟨n, hn, ?_, ?_⟩
  · rw [h]
    simp only [taskIds_append, taskIds_map_userTask, List.length_append, List.length_map, List.length_take]
    by_cases hr : res = [] <;> cases bi <;> simp [hr, taskIds] <;> omega
  · intro hret
    obtain ⟨h1, h2⟩ := hr hni hret
    rw [he, h2, h1]

def itemOkLB (c : Nat) (it : Item) : Prop :=
  (match it with | .chunk _ ts => decide (ts.length ≤ c) | _ => true) = true ∧
  (match it with
    | .apply (some (_, t)) => t.out != .interrupt
    | .chunk _ ts => ts.all (·.out != .interrupt)
    | _ => true) = true

theorem handle_lb (s : St) (env : Env) (it : Item) (c : Nat) (hc : 1 ≤ c) (hit : itemOkLB c it) :
    ∃ k, k ≤ c ∧
      (taskIds (obs (handle s env it).1.acts.reverse)).length = (taskIds (obs s.acts.reverse)).length + k ∧
      ((handle s env it).2 = false → (handle s env it).1.executed = s.executed + k) := by
  cases it with
  | stopNow => exact ⟨0, by simp [handle]⟩
  | pill =>
    obtain ⟨b, b', h, _, _, _, he, _⟩ := handle_pill_spec s env
    refine ⟨0, Nat.zero_le _, ?_, fun _ => he⟩
    rw [h]; cases b <;> cases b' <;> simp [taskIds, exitRes]
  | pillNL =>
    obtain ⟨p1, _, p3, _⟩ := forcedPB_spec (s.emit [.got])
    exact ⟨0, by simp [handle, p1, p3, obs_cons, noise, taskIds]⟩
  | newParams q =>
    cases q with
    | none => exact ⟨0, by simp [handle, obs_cons, noise, taskIds]⟩
    | some q => exact ⟨0, by simp [handle, obs_cons, noise, taskIds]⟩
  | apply t =>
    cases t with
    | none => exact ⟨0, by simp [handle, obs_cons, noise, taskIds]⟩
    | some jt =>
      obtain ⟨job, t⟩ := jt
      obtain ⟨k, hk, h1, h2⟩ := runChunk_lb (s.emit [.got, .taskDone, .got]) env job true [t]
        (by simpa [itemOkLB] using hit.2)
      refine ⟨k, by simp at hk; omega, ?_, ?_⟩
      · simp only [handle, h1]; simp [obs_cons, noise, taskIds]
      · simpa [handle] using h2
  | chunk job ts =>
    obtain ⟨k, hk, h1, h2⟩ := runChunk_lb (s.emit [.got]) env job false ts (by simpa [itemOkLB] using hit.2)
    have : ts.length ≤ c := by simpa [itemOkLB] using hit.1
    refine ⟨k, by omega, ?_, ?_⟩
    · simp only [handle, h1]; simp [obs_cons, noise, taskIds]
    · simpa [handle] using h2

/-! ## Successful calls -/

/-- the acts the properties of successful calls look at -/
def vis : Act → Bool
  | .user _ _ | .addResults _ | .restartReq => true
  | _ => false

def obs2 (l : List Act) : List Act := l.filter vis

@[simp] theorem obs2_nil : obs2 [] = [] := rfl
@[simp] theorem obs2_append (a b : List Act) : obs2 (a ++ b) = obs2 a ++ obs2 b := by simp [obs2]
theorem obs2_cons (a : Act) (l : List Act) : obs2 (a :: l) = if vis a then a :: obs2 l else obs2 l := by
  simp only [obs2, List.filter_cons]

theorem obs2_obs (l : List Act) : obs2 (obs l) = obs2 l := by
  simp only [obs2, obs, List.filter_filter]
  congr 1
  funext a
  cases a <;> rfl

theorem obs2_map_userTask (l : List TaskIn) : obs2 (l.map userTask) = l.map userTask := by
  induction l with
  | nil => rfl
  | cons t l ih => simp [obs2_cons, vis, userTask, ih]

def itemAllOk (it : Item) : Bool :=
  match it with
  | .chunk _ ts => ts.all (·.out == .ok) && !ts.isEmpty
  | .apply (some (_, t)) => t.out == .ok
  | .newParams none | .apply none | .stopNow => false
  | _ => true

theorem allOk_mem {items : List Item} (h : allOk items = true) {it : Item} (hit : it ∈ items) : itemAllOk it = true := by
  have := List.all_eq_true.1 h it hit
  cases it <;> first | exact this | skip
  all_goals rename_i x; cases x <;> first | exact this | skip
  all_goals rename_i x; exact this

theorem obs2_of_obs {l l' X : List Act} (h : obs l' = obs l ++ X) : obs2 l' = obs2 l ++ obs2 X := by
  rw [← obs2_obs l', h, obs2_append, obs2_obs]

/-- what one queue entry adds to the visible trace of a successful call: `init? task* results? (exit result)?` -/
def okExt (hasInit initDone : Bool) (W : List TaskIn) (job : Int) (e : Bool) : List Act :=
  (if hasInit && !initDone && !W.isEmpty then [.user .init 0] else []) ++ W.map userTask ++
    (if W.isEmpty then [] else [.addResults (W.map fun t => (job, true, t.id))]) ++
    (if e then [.user .exit 0, exitRes] else [])

theorem runChunk_ok2 (s : St) (env : Env) (job : Int) (ia : Bool) (ts : List TaskIn) (hf : s.flag = false)
    (he : env.initOut = .ok) (hall : ts.all (·.out == .ok) = true) (hne : ts ≠ []) :
    obs2 (runChunk s env job ia ts).1.acts.reverse =
      obs2 s.acts.reverse ++ okExt s.params.hasInit s.initDone ts job false := by
  obtain ⟨_, _, _, _, _, h⟩ := runChunk_ok s env job ia ts hf he hall
  simp only [List.append_assoc] at h
  rw [obs2_of_obs h]
  simp only [okExt, obs2_append, obs2_map_userTask]
  cases ts with
  | nil => exact absurd rfl hne
  | cons t ts => cases s.params.hasInit <;> cases s.initDone <;> simp [obs2_cons, vis]

theorem okExt_nil (hi d : Bool) (job : Int) : okExt hi d [] job false = [] := by simp [okExt]

/-- one queue entry of a successful call -/
theorem handle_ok (s : St) (env : Env) (it : Item) (hf : s.flag = false) (henv : okEnv env)
    (hit : itemAllOk it = true) :
    ∃ (W : List TaskIn) (job : Int) (e : Bool),
      obs2 (handle s env it).1.acts.reverse = obs2 s.acts.reverse ++ okExt s.params.hasInit s.initDone W job e ∧
      (handle s env it).1.flag = false ∧
      (handle s env it).1.executed = s.executed + W.length ∧
      (handle s env it).1.initDone = (s.initDone || (s.params.hasInit && !W.isEmpty)) ∧
      (e = true → W = []) ∧
      ((handle s env it).2 = true → e = (s.params.hasExit && decide (0 < s.executed)) ∧ W = []) ∧
      ((handle s env it).2 = false → e = false) ∧
      (W ≠ [] → itemJobOk it = true → job ≠ EXIT_FUNC) := by
  obtain ⟨hi, hx, _⟩ := henv
  cases it with
  | stopNow => simp [itemAllOk] at hit
  | pill =>
    obtain ⟨h1, h2, h3, h4, h5, h6⟩ := handle_pill_ok s env hf hx
    simp only [List.append_assoc] at h1
    refine ⟨[], 0, s.params.hasExit && decide (0 < s.executed), ?_, h2, by simp [h4], by simp [h6], ?_⟩
    · rw [obs2_of_obs h1]
      cases s.params.hasExit && decide (0 < s.executed) <;> simp [okExt, obs2_cons, vis, exitRes]
    · simp [h5]
  | pillNL =>
    obtain ⟨p1, p2, p3, p4, p5⟩ := forcedPB_spec (s.emit [.got])
    refine ⟨[], 0, false, ?_⟩
    have : obs (handle s env .pillNL).1.acts.reverse = obs s.acts.reverse ++ [.got, .taskDone] := by
      simp [handle, p1, obs_cons, noise]
    rw [obs2_of_obs this, okExt_nil]
    simp [handle, p3, p4, p5, hf, obs2_cons, vis]
  | newParams q =>
    cases q with
    | none => simp [itemAllOk] at hit
    | some q =>
      refine ⟨[], 0, false, ?_⟩
      have : obs (handle s env (.newParams (some q))).1.acts.reverse =
          obs s.acts.reverse ++ [.got, .taskDone, .got, .taskDone] := by
        simp [handle, obs_cons, noise]
      rw [obs2_of_obs this, okExt_nil]
      simp [handle, hf, obs2_cons, vis]
  | apply t =>
    cases t with
    | none => simp [itemAllOk] at hit
    | some jt =>
      obtain ⟨job, t⟩ := jt
      have hall : [t].all (·.out == .ok) = true := by simpa [itemAllOk] using hit
      have hf' : (s.emit [.got, .taskDone, .got]).flag = false := hf
      obtain ⟨c1, c2, c3, c4, c5, _⟩ := runChunk_ok (s.emit [.got, .taskDone, .got]) env job true [t] hf' hi hall
      have c6 := runChunk_ok2 (s.emit [.got, .taskDone, .got]) env job true [t] hf' hi hall (by simp)
      refine ⟨[t], job, false, ?_, c2, by simpa [handle] using c5, by simpa [handle] using c3, by simp, ?_, by simp, ?_⟩
      · simp only [handle, c6]; simp [obs2_cons, vis]
      · simp [handle, c1]
      · intro _ h; simpa [itemJobOk] using h
  | chunk job ts =>
    have hall : ts.all (·.out == .ok) = true ∧ ts ≠ [] := by
      simpa [itemAllOk, List.isEmpty_iff] using hit
    have hf' : (s.emit [.got]).flag = false := hf
    obtain ⟨c1, c2, c3, c4, c5, _⟩ := runChunk_ok (s.emit [.got]) env job false ts hf' hi hall.1
    have c6 := runChunk_ok2 (s.emit [.got]) env job false ts hf' hi hall.1 hall.2
    refine ⟨ts, job, false, ?_, c2, by simpa [handle] using c5, ?_, by simp, ?_, by simp, ?_⟩
    · simp only [handle, c6]; simp [obs2_cons, vis]
    · have : ts.isEmpty = false := by
        cases ts with
        | nil => exact absurd rfl hall.2
        | cons _ _ => rfl
      simp [handle, c3, this]
    · simp [handle, c1]
    · intro _ h; simpa [itemJobOk] using h

theorem lifespanSt_ok2 (s : St) (env : Env) (hf : s.flag = false) (hx : env.exitOut = .ok) :
    obs2 (lifespanSt s env).acts.reverse =
      obs2 s.acts.reverse ++ okExt s.params.hasInit s.initDone [] 0 s.params.hasExit := by
  obtain ⟨h, _⟩ := lifespanSt_ok s env hf hx
  rw [obs2_of_obs h]
  cases s.params.hasExit <;> simp [okExt, obs2_cons, vis, exitRes]

theorem userActs_obs2 (l : List Act) : userActs (obs2 l) = userActs l := by
  induction l with
  | nil => rfl
  | cons a l ih => cases a <;> simp_all [userActs, obs2_cons, vis]

theorem taskIds_obs2 (l : List Act) : taskIds (obs2 l) = taskIds l := by
  induction l with
  | nil => rfl
  | cons a l ih =>
    simp only [taskIds] at ih ⊢
    rw [obs2_cons]
    cases hv : vis a
    · cases a <;> simp_all [vis]
    · simp only [if_true, List.filterMap_cons, ih]

theorem sentOk_obs2 (l : List Act) : sentOk (obs2 l) = sentOk l := by
  induction l with
  | nil => rfl
  | cons a l ih => cases a <;> simp_all [sentOk, obs2_cons, vis]

theorem userActs_append (a b : List Act) : userActs (a ++ b) = userActs a ++ userActs b := by
  simp [userActs]

theorem userActs_map_userTask (l : List TaskIn) :
    userActs (l.map userTask) = l.map (fun t => (Kind.task, t.id)) := by
  induction l with
  | nil => rfl
  | cons t l ih => simp only [userActs] at ih ⊢; simp [userTask, ih]

theorem userActs_okExt (hi d : Bool) (W : List TaskIn) (job : Int) (e : Bool) :
    userActs (okExt hi d W job e) = (if hi && !d && !W.isEmpty then [(Kind.init, 0)] else []) ++
      W.map (fun t => (Kind.task, t.id)) ++ (if e then [(Kind.exit, 0)] else []) := by
  simp only [okExt, userActs_append, userActs_map_userTask]
  cases (hi && !d && !W.isEmpty) <;> cases W.isEmpty <;> cases e <;> simp [userActs, exitRes]

theorem taskIds_okExt (hi d : Bool) (W : List TaskIn) (job : Int) (e : Bool) :
    taskIds (okExt hi d W job e) = W.map (·.id) := by
  simp only [okExt, taskIds_append, taskIds_map_userTask]
  cases (hi && !d && !W.isEmpty) <;> cases W.isEmpty <;> cases e <;> simp [taskIds, exitRes]

def taskU (t : Nat) : Kind × Nat := (Kind.task, t)

/-- loop invariant of a successful call -/
structure InvU (p : Params) (P : Params → Prop) (s : St) : Prop where
  flag : s.flag = false
  par : P s.params
  hi : s.params.hasInit = p.hasInit
  hx : s.params.hasExit = p.hasExit
  us : userActs (obs2 s.acts.reverse) =
    (if s.initDone then [(Kind.init, 0)] else []) ++ (taskIds (obs2 s.acts.reverse)).map taskU
  len : (taskIds (obs2 s.acts.reverse)).length = s.executed
  idone : s.initDone = (s.params.hasInit && decide (0 < s.executed))

theorem ext_core (p : Params) (P : Params → Prop) (s : St) (inv : InvU p P s) (V' : List Act) (W : List TaskIn)
    (job : Int) (e : Bool) (hV : V' = obs2 s.acts.reverse ++ okExt s.params.hasInit s.initDone W job e) :
    userActs V' = (if (s.initDone || (s.params.hasInit && !W.isEmpty)) then [(Kind.init, 0)] else []) ++
        (taskIds V').map taskU ++ (if e then [(Kind.exit, 0)] else []) ∧
      taskIds V' = taskIds (obs2 s.acts.reverse) ++ W.map (·.id) ∧
      (s.initDone || (s.params.hasInit && !W.isEmpty)) = (s.params.hasInit && decide (0 < s.executed + W.length)) := by
  subst hV
  have hus := inv.us
  have hlen := inv.len
  have hid := inv.idone
  rw [userActs_append, userActs_okExt, taskIds_append, taskIds_okExt, hus]
  refine ⟨?_, rfl, ?_⟩
  · cases hd : s.initDone
    · cases hh : s.params.hasInit
      · simp [taskU]
      · have h0 : s.executed = 0 := by
          rw [hd, hh] at hid; simpa using hid.symm
        have : taskIds (obs2 s.acts.reverse) = [] := List.eq_nil_of_length_eq_zero (hlen.trans h0)
        simp [this, taskU]
    · simp [taskU]
  · rw [hid]
    cases s.params.hasInit <;> cases W <;> simp
    omega

/-- what the trace of a successful call looks like at the end -/
def FinU (p : Params) (Z X : Prop) (s : St) : Prop :=
  ∃ (i e : Bool) (ids : List Nat),
    userActs (obs2 s.acts.reverse) =
      (if i then [(Kind.init, 0)] else []) ++ ids.map taskU ++ (if e then [(Kind.exit, 0)] else []) ∧
    taskIds (obs2 s.acts.reverse) = ids ∧ (i = true ↔ p.hasInit = true ∧ ids ≠ []) ∧
    (e = true → p.hasExit = true ∧ (Z → ids ≠ [])) ∧ (X → p.hasExit = true → ids ≠ [] → e = true)

theorem handle_invU (p : Params) (P : Params → Prop) (Z X : Prop) (s : St) (env : Env) (it : Item)
    (inv : InvU p P s) (henv : okEnv env) (hit : itemAllOk it = true)
    (hq : ∀ q, it = .newParams (some q) → P q ∧ q.hasInit = p.hasInit ∧ q.hasExit = p.hasExit) :
    ((handle s env it).2 = true → FinU p Z X (handle s env it).1) ∧
    ((handle s env it).2 = false → InvU p P (handle s env it).1) := by
  obtain ⟨W, job, e, h1, h2, h3, h4, h5, h6, h7, _⟩ := handle_ok s env it inv.flag henv hit
  obtain ⟨c1, c2, c3⟩ := ext_core p P s inv _ W job e h1
  have hlen : (taskIds (obs2 (handle s env it).1.acts.reverse)).length = s.executed + W.length := by
    rw [c2, List.length_append, List.length_map, inv.len]
  constructor
  · intro hret
    obtain ⟨he, hW⟩ := h6 hret
    refine ⟨_, e, _, c1, rfl, ?_, ?_, ?_⟩
    · rw [c3, ← List.length_pos_iff, hlen, inv.hi]; simp
    · intro he'
      rw [he', eq_comm, Bool.and_eq_true, decide_eq_true_eq, inv.hx] at he
      exact ⟨he.1, fun _ => by rw [← List.length_pos_iff, hlen]; omega⟩
    · intro _ hx hne
      rw [he, inv.hx, hx]
      rw [← List.length_pos_iff, hlen, hW] at hne
      simpa using hne
  · intro hret
    have he := h7 hret
    have hpar : P (handle s env it).1.params ∧ (handle s env it).1.params.hasInit = p.hasInit ∧
        (handle s env it).1.params.hasExit = p.hasExit := by
      rcases handle_params s env it with h | ⟨q, hq', h⟩
      · rw [h]; exact ⟨inv.par, inv.hi, inv.hx⟩
      · rw [h]; exact hq q hq'
    refine ⟨h2, hpar.1, hpar.2.1, hpar.2.2, ?_, by rw [hlen, h3], ?_⟩
    · rw [c1, he, h4]; simp
    · rw [h4, h3, hpar.2.1, ← inv.hi]; exact c3

theorem reached_invU (p : Params) (P : Params → Prop) (Z X : Prop) (s : St) (env : Env)
    (inv : InvU p P s) (henv : okEnv env) (hr : reached s = true) (hZ : Z → ∀ q, P q → q.lifespan ≠ some 0) :
    FinU p Z X (lifespanSt s env) := by
  have h1 := lifespanSt_ok2 s env inv.flag henv.2.1
  obtain ⟨c1, c2, c3⟩ := ext_core p P s inv _ [] 0 s.params.hasExit h1
  have hlen : (taskIds (obs2 (lifespanSt s env).acts.reverse)).length = s.executed := by
    rw [c2, List.length_append, List.length_map, inv.len]; rfl
  refine ⟨_, s.params.hasExit, _, c1, rfl, ?_, ?_, ?_⟩
  · rw [c3, ← List.length_pos_iff, hlen, inv.hi]; simp
  · intro he
    refine ⟨inv.hx ▸ he, fun hz => ?_⟩
    have hne := hZ hz _ inv.par
    rw [← List.length_pos_iff, hlen]
    unfold reached at hr
    split at hr
    · rename_i l hl
      have : l ≠ 0 := by intro h0; rw [h0] at hl; exact hne hl
      have : l ≤ s.executed := by simpa using hr
      omega
    · cases hr
  · intro _ hx _
    rw [inv.hx, hx]

theorem nil_invU (p : Params) (P : Params → Prop) (Z : Prop) (s : St) (inv : InvU p P s) : FinU p Z False s := by
  refine ⟨s.initDone, false, _, by rw [inv.us]; simp, rfl, ?_, by simp, by simp⟩
  rw [inv.idone, ← List.length_pos_iff, inv.len, inv.hi]; simp

theorem init_invU (p : Params) (P : Params → Prop) (hp : P p) :
    InvU p P { params := p, acts := [.resetRecv, .alive] } :=
  ⟨rfl, hp, rfl, rfl, by simp [obs2_cons, vis, userActs, taskIds], by simp [obs2_cons, vis, taskIds], by simp⟩

theorem userActs_finish (s : St) (env : Env) : userActs (finish s env) = userActs (obs2 s.acts.reverse) := by
  rw [finish_eq, userActs_append, userActs_obs2]
  split <;> simp [userActs]

theorem taskIds_finish2 (s : St) (env : Env) : taskIds (finish s env) = taskIds (obs2 s.acts.reverse) := by
  rw [taskIds_finish, taskIds_obs, taskIds_obs2]

/-- the lifespan is never 0 (`worker_lifespan` is validated to be a positive integer) -/
def posLifespan (p : Params) (items : List Item) : Bool :=
  p.lifespan != some 0 &&
    items.all fun it => match it with | .newParams (some q) => q.lifespan != some 0 | _ => true

theorem sameHooks_mem {p : Params} {items : List Item} (hh : sameHooks p items = true) {q : Params}
    (hq : Item.newParams (some q) ∈ items) : q.hasInit = p.hasInit ∧ q.hasExit = p.hasExit := by
  have := List.all_eq_true.1 hh _ hq
  simp only [Bool.and_eq_true, beq_iff_eq] at this
  exact ⟨this.1.1, this.1.2⟩

theorem step_invU (p : Params) (P : Params → Prop) (Z X : Prop) (env : Env) (items : List Item)
    (hok : allOk items = true) (henv : okEnv env) (hh : sameHooks p items = true)
    (hP : ∀ q, Item.newParams (some q) ∈ items → P q) :
    ∀ s it, it ∈ items → InvU p P s → reached s = false → s.flag = false →
      ((handle s env it).2 = true → FinU p Z X (handle s env it).1) ∧
      ((handle s env it).2 = false → InvU p P (handle s env it).1) := by
  intro s it hit inv _ _
  refine handle_invU p P Z X s env it inv henv (allOk_mem hok hit) ?_
  intro q hq
  subst hq
  exact ⟨hP q hit, sameHooks_mem hh hit⟩

theorem run_finU (p : Params) (P : Params → Prop) (Z : Prop) (env : Env) (items : List Item)
    (hok : allOk items = true) (henv : okEnv env) (hh : sameHooks p items = true)
    (hP : ∀ q, Item.newParams (some q) ∈ items → P q) (hp : P p) (hZ : Z → ∀ q, P q → q.lifespan ≠ some 0) :
    ∃ s', FinU p Z False s' ∧ run p env items = finish s' env :=
  loop_inv env (InvU p P) (FinU p Z False) items (step_invU p P Z False env items hok henv hh hP)
    (fun s inv hr => reached_invU p P Z False s env inv henv hr hZ) (fun s inv _ => nil_invU p P Z s inv) _
    (init_invU p P hp)

theorem posLifespan_mem {p : Params} {items : List Item} (h : posLifespan p items = true) :
    p.lifespan ≠ some 0 ∧ ∀ q, Item.newParams (some q) ∈ items → q.lifespan ≠ some 0 := by
  simp only [posLifespan, Bool.and_eq_true, bne_iff_ne, ne_eq] at h
  refine ⟨h.1, fun q hq => ?_⟩
  have := List.all_eq_true.1 h.2 _ hq
  simpa using this

/-! ## Results shipped once -/

theorem sentOk_append (a b : List Act) : sentOk (a ++ b) = sentOk a ++ sentOk b := by
  simp [sentOk]

theorem sentOk_map_userTask (l : List TaskIn) : sentOk (l.map userTask) = [] := by
  induction l with
  | nil => rfl
  | cons t l ih => simp only [sentOk] at ih ⊢; simp [userTask]

theorem filterMap_results (job : Int) (hj : job ≠ EXIT_FUNC) (W : List TaskIn) :
    (W.map fun t => (job, true, t.id)).filterMap
      (fun (x : Int × Bool × Nat) => if x.2.1 && x.1 ≠ EXIT_FUNC then some x.2.2 else none) = W.map (·.id) := by
  induction W with
  | nil => rfl
  | cons t W ih => simp only [List.map_cons, List.filterMap_cons, ih]; simp [hj]

theorem sentOk_okExt (hi d : Bool) (W : List TaskIn) (job : Int) (e : Bool) (hj : W ≠ [] → job ≠ EXIT_FUNC) :
    sentOk (okExt hi d W job e) = W.map (·.id) := by
  simp only [okExt, sentOk_append, sentOk_map_userTask]
  cases W with
  | nil => cases e <;> simp [sentOk, exitRes]
  | cons t W =>
    have := filterMap_results job (hj (by simp)) (t :: W)
    cases (hi && !d) <;> cases e <;> simp_all [sentOk, exitRes]

theorem sentOk_finish (s : St) (env : Env) : sentOk (finish s env) = sentOk (obs2 s.acts.reverse) := by
  rw [finish_eq, sentOk_append, sentOk_obs2]
  split <;> simp [sentOk]

theorem noExitJob_mem {items : List Item} (h : noExitJob items = true) {it : Item} (hit : it ∈ items) :
    itemJobOk it = true := List.all_eq_true.1 h it hit

/-! ## Restart request -/

theorem not_mem_okExt (hi d : Bool) (W : List TaskIn) (job : Int) (e : Bool) : Act.restartReq ∉ okExt hi d W job e := by
  simp only [okExt, List.mem_append, List.mem_map, userTask, not_or]
  cases (hi && !d && !W.isEmpty) <;> cases W.isEmpty <;> cases e <;> simp [exitRes]

theorem mem_obs2 (a : Act) (h : vis a = true) (l : List Act) : a ∈ obs2 l ↔ a ∈ l := by
  simp [obs2, h]

/-! ## The theorems used by `Props/C11.lean` and `Props/C12.lean` -/

theorem shape (p : Params) (env : Env) (items : List Item) (hok : allOk items = true) (henv : okEnv env)
    (hh : sameHooks p items = true) (hpos : posLifespan p items = true) : Shape (userActs (run p env items)) := by
  obtain ⟨hp, hq⟩ := posLifespan_mem hpos
  obtain ⟨s', ⟨i, e, ids, h1, _, h3, h4, _⟩, hr⟩ := run_finU p (fun q => q.lifespan ≠ some 0) True env items hok henv hh
    hq hp (fun _ _ h => h)
  rw [hr, userActs_finish, h1]
  by_cases hids : ids = []
  · left
    have hi : i = false := by
      cases i
      · rfl
      · exact absurd hids (h3.1 rfl).2
    have he : e = false := by
      cases e
      · rfl
      · exact absurd hids ((h4 rfl).2 trivial)
    simp [hi, he, hids]
  · right
    exact ⟨i, e, ids, hids, rfl⟩

theorem init_iff_work (p : Params) (env : Env) (items : List Item) (hok : allOk items = true) (henv : okEnv env)
    (hh : sameHooks p items = true) :
    ((Kind.init, 0) ∈ userActs (run p env items) ↔ p.hasInit = true ∧ taskIds (run p env items) ≠ []) := by
  obtain ⟨s', ⟨i, e, ids, h1, h2, h3, _, _⟩, hr⟩ := run_finU p (fun _ => True) False env items hok henv hh
    (fun _ _ => trivial) trivial (fun h => h.elim)
  rw [hr, userActs_finish, taskIds_finish2, h1, h2, ← h3]
  cases i <;> cases e <;> simp [taskU]

theorem exit_iff_work_at_shutdown (p : Params) (env : Env) (pre : List Item) (hok : allOk pre = true) (henv : okEnv env)
    (hh : sameHooks p pre = true) (hpos : posLifespan p pre = true) :
    ((Kind.exit, 0) ∈ userActs (run p env (pre ++ [.pill])) ↔
      p.hasExit = true ∧ taskIds (run p env (pre ++ [.pill])) ≠ []) := by
  obtain ⟨hp, hq⟩ := posLifespan_mem hpos
  have hZ : True → ∀ q : Params, q.lifespan ≠ some 0 → q.lifespan ≠ some 0 := fun _ _ h => h
  have key : ∃ s', FinU p True True s' ∧ run p env (pre ++ [.pill]) = finish s' env := by
    obtain ⟨s', h⟩ := loop_prefix env (InvU p fun q => q.lifespan ≠ some 0) (FinU p True True) pre [.pill]
      (step_invU p _ True True env pre hok henv hh hq)
      (fun s inv hr => reached_invU p _ True True s env inv henv hr hZ)
      (fun s inv _ hf => by rw [inv.flag] at hf; cases hf) _ (init_invU p _ hp)
    rcases h with h | ⟨inv, h⟩
    · exact ⟨s', h⟩
    · unfold run
      rw [h]
      simp only [loop]
      cases hr : reached s' with
      | true => exact ⟨_, reached_invU p _ True True s' env inv henv hr hZ, by simp [lifespanEnd_eq]⟩
      | false =>
        have hret : (handle s' env .pill).2 = true := (handle_pill_ok s' env inv.flag henv.2.1).2.2.2.2.1
        refine ⟨_, (handle_invU p _ True True s' env .pill inv henv rfl (by intro q hq; cases hq)).1 hret, ?_⟩
        simp [inv.flag, hret]
  obtain ⟨s', ⟨i, e, ids, h1, h2, _, h4, h5⟩, hr⟩ := key
  rw [hr, userActs_finish, taskIds_finish2, h1, h2]
  have : e = true ↔ p.hasExit = true ∧ ids ≠ [] :=
    ⟨fun he => ⟨(h4 he).1, (h4 he).2 trivial⟩, fun h => h5 trivial h.1 h.2⟩
  rw [← this]
  cases i <;> cases e <;> simp [taskU]

theorem exit_results_conserved (p : Params) (env : Env) (items : List Item) (henv : env.exitOut = .ok)
    (hj : noExitJob items = true) :
    exitResults (run p env items) = (userActs (run p env items)).count (Kind.exit, 0) := by
  have key : ∃ s', ExitC (obs s'.acts.reverse) ∧ run p env items = finish s' env := by
    refine loop_inv env (fun s => ExitC (obs s.acts.reverse)) _ items ?_ ?_ (fun s hs _ => hs) _ ?_
    · intro s it hit hs _ _
      obtain ⟨X, hX, hc⟩ := handle_exitc s env it henv (List.all_eq_true.1 hj it hit)
      have : ExitC (obs (handle s env it).1.acts.reverse) := by
        rw [hX]; simp only [ExitC, List.count_append] at *; omega
      exact ⟨fun _ => this, fun _ => this⟩
    · intro s hs _
      obtain ⟨b, b', h, hb, _⟩ := lifespanSt_spec s env
      rw [h, hb henv]
      simp only [ExitC, List.count_append] at *
      cases b <;> simp_all [exitRes]
    · simp [ExitC, obs_cons, noise, exitRes]
  obtain ⟨s', hs, hr⟩ := key
  rw [count_userActs_exit, exitResults, ← count_obs (.addResults [(EXIT_FUNC, true, 0)]) rfl (run p env items),
    ← count_obs (.user .exit 0) rfl (run p env items), hr, finish_obs]
  simp only [ExitC, exitRes] at hs
  simp only [List.count_append, hs]
  split <;> simp

theorem results_sent_once (p : Params) (env : Env) (items : List Item) (hok : allOk items = true) (henv : okEnv env)
    (hj : noExitJob items = true) :
    sentOk (run p env items) = taskIds (run p env items) := by
  have key : ∃ s', (s'.flag = false ∧ sentOk (obs2 s'.acts.reverse) = taskIds (obs2 s'.acts.reverse)) ∧
      run p env items = finish s' env := by
    refine loop_inv env (fun s => s.flag = false ∧ sentOk (obs2 s.acts.reverse) = taskIds (obs2 s.acts.reverse))
      _ items ?_ ?_ (fun s hs _ => hs) _ ?_
    · intro s it hit ⟨hf, hs⟩ _ _
      obtain ⟨W, job, e, h1, h2, _, _, _, _, _, h8⟩ := handle_ok s env it hf henv (allOk_mem hok hit)
      have : (handle s env it).1.flag = false ∧ sentOk (obs2 (handle s env it).1.acts.reverse) =
          taskIds (obs2 (handle s env it).1.acts.reverse) := by
        refine ⟨h2, ?_⟩
        rw [h1, sentOk_append, taskIds_append, taskIds_okExt, hs,
          sentOk_okExt _ _ _ _ _ (fun hW => h8 hW (noExitJob_mem hj hit))]
      exact ⟨fun _ => this, fun _ => this⟩
    · intro s ⟨hf, hs⟩ _
      refine ⟨(lifespanSt_ok s env hf henv.2.1).2.1, ?_⟩
      rw [lifespanSt_ok2 s env hf henv.2.1, sentOk_append, taskIds_append, taskIds_okExt, hs,
        sentOk_okExt _ _ _ _ _ (fun h => absurd rfl h)]
    · exact ⟨rfl, by simp [obs2_cons, vis, sentOk, taskIds]⟩
  obtain ⟨s', ⟨_, hs⟩, hr⟩ := key
  rw [hr, sentOk_finish, taskIds_finish2, hs]

theorem task_done_balance (p : Params) (env : Env) (items : List Item) :
    (run p env items).count .taskDone = (run p env items).count .got := by
  obtain ⟨s', ⟨⟨h, _⟩, _⟩, hr⟩ := run_balanced p env items (fun _ => True) (fun _ _ => trivial) trivial
  rw [← count_obs .taskDone rfl (run p env items), ← count_obs .got rfl (run p env items), hr, finish_obs]
  simp only [List.count_append, h]
  split <;> simp

theorem dead_last (p : Params) (env : Env) (items : List Item) :
    ∃ pre, run p env items = pre ++ [.waitAllReceived, .dead] ∨ run p env items = pre ++ [.waitAllReceived, .restartReq, .dead] := by
  obtain ⟨s', _, hr⟩ := run_balanced p env items (fun _ => True) (fun _ _ => trivial) trivial
  refine ⟨s'.acts.reverse, ?_⟩
  rw [hr, finish_eq]
  split
  · exact Or.inr rfl
  · exact Or.inl rfl

theorem lifespan_bound (p : Params) (env : Env) (items : List Item) (L c : Nat) (hL : p.lifespan = some L) (hc : 1 ≤ c)
    (hsz : chunkSizeLe c items = true) (hl : sameLifespan p items = true) (hni : noInterrupt items = true) :
    (taskIds (run p env items)).length ≤ L + c - 1 := by
  have key : ∃ s', (taskIds (obs s'.acts.reverse)).length ≤ L + c - 1 ∧ run p env items = finish s' env := by
    refine loop_inv env (fun s => s.params.lifespan = some L ∧
      (taskIds (obs s.acts.reverse)).length ≤ s.executed ∧ (taskIds (obs s.acts.reverse)).length ≤ L + c - 1)
      _ items ?_ ?_ (fun s hs _ => hs.2.2) _ ?_
    · intro s it hit ⟨hs1, hs2, hs3⟩ hr _
      have hok : itemOkLB c it := ⟨List.all_eq_true.1 hsz it hit, List.all_eq_true.1 hni it hit⟩
      obtain ⟨k, hk, h1, h2⟩ := handle_lb s env it c hc hok
      have hlt : s.executed < L := by simpa [reached, hs1] using hr
      refine ⟨fun _ => by rw [h1]; omega, fun hret => ⟨?_, by rw [h1, h2 hret]; omega, by rw [h1]; omega⟩⟩
      rcases handle_params s env it with h | ⟨q, hq, h⟩
      · rw [h]; exact hs1
      · rw [h]
        have := List.all_eq_true.1 hl _ hit
        rw [hq] at this
        simpa [hL] using this
    · intro s ⟨_, _, hs3⟩ _
      obtain ⟨b, b', h, _⟩ := lifespanSt_spec s env
      rw [h]
      cases b <;> cases b' <;> simpa [taskIds_append, taskIds, exitRes] using hs3
    · exact ⟨hL, by simp [obs_cons, noise, taskIds]⟩
  obtain ⟨s', hs, hr⟩ := key
  rw [hr, taskIds_finish]
  exact hs

theorem restart_iff (p : Params) (env : Env) (items : List Item) (L : Nat) (hL : p.lifespan = some L)
    (hok : allOk items = true) (henv : okEnv env) (hl : sameLifespan p items = true) :
    (Act.restartReq ∈ run p env items ↔ L ≤ (taskIds (run p env items)).length) := by
  have key : ∃ s', (s'.flag = false ∧ s'.params.lifespan = some L ∧
      (taskIds (obs2 s'.acts.reverse)).length = s'.executed ∧ Act.restartReq ∉ obs2 s'.acts.reverse) ∧
      run p env items = finish s' env := by
    refine loop_inv env (fun s => s.flag = false ∧ s.params.lifespan = some L ∧
      (taskIds (obs2 s.acts.reverse)).length = s.executed ∧ Act.restartReq ∉ obs2 s.acts.reverse)
      _ items ?_ ?_ (fun s hs _ => hs) _ ?_
    · intro s it hit ⟨hf, hs1, hs2, hs3⟩ _ _
      obtain ⟨W, job, e, h1, h2, h3, _⟩ := handle_ok s env it hf henv (allOk_mem hok hit)
      have : (handle s env it).1.flag = false ∧ (handle s env it).1.params.lifespan = some L ∧
          (taskIds (obs2 (handle s env it).1.acts.reverse)).length = (handle s env it).1.executed ∧
          Act.restartReq ∉ obs2 (handle s env it).1.acts.reverse := by
        refine ⟨h2, ?_, ?_, ?_⟩
        · rcases handle_params s env it with h | ⟨q, hq, h⟩
          · rw [h]; exact hs1
          · rw [h]
            have := List.all_eq_true.1 hl _ hit
            rw [hq] at this
            simpa [hL] using this
        · rw [h1, taskIds_append, taskIds_okExt, List.length_append, List.length_map, hs2, h3]
        · rw [h1, List.mem_append, not_or]; exact ⟨hs3, not_mem_okExt _ _ _ _ _⟩
      exact ⟨fun _ => this, fun _ => this⟩
    · intro s ⟨hf, hs1, hs2, hs3⟩ _
      obtain ⟨_, l2, l3, l4⟩ := lifespanSt_ok s env hf henv.2.1
      refine ⟨l2, by rw [l3]; exact hs1, ?_, ?_⟩
      · rw [lifespanSt_ok2 s env hf henv.2.1, taskIds_append, taskIds_okExt, l4]; simpa using hs2
      · rw [lifespanSt_ok2 s env hf henv.2.1, List.mem_append, not_or]; exact ⟨hs3, not_mem_okExt _ _ _ _ _⟩
    · exact ⟨rfl, hL, by simp [obs2_cons, vis, taskIds], by simp [obs2_cons, vis]⟩
  obtain ⟨s', ⟨hf, h1, h2, h3⟩, hr⟩ := key
  have h3' : Act.restartReq ∉ obs s'.acts.reverse := by
    rw [mem_obs _ rfl, ← mem_obs2 _ rfl]; exact h3
  rw [hr, mem_finish_restart _ _ h3', taskIds_finish2, h2]
  simp [henv.2.2, hf, reached, h1]

theorem no_restart_without_lifespan (p : Params) (env : Env) (items : List Item) (hL : p.lifespan = none)
    (hl : sameLifespan p items = true) : Act.restartReq ∉ run p env items := by
  obtain ⟨s', ⟨⟨_, h⟩, hp⟩, hr⟩ := run_balanced p env items (fun q => q.lifespan = none) (by
    intro q hq
    have := List.all_eq_true.1 hl _ hq
    simpa [hL] using this) hL
  rw [hr, mem_finish_restart _ _ h]
  simp [reached, hp]

theorem no_restart_after_failure (p : Params) (env : Env) (items : List Item) (h : env.excAtEnd = true) :
    Act.restartReq ∉ run p env items := by
  obtain ⟨s', ⟨⟨_, h'⟩, _⟩, hr⟩ := run_balanced p env items (fun _ => True) (fun _ _ => trivial) trivial
  rw [hr, mem_finish_restart _ _ h']
  simp [h]

end Mpire.Proofs.Worker
