import MpireModel.Model.Worker
/-! Helper lemmas and proofs for `Props/C11.lean` and `Props/C12.lean`.  Helpers live in `Mpire.Proofs.Worker`. -/
namespace Mpire.Proofs.Worker
open Mpire.Worker

/-- shape predicate: `init? task+ exit?`, or nothing at all -/
def Shape (us : List (Kind × Nat)) : Prop :=
  us = [] ∨ ∃ (i e : Bool) (ts : List Nat), ts ≠ [] ∧
    us = (if i then [(Kind.init, 0)] else []) ++ ts.map (fun t => (Kind.task, t)) ++ (if e then [(Kind.exit, 0)] else [])

def okEnv (env : Env) : Prop := env.initOut = .ok ∧ env.exitOut = .ok ∧ env.excAtEnd = false

theorem shape (p : Params) (env : Env) (items : List Item) (hok : allOk items = true) (henv : okEnv env)
    (hh : sameHooks p items = true) : Shape (userActs (run p env items)) := by
  sorry

theorem init_iff_work (p : Params) (env : Env) (items : List Item) (hok : allOk items = true) (henv : okEnv env)
    (hh : sameHooks p items = true) :
    ((Kind.init, 0) ∈ userActs (run p env items) ↔ p.hasInit = true ∧ taskIds (run p env items) ≠ []) := by
  sorry

theorem exit_iff_work_at_shutdown (p : Params) (env : Env) (pre : List Item) (hok : allOk pre = true) (henv : okEnv env)
    (hh : sameHooks p pre = true) :
    ((Kind.exit, 0) ∈ userActs (run p env (pre ++ [.pill])) ↔
      p.hasExit = true ∧ taskIds (run p env (pre ++ [.pill])) ≠ []) := by
  sorry

theorem exit_results_conserved (p : Params) (env : Env) (items : List Item) (henv : env.exitOut = .ok) :
    exitResults (run p env items) = (userActs (run p env items)).count (Kind.exit, 0) := by
  sorry

theorem results_sent_once (p : Params) (env : Env) (items : List Item) (hok : allOk items = true) (henv : okEnv env) :
    sentOk (run p env items) = taskIds (run p env items) := by
  sorry

theorem task_done_balance (p : Params) (env : Env) (items : List Item) :
    (run p env items).count .taskDone = (run p env items).count .got := by
  sorry

theorem dead_last (p : Params) (env : Env) (items : List Item) :
    ∃ pre, run p env items = pre ++ [.waitAllReceived, .dead] ∨ run p env items = pre ++ [.waitAllReceived, .restartReq, .dead] := by
  sorry

theorem lifespan_bound (p : Params) (env : Env) (items : List Item) (L c : Nat) (hL : p.lifespan = some L) (hc : 1 ≤ c)
    (hsz : chunkSizeLe c items = true) (hl : sameLifespan p items = true) (hni : noInterrupt items = true) :
    (taskIds (run p env items)).length ≤ L + c - 1 := by
  sorry

theorem restart_iff (p : Params) (env : Env) (items : List Item) (L : Nat) (hL : p.lifespan = some L)
    (hok : allOk items = true) (henv : okEnv env) (hl : sameLifespan p items = true) :
    (Act.restartReq ∈ run p env items ↔ L ≤ (taskIds (run p env items)).length) := by
  sorry

theorem no_restart_without_lifespan (p : Params) (env : Env) (items : List Item) (hL : p.lifespan = none)
    (hl : sameLifespan p items = true) : Act.restartReq ∉ run p env items := by
  sorry

theorem no_restart_after_failure (p : Params) (env : Env) (items : List Item) (h : env.excAtEnd = true) :
    Act.restartReq ∉ run p env items := by
  sorry

end Mpire.Proofs.Worker
