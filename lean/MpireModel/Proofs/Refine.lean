import MpireModel.Model.Worker
import MpireModel.Model.Protocol
import MpireModel.Proofs.Worker
/-! The worker transducer refines the per-slot behaviour of the protocol model (pop ; exec* ; send per chunk).
Helpers live in `Mpire.Proofs.Refine`. -/
namespace Mpire.Proofs.Refine
open Mpire.Worker

/-- the id lists of the chunks (and apply tasks) of a script, in queue order -/
def chunkIds : List Item → List (List Nat)
  | [] => []
  | .chunk _ ts :: rest => ts.map (·.id) :: chunkIds rest
  | .apply (some (_, t)) :: rest => [t.id] :: chunkIds rest
  | _ :: rest => chunkIds rest

/-- the result batches an instance ships (task results only), in order -/
def batches (as : List Act) : List (List Nat) :=
  as.filterMap fun a => match a with
    | .addResults rs =>
      let ids := rs.filterMap fun (j, _, i) => if j ≠ EXIT_FUNC then some i else none
      if ids = [] then none else some ids
    | _ => none

/-- the protocol events of slot `w` that correspond to processing the chunks `cs` completely, in order -/
def slotEvents (w : Nat) (cs : List (List Nat)) : List Mpire.Proto.Ev :=
  (cs.map fun ids => [Mpire.Proto.Ev.pop w ids] ++ ids.map (Mpire.Proto.Ev.exec w) ++ [Mpire.Proto.Ev.send w ids]).flatten

/-! ### The worker processes a prefix of its chunks -/

open Mpire.Proofs.Worker

/-- the tasks a queue entry carries -/
def itemW : Item → List TaskIn
  | .chunk _ ts => ts
  | .apply (some (_, t)) => [t]
  | _ => []

def itemJob : Item → Int
  | .chunk j _ => j
  | .apply (some (j, _)) => j
  | _ => 0

theorem chunkIds_cons (it : Item) (rest : List Item) (h : itemAllOk it = true) :
    chunkIds (it :: rest) = (if itemW it = [] then [] else [(itemW it).map (·.id)]) ++ chunkIds rest := by
  cases it with
  | chunk j ts =>
    cases ts with
    | nil => simp [itemAllOk] at h
    | cons t ts => simp [chunkIds, itemW]
  | apply t =>
    cases t with
    | none => simp [itemAllOk] at h
    | some jt => obtain ⟨j, t⟩ := jt; simp [chunkIds, itemW]
  | newParams q => cases q <;> simp [chunkIds, itemW]
  | _ => simp [chunkIds, itemW]

theorem batches_append (a b : List Act) : batches (a ++ b) = batches a ++ batches b := by
  simp [batches]

theorem batches_obs2 (l : List Act) : batches (obs2 l) = batches l := by
  induction l with
  | nil => rfl
  | cons a l ih =>
    rw [obs2_cons]
    cases hv : vis a
    · cases a <;> simp_all [vis, batches]
    · simp only [if_true]
      change batches ([a] ++ obs2 l) = batches ([a] ++ l)
      rw [batches_append, batches_append, ih]

theorem batches_map_userTask (l : List TaskIn) : batches (l.map userTask) = [] := by
  induction l with
  | nil => rfl
  | cons t l ih => simp only [batches] at ih ⊢; simp [userTask]

theorem filterMap_ids (job : Int) (hj : job ≠ EXIT_FUNC) (W : List TaskIn) :
    (W.map fun t => (job, true, t.id)).filterMap
      (fun (x : Int × Bool × Nat) => if x.1 ≠ EXIT_FUNC then some x.2.2 else none) = W.map (·.id) := by
  induction W with
  | nil => rfl
  | cons t W ih => simp only [List.map_cons, List.filterMap_cons, ih]; simp [hj]

theorem batches_okExt (hi d : Bool) (W : List TaskIn) (job : Int) (e : Bool) (hj : W ≠ [] → job ≠ EXIT_FUNC) :
    batches (okExt hi d W job e) = if W = [] then [] else [W.map (·.id)] := by
  simp only [okExt, batches_append, batches_map_userTask]
  cases W with
  | nil => cases e <;> simp [batches, exitRes]
  | cons t W =>
    have := filterMap_ids job (hj (by simp)) (t :: W)
    cases (hi && !d) <;> cases e <;> simp_all [batches, exitRes]

theorem batches_finish (s : St) (env : Env) : batches (finish s env) = batches (obs2 s.acts.reverse) := by
  rw [finish_eq, batches_append, batches_obs2]
  split <;> simp [batches]

/-- one queue entry of a successful call, with the tasks named -/
theorem handle_ok' (s : St) (env : Env) (it : Item) (hf : s.flag = false) (henv : okEnv env)
    (hit : itemAllOk it = true) :
    ∃ e : Bool,
      obs2 (handle s env it).1.acts.reverse =
        obs2 s.acts.reverse ++ okExt s.params.hasInit s.initDone (itemW it) (itemJob it) e ∧
      (handle s env it).1.flag = false := by
  obtain ⟨hi, hx, _⟩ := henv
  cases it with
  | stopNow => simp [itemAllOk] at hit
  | pill =>
    obtain ⟨h1, h2, h3, h4, h5, h6⟩ := handle_pill_ok s env hf hx
    simp only [List.append_assoc] at h1
    refine ⟨s.params.hasExit && decide (0 < s.executed), ?_, h2⟩
    rw [obs2_of_obs h1]
    cases s.params.hasExit && decide (0 < s.executed) <;> simp [okExt, obs2_cons, vis, exitRes, itemW]
  | pillNL =>
    obtain ⟨p1, p2, p3, p4, p5⟩ := forcedPB_spec (s.emit [.got])
    refine ⟨false, ?_⟩
    have : obs (handle s env .pillNL).1.acts.reverse = obs s.acts.reverse ++ [.got, .taskDone] := by
      simp [handle, p1, obs_cons, noise]
    rw [obs2_of_obs this]
    simp [handle, p4, hf, obs2_cons, vis, itemW, okExt]
  | newParams q =>
    cases q with
    | none => simp [itemAllOk] at hit
    | some q =>
      refine ⟨false, ?_⟩
      have : obs (handle s env (.newParams (some q))).1.acts.reverse =
          obs s.acts.reverse ++ [.got, .taskDone, .got, .taskDone] := by
        simp [handle, obs_cons, noise]
      rw [obs2_of_obs this]
      simp [handle, hf, obs2_cons, vis, itemW, okExt]
  | apply t =>
    cases t with
    | none => simp [itemAllOk] at hit
    | some jt =>
      obtain ⟨job, t⟩ := jt
      have hall : [t].all (·.out == .ok) = true := by simpa [itemAllOk] using hit
      have hf' : (s.emit [.got, .taskDone, .got]).flag = false := hf
      obtain ⟨c1, c2, c3, c4, c5, _⟩ := runChunk_ok (s.emit [.got, .taskDone, .got]) env job true [t] hf' hi hall
      have c6 := runChunk_ok2 (s.emit [.got, .taskDone, .got]) env job true [t] hf' hi hall (by simp)
      refine ⟨false, ?_, c2⟩
      simp only [handle, c6]; simp [obs2_cons, vis, itemW, itemJob]
  | chunk job ts =>
    have hall : ts.all (·.out == .ok) = true ∧ ts ≠ [] := by
      simpa [itemAllOk, List.isEmpty_iff] using hit
    have hf' : (s.emit [.got]).flag = false := hf
    obtain ⟨c1, c2, c3, c4, c5, _⟩ := runChunk_ok (s.emit [.got]) env job false ts hf' hi hall.1
    have c6 := runChunk_ok2 (s.emit [.got]) env job false ts hf' hi hall.1 hall.2
    refine ⟨false, ?_, c2⟩
    simp only [handle, c6]; simp [obs2_cons, vis, itemW, itemJob]

theorem itemJob_ok (it : Item) (h : itemJobOk it = true) (hW : itemW it ≠ []) : itemJob it ≠ EXIT_FUNC := by
  cases it with
  | chunk j ts => simpa [itemJobOk, itemJob] using h
  | apply t =>
    cases t with
    | none => simp [itemW] at hW
    | some jt => obtain ⟨j, t⟩ := jt; simpa [itemJobOk, itemJob] using h
  | _ => simp [itemW] at hW

/-- the end of the loop when the lifespan is reached: nothing more is processed -/
theorem lifespan_fin (s : St) (env : Env) (hf : s.flag = false) (henv : okEnv env) :
    batches (lifespanEnd s env) = batches (obs2 s.acts.reverse) ∧
    taskIds (lifespanEnd s env) = taskIds (obs2 s.acts.reverse) := by
  rw [lifespanEnd_eq, batches_finish, taskIds_finish2, lifespanSt_ok2 s env hf henv.2.1, batches_append,
    taskIds_append, taskIds_okExt, batches_okExt _ _ _ _ _ (fun h => absurd rfl h)]
  simp

theorem loop_prefix_chunks (env : Env) (henv : okEnv env) : ∀ (items : List Item) (s : St),
    allOk items = true → noExitJob items = true → s.flag = false →
    ∃ k, batches (loop env s items) = batches (obs2 s.acts.reverse) ++ (chunkIds items).take k ∧
         taskIds (loop env s items) = taskIds (obs2 s.acts.reverse) ++ ((chunkIds items).take k).flatten := by
  intro items
  induction items with
  | nil =>
    intro s _ _ hf
    refine ⟨0, ?_⟩
    simp only [loop]
    split
    · simpa using lifespan_fin s env hf henv
    · simp [batches_finish, taskIds_finish2]
  | cons it rest ih =>
    intro s hok hj hf
    have hit : itemAllOk it = true := allOk_mem hok (List.mem_cons_self ..)
    have hok' : allOk rest = true := by
      simp only [allOk, List.all_cons, Bool.and_eq_true] at hok ⊢; exact hok.2
    have hjit : itemJobOk it = true := noExitJob_mem hj (List.mem_cons_self ..)
    have hj' : noExitJob rest = true := by
      simp only [noExitJob, List.all_cons, Bool.and_eq_true] at hj ⊢; exact hj.2
    simp only [loop]
    cases hr : reached s with
    | true =>
      refine ⟨0, ?_⟩
      simpa using lifespan_fin s env hf henv
    | false =>
      simp only [hf, Bool.false_eq_true, if_false]
      obtain ⟨e, h1, h2⟩ := handle_ok' s env it hf henv hit
      have hb : batches (obs2 (handle s env it).1.acts.reverse) =
          batches (obs2 s.acts.reverse) ++ (if itemW it = [] then [] else [(itemW it).map (·.id)]) := by
        rw [h1, batches_append, batches_okExt _ _ _ _ _ (fun hW => itemJob_ok it hjit hW)]
      have ht : taskIds (obs2 (handle s env it).1.acts.reverse) =
          taskIds (obs2 s.acts.reverse) ++ (itemW it).map (·.id) := by
        rw [h1, taskIds_append, taskIds_okExt]
      rw [chunkIds_cons it rest hit]
      cases hret : (handle s env it).2 with
      | true =>
        simp only [if_true]
        refine ⟨if itemW it = [] then 0 else 1, ?_⟩
        rw [batches_finish, taskIds_finish2, hb, ht]
        by_cases hW : itemW it = [] <;> simp [hW]
      | false =>
        simp only [Bool.false_eq_true, if_false]
        obtain ⟨k, g1, g2⟩ := ih (handle s env it).1 hok' hj' h2
        refine ⟨(if itemW it = [] then 0 else 1) + k, ?_⟩
        rw [g1, g2, hb, ht]
        by_cases hW : itemW it = [] <;> simp [hW, Nat.add_comm 1 k, List.take_succ_cons]

/-- In a successful call an instance processes a PREFIX of the chunks in its queue, each completely and in order: the
tasks it executes are exactly the concatenation of those chunks and it ships exactly one batch per chunk with exactly
that chunk's results. -/
theorem worker_processes_prefix (p : Params) (env : Env) (items : List Item) (hok : allOk items = true)
    (henv : Mpire.Proofs.Worker.okEnv env) (hj : Mpire.Proofs.Worker.noExitJob items = true) :
    ∃ k, batches (run p env items) = (chunkIds items).take k ∧
         taskIds (run p env items) = ((chunkIds items).take k).flatten := by
  obtain ⟨k, h1, h2⟩ := loop_prefix_chunks env henv items { params := p, acts := [.resetRecv, .alive] } hok hj rfl
  refine ⟨k, ?_, ?_⟩
  · rw [run, h1]; simp [obs2_cons, vis, batches]
  · rw [run, h2]; simp [obs2_cons, vis, taskIds]

/-! ### The protocol model accepts the slot's events -/

open Mpire.Proto in
theorem run_append (s : Sys) (a b : List Ev) : Proto.run s (a ++ b) = (Proto.run s a).bind (fun s1 => Proto.run s1 b) := by
  simp [Proto.run, List.foldlM_append]

open Mpire.Proto in
theorem run_cons (s : Sys) (e : Ev) (b : List Ev) : Proto.run s (e :: b) = (Proto.step s e).bind (fun s1 => Proto.run s1 b) := by
  simp [Proto.run, List.foldlM_cons]

theorem lt_of_get {α} {l : List α} {w : Nat} {x : α} (h : l[w]? = some x) : w < l.length := by
  rcases Nat.lt_or_ge w l.length with h1 | h1
  · exact h1
  · rw [List.getElem?_eq_none h1] at h; cases h

open Mpire.Proto in
theorem exec_all (w : Nat) : ∀ (h : List Nat) (s : Sys) (sl : Slot), s.slots[w]? = some sl → sl.hand = h →
    ∃ s', Proto.run s (h.map (Ev.exec w)) = some s' ∧
      s'.slots[w]? = some { sl with hand := [], buf := sl.buf ++ h } ∧ s'.rq = s.rq ∧ s'.log = s.log ++ h := by
  intro h
  induction h with
  | nil =>
    intro s sl hs hh
    refine ⟨s, rfl, ?_, rfl, by simp⟩
    rw [hs]; cases sl; simp_all
  | cons t h ih =>
    intro s sl hs hh
    have hlt := lt_of_get hs
    simp only [List.map_cons, run_cons]
    have hstep : Proto.step s (.exec w t) = some { s with slots := s.slots.set w { sl with hand := h, buf := sl.buf ++ [t] }, log := s.log ++ [t] } := by
      simp [Proto.step, hs, hh]
    rw [hstep]
    simp only [Option.bind_some]
    obtain ⟨s', h1, h2, h3, h4⟩ := ih { s with slots := s.slots.set w { sl with hand := h, buf := sl.buf ++ [t] }, log := s.log ++ [t] } { sl with hand := h, buf := sl.buf ++ [t] }
      (by simp [hlt]) rfl
    refine ⟨s', h1, ?_, h3, ?_⟩
    · rw [h2]; simp
    · rw [h4]; simp

open Mpire.Proto in
theorem one_chunk (w : Nat) (ids : List Nat) (q : List (List Nat)) (hne : ids ≠ []) (s : Sys) (sl : Slot)
    (hs : s.slots[w]? = some sl) (hq : sl.queue = ids :: q) (hh : sl.hand = []) (hb : sl.buf = []) :
    ∃ s', Proto.run s ([Ev.pop w ids] ++ ids.map (Ev.exec w) ++ [Ev.send w ids]) = some s' ∧
      s'.slots[w]? = some { sl with queue := q } ∧ s'.rq = s.rq ++ [ids] ∧ s'.log = s.log ++ ids := by
  have hlt := lt_of_get hs
  have hpop : Proto.step s (.pop w ids) = some { s with slots := s.slots.set w { sl with queue := q, hand := ids } } := by
    simp [Proto.step, hs, hq, hh, hb]
  obtain ⟨s1, h1, h2, h3, h4⟩ := exec_all w ids { s with slots := s.slots.set w { sl with queue := q, hand := ids } }
    { sl with queue := q, hand := ids } (by simp [hlt]) rfl
  have hlt1 := lt_of_get h2
  have hsend : Proto.step s1 (.send w ids) = some { s1 with slots := s1.slots.set w { sl with queue := q, hand := [], buf := [] }, rq := s1.rq ++ [ids] } := by
    simp [Proto.step, h2, hb, hne]
  refine ⟨{ s1 with slots := s1.slots.set w { sl with queue := q, hand := [], buf := [] }, rq := s1.rq ++ [ids] }, ?_, ?_, ?_, ?_⟩
  · rw [List.append_assoc, List.singleton_append, run_cons, hpop, Option.bind_some, run_append, h1, Option.bind_some,
      run_cons, hsend]
    rfl
  · simp [hlt1]
    cases sl; simp_all
  · simp [h3]
  · simp [h4]

/-- Hence its behaviour on its slot is accepted by the protocol model: starting from a slot whose queue holds the chunks
of the script (and nothing in hand), the events `pop ; exec* ; send` of the processed prefix are all enabled, and they
move exactly those chunks from the queue to the results queue. -/
theorem slot_events_accepted (n w : Nat) (cs rest : List (List Nat)) (hne : ∀ c ∈ cs, c ≠ []) (s : Mpire.Proto.Sys)
    (sl : Mpire.Proto.Slot) (hs : s.slots[w]? = some sl) (hq : sl.queue = cs ++ rest) (hh : sl.hand = []) (hb : sl.buf = []) :
    ∃ s', Mpire.Proto.run s (slotEvents w cs) = some s' ∧
      s'.slots[w]? = some { sl with queue := rest } ∧ s'.rq = s.rq ++ cs ∧ s'.log = s.log ++ cs.flatten := by
  have _ := n
  induction cs generalizing s sl with
  | nil =>
    refine ⟨s, rfl, ?_, by simp, by simp⟩
    rw [hs]; cases sl; simp_all
  | cons c cs ih =>
    obtain ⟨s1, h1, h2, h3, h4⟩ := one_chunk w c (cs ++ rest) (hne c (by simp)) s sl hs (by simpa using hq) hh hb
    obtain ⟨s2, g1, g2, g3, g4⟩ := ih (fun c hc => hne c (by simp [hc])) s1 { sl with queue := cs ++ rest } h2 rfl hh hb
    refine ⟨s2, ?_, g2, ?_, ?_⟩
    · simp only [slotEvents, List.map_cons, List.flatten_cons] at g1 ⊢
      rw [run_append, h1]; exact g1
    · rw [g3, h3]; simp
    · rw [g4, h4]; simp
end Mpire.Proofs.Refine
