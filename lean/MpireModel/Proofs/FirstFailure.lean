import MpireModel.Model.FirstFailure
/-! Proofs about the model of who reports a failing call (statements used by Props/C04.lean). -/
namespace Mpire.Proofs.FirstFailure
open Mpire.FirstFailure

/-- the steps, one constructor per line of `step` -/
inductive SR (s : St) : Step → St → Prop
  | look (i g rest) : s.sigs[i]? = some g → g.todo = .look :: rest →
      SR s (.sig i) (setSig s i { g with todo := if s.flag then [] else rest, through := !s.flag })
  | write (i g rest) : s.sigs[i]? = some g → g.todo = .write :: rest →
      SR s (.sig i) { setSig s i { g with todo := rest } with slot := g.job }
  | raiseFlag (i g rest) : s.sigs[i]? = some g → g.todo = .raiseFlag :: rest →
      SR s (.sig i) { setSig s i { g with todo := rest } with flag := true }
  | enqueue (i g rest) : s.sigs[i]? = some g → g.todo = .enqueue :: rest →
      SR s (.sig i) { setSig s i { g with todo := rest } with queue := s.queue ++ [(g.job, i)] }
  | publish (i g rest) : s.sigs[i]? = some g → g.todo = .publish :: rest →
      SR s (.sig i) (publish (setSig s i { g with todo := rest }) g.job i)
  | publishAll (i g rest) : s.sigs[i]? = some g → g.todo = .publishAll :: rest →
      SR s (.sig i) { setSig s i { g with todo := rest } with
        pend := s.pend ++ (INIT :: EXIT :: s.jobs).map (·, i) }
  | handler (k j who) : s.queue[k]? = some (j, who) →
      SR s (.handler k) (publish { s with queue := s.queue.eraseIdx k } j who)
  | store (k e) : s.pend[k]? = some e → SR s (.store k) { s with pend := s.pend.eraseIdx k, cache := e :: s.cache }
  | drop (k e) : s.pend[k]? = some e → ((lookup s e.1).isSome || (s.pend.eraseIdx k).any (·.1 == e.1)) = true →
      SR s (.drop k) { s with pend := s.pend.eraseIdx k }
  | saw : s.main = .waiting → s.flag = true → SR s .main { s with main := .saw }
  | read : s.main = .saw → SR s .main { s with main := .read s.slot }
  | raised (j who) : s.main = .read j → lookup s j = some who → SR s .main { s with main := .raised j who }

theorem step_sr {s s' : St} {t : Step} (h : step s t = some s') : SR s t s' := by
  cases t with
  | sig i =>
    simp only [step] at h
    split at h
    · cases h
    · rename_i g hg
      split at h
      · cases h
      all_goals (rename_i rest ht; cases h)
      · exact .look i g rest hg ht
      · exact .write i g rest hg ht
      · exact .raiseFlag i g rest hg ht
      · exact .enqueue i g rest hg ht
      · exact .publish i g rest hg ht
      · exact .publishAll i g rest hg ht
  | handler k =>
    simp only [step] at h
    split at h
    · cases h
    · rename_i j who hq; cases h; exact .handler k j who hq
  | store k =>
    simp only [step] at h
    split at h
    · cases h
    · rename_i e hq; cases h; exact .store k e hq
  | drop k =>
    simp only [step] at h
    split at h
    · cases h
    · rename_i e hq
      split at h
      · rename_i hgd; cases h; exact .drop k e hq hgd
      · cases h
  | main =>
    simp only [step] at h
    split at h
    · rename_i hm
      split at h
      · rename_i hf; cases h; exact .saw hm hf
      · cases h
    · rename_i hm; cases h; exact .read hm
    · rename_i j hm
      cases hl : lookup s j with
      | none => rw [hl] at h; cases h
      | some who => rw [hl] at h; cases h; exact .raised j who hm hl
    · cases h

theorem sr_step {s s' : St} {t : Step} (h : SR s t s') : step s t = some s' := by
  cases h <;> simp_all [step, setSig]

theorem sum_set_lt {α} (f : α → Nat) (l : List α) (i : Nat) (g g' : α) (d : Nat) (h : l[i]? = some g) (hf : f g' + d ≤ f g) :
    ((l.set i g').map f).sum + d ≤ (l.map f).sum := by
  induction l generalizing i with
  | nil => simp at h
  | cons x xs ih =>
    cases i with
    | zero =>
      simp only [List.getElem?_cons_zero, Option.some.injEq] at h
      subst h
      simp only [List.set_cons_zero, List.map_cons, List.sum_cons]; omega
    | succ n =>
      simp only [List.getElem?_cons_succ] at h
      have := ih n h
      simp only [List.set_cons_succ, List.map_cons, List.sum_cons]; omega

theorem targets_len (s : St) (j : Job) : (targets s j).length ≤ s.jobs.length + 1 := by
  unfold targets; split <;> simp

theorem drop_len {l : List (Job × Nat)} {k : Nat} {e : Job × Nat} (h : l[k]? = some e) :
    ∃ n, l.length = n + 1 ∧ (l.eraseIdx k).length = n := by
  have hk : k < l.length := (List.getElem?_eq_some_iff.mp h).1
  refine ⟨l.length - 1, by omega, ?_⟩
  simp only [List.length_eraseIdx, hk, if_true]

/-- Every step lowers the rank … -/
theorem step_lowers_rank (s s' : St) (t : Step) (h : step s t = some s') : rank s' < rank s := by
  have h := step_sr h
  cases h with
  | look i g rest hg ht =>
    have := sum_set_lt (fun g : Sig => 2 * (s.jobs.length + 3) * g.todo.length) s.sigs i g
      { g with todo := if s.flag then [] else rest, through := !s.flag } (2 * (s.jobs.length + 3)) hg
      (by rw [ht]; split <;> simp only [List.length_cons, List.length_nil, Nat.mul_add_one, Nat.mul_zero] <;> omega)
    simp only [rank, setSig]; omega
  | write i g rest hg ht | raiseFlag i g rest hg ht =>
    have := sum_set_lt (fun g : Sig => 2 * (s.jobs.length + 3) * g.todo.length) s.sigs i g { g with todo := rest }
      (2 * (s.jobs.length + 3)) hg (by rw [ht]; simp only [List.length_cons, Nat.mul_add_one]; omega)
    simp only [rank, setSig]; omega
  | publish i g rest hg ht =>
    have := sum_set_lt (fun g : Sig => 2 * (s.jobs.length + 3) * g.todo.length) s.sigs i g { g with todo := rest }
      (2 * (s.jobs.length + 3)) hg (by rw [ht]; simp only [List.length_cons, Nat.mul_add_one]; omega)
    have hl := targets_len (setSig s i { g with todo := rest }) g.job
    simp only [rank, setSig, publish, List.length_append, List.length_map] at hl ⊢
    omega
  | publishAll i g rest hg ht =>
    have := sum_set_lt (fun g : Sig => 2 * (s.jobs.length + 3) * g.todo.length) s.sigs i g { g with todo := rest }
      (2 * (s.jobs.length + 3)) hg (by rw [ht]; simp only [List.length_cons, Nat.mul_add_one]; omega)
    simp only [rank, setSig, List.length_append, List.length_map, List.length_cons]; omega
  | enqueue i g rest hg ht =>
    have := sum_set_lt (fun g : Sig => 2 * (s.jobs.length + 3) * g.todo.length) s.sigs i g { g with todo := rest }
      (2 * (s.jobs.length + 3)) hg (by rw [ht]; simp only [List.length_cons, Nat.mul_add_one]; omega)
    have hq := Nat.mul_add_one (s.jobs.length + 3) s.queue.length
    simp only [rank, setSig, List.length_append, List.length_cons, List.length_nil, Nat.zero_add]; omega
  | handler k j who hq =>
    obtain ⟨n, hn, hn'⟩ := drop_len hq
    have hl := targets_len { s with queue := s.queue.eraseIdx k } j
    have hq := Nat.mul_add_one (s.jobs.length + 3) n
    simp only [rank, publish, List.length_append, List.length_map, hn, hn'] at hl ⊢
    omega
  | store k e hq | drop k e hq _ =>
    obtain ⟨n, hn, hn'⟩ := drop_len hq
    simp only [rank, hn, hn']; omega
  | saw hm hf => simp only [rank, hm]; omega
  | read hm => simp only [rank, hm]; omega
  | raised j who hm hl => simp only [rank, hm]; omega

/-- … so no run is longer than the rank of the state it starts in. -/
theorem run_bounded (s s' : St) (ts : List Step) (h : runSteps s ts = some s') : ts.length + rank s' ≤ rank s := by
  induction ts generalizing s with
  | nil => simp only [runSteps, Option.some.injEq] at h; subst h; simp
  | cons t ts ih =>
    simp only [runSteps] at h
    cases hs : step s t with
    | none => rw [hs] at h; simp at h
    | some s1 =>
      rw [hs] at h
      simp only [Option.bind_some] at h
      have h1 := ih s1 h
      have h2 := step_lowers_rank s s1 t hs
      simp only [List.length_cons]; omega

/-- where a signaller of kind `k` can be in its program -/
def Valid (k : Kind) (thr : Bool) (todo : List Act) : Prop :=
  match k, thr with
  | .worker, false => todo = program .worker ∨ todo = []
  | .worker, true => todo = [.write, .raiseFlag, .enqueue] ∨ todo = [.raiseFlag, .enqueue] ∨ todo = [.enqueue] ∨ todo = []
  | .timeout, false => todo = program .timeout ∨ todo = []
  | .timeout, true => todo = [.write, .raiseFlag, .publish] ∨ todo = [.raiseFlag, .publish] ∨ todo = [.publish] ∨ todo = []
  | .death, false => todo = program .death ∨ todo = []
  | .death, true => todo = [.publish, .write, .raiseFlag, .publishAll] ∨ todo = [.write, .raiseFlag, .publishAll] ∨
      todo = [.raiseFlag, .publishAll] ∨ todo = [.publishAll] ∨ todo = []
  | .caller, false => False
  | .caller, true => todo = [.write, .raiseFlag, .publish] ∨ todo = [.raiseFlag, .publish] ∨ todo = [.publish] ∨ todo = []

theorem valid_init (k : Kind) : Valid k (k == .caller) (program k) := by
  cases k <;> exact Or.inl rfl

theorem valid_look {k thr rest} (h : Valid k thr (.look :: rest)) :
    thr = false ∧ Act.write ∈ rest ∧ (Act.enqueue ∈ rest ∨ Act.publish ∈ rest) ∧ Valid k true rest ∧ Valid k false [] := by
  cases k <;> cases thr <;> simp_all [Valid, program]

theorem valid_head {k thr a rest} (h : Valid k thr (a :: rest)) (ha : a ≠ .look) : thr = true ∧ Valid k true rest := by
  cases k <;> cases thr <;> simp only [Valid, program] at h ⊢ <;> cases a <;> simp_all

theorem valid_raise {k thr rest} (h : Valid k thr (.raiseFlag :: rest)) : Act.write ∉ rest := by
  cases k <;> cases thr <;> simp_all [Valid, program]

theorem valid_pall {k thr rest} (h : Valid k thr (.publishAll :: rest)) : k = .death := by
  cases k <;> cases thr <;> simp_all [Valid, program]

theorem valid_thr {k todo} (h : Valid k true todo) : Act.look ∉ todo := by
  cases k <;> simp only [Valid] at h <;> grind

/-! ### the invariant -/

theorem lookup_some {s : St} {j who} (h : lookup s j = some who) : (j, who) ∈ s.cache := by
  simp only [lookup, Option.map_eq_some_iff] at h
  rcases h with ⟨⟨j', w⟩, hf, hw⟩
  have h1 := List.find?_some hf
  have h2 := List.mem_of_find?_eq_some hf
  simp only [beq_iff_eq] at h1
  simp only at hw
  subst h1; subst hw; exact h2

theorem lookup_isSome {s : St} {j} : (lookup s j).isSome = true ↔ ∃ who, (j, who) ∈ s.cache := by
  simp only [lookup, Option.isSome_map, List.find?_isSome, beq_iff_eq]
  constructor
  · rintro ⟨⟨j', w⟩, hm, rfl⟩; exact ⟨w, hm⟩
  · rintro ⟨w, hm⟩; exact ⟨(j, w), hm, rfl⟩

/-- `pendingOrThere` with positions instead of membership -/
def POT (s : St) (j : Job) : Prop :=
  (∃ who, (j, who) ∈ s.cache) ∨ (∃ who, (j, who) ∈ s.pend) ∨ (∃ who, (j, who) ∈ s.queue) ∨
    ∃ n : Nat, ∃ g : Sig, s.sigs[n]? = some g ∧ g.through = true ∧ g.job = j ∧ (Act.enqueue ∈ g.todo ∨ Act.publish ∈ g.todo)

theorem pot_iff {s : St} {j} : pendingOrThere s j ↔ POT s j := by
  simp only [pendingOrThere, POT, lookup_isSome]
  constructor
  · rintro (h | h | h | ⟨g, hg, h⟩)
    · exact .inl h
    · exact .inr (.inl h)
    · exact .inr (.inr (.inl h))
    · rcases List.getElem?_of_mem hg with ⟨n, hn⟩
      exact .inr (.inr (.inr ⟨n, g, hn, h⟩))
  · rintro (h | h | h | ⟨n, g, hn, h⟩)
    · exact .inl h
    · exact .inr (.inl h)
    · exact .inr (.inr (.inl h))
    · exact .inr (.inr (.inr ⟨g, List.mem_of_getElem? hn, h⟩))

theorem self_mem_targets (s : St) (j : Job) : j ∈ targets s j := by
  unfold targets; split <;> simp [*]

theorem mem_targets {s : St} {j j' : Job} (h : j' ∈ targets s j) : j = j' ∨ (j = INIT ∧ j' ∈ s.jobs) := by
  unfold targets at h; split at h
  · rename_i hj; simp only [List.mem_cons] at h
    rcases h with h | h
    · left; rw [h, hj]
    · right; exact ⟨hj, h⟩
  · simp only [List.mem_singleton] at h; left; exact h.symm

structure Inv (kinds : List (Kind × Job)) (jobs : List Job) (s : St) : Prop where
  jobs_eq : s.jobs = jobs
  valid : ∀ i : Nat, ∀ g : Sig, s.sigs[i]? = some g → ∃ k j0, kinds[i]? = some (k, j0) ∧ Valid k g.through g.todo
  queue : ∀ (j : Job) (who : Nat), (j, who) ∈ s.queue → ∃ g : Sig, s.sigs[who]? = some g ∧ g.through = true ∧ g.job = j
  cache : ∀ (j : Job) (who : Nat), (j, who) ∈ s.cache → ∃ g : Sig, s.sigs[who]? = some g ∧ g.through = true ∧
      (g.job = j ∨ (g.job = INIT ∧ j ∈ jobs) ∨ ∃ k, kinds[who]? = some (.death, k) ∧ j ∈ INIT :: EXIT :: jobs)
  stores : ∀ (j : Job) (who : Nat), (j, who) ∈ s.pend → ∃ g : Sig, s.sigs[who]? = some g ∧ g.through = true ∧
      (g.job = j ∨ (g.job = INIT ∧ j ∈ jobs) ∨ ∃ k, kinds[who]? = some (.death, k) ∧ j ∈ INIT :: EXIT :: jobs)
  pend : ∀ i : Nat, ∀ g : Sig, s.sigs[i]? = some g → g.through = true → POT s g.job
  flagW : s.flag = true → ∃ i : Nat, ∃ g : Sig, s.sigs[i]? = some g ∧ g.through = true ∧ Act.write ∉ g.todo
  slot : ∀ i : Nat, ∀ g : Sig, s.sigs[i]? = some g → g.through = true → Act.write ∉ g.todo →
      ∃ i : Nat, ∃ g : Sig, s.sigs[i]? = some g ∧ g.through = true ∧ g.job = s.slot
  mainFlag : s.main ≠ .waiting → s.flag = true
  mainRead : ∀ j, s.main = .read j → POT s j
  mainRaised : ∀ j who, s.main = .raised j who → (j, who) ∈ s.cache

theorem set_self {l : List Sig} {i : Nat} {g g' : Sig} (hg : l[i]? = some g) : (l.set i g')[i]? = some g' :=
  List.getElem?_set_self (List.getElem?_eq_some_iff.mp hg).1

theorem set_ne {l : List Sig} {i n : Nat} {g' : Sig} (h : n ≠ i) : (l.set i g')[n]? = l[n]? :=
  List.getElem?_set_ne (Ne.symm h)

theorem set_inv {l : List Sig} {i n : Nat} {g g' x : Sig} (hg : l[i]? = some g) (hx : (l.set i g')[n]? = some x) :
    (n = i ∧ x = g') ∨ (n ≠ i ∧ l[n]? = some x) := by
  by_cases h : n = i
  · subst h; rw [set_self hg] at hx; left; exact ⟨rfl, (Option.some.inj hx).symm⟩
  · rw [set_ne h] at hx; right; exact ⟨h, hx⟩

theorem inv_init (kinds : List (Kind × Job)) (jobs : List Job) : Inv kinds jobs (init kinds jobs) := by
  refine ⟨rfl, ?_, ?_, ?_, ?_, ?_, ?_, ?_, ?_, ?_, ?_⟩
  · intro i g hg
    simp only [init, List.getElem?_map, Option.map_eq_some_iff] at hg
    rcases hg with ⟨⟨k, j0⟩, hk, rfl⟩
    exact ⟨k, j0, hk, valid_init k⟩
  · intro j who h; simp [init] at h
  · intro j who h; simp [init] at h
  · intro j who h; simp [init] at h
  · intro i g hg hthr
    have hg' := hg
    simp only [init, List.getElem?_map, Option.map_eq_some_iff] at hg'
    rcases hg' with ⟨⟨k, j0⟩, hk, rfl⟩
    simp only [beq_iff_eq] at hthr
    subst hthr
    exact .inr (.inr (.inr ⟨i, _, hg, rfl, rfl, .inr (by simp [program])⟩))
  · intro h; simp [init] at h
  · intro i g hg hthr hw
    simp only [init, List.getElem?_map, Option.map_eq_some_iff] at hg
    rcases hg with ⟨⟨k, j0⟩, hk, rfl⟩
    simp only [beq_iff_eq] at hthr
    subst hthr
    simp [program] at hw
  · intro h; simp [init] at h
  · intro j h; simp [init] at h
  · intro j who h; simp [init] at h

/-- what a signaller's step other than `look` does, in one formula -/
def sigNext (s : St) (i : Nat) (g : Sig) (a : Act) (rest : List Act) : St :=
  { flag := (a == .raiseFlag) || s.flag
    slot := if a = .write then g.job else s.slot
    sigs := s.sigs.set i { g with todo := rest }
    queue := if a = .enqueue then s.queue ++ [(g.job, i)] else s.queue
    pend := if a = .publish then s.pend ++ (targets s g.job).map (·, i)
            else if a = .publishAll then s.pend ++ (INIT :: EXIT :: s.jobs).map (·, i) else s.pend
    cache := s.cache
    jobs := s.jobs
    main := s.main }

theorem cache_sigNext {s : St} {i g a rest} {e : Job × Nat} (h : e ∈ s.cache) : e ∈ (sigNext s i g a rest).cache := h

theorem pend_sigNext {s : St} {i g a rest} {e : Job × Nat} (h : e ∈ s.pend) : e ∈ (sigNext s i g a rest).pend := by
  simp only [sigNext]
  split
  · exact List.mem_append_left _ h
  · split
    · exact List.mem_append_left _ h
    · exact h

theorem queue_sigNext {s : St} {i g a rest} {e : Job × Nat} (h : e ∈ s.queue) : e ∈ (sigNext s i g a rest).queue := by
  simp only [sigNext]
  split
  · exact List.mem_append_left _ h
  · exact h

theorem pot_sigNext {s : St} {i g a rest j} (hg : s.sigs[i]? = some g) (ht : g.todo = a :: rest) (h : POT s j) :
    POT (sigNext s i g a rest) j := by
  rcases h with ⟨who, h⟩ | ⟨who, h⟩ | ⟨who, h⟩ | ⟨n, x, hx, hthr, hjob, hp⟩
  · exact .inl ⟨who, cache_sigNext h⟩
  · exact .inr (.inl ⟨who, pend_sigNext h⟩)
  · exact .inr (.inr (.inl ⟨who, queue_sigNext h⟩))
  · by_cases hn : n = i
    · subst hn
      rw [hg] at hx; cases hx
      by_cases ha : a = .enqueue
      · subst ha
        exact .inr (.inr (.inl ⟨n, by simp [sigNext, hjob]⟩))
      · by_cases hb : a = .publish
        · subst hb
          refine .inr (.inl ⟨n, ?_⟩)
          simp only [sigNext, if_true]
          apply List.mem_append_right
          rw [← hjob]
          exact List.mem_map.mpr ⟨_, self_mem_targets s _, rfl⟩
        · refine .inr (.inr (.inr ⟨n, { g with todo := rest }, set_self hg, hthr, hjob, ?_⟩))
          rw [ht] at hp
          simp only [List.mem_cons] at hp
          rcases hp with (hp | hp) | (hp | hp)
          · exact absurd hp.symm ha
          · exact .inl hp
          · exact absurd hp.symm hb
          · exact .inr hp
    · exact .inr (.inr (.inr ⟨n, x, by simp only [sigNext]; rw [set_ne hn]; exact hx, hthr, hjob, hp⟩))

theorem inv_sigNext {kinds jobs} {s : St} {i g a rest} (hI : Inv kinds jobs s) (hg : s.sigs[i]? = some g)
    (ht : g.todo = a :: rest) (ha : a ≠ .look) : Inv kinds jobs (sigNext s i g a rest) := by
  obtain ⟨k, j0, hk, hv⟩ := hI.valid i g hg
  rw [ht] at hv
  obtain ⟨hthr, hv'⟩ := valid_head hv ha
  have hself : (sigNext s i g a rest).sigs[i]? = some { g with todo := rest } := set_self hg
  have hne : ∀ n : Nat, n ≠ i → (sigNext s i g a rest).sigs[n]? = s.sigs[n]? := fun n hn => set_ne hn
  have hinv : ∀ (n : Nat) (x : Sig), (sigNext s i g a rest).sigs[n]? = some x →
      (n = i ∧ x = { g with todo := rest }) ∨ (n ≠ i ∧ s.sigs[n]? = some x) := fun n x hx => set_inv hg hx
  have fwd : ∀ (n : Nat) (x : Sig), s.sigs[n]? = some x → x.through = true →
      ∃ x' : Sig, (sigNext s i g a rest).sigs[n]? = some x' ∧ x'.through = true ∧ x'.job = x.job := by
    intro n x hx hxt
    by_cases hn : n = i
    · subst hn; rw [hg] at hx; cases hx
      exact ⟨_, hself, hthr, rfl⟩
    · exact ⟨x, by rw [hne n hn]; exact hx, hxt, rfl⟩
  refine ⟨hI.jobs_eq, ?_, ?_, ?_, ?_, ?_, ?_, ?_, ?_, ?_, ?_⟩
  · -- valid
    intro n x hx
    rcases hinv n x hx with ⟨rfl, rfl⟩ | ⟨hn, hx⟩
    · exact ⟨k, j0, hk, by rw [hthr]; exact hv'⟩
    · exact hI.valid n x hx
  · -- queue
    intro j who h
    have : (j, who) ∈ s.queue ∨ (a = .enqueue ∧ (j, who) = (g.job, i)) := by
      simp only [sigNext] at h
      split at h
      · rename_i hae
        rcases List.mem_append.mp h with h | h
        · exact .inl h
        · exact .inr ⟨hae, List.mem_singleton.mp h⟩
      · exact .inl h
    rcases this with h | ⟨_, h⟩
    · obtain ⟨x, hx, hxt, hxj⟩ := hI.queue j who h
      obtain ⟨x', h1, h2, h3⟩ := fwd who x hx hxt
      exact ⟨x', h1, h2, h3.trans hxj⟩
    · cases h
      exact ⟨_, hself, hthr, rfl⟩
  · -- cache
    intro j who h
    obtain ⟨x, hx, hxt, hxj⟩ := hI.cache j who h
    obtain ⟨x', h1, h2, h3⟩ := fwd who x hx hxt
    exact ⟨x', h1, h2, by rw [h3]; exact hxj⟩
  · -- stores
    intro j who h
    have : (j, who) ∈ s.pend ∨ (a = .publish ∧ who = i ∧ j ∈ targets s g.job) ∨
        (a = .publishAll ∧ who = i ∧ j ∈ INIT :: EXIT :: s.jobs) := by
      simp only [sigNext] at h
      split at h
      · rename_i hae
        rcases List.mem_append.mp h with h | h
        · exact .inl h
        · rcases List.mem_map.mp h with ⟨j', hj', he⟩
          cases he
          exact .inr (.inl ⟨hae, rfl, hj'⟩)
      · split at h
        · rename_i hae
          rcases List.mem_append.mp h with h | h
          · exact .inl h
          · rcases List.mem_map.mp h with ⟨j', hj', he⟩
            cases he
            exact .inr (.inr ⟨hae, rfl, hj'⟩)
        · exact .inl h
    clear h
    rcases this with h | ⟨_, hw, ht'⟩ | ⟨hae, hw, ht'⟩
    · obtain ⟨x, hx, hxt, hxj⟩ := hI.stores j who h
      obtain ⟨x', h1, h2, h3⟩ := fwd who x hx hxt
      exact ⟨x', h1, h2, by rw [h3]; exact hxj⟩
    · subst hw
      refine ⟨_, hself, hthr, ?_⟩
      rcases mem_targets ht' with h | ⟨h1, h2⟩
      · exact .inl h
      · exact .inr (.inl ⟨h1, by rw [← hI.jobs_eq]; exact h2⟩)
    · subst hw
      refine ⟨_, hself, hthr, .inr (.inr ⟨j0, ?_, by rw [← hI.jobs_eq]; exact ht'⟩)⟩
      subst hae
      rw [valid_pall hv] at hk
      exact hk
  · -- pend
    intro n x hx hxt
    apply pot_sigNext hg ht
    rcases hinv n x hx with ⟨rfl, rfl⟩ | ⟨hn, hx⟩
    · exact hI.pend n g hg hthr
    · exact hI.pend n x hx hxt
  · -- flagW
    intro hf
    by_cases har : a = .raiseFlag
    · subst har
      exact ⟨i, _, hself, hthr, valid_raise hv⟩
    · have hf' : s.flag = true := by
        simp only [sigNext, Bool.or_eq_true, beq_iff_eq] at hf
        rcases hf with hf | hf
        · exact absurd hf har
        · exact hf
      obtain ⟨n, x, hx, hxt, hxw⟩ := hI.flagW hf'
      by_cases hn : n = i
      · subst hn; rw [hg] at hx; cases hx
        refine ⟨n, _, hself, hthr, ?_⟩
        intro hw; apply hxw; rw [ht]; exact List.mem_cons_of_mem _ hw
      · exact ⟨n, x, by rw [hne n hn]; exact hx, hxt, hxw⟩
  · -- slot
    intro n x hx hxt hxw
    by_cases haw : a = .write
    · subst haw
      exact ⟨i, _, hself, hthr, by simp [sigNext]⟩
    · have hs : (sigNext s i g a rest).slot = s.slot := by simp [sigNext, haw]
      rw [hs]
      have : ∃ m : Nat, ∃ y : Sig, s.sigs[m]? = some y ∧ y.through = true ∧ Act.write ∉ y.todo := by
        rcases hinv n x hx with ⟨rfl, rfl⟩ | ⟨hn, hx⟩
        · refine ⟨n, g, hg, hthr, ?_⟩
          rw [ht]; intro hw
          rcases List.mem_cons.mp hw with hw | hw
          · exact haw hw.symm
          · exact hxw hw
        · exact ⟨n, x, hx, hxt, hxw⟩
      obtain ⟨m, y, hy, hyt, hyw⟩ := this
      obtain ⟨m', y', hy', hyt', hyj'⟩ := hI.slot m y hy hyt hyw
      obtain ⟨z, h1, h2, h3⟩ := fwd m' y' hy' hyt'
      exact ⟨m', z, h1, h2, h3.trans hyj'⟩
  · -- mainFlag
    intro hm
    have := hI.mainFlag hm
    simp [sigNext, this]
  · -- mainRead
    intro j hm
    exact pot_sigNext hg ht (hI.mainRead j hm)
  · -- mainRaised
    intro j who hm
    exact cache_sigNext (hI.mainRaised j who hm)

theorem inv_look {kinds jobs} {s : St} {i g rest} (hI : Inv kinds jobs s) (hg : s.sigs[i]? = some g)
    (ht : g.todo = .look :: rest) :
    Inv kinds jobs (setSig s i { g with todo := if s.flag then [] else rest, through := !s.flag }) := by
  obtain ⟨k, j0, hk, hv⟩ := hI.valid i g hg
  rw [ht] at hv
  obtain ⟨hthr, hw, hep, hv1, hv2⟩ := valid_look hv
  generalize hg' : ({ g with todo := if s.flag then [] else rest, through := !s.flag } : Sig) = g'
  have hself : (setSig s i g').sigs[i]? = some g' := set_self hg
  have hne : ∀ n : Nat, n ≠ i → (setSig s i g').sigs[n]? = s.sigs[n]? := fun n hn => set_ne hn
  have hinv : ∀ (n : Nat) (x : Sig), (setSig s i g').sigs[n]? = some x →
      (n = i ∧ x = g') ∨ (n ≠ i ∧ s.sigs[n]? = some x) := fun n x hx => set_inv hg hx
  have fwd : ∀ (n : Nat) (x : Sig), s.sigs[n]? = some x → x.through = true →
      n ≠ i ∧ (setSig s i g').sigs[n]? = some x := by
    intro n x hx hxt
    have hn : n ≠ i := by
      intro hn; subst hn; rw [hg] at hx; cases hx; rw [hthr] at hxt; cases hxt
    exact ⟨hn, by rw [hne n hn]; exact hx⟩
  have pot : ∀ j, POT s j → POT (setSig s i g') j := by
    intro j h
    rcases h with h | h | h | ⟨n, x, hx, hxt, h⟩
    · exact .inl h
    · exact .inr (.inl h)
    · exact .inr (.inr (.inl h))
    · exact .inr (.inr (.inr ⟨n, x, (fwd n x hx hxt).2, hxt, h⟩))
  refine ⟨hI.jobs_eq, ?_, ?_, ?_, ?_, ?_, ?_, ?_, hI.mainFlag, ?_, hI.mainRaised⟩
  · intro n x hx
    rcases hinv n x hx with ⟨rfl, rfl⟩ | ⟨hn, hx⟩
    · refine ⟨k, j0, hk, ?_⟩
      subst hg'
      cases hf : s.flag
      · simpa using hv1
      · simpa using hv2
    · exact hI.valid n x hx
  · intro j who h
    obtain ⟨x, hx, hxt, hxj⟩ := hI.queue j who h
    exact ⟨x, (fwd who x hx hxt).2, hxt, hxj⟩
  · intro j who h
    obtain ⟨x, hx, hxt, hxj⟩ := hI.cache j who h
    exact ⟨x, (fwd who x hx hxt).2, hxt, hxj⟩
  · intro j who h
    obtain ⟨x, hx, hxt, hxj⟩ := hI.stores j who h
    exact ⟨x, (fwd who x hx hxt).2, hxt, hxj⟩
  · intro n x hx hxt
    rcases hinv n x hx with ⟨rfl, rfl⟩ | ⟨hn, hx⟩
    · refine .inr (.inr (.inr ⟨n, _, hself, hxt, rfl, ?_⟩))
      subst hg'
      cases hf : s.flag
      · simpa [hf] using hep
      · simp [hf] at hxt
    · exact pot _ (hI.pend n x hx hxt)
  · intro hf
    obtain ⟨n, x, hx, hxt, hxw⟩ := hI.flagW hf
    exact ⟨n, x, (fwd n x hx hxt).2, hxt, hxw⟩
  · intro n x hx hxt hxw
    rcases hinv n x hx with ⟨rfl, rfl⟩ | ⟨hn, hx⟩
    · exfalso
      subst hg'
      cases hf : s.flag
      · simp [hf] at hxw; exact hxw hw
      · simp [hf] at hxt
    · obtain ⟨m, y, hy, hyt, hyj⟩ := hI.slot n x hx hxt hxw
      exact ⟨m, y, (fwd m y hy hyt).2, hyt, hyj⟩
  · intro j hm
    exact pot j (hI.mainRead j hm)

theorem inv_handler {kinds jobs} {s : St} {k j who} (hI : Inv kinds jobs s) (hq : s.queue[k]? = some (j, who)) :
    Inv kinds jobs (publish { s with queue := s.queue.eraseIdx k } j who) := by
  have hp : ∀ e, e ∈ s.pend → e ∈ (publish { s with queue := s.queue.eraseIdx k } j who).pend :=
    fun e h => List.mem_append_left _ h
  have hnew : (j, who) ∈ (publish { s with queue := s.queue.eraseIdx k } j who).pend :=
    List.mem_append_right _ (List.mem_map.mpr ⟨j, self_mem_targets _ j, rfl⟩)
  have pot : ∀ j', POT s j' → POT (publish { s with queue := s.queue.eraseIdx k } j who) j' := by
    intro j' h
    rcases h with h | ⟨w, h⟩ | ⟨w, h⟩ | h
    · exact .inl h
    · exact .inr (.inl ⟨w, hp _ h⟩)
    · rcases List.getElem?_of_mem h with ⟨m, hm⟩
      by_cases hmk : m = k
      · subst hmk; rw [hq] at hm; cases hm
        exact .inr (.inl ⟨_, hnew⟩)
      · exact .inr (.inr (.inl ⟨w, List.mem_eraseIdx_iff_getElem?.mpr ⟨m, hmk, hm⟩⟩))
    · exact .inr (.inr (.inr h))
  refine ⟨hI.jobs_eq, hI.valid, ?_, hI.cache, ?_, ?_, hI.flagW, hI.slot, hI.mainFlag, ?_, hI.mainRaised⟩
  · intro j' w h
    exact hI.queue j' w (List.mem_of_mem_eraseIdx h)
  · intro j' w h
    rcases List.mem_append.mp h with h | h
    · exact hI.stores j' w h
    · rcases List.mem_map.mp h with ⟨j'', hj'', he⟩
      cases he
      obtain ⟨x, hx, hxt, hxj⟩ := hI.queue j who (List.mem_of_getElem? hq)
      refine ⟨x, hx, hxt, ?_⟩
      rcases mem_targets hj'' with h | ⟨h1, h2⟩
      · exact .inl (hxj.trans h)
      · exact .inr (.inl ⟨hxj.trans h1, by rw [← hI.jobs_eq]; exact h2⟩)
  · intro n x hx hxt
    exact pot _ (hI.pend n x hx hxt)
  · intro j' hm
    exact pot _ (hI.mainRead j' hm)

theorem inv_store {kinds jobs} {s : St} {k e} (hI : Inv kinds jobs s) (hq : s.pend[k]? = some e) :
    Inv kinds jobs { s with pend := s.pend.eraseIdx k, cache := e :: s.cache } := by
  have pot : ∀ j', POT s j' → POT { s with pend := s.pend.eraseIdx k, cache := e :: s.cache } j' := by
    intro j' h
    rcases h with ⟨w, h⟩ | ⟨w, h⟩ | h | h
    · exact .inl ⟨w, List.mem_cons_of_mem _ h⟩
    · rcases List.getElem?_of_mem h with ⟨m, hm⟩
      by_cases hmk : m = k
      · subst hmk; rw [hq] at hm; cases hm
        exact .inl ⟨w, List.mem_cons_self⟩
      · exact .inr (.inl ⟨w, List.mem_eraseIdx_iff_getElem?.mpr ⟨m, hmk, hm⟩⟩)
    · exact .inr (.inr (.inl h))
    · exact .inr (.inr (.inr h))
  refine ⟨hI.jobs_eq, hI.valid, hI.queue, ?_, ?_, ?_, hI.flagW, hI.slot, hI.mainFlag, ?_, ?_⟩
  · intro j' w h
    rcases List.mem_cons.mp h with h | h
    · exact hI.stores j' w (h ▸ List.mem_of_getElem? hq)
    · exact hI.cache j' w h
  · intro j' w h
    exact hI.stores j' w (List.mem_of_mem_eraseIdx h)
  · intro n x hx hxt
    exact pot _ (hI.pend n x hx hxt)
  · intro j' hm
    exact pot _ (hI.mainRead j' hm)
  · intro j' w hm
    exact List.mem_cons_of_mem _ (hI.mainRaised j' w hm)

theorem inv_drop {kinds jobs} {s : St} {k e} (hI : Inv kinds jobs s) (hq : s.pend[k]? = some e)
    (hgd : ((lookup s e.1).isSome || (s.pend.eraseIdx k).any (·.1 == e.1)) = true) :
    Inv kinds jobs { s with pend := s.pend.eraseIdx k } := by
  have pot : ∀ j', POT s j' → POT { s with pend := s.pend.eraseIdx k } j' := by
    intro j' h
    rcases h with h | ⟨w, h⟩ | h | h
    · exact .inl h
    · rcases List.getElem?_of_mem h with ⟨m, hm⟩
      by_cases hmk : m = k
      · subst hmk; rw [hq] at hm; cases hm
        rcases Bool.or_eq_true_iff.mp hgd with hl | ha
        · exact .inl (lookup_isSome.mp hl)
        · rcases List.any_eq_true.mp ha with ⟨⟨j'', w'⟩, hx, hj⟩
          simp only [beq_iff_eq] at hj
          subst hj
          exact .inr (.inl ⟨w', hx⟩)
      · exact .inr (.inl ⟨w, List.mem_eraseIdx_iff_getElem?.mpr ⟨m, hmk, hm⟩⟩)
    · exact .inr (.inr (.inl h))
    · exact .inr (.inr (.inr h))
  refine ⟨hI.jobs_eq, hI.valid, hI.queue, hI.cache, ?_, ?_, hI.flagW, hI.slot, hI.mainFlag, ?_, hI.mainRaised⟩
  · intro j' w h
    exact hI.stores j' w (List.mem_of_mem_eraseIdx h)
  · intro n x hx hxt
    exact pot _ (hI.pend n x hx hxt)
  · intro j' hm
    exact pot _ (hI.mainRead j' hm)

theorem flag_slot {kinds jobs} {s : St} (hI : Inv kinds jobs s) (hf : s.flag = true) : POT s s.slot := by
  obtain ⟨n, x, hx, hxt, hxw⟩ := hI.flagW hf
  obtain ⟨m, y, hy, hyt, hyj⟩ := hI.slot n x hx hxt hxw
  rw [← hyj]
  exact hI.pend m y hy hyt

theorem inv_step {kinds jobs} {s s' : St} {t : Step} (hI : Inv kinds jobs s) (h : step s t = some s') :
    Inv kinds jobs s' := by
  have h := step_sr h
  cases h with
  | look i g rest hg ht => exact inv_look hI hg ht
  | write i g rest hg ht => exact inv_sigNext (a := .write) hI hg ht (by decide)
  | raiseFlag i g rest hg ht => exact inv_sigNext (a := .raiseFlag) hI hg ht (by decide)
  | enqueue i g rest hg ht => exact inv_sigNext (a := .enqueue) hI hg ht (by decide)
  | publish i g rest hg ht => exact inv_sigNext (a := .publish) hI hg ht (by decide)
  | publishAll i g rest hg ht => exact inv_sigNext (a := .publishAll) hI hg ht (by decide)
  | handler k j who hq => exact inv_handler hI hq
  | store k e hq => exact inv_store hI hq
  | drop k e hq hgd => exact inv_drop hI hq hgd
  | saw hm hf =>
    exact ⟨hI.jobs_eq, hI.valid, hI.queue, hI.cache, hI.stores, hI.pend, hI.flagW, hI.slot, fun _ => hf,
      (fun j h => by cases h), (fun j w h => by cases h)⟩
  | read hm =>
    have hf : s.flag = true := hI.mainFlag (by rw [hm]; intro h; cases h)
    exact ⟨hI.jobs_eq, hI.valid, hI.queue, hI.cache, hI.stores, hI.pend, hI.flagW, hI.slot, fun _ => hf,
      (fun j h => by cases h; exact (flag_slot hI hf : POT s s.slot)), (fun j w h => by cases h)⟩
  | raised j who hm hl =>
    have hf : s.flag = true := hI.mainFlag (by rw [hm]; intro h; cases h)
    exact ⟨hI.jobs_eq, hI.valid, hI.queue, hI.cache, hI.stores, hI.pend, hI.flagW, hI.slot, fun _ => hf,
      (fun j h => by cases h), (fun j w h => by cases h; exact lookup_some hl)⟩

theorem reachable_inv {kinds jobs} {s : St} (h : Reachable kinds jobs s) : Inv kinds jobs s := by
  induction h with
  | init => exact inv_init kinds jobs
  | step t _ hs ih => exact inv_step ih hs

theorem sig_enabled {s : St} {n : Nat} {g : Sig} (hg : s.sigs[n]? = some g) (ht : g.todo ≠ []) :
    ∃ s', step s (.sig n) = some s' := by
  cases hl : g.todo with
  | nil => exact absurd hl ht
  | cons a rest =>
    cases a
    · exact ⟨_, sr_step (.look n g rest hg hl)⟩
    · exact ⟨_, sr_step (.write n g rest hg hl)⟩
    · exact ⟨_, sr_step (.raiseFlag n g rest hg hl)⟩
    · exact ⟨_, sr_step (.enqueue n g rest hg hl)⟩
    · exact ⟨_, sr_step (.publish n g rest hg hl)⟩
    · exact ⟨_, sr_step (.publishAll n g rest hg hl)⟩

theorem flag_mono {s s' : St} {t : Step} (h : step s t = some s') (hf : s.flag = true) : s'.flag = true := by
  have h := step_sr h
  cases h <;> simp only [setSig, publish, hf]

/-- What the caller raises was produced by a party of this call that found the flag down (or by the calling thread itself), and was
stored for the job whose id the caller read: because that is the party's own job, or because it is a failure of `worker_init`
(stored under every open job), or because it is the error the death handler fails every other job with. -/
theorem raised_is_real (kinds : List (Kind × Job)) (jobs : List Job) (s : St) (h : Reachable kinds jobs s)
    (j : Job) (who : Nat) (hm : s.main = .raised j who) :
    ∃ g, s.sigs[who]? = some g ∧ g.through = true ∧
      (g.job = j ∨ (g.job = INIT ∧ j ∈ jobs) ∨ (∃ k, kinds[who]? = some (.death, k) ∧ j ∈ INIT :: EXIT :: jobs)) := by
  have hI := reachable_inv h
  exact hI.cache j who (hI.mainRaised j who hm)

/-- Once the flag is up, a failure for the job named by the slot is in the cache or on its way there … -/
theorem flag_names_a_failure (kinds : List (Kind × Job)) (jobs : List Job) (s : St) (h : Reachable kinds jobs s)
    (hf : s.flag = true) : pendingOrThere s s.slot :=
  pot_iff.mpr (flag_slot (reachable_inv h) hf)

/-- … and so is one for the job id the caller has read. -/
theorem read_names_a_failure (kinds : List (Kind × Job)) (jobs : List Job) (s : St) (h : Reachable kinds jobs s)
    (j : Job) (hm : s.main = .read j) : pendingOrThere s j :=
  pot_iff.mpr ((reachable_inv h).mainRead j hm)

/-- The caller is never stuck: with the flag up and nothing raised yet, somebody can take a step. -/
theorem never_stuck (kinds : List (Kind × Job)) (jobs : List Job) (s : St) (h : Reachable kinds jobs s)
    (hf : s.flag = true) (hm : isRaised s.main = false) : ∃ t s', step s t = some s' := by
  have hI := reachable_inv h
  cases hmain : s.main with
  | waiting => exact ⟨.main, _, sr_step (.saw hmain hf)⟩
  | saw => exact ⟨.main, _, sr_step (.read hmain)⟩
  | raised j who => rw [hmain] at hm; cases hm
  | read j =>
    rcases hI.mainRead j hmain with hc | ⟨w, hq⟩ | ⟨w, hq⟩ | ⟨n, g, hg, _, _, hp⟩
    · have hs := lookup_isSome.mpr hc
      cases hl : lookup s j with
      | none => rw [hl] at hs; cases hs
      | some w => exact ⟨.main, _, sr_step (.raised j w hmain hl)⟩
    · rcases List.getElem?_of_mem hq with ⟨k, hk⟩
      exact ⟨.store k, _, sr_step (.store k (j, w) hk)⟩
    · rcases List.getElem?_of_mem hq with ⟨k, hk⟩
      exact ⟨.handler k, _, sr_step (.handler k j w hk)⟩
    · have ht : g.todo ≠ [] := by
        intro h0; rw [h0] at hp; simp at hp
      obtain ⟨s', hs'⟩ := sig_enabled hg ht
      exact ⟨.sig n, s', hs'⟩

/-- Hence every run from a state with the flag up that cannot be extended ends with the caller raising. -/
theorem maximal_runs_end_raised (kinds : List (Kind × Job)) (jobs : List Job) (s : St) (h : Reachable kinds jobs s)
    (hf : s.flag = true) (ts : List Step) (s' : St) (hr : runSteps s ts = some s') (hmax : ∀ t, step s' t = none) :
    isRaised s'.main = true := by
  induction ts generalizing s with
  | nil =>
    simp only [runSteps, Option.some.injEq] at hr
    subst hr
    cases hm : isRaised s.main with
    | true => rfl
    | false =>
      obtain ⟨t, s1, hs1⟩ := never_stuck kinds jobs s h hf hm
      rw [hmax t] at hs1; cases hs1
  | cons t ts ih =>
    simp only [runSteps] at hr
    cases hs : step s t with
    | none => rw [hs] at hr; simp at hr
    | some s1 =>
      rw [hs] at hr
      simp only [Option.bind_some] at hr
      exact ih s1 (.step t h hs) (flag_mono hs hf) hr

end Mpire.Proofs.FirstFailure
