import MpireModel.Model.Shutdown
/-! Proofs about the shutdown model (statements used by Props/C05.lean). -/
namespace Mpire.Proofs.Shutdown
open Mpire.Shutdown

/-! ### Part A -/

theorem rounds_shape (f : Fate) : ∀ (left k : Nat),
    ((rounds f left k).2 = true → ∃ j, j < left ∧ goneBy f (k + j) = true ∧
        (rounds f left k).1 = (List.replicate j [Act.join false, Act.drain]).flatten ++ [Act.join true]) ∧
    ((rounds f left k).2 = false → (∀ j, j < left → goneBy f (k + j) = false) ∧
        (rounds f left k).1 = (List.replicate left [Act.join false, Act.drain]).flatten) := by
  intro left
  induction left with
  | zero => intro k; simp [rounds]
  | succ n ih =>
    intro k
    unfold rounds
    by_cases hg : goneBy f k = true
    · simp only [hg, if_true]
      refine ⟨fun _ => ⟨0, by omega, by simpa using hg, by simp⟩, fun h => by simp at h⟩
    · simp only [hg]
      have := ih (k + 1)
      refine ⟨fun h => ?_, fun h => ?_⟩
      · obtain ⟨j, hj, hgj, hs⟩ := this.1 h
        refine ⟨j + 1, by omega, by rw [show k + (j + 1) = k + 1 + j by omega]; exact hgj, ?_⟩
        simp [hs, List.replicate_succ]
      · obtain ⟨hall, hs⟩ := this.2 h
        refine ⟨fun j hj => ?_, by simp [hs, List.replicate_succ]⟩
        cases j with
        | zero => simpa using hg
        | succ j => rw [show k + (j + 1) = k + 1 + j by omega]; exact hall j (by omega)

theorem goneBy_mono (f : Fate) {a b : Nat} (h : a ≤ b) (hg : goneBy f a = true) : goneBy f b = true := by
  unfold goneBy at *
  cases hl : f.leaves with
  | none => simp [hl] at hg
  | some j => simp [hl] at hg ⊢; omega


/-- the bounded joins consist of `join` and `drain` actions only -/
theorem rounds_mem (f : Fate) (a : Act) : ∀ (left k : Nat), a ∈ (rounds f left k).1 →
    a = Act.join false ∨ a = Act.drain ∨ a = Act.join true := by
  intro left
  induction left with
  | zero => intro k; simp [rounds]
  | succ n ih =>
    intro k
    unfold rounds
    split
    · simp only [List.mem_singleton]; exact fun h => Or.inr (Or.inr h)
    · simp only [List.mem_cons]
      rintro (h | h | h)
      · exact Or.inl h
      · exact Or.inr (Or.inl h)
      · exact ih (k + 1) h

theorem rounds_length (f : Fate) : ∀ (left k : Nat), (rounds f left k).1.length ≤ 2 * left := by
  intro left
  induction left with
  | zero => intro k; simp [rounds]
  | succ n ih =>
    intro k
    unfold rounds
    split
    · simp only [List.length_cons, List.length_nil]; omega
    · have := ih (k + 1)
      simp only [List.length_cons]
      omega

theorem rounds_true_gone (f : Fate) (left k : Nat) (h : (rounds f left k).2 = true) :
    goneBy f (k + left) = true := by
  obtain ⟨j, hj, hg, _⟩ := (rounds_shape f left k).1 h
  exact goneBy_mono f (by omega) hg

/-- a process that leaves at look `k` is seen gone exactly there -/
theorem rounds_leaves (f : Fate) (k : Nat) (hl : f.leaves = some k) : ∀ (left start : Nat),
    start ≤ k → k < start + left →
    rounds f left start = ((List.replicate (k - start) [Act.join false, Act.drain]).flatten ++ [Act.join true], true) := by
  intro left
  induction left with
  | zero => intro start h1 h2; omega
  | succ n ih =>
    intro start h1 h2
    unfold rounds
    by_cases hk : k ≤ start
    · have : k - start = 0 := by omega
      simp [goneBy, hl, hk, this]
    · have hs : k - start = (k - (start + 1)) + 1 := by omega
      simp [goneBy, hl, hk, ih (start + 1) (by omega) (by omega), hs, List.replicate_succ]

/-- the pool never returns from `_terminate_worker` believing the process may still be there: it either left by itself within the
patience (and was never sent SIGTERM), or it is sent SIGTERM and waited for without a time limit -/
theorem never_gives_up (f : Fate) (h : f.started = true) :
    (goneBy f patience = true ∧ Act.term ∉ terminateWorker f) ∨
    (goneBy f patience = false ∧ ∃ pre, terminateWorker f = pre ++ [Act.term, Act.joinForever, Act.close]) := by
  by_cases hg : goneBy f patience = true
  · refine Or.inl ⟨hg, ?_⟩
    intro hm
    have hr : Act.term ∉ (rounds f patience 0).1 := fun hm => by
      have := rounds_mem f _ _ _ hm
      simp at this
    cases hrun : f.running <;> simp [terminateWorker, h, hg, hrun, hr] at hm
  · have hg' : goneBy f patience = false := by simpa using hg
    have hr : (rounds f patience 0).2 = false := by
      cases hr : (rounds f patience 0).2 with
      | false => rfl
      | true => have := rounds_true_gone f patience 0 hr; simp [hg'] at this
    refine Or.inr ⟨hg', (if f.running then [Act.usr1] else []) ++ (rounds f patience 0).1, ?_⟩
    simp [terminateWorker, h, hr, hg']

theorem kill_signal_iff_running (f : Fate) :
    (terminateWorker f).count Act.usr1 = if f.started && f.running then 1 else 0 := by
  have hr : (rounds f patience 0).1.count Act.usr1 = 0 := by
    rw [List.count_eq_zero]
    intro hm
    have := rounds_mem f _ _ _ hm
    simp at this
  unfold terminateWorker
  cases hs : f.started
  · simp
  · cases hrun : f.running <;> simp [List.count_append, hr] <;> split <;> simp

theorem cooperative_shape (f : Fate) (k : Nat) (hs : f.started = true) (hl : f.leaves = some k) (hk : k < patience) :
    terminateWorker f = (if f.running then [Act.usr1] else []) ++
      (List.replicate k [Act.join false, Act.drain]).flatten ++ [Act.join true, Act.close] := by
  have := rounds_leaves f k hl patience 0 (by omega) (by omega)
  simp [terminateWorker, hs, this]

theorem bounded_effort (f : Fate) : (terminateWorker f).length ≤ 2 * patience + 4 := by
  have := rounds_length f patience 0
  unfold terminateWorker
  cases f.started
  · simp
  · simp only [if_true, List.length_append]
    have h1 : (if f.running then [Act.usr1] else []).length ≤ 1 := by split <;> simp
    have h2 : (if ((rounds f patience 0).2 || goneBy f patience) = true then [] else [Act.term, Act.joinForever]).length ≤ 2 := by
      split <;> simp
    simp only [List.length_cons, List.length_nil] at *
    omega

theorem never_started_untouched (f : Fate) (h : f.started = false) : terminateWorker f = [] := by
  simp [terminateWorker, h]

/-! ### Part B -/

theorem slot_settled (threading : Bool) (o : Option Fate) : settled o (slotActs threading o) = true := by
  cases o with
  | none => rfl
  | some f =>
    cases threading
    · cases hs : f.started
      · simp [settled, hs]
      · rcases never_gives_up f hs with ⟨hg, _⟩ | ⟨_, pre, hp⟩
        · simp [settled, hg]
        · simp [settled, slotActs, hp]
    · simp [settled, slotActs]

theorem terminate_leaves_nothing (p : Pool) :
    (terminate p).1.workers = [] ∧ (terminate p).1.handlers = 0 ∧
    (p.workers ≠ [] → (terminate p).2.length = p.workers.length) ∧
    (∀ (i : Nat) (o : Option Fate) (as : List Act), p.workers[i]? = some o → (terminate p).2[i]? = some as → settled o as = true) := by
  unfold terminate
  cases hw : p.workers with
  | nil => simp
  | cons a l =>
    simp only [List.isEmpty_cons, Bool.false_eq_true, if_false, List.length_map, ne_eq, reduceCtorEq,
      not_false_eq_true, forall_const, true_and]
    intro i o as h1 h2
    rw [List.getElem?_map, h1] at h2
    simp at h2
    rw [← h2]
    exact slot_settled _ _

/-! ### Part C -/

theorem flag_stays (s s' : HS) (w : Who) (hf : s.flag = true) (h : step s w = some s') : s'.flag = true := by
  rcases s with ⟨fixed, flag, pc, spc, requests, served⟩
  simp only at hf
  subst hf
  cases w
  · cases pc with
    | inner n => cases n <;> simp [step] at h <;> subst h <;> rfl
    | _ => simp [step] at h <;> subst h <;> rfl
  · cases spc <;> simp [step] at h <;> first | (subst h; rfl) | (obtain ⟨_, h⟩ := h; subst h; rfl)
  all_goals simp [step] at h; subst h; rfl

theorem rank_never_increases (s s' : HS) (w : Who) (hf : s.flag = true) (h : step s w = some s') :
    rank s'.pc ≤ rank s.pc := by
  rcases s with ⟨fixed, flag, pc, spc, requests, served⟩
  simp only at hf
  subst hf
  cases w
  · cases pc with
    | inner n => cases n <;> simp [step] at h <;> subst h <;> simp [rank]
    | _ => simp [step] at h <;> subst h <;> by_cases hr : 0 < requests <;> simp [rank, hr]
  · cases spc <;> simp [step] at h <;> (first | subst h | (obtain ⟨_, h⟩ := h; subst h)) <;> cases pc <;> simp [rank]
  all_goals simp [step] at h; subst h; cases pc <;> simp [rank]

theorem thread_step_decreases (s s' : HS) (hf : s.flag = true) (h : step s .thread = some s') :
    rank s'.pc < rank s.pc := by
  rcases s with ⟨fixed, flag, pc, spc, requests, served⟩
  simp only at hf
  subst hf
  cases pc with
  | inner n => cases n <;> simp [step] at h <;> subst h <;> simp [rank]
  | _ => simp [step] at h <;> subst h <;> by_cases hr : 0 < requests <;> simp [rank, hr]

theorem thread_enabled_unless_waiting (s : HS) (hw : s.pc ≠ .waiting) (hg : s.pc ≠ .gone) :
    (step s .thread).isSome = true := by
  rcases s with ⟨fixed, flag, pc, spc, requests, served⟩
  cases pc with
  | inner n => cases n <;> simp [step] <;> split <;> simp
  | _ => simp_all [step]

/-- the stopper of the repaired code can always take its next step (it never waits without a time limit; `joinForever` is a
location of the pinned stopper only, see `reach_inv`) -/
theorem fixed_stopper_never_blocks (s : HS) (hx : s.fixed = true) (hd : s.spc ≠ .done) (hj : s.spc ≠ .joinForever) :
    (step s .stopper).isSome = true := by
  rcases s with ⟨fixed, flag, pc, spc, requests, served⟩
  cases spc <;> simp_all [step]

theorem run_nil (s : HS) : run s [] = some s := rfl

theorem run_cons (s : HS) (w : Who) (ws : List Who) :
    run s (w :: ws) = (step s w).bind (fun s1 => run s1 ws) := by
  simp [run, List.foldlM_cons]

/-- a waiting handler thread is woken by at most four steps of the repaired stopper (three suffice) -/
theorem fixed_waiting_is_woken (s : HS) (hx : s.fixed = true) (hw : s.pc = .waiting)
    (hs : s.spc = .probe ∨ s.spc = .probeLoop ∨ s.spc = .notify ∨ s.spc = .joinShort) :
    ∃ n, n ≤ 4 ∧ (run s (List.replicate n Who.stopper)).map (·.pc) = some RPc.woken := by
  rcases s with ⟨fixed, flag, pc, spc, requests, served⟩
  simp only at hx hw hs
  subst hx hw
  rcases hs with rfl | rfl | rfl | rfl
  · exact ⟨3, by omega, by simp [List.replicate, run_cons, run_nil, step]⟩
  · exact ⟨2, by omega, by simp [List.replicate, run_cons, run_nil, step]⟩
  · exact ⟨1, by omega, by simp [List.replicate, run_cons, run_nil, step]⟩
  · exact ⟨3, by omega, by simp [List.replicate, run_cons, run_nil, step]⟩

def Inv (fx : Bool) (s : HS) : Prop :=
  s.fixed = fx ∧ (s.spc = .done → s.pc = .gone) ∧ (fx = true → s.spc ≠ .joinForever) ∧ (s.spc ≠ .setFlag → s.flag = true)

theorem inv_step (fx : Bool) (s s' : HS) (w : Who) (hi : Inv fx s) (h : step s w = some s') : Inv fx s' := by
  rcases s with ⟨fixed, flag, pc, spc, requests, served⟩
  unfold Inv at *
  cases w
  · cases pc with
    | inner n =>
      cases n with
      | zero => simp [step] at h; subst h; simp_all
      | succ n => cases flag <;> simp [step] at h <;> subst h <;> simp_all
    | _ => simp [step] at h <;> subst h <;> simp_all
  · cases spc <;> simp [step] at h <;> (first | subst h | (obtain ⟨_, h⟩ := h; subst h)) <;>
      cases fx <;> by_cases hp : pc = RPc.gone <;> simp_all
  all_goals simp [step] at h; subst h; simp_all

theorem inv_run (fx : Bool) : ∀ (ws : List Who) (s s' : HS), Inv fx s → run s ws = some s' → Inv fx s' := by
  intro ws
  induction ws with
  | nil => intro s s' hi h; simp [run_nil] at h; subst h; exact hi
  | cons w ws ih =>
    intro s s' hi h
    rw [run_cons] at h
    cases hst : step s w with
    | none => simp [hst] at h
    | some s1 =>
      simp [hst] at h
      exact ih s1 s' (inv_step fx s s1 w hi hst) h

/-- invariants of every reachable state: the mode never changes; `done` only when the thread is gone; the repaired stopper is never
in `joinForever`; once the stopper is past `setFlag` the flag is set -/
theorem reach_inv (fx : Bool) (s : HS) (h : Reachable fx s) :
    s.fixed = fx ∧ (s.spc = .done → s.pc = .gone) ∧ (fx = true → s.spc ≠ .joinForever) ∧ (s.spc ≠ .setFlag → s.flag = true) := by
  obtain ⟨ws, hws⟩ := h
  exact inv_run fx ws _ s (by simp [Inv]) hws

/-- `_stop_handler_threads` gets past the restart handler only when that thread has ended -/
theorem stopper_done_means_gone (fx : Bool) (s : HS) (h : Reachable fx s) (hd : s.spc = .done) : s.pc = .gone :=
  (reach_inv fx s h).2.1 hd

/-- the repaired code: no reachable state in which the handler thread is still there and nothing can move -/
theorem fixed_never_hangs (s : HS) (h : Reachable true s) : hung s = false := by
  obtain ⟨hx, hd, hj, _⟩ := reach_inv true s h
  rcases s with ⟨fixed, flag, pc, spc, requests, served⟩
  cases spc <;> simp_all [hung, step]

/-- the pinned code (one notification, then an unbounded join): a reachable state in which the handler thread waits for a
notification that will not come while the stopper waits for the thread -/
theorem pinned_can_hang : ∃ ws s, run { fixed := false } ws = some s ∧ hung s = true ∧ s.pc = .waiting ∧ s.spc = .joinForever :=
  ⟨[.thread, .stopper, .stopper, .stopper, .thread], _, rfl, by decide, by decide, by decide⟩

/-- a schedule that lets the handler thread run whenever it can and the stopper otherwise -/
def greedy : Nat → HS → List Who
  | 0, _ => []
  | n + 1, s =>
    if s.spc = .done then []
    else
      let w := if s.pc = .waiting ∨ s.pc = .gone then Who.stopper else Who.thread
      match step s w with
      | some s' => w :: greedy n s'
      | none => []

theorem greedy_length : ∀ (n : Nat) (s : HS), (greedy n s).length ≤ n := by
  intro n
  induction n with
  | zero => intro s; simp [greedy]
  | succ n ih =>
    intro s
    unfold greedy
    split
    · simp
    · simp only
      split
      · have := ih ‹HS›
        simp only [List.length_cons]
        omega
      · simp

/-- from every reachable state of the repaired system in which the stopper is at work, the stop can complete (no trap states):
together with `thread_step_decreases` / `rank_never_increases` / `fixed_waiting_is_woken` this is termination under fair scheduling -/
theorem fixed_can_always_finish (s : HS) (h : Reachable true s) (hs : s.spc ≠ .setFlag) :
    ∃ ws, ws.length ≤ 12 ∧ (run s ws).map (·.spc) = some SPc.done := by
  obtain ⟨hx, hd, hj, hf⟩ := reach_inv true s h
  refine ⟨greedy 12 s, greedy_length 12 s, ?_⟩
  rcases s with ⟨fixed, flag, pc, spc, requests, served⟩
  have hfl := hf hs
  simp only at hx hfl hs hj hd
  subst hx hfl
  cases spc <;> simp at hs hj <;> cases pc with
    | inner n => cases n <;> simp [greedy, run_cons, run_nil, step]
    | serving n => cases n <;> simp [greedy, run_cons, run_nil, step]
    | _ => cases requests <;> simp [greedy, run_cons, run_nil, step]

end Mpire.Proofs.Shutdown
