import MpireModel.Model.Args
/-! Proofs for `Props/C13.lean`.  Helpers live in `Mpire.Proofs.Args`. -/
namespace Mpire.Proofs.Args
open Mpire.Args

theorem extras_sublist (cfg : Extras) (wid : Nat) (state : PyVal) (sh : PyVal) :
    (extras { cfg with shared := some sh } wid state).Sublist [.atom wid, sh, state] ∧
    (extras { cfg with shared := none } wid state).Sublist [.atom wid, state] := by
  cases cfg with
  | mk p s u => cases p <;> cases u <;> simp [extras]

theorem extras_length (cfg : Extras) (wid : Nat) (state : PyVal) :
    (extras cfg wid state).length =
      (if cfg.passWorkerId then 1 else 0) + (if cfg.shared.isSome then 1 else 0) + (if cfg.useState then 1 else 0) := by
  cases cfg with
  | mk p s u => cases p <;> cases u <;> cases s <;> simp [extras]

theorem extras_first (cfg : Extras) (wid : Nat) (state : PyVal) (h : cfg.passWorkerId = true) :
    (extras cfg wid state).head? = some (.atom wid) := by
  simp [extras, h]

theorem extras_last (cfg : Extras) (wid : Nat) (state : PyVal) (h : cfg.useState = true) :
    (extras cfg wid state).getLast? = some state := by
  simp [extras, h]

theorem task_call_prefix (cfg : Extras) (wid : Nat) (state : PyVal) (arg : PyVal) :
    (taskCall cfg wid state arg).pos = extras cfg wid state ++ (convert arg none).pos ∧
    (taskCall cfg wid state arg).kw = (convert arg none).kw := ⟨rfl, rfl⟩

theorem apply_call_prefix (cfg : Extras) (wid : Nat) (state : PyVal) (args : PyVal) (kw : List (String × PyVal)) :
    (applyCall cfg wid state args kw).pos = extras cfg wid state ++ (convert args (some kw)).pos ∧
    (applyCall cfg wid state args kw).kw = kw := by
  refine ⟨rfl, ?_⟩
  cases args <;> simp [applyCall, convert, isPlainIterable]

end Mpire.Proofs.Args
