import MpireModel.Model.KillSignal
/-! Proofs about the running-task hand-shake, for `Props/C08.lean`.  Helpers live in `Mpire.Proofs.Kill`. -/
namespace Mpire.Proofs.Kill
open Mpire.Kill

/-- the inductive invariant of the hand-shake -/
structure Inv (w : W) : Prop where
  notEsc : w.phase ≠ .escaped
  sentLe : w.sent ≤ 1
  runIn  : w.running = true → (w.phase = .inside ∨ w.phase = .leaving) ∧ w.sent = 0 ∧ w.pending = false
  pendIn : w.pending = true → (w.phase = .inside ∨ w.phase = .leaving) ∧ w.running = false ∧ w.sent = 1
  inNeed : (w.phase = .inside ∨ w.phase = .leaving) → w.running = true ∨ w.pending = true

theorem inv_init : Inv ({} : W) := by
  constructor <;> simp

theorem inv_step (w w' : W) (e : Ev) (hi : Inv w) (hs : step w e = some w') : Inv w' := by
  obtain ⟨ph, r, pd, sn⟩ := w
  obtain ⟨h1, h2, h3, h4, h5⟩ := hi
  simp only at h1 h2 h3 h4 h5
  cases e <;> cases ph <;> cases r <;> cases pd <;> simp [step] at hs h1 h2 h3 h4 h5 ⊢ <;>
    subst hs <;> constructor <;> simp_all

theorem inv_run (es : List Ev) : ∀ (w w' : W), Inv w → run w es = some w' → Inv w' := by
  induction es with
  | nil => intro w w' hi h; simp [run] at h; subst h; exact hi
  | cons e es ih =>
    intro w w' hi h
    simp only [run, List.foldlM_cons] at h
    cases hs : step w e with
    | none => simp [hs] at h
    | some w1 =>
      simp [hs] at h
      exact ih w1 w' (inv_step w w1 e hi hs) h

theorem inv_of_reachable (w : W) (h : Reachable w) : Inv w := by
  obtain ⟨es, h⟩ := h
  exact inv_run es _ _ inv_init h

theorem never_escapes (w : W) (h : Reachable w) : w.phase ≠ .escaped :=
  (inv_of_reachable w h).notEsc

theorem at_most_one_signal_per_run (w : W) (h : Reachable w) : w.sent ≤ 1 :=
  (inv_of_reachable w h).sentLe

theorem signal_only_while_running (w w' : W) (h : Reachable w) (hs : step w .tryKill = some w') (hp : w'.pending = true ∧ w.pending = false) :
    w.phase = .inside ∨ w.phase = .leaving := by
  have hi := inv_of_reachable w h
  cases hr : w.running with
  | true => exact (hi.runIn hr).1
  | false =>
    simp [step, hr] at hs
    subst hs
    simp_all

theorem flag_iff_in_function (w : W) (h : Reachable w) :
    w.running = true → (w.phase = .inside ∨ w.phase = .leaving) :=
  fun hr => ((inv_of_reachable w h).runIn hr).1

theorem kill_deliver (w : W) (hi : Inv w) :
    ((step ((step w .tryKill).getD w) .deliver).getD ((step w .tryKill).getD w)).phase ≠ .inside ∧
    ((step ((step w .tryKill).getD w) .deliver).getD ((step w .tryKill).getD w)).phase ≠ .leaving ∧
    ((step ((step w .tryKill).getD w) .deliver).getD ((step w .tryKill).getD w)).phase ≠ .escaped := by
  obtain ⟨ph, r, pd, sn⟩ := w
  obtain ⟨h1, h2, h3, h4, h5⟩ := hi
  simp only at h1 h2 h3 h4 h5
  cases ph <;> cases r <;> cases pd <;> simp [step] at h1 h2 h3 h4 h5 ⊢

theorem kill_round_reaches_all (ws : List W) (h : ∀ w ∈ ws, Reachable w) :
    ∀ w ∈ deliverAll (killAll ws), w.phase ≠ .inside ∧ w.phase ≠ .leaving ∧ w.phase ≠ .escaped := by
  intro w hw
  simp only [deliverAll, killAll, List.map_map, List.mem_map, Function.comp] at hw
  obtain ⟨w0, hw0, rfl⟩ := hw
  exact kill_deliver w0 (inv_of_reachable w0 (h w0 hw0))

theorem blocked_worker_is_stopped (w : W) (h : Reachable w) (hi : w.phase = .inside) (hr : w.running = true) :
    ((step w .tryKill).bind fun w1 => step w1 .deliver).map (·.phase) = some .stopped := by
  have _ := h
  simp [step, hr, hi]

end Mpire.Proofs.Kill
