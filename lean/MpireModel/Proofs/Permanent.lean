import MpireModel.Model.Permanent
namespace Mpire.Proofs.Permanent
open Mpire.Permanent

def GInv (g : Getter) : Prop := g.outcome = g.hist.getLast? ∧ g.ready = !g.hist.isEmpty ∧ g.isSet = g.ready

theorem ginv_step (g : Getter) (op : GOp) (h : GInv g) : GInv (g.step op) := by
  cases op with
  | set v => simp [GInv, Getter.step]
  | reset => simp [GInv, Getter.step]

theorem ginv_run (ops : List GOp) (g : Getter) (h : GInv g) : GInv (g.run ops) := by
  induction ops generalizing g with
  | nil => simpa [Getter.run]
  | cons op r ih => simpa [Getter.run] using ih (g.step op) (ginv_step g op h)

def EInv (s : ExitIt) : Prop := s.items = s.hist ∧ s.nReceived = s.hist.length

theorem einv_step (s : ExitIt) (op : EOp) (h : EInv s) : EInv (s.step op) := by
  obtain ⟨h1, h2⟩ := h
  cases op with
  | setOk v => simp [EInv, ExitIt.step, h1, h2]
  | setErr e => exact ⟨h1, h2⟩
  | reset => simp [EInv, ExitIt.step]

theorem einv_run (ops : List EOp) (s : ExitIt) (h : EInv s) : EInv (s.run ops) := by
  induction ops generalizing s with
  | nil => simpa [ExitIt.run]
  | cons op r ih => simpa [ExitIt.run] using ih (s.step op) (einv_step s op h)

end Mpire.Proofs.Permanent
