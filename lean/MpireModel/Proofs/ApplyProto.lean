import MpireModel.Model.ApplyProto
import MpireModel.Proofs.ApplyProtoAux
/-! Proofs for the apply protocol (`Props/C09.lean`).  Helpers live in `Mpire.Proofs.ApplyProto`
(the invariant and the per-event descriptions of `step` are in `ApplyProtoAux.lean`). -/
namespace Mpire.Proofs.ApplyProto
open Mpire.ApplyProto

/-- everything that is anywhere in the machinery was submitted, and every job is submitted once -/
theorem located_submitted (n : Nat) (s : Sys) (h : Reachable n s) :
    s.submitted.Nodup ∧ (∀ j ∈ queued s ++ inHand s ++ inRq s, j ∈ s.submitted) ∧ (∀ p ∈ s.settled, p.1 ∈ s.submitted) := by
  have hi := inv_reachable n s h
  exact ⟨hi.sub_nodup, hi.loc_sub, fun p hp => hi.set_sub p.1 (List.mem_map_of_mem hp)⟩

/-- a job is in at most one place (a queue, a worker's hand, the results queue), once -/
theorem located_once (n : Nat) (s : Sys) (h : Reachable n s) : (queued s ++ inHand s ++ inRq s).Nodup :=
  (inv_reachable n s h).loc_nodup

/-- a job is settled at most once -/
theorem settled_nodup (n : Nat) (s : Sys) (h : Reachable n s) : (s.settled.map (·.1)).Nodup :=
  (inv_reachable n s h).set_nodup

/-- no job is ever lost: it is settled, or it is still somewhere in the machinery -/
theorem no_loss (n : Nat) (s : Sys) (h : Reachable n s) :
    ∀ j ∈ s.submitted, isSettled s j = true ∨ j ∈ queued s ∨ j ∈ inHand s ∨ j ∈ inRq s := by
  intro j hj
  rcases (inv_reachable n s h).no_loss j hj with hm | hl
  · exact Or.inl ((isSettled_iff s j).2 hm)
  · simp only [L, List.mem_append] at hl
    rcases hl with (hl | hl) | hl
    · exact Or.inr (Or.inl hl)
    · exact Or.inr (Or.inr (Or.inl hl))
    · exact Or.inr (Or.inr (Or.inr hl))

theorem quiescent_L {s : Sys} (hq : quiescent s = true) : L s = [] := by
  simp only [quiescent, Bool.and_eq_true, List.isEmpty_iff] at hq
  obtain ⟨⟨h1, h2⟩, h3⟩ := hq
  simp [L, inRq, h1, h2, h3]

/-- once nothing is in flight every submitted job is settled -/
theorem quiescent_all_settled (n : Nat) (s : Sys) (h : Reachable n s) (hq : quiescent s = true) :
    ∀ j ∈ s.submitted, isSettled s j = true := by
  intro j hj
  rcases (inv_reachable n s h).no_loss j hj with hm | hl
  · exact (isSettled_iff s j).2 hm
  · rw [quiescent_L hq] at hl; simp at hl

/-- … exactly the submitted jobs, each once -/
theorem quiescent_settled_perm (n : Nat) (s : Sys) (h : Reachable n s) (hq : quiescent s = true) :
    (s.settled.map (·.1)).Perm s.submitted := by
  have hi := inv_reachable n s h
  refine (List.perm_ext_iff_of_nodup hi.set_nodup hi.sub_nodup).2 (fun a => ⟨hi.set_sub a, fun ha => ?_⟩)
  rcases hi.no_loss a ha with hm | hl
  · exact hm
  · rw [quiescent_L hq] at hl; simp at hl

theorem settledAdd_eq (l : List (Job × Out)) (j : Job) (o : Out) : ∃ t, settledAdd l j o = l ++ t := by
  unfold settledAdd
  split
  · exact ⟨[], by simp⟩
  · exact ⟨_, rfl⟩

/-- a step only ever appends to `settled` -/
theorem step_settled {s s' : Sys} {e : Ev} (hs : step s e = some s') : ∃ t, s'.settled = s.settled ++ t := by
  cases e with
  | submit j k => obtain ⟨-, A, B, -, -, -, -, e5, -⟩ := step_submit hs; exact ⟨[], by simp [e5]⟩
  | take k => obtain ⟨A, B, H₁, H₂, j, q, -, -, -, -, -, e6, -, -⟩ := step_take hs; exact ⟨[], by simp [e6]⟩
  | finish k ok => obtain ⟨H₁, H₂, j, -, -, -, -, e5, -, -⟩ := step_finish hs; exact ⟨[], by simp [e5]⟩
  | handle => obtain ⟨j, ok, rest, -, -, -, -, e5, -⟩ := step_handle hs; rw [e5]; exact settledAdd_eq _ _ _
  | timeoutProc k => obtain ⟨H₁, H₂, j, -, -, -, -, -, e5, -, -⟩ := step_timeoutProc hs; exact ⟨_, e5⟩
  | die k => obtain ⟨H₁, H₂, j, -, -, -, -, e5, -, -⟩ := step_die hs; rw [e5]; exact settledAdd_eq _ _ _
  | timeoutOnly j => obtain ⟨-, -, -, -, -, e4, -⟩ := step_timeoutOnly hs; exact ⟨_, e4⟩

/-- the first outcome of a job is final -/
theorem outcome_stable (s s' : Sys) (e : Ev) (j : Job) (o : Out) (hs : step s e = some s') (ho : outcomeOf s j = some o) :
    outcomeOf s' j = some o := by
  obtain ⟨t, ht⟩ := step_settled hs
  simp only [outcomeOf, ht, List.find?_append] at ho ⊢
  cases hf : List.find? (fun x => x.fst == j) s.settled with
  | none => simp [hf] at ho
  | some p => simpa [hf] using ho

theorem find_append_ne {l : List (Job × Out)} {j j' : Job} {o : Out} (h : j' ≠ j) :
    (l ++ [(j', o)]).find? (·.1 == j) = l.find? (·.1 == j) := by
  simp [List.find?_append, h]

theorem find_settledAdd_ne {l : List (Job × Out)} {j j' : Job} {o : Out} (h : j' ≠ j) :
    (settledAdd l j' o).find? (·.1 == j) = l.find? (·.1 == j) := by
  unfold settledAdd
  split
  · rfl
  · exact find_append_ne h

/-- an event that concerns another job changes neither the outcome of job j nor where it is -/
theorem isolation (s s' : Sys) (e : Ev) (j : Job) (hs : step s e = some s') (hc : concerns s j e = false) :
    outcomeOf s' j = outcomeOf s j ∧ (j ∈ queued s' ↔ j ∈ queued s) ∧ (j ∈ inHand s' ↔ j ∈ inHand s) ∧
    (j ∈ inRq s' ↔ j ∈ inRq s) := by
  cases e with
  | submit j' k =>
    obtain ⟨-, A, B, e1, e2, e3, e4, e5, -⟩ := step_submit hs
    have hne : ¬ j = j' := by simp [concerns] at hc; exact fun h => hc h.symm
    simp [outcomeOf, inRq, e1, e2, e3, e4, e5, hne]
  | take k =>
    obtain ⟨A, B, H₁, H₂, j', q, e1, e2, e3, e4, e5, e6, -, e8⟩ := step_take hs
    have hne : ¬ j = j' := by simp [concerns, e8] at hc; exact fun h => hc h.symm
    simp [outcomeOf, inRq, e1, e2, e3, e4, e5, e6, hne]
  | finish k ok =>
    obtain ⟨H₁, H₂, j', e1, e2, e3, e4, e5, -, e7⟩ := step_finish hs
    have hne : ¬ j = j' := by simp [concerns, e7] at hc; exact fun h => hc h.symm
    simp [outcomeOf, inRq, e1, e2, e3, e4, e5, hne]
  | handle =>
    obtain ⟨j', ok, rest, e1, e2, e3, e4, e5, -⟩ := step_handle hs
    have hne : ¬ j = j' := by simp [concerns, e1] at hc; exact fun h => hc h.symm
    have hne' : j' ≠ j := fun h => hne h.symm
    simp [outcomeOf, inRq, e1, e2, e3, e4, e5, hne, find_settledAdd_ne hne']
  | timeoutProc k =>
    obtain ⟨H₁, H₂, j', e1, e2, e3, e4, -, e5, -, e7⟩ := step_timeoutProc hs
    have hne : ¬ j = j' := by simp [concerns, e7] at hc; exact fun h => hc h.symm
    have hne' : j' ≠ j := fun h => hne h.symm
    simp [outcomeOf, inRq, e1, e2, e3, e4, e5, hne, find_append_ne hne']
  | die k =>
    obtain ⟨H₁, H₂, j', e1, e2, e3, e4, e5, -, e7⟩ := step_die hs
    have hne : ¬ j = j' := by simp [concerns, e7] at hc; exact fun h => hc h.symm
    have hne' : j' ≠ j := fun h => hne h.symm
    simp [outcomeOf, inRq, e1, e2, e3, e4, e5, hne, find_settledAdd_ne hne']
  | timeoutOnly j' =>
    obtain ⟨-, -, e1, e2, e3, e4, -⟩ := step_timeoutOnly hs
    have hne' : j' ≠ j := by simpa [concerns] using hc
    simp [outcomeOf, inRq, e1, e2, e3, e4, find_append_ne hne']

/-- what the results handler records for an unsettled job -/
theorem handle_sets (s s' : Sys) (j : Job) (ok : Bool) (rest : List (Job × Bool)) (hr : s.rq = (j, ok) :: rest)
    (hu : isSettled s j = false) (hs : step s .handle = some s') :
    outcomeOf s' j = some (if ok then .ok else .raised) := by
  obtain ⟨j', ok', rest', e1, -, -, -, e5, -⟩ := step_handle hs
  rw [hr] at e1
  simp only [List.cons.injEq, Prod.mk.injEq] at e1
  obtain ⟨⟨rfl, rfl⟩, -⟩ := e1
  have hu' : s.settled.any (·.1 == j) = false := hu
  have hf : s.settled.find? (·.1 == j) = none := by
    rw [List.find?_eq_none]
    intro x hx hxj
    have : s.settled.any (·.1 == j) = true := List.any_eq_true.2 ⟨x, hx, hxj⟩
    rw [hu'] at this; cases this
  simp [outcomeOf, e5, settledAdd, hu', List.find?_append, hf]

/-- every event of the workers and handlers except `submit` and `timeoutOnly` strictly decreases the measure -/
theorem mu_decreases (s s' : Sys) (e : Ev) (hs : step s e = some s')
    (he : (∀ j k, e ≠ .submit j k) ∧ (∀ j, e ≠ .timeoutOnly j)) : mu s' < mu s := by
  cases e with
  | submit j k => exact absurd rfl (he.1 j k)
  | timeoutOnly j => exact absurd rfl (he.2 j)
  | take k =>
    obtain ⟨A, B, H₁, H₂, j, q, e1, e2, e3, e4, e5, -, -, -⟩ := step_take hs
    simp only [mu, e1, e2, e3, e4, e5, List.length_append, List.length_cons]; omega
  | finish k ok =>
    obtain ⟨H₁, H₂, j, e1, e2, e3, e4, -, -, -⟩ := step_finish hs
    simp only [mu, e1, e2, e3, e4, List.length_append, List.length_cons, List.length_nil]; omega
  | handle =>
    obtain ⟨j, ok, rest, e1, e2, e3, e4, -, -⟩ := step_handle hs
    simp only [mu, e1, e2, e3, e4, List.length_cons]; omega
  | timeoutProc k =>
    obtain ⟨H₁, H₂, j, e1, e2, e3, e4, -, -, -, -⟩ := step_timeoutProc hs
    simp only [mu, e1, e2, e3, e4, List.length_append, List.length_cons]; omega
  | die k =>
    obtain ⟨H₁, H₂, j, e1, e2, e3, e4, -, -, -⟩ := step_die hs
    simp only [mu, e1, e2, e3, e4, List.length_append, List.length_cons]; omega

/-- `timeoutOnly` leaves the measure alone and settles one more job (so it happens at most once per job) -/
theorem timeoutOnly_bounded (s s' : Sys) (j : Job) (hs : step s (.timeoutOnly j) = some s') :
    mu s' = mu s ∧ s'.settled.length = s.settled.length + 1 := by
  obtain ⟨-, -, e1, e2, e3, e4, -⟩ := step_timeoutOnly hs
  simp [mu, e1, e2, e3, e4]

/-- while something is in flight and the results queue is empty, some worker holds or has been handed a task -/
theorem busy_slot {s : Sys} (hq : quiescent s = false) (hr : s.rq = []) :
    ∃ (k : Nat) (sl : Slot), s.slots[k]? = some sl ∧ (sl.hand ≠ none ∨ sl.queue ≠ []) := by
  have h : queued s ≠ [] ∨ inHand s ≠ [] := by
    by_cases h1 : queued s = []
    · by_cases h2 : inHand s = []
      · simp [quiescent, h1, h2, hr] at hq
      · exact Or.inr h2
    · exact Or.inl h1
  rcases h with h | h
  · obtain ⟨j, hj⟩ := List.exists_mem_of_ne_nil _ h
    simp only [queued, List.mem_flatMap] at hj
    obtain ⟨sl, hsl, hjq⟩ := hj
    obtain ⟨k, hk⟩ := List.mem_iff_getElem?.1 hsl
    exact ⟨k, sl, hk, Or.inr (List.ne_nil_of_mem hjq)⟩
  · obtain ⟨j, hj⟩ := List.exists_mem_of_ne_nil _ h
    simp only [inHand, List.mem_filterMap] at hj
    obtain ⟨sl, hsl, hjh⟩ := hj
    obtain ⟨k, hk⟩ := List.mem_iff_getElem?.1 hsl
    exact ⟨k, sl, hk, Or.inl (by simp [hjh])⟩

/-- never stuck: while something is in flight, a worker or the results handler can move -/
theorem progress (n : Nat) (s : Sys) (h : Reachable n s) (hq : quiescent s = false) :
    ∃ e s', step s e = some s' ∧ mu s' < mu s := by
  have _ := h  -- reachability is not needed: any state with something in flight can move
  have key : ∃ e s', step s e = some s' ∧ (∀ j k, e ≠ .submit j k) ∧ (∀ j, e ≠ .timeoutOnly j) := by
    cases hr : s.rq with
    | cons p rest =>
      obtain ⟨j, ok⟩ := p
      exact ⟨.handle, _, by simp only [step, hr]; rfl, by simp, by simp⟩
    | nil =>
      obtain ⟨k, sl, hk, hb⟩ := busy_slot hq hr
      obtain ⟨qu, hd⟩ := sl
      cases hd with
      | some j => exact ⟨.finish k true, _, by simp only [step, hk]; rfl, by simp, by simp⟩
      | none =>
        cases qu with
        | nil => simp at hb
        | cons j q => exact ⟨.take k, _, by simp only [step, hk]; rfl, by simp, by simp⟩
  obtain ⟨e, s', hs, he⟩ := key
  exact ⟨e, s', hs, mu_decreases s s' e hs he⟩

end Mpire.Proofs.ApplyProto
