import MpireModel.Model.Protocol
/-! Helper lemmas and proofs for `Props/C02.lean` and the protocol part of `Props/C01.lean`. -/
namespace Mpire.Proofs
open Mpire.Proto

theorem sum_set (ws : List Slot) (i : Nat) (w w' : Slot) (h : ws[i]? = some w) (f : Slot → Nat) :
    ((ws.set i w').map f).sum + f w = (ws.map f).sum + f w' := by
  induction ws generalizing i with
  | nil => simp at h
  | cons a t ih =>
    cases i with
    | zero => simp at h; subst h; simp [List.set]; omega
    | succ j =>
      simp at h
      have := ih j h
      simp only [List.set_cons_succ, List.map_cons, List.sum_cons]
      omega

theorem sum_clear_tasks (t : Tid) (ws : List Slot) :
    ((ws.map fun sl => { sl with queue := [] }).map (Slot.tasks t)).sum
      + ((ws.map fun sl => sl.queue.flatten).flatten).count t = (ws.map (Slot.tasks t)).sum := by
  induction ws with
  | nil => simp
  | cons a l ih =>
    simp only [List.map_cons, List.sum_cons, List.flatten_cons, List.count_append, Slot.tasks,
      List.flatten_nil, List.count_nil] at *
    omega

theorem sum_clear_results (t : Tid) (ws : List Slot) :
    ((ws.map fun sl => { sl with queue := [] }).map (Slot.results t)).sum = (ws.map (Slot.results t)).sum := by
  induction ws with
  | nil => simp
  | cons a l ih =>
    simp only [List.map_cons, List.sum_cons, Slot.results] at *
    omega

theorem step_unexec (t : Tid) (s s' : Sys) (e : Ev) (h : step s e = some s') :
    s'.unexecuted t + s'.log.count t = s.unexecuted t + s.log.count t := by
  cases e with
  | dispatch w ids =>
    simp only [step] at h
    split at h <;> try simp at h
    rename_i c rest sl hp hw
    obtain ⟨hc, h⟩ := h
    subst h
    have := sum_set s.slots w sl { sl with queue := sl.queue ++ [c] } hw (Slot.tasks t)
    simp only [Sys.unexecuted, Slot.tasks, hp, List.flatten_cons, List.flatten_append, List.count_append,
      List.flatten_nil, List.append_nil] at *
    omega
  | pop w ids =>
    simp only [step] at h
    split at h <;> try simp at h
    rename_i sl hw
    split at h <;> simp at h
    rename_i c q hq
    obtain ⟨⟨hc, hh, hb⟩, h⟩ := h
    subst h
    have := sum_set s.slots w sl { sl with queue := q, hand := c } hw (Slot.tasks t)
    simp only [Sys.unexecuted, Slot.tasks, hh, hq, List.flatten_cons, List.count_append, List.count_nil] at *
    omega
  | exec w t0 =>
    simp only [step] at h
    split at h <;> try simp at h
    rename_i sl hw
    split at h <;> simp at h
    rename_i t' hd hh
    obtain ⟨ht, h⟩ := h
    subst h
    have := sum_set s.slots w sl { sl with hand := hd, buf := sl.buf ++ [t0] } hw (Slot.tasks t)
    simp only [Sys.unexecuted, Slot.tasks, hh, ht, List.count_append, List.count_cons, List.count_nil] at *
    omega
  | send w ids =>
    simp only [step] at h
    split at h <;> try simp at h
    rename_i sl hw
    obtain ⟨_, h⟩ := h
    subst h
    have := sum_set s.slots w sl { sl with buf := [] } hw (Slot.tasks t)
    simp only [Sys.unexecuted, Slot.tasks] at *
    omega
  | recv ids =>
    simp only [step] at h
    split at h <;> simp at h
    obtain ⟨_, h⟩ := h
    subst h
    simp only [Sys.unexecuted]
  | yield t0 =>
    simp only [step] at h
    split at h <;> simp at h
    obtain ⟨_, h⟩ := h
    subst h
    simp only [Sys.unexecuted]
  | restart w =>
    simp only [step] at h
    split at h <;> try simp at h
    obtain ⟨_, h⟩ := h
    subst h
    rfl
  | fail =>
    simp only [step] at h
    simp at h
    subst h
    simp only [Sys.unexecuted]
  | abandon w =>
    simp only [step] at h
    split at h <;> try simp at h
    rename_i sl hw
    obtain ⟨_, h⟩ := h
    subst h
    have := sum_set s.slots w sl { sl with hand := [], buf := [] } hw (Slot.tasks t)
    simp only [Sys.unexecuted, Slot.tasks, List.count_append, List.count_nil] at *
    omega
  | drain =>
    simp only [step] at h
    simp at h
    obtain ⟨_, h⟩ := h
    subst h
    have := sum_clear_tasks t s.slots
    simp only [Sys.unexecuted, List.count_append, List.flatten_nil, List.count_nil] at *
    omega

theorem step_results (t : Tid) (s s' : Sys) (e : Ev) (h : step s e = some s') :
    s'.resultPlaces t + s.log.count t = s.resultPlaces t + s'.log.count t := by
  cases e with
  | dispatch w ids =>
    simp only [step] at h
    split at h <;> try simp at h
    rename_i c rest sl hp hw
    obtain ⟨hc, h⟩ := h
    subst h
    have := sum_set s.slots w sl { sl with queue := sl.queue ++ [c] } hw (Slot.results t)
    simp only [Sys.resultPlaces, Slot.results] at *
    omega
  | pop w ids =>
    simp only [step] at h
    split at h <;> try simp at h
    rename_i sl hw
    split at h <;> simp at h
    rename_i c q hq
    obtain ⟨⟨hc, hh, hb⟩, h⟩ := h
    subst h
    have := sum_set s.slots w sl { sl with queue := q, hand := c } hw (Slot.results t)
    simp only [Sys.resultPlaces, Slot.results] at *
    omega
  | exec w t0 =>
    simp only [step] at h
    split at h <;> try simp at h
    rename_i sl hw
    split at h <;> simp at h
    rename_i t' hd hh
    obtain ⟨ht, h⟩ := h
    subst h
    have := sum_set s.slots w sl { sl with hand := hd, buf := sl.buf ++ [t0] } hw (Slot.results t)
    simp only [Sys.resultPlaces, Slot.results, List.count_append] at *
    omega
  | send w ids =>
    simp only [step] at h
    split at h <;> try simp at h
    rename_i sl hw
    obtain ⟨⟨_, hb, _⟩, h⟩ := h
    subst h
    have := sum_set s.slots w sl { sl with buf := [] } hw (Slot.results t)
    simp only [Sys.resultPlaces, Slot.results, hb, List.flatten_append, List.flatten_cons, List.flatten_nil,
      List.append_nil, List.count_append, List.count_nil] at *
    omega
  | recv ids =>
    simp only [step] at h
    split at h <;> simp at h
    rename_i b r hr
    obtain ⟨_, h⟩ := h
    subst h
    simp only [Sys.resultPlaces, hr, List.flatten_cons, List.count_append]
    omega
  | yield t0 =>
    simp only [step] at h
    split at h <;> simp at h
    rename_i t' r hr
    obtain ⟨ht, h⟩ := h
    subst h
    simp only [Sys.resultPlaces, hr, ht, List.count_append, List.count_cons, List.count_nil]
    omega
  | restart w =>
    simp only [step] at h
    split at h <;> try simp at h
    obtain ⟨_, h⟩ := h
    subst h
    rfl
  | fail =>
    simp only [step] at h
    simp at h
    subst h
    simp only [Sys.resultPlaces]
  | abandon w =>
    simp only [step] at h
    split at h <;> try simp at h
    rename_i sl hw
    obtain ⟨_, h⟩ := h
    subst h
    have := sum_set s.slots w sl { sl with hand := [], buf := [] } hw (Slot.results t)
    simp only [Sys.resultPlaces, Slot.results, List.count_append, List.count_nil] at *
    omega
  | drain =>
    simp only [step] at h
    simp at h
    obtain ⟨_, h⟩ := h
    subst h
    have := sum_clear_results t s.slots
    simp only [Sys.resultPlaces, List.count_append, List.flatten_nil, List.count_nil] at *
    omega

/-- `failed` is never reset, and nothing is discarded while it is unset. -/
theorem step_noloss (s s' : Sys) (e : Ev) (h : step s e = some s')
    (hi : s.failed = false → s.dropped = [] ∧ s.lost = []) :
    s'.failed = false → s'.dropped = [] ∧ s'.lost = [] := by
  cases e with
  | dispatch w ids =>
    simp only [step] at h
    split at h <;> try simp at h
    obtain ⟨_, h⟩ := h
    subst h
    exact hi
  | pop w ids =>
    simp only [step] at h
    split at h <;> try simp at h
    split at h <;> simp at h
    obtain ⟨_, h⟩ := h
    subst h
    exact hi
  | exec w t0 =>
    simp only [step] at h
    split at h <;> try simp at h
    split at h <;> simp at h
    obtain ⟨_, h⟩ := h
    subst h
    exact hi
  | send w ids =>
    simp only [step] at h
    split at h <;> try simp at h
    obtain ⟨_, h⟩ := h
    subst h
    exact hi
  | recv ids =>
    simp only [step] at h
    split at h <;> simp at h
    obtain ⟨_, h⟩ := h
    subst h
    exact hi
  | yield t0 =>
    simp only [step] at h
    split at h <;> simp at h
    obtain ⟨_, h⟩ := h
    subst h
    exact hi
  | restart w =>
    simp only [step] at h
    split at h <;> try simp at h
    obtain ⟨_, h⟩ := h
    subst h
    exact hi
  | fail =>
    simp only [step] at h
    simp at h
    subst h
    intro hf
    simp at hf
  | abandon w =>
    simp only [step] at h
    split at h <;> try simp at h
    obtain ⟨hf, h⟩ := h
    subst h
    intro hf'
    simp [hf] at hf'
  | drain =>
    simp only [step] at h
    simp at h
    obtain ⟨hf, h⟩ := h
    subst h
    intro hf'
    simp [hf] at hf'

theorem run_inv (P : Sys → Prop) (hstep : ∀ s s' e, step s e = some s' → P s → P s')
    (s : Sys) (es : List Ev) (s' : Sys) (h : run s es = some s') (hs : P s) : P s' := by
  induction es generalizing s with
  | nil => simp [run, List.foldlM] at h; subst h; exact hs
  | cons e es ih =>
    simp only [run, List.foldlM_cons] at h
    cases hse : step s e with
    | none => simp [hse] at h
    | some s1 =>
      simp [hse] at h
      exact ih s1 h (hstep s s1 e hse hs)

theorem sum_replicate_zero (f : Slot → Nat) (h : f {} = 0) (n : Nat) :
    ((List.replicate n ({} : Slot)).map f).sum = 0 := by
  induction n with
  | zero => simp
  | succ k ih => simp only [List.replicate_succ, List.map_cons, List.sum_cons, h, ih]

theorem unexecuted_conserved (n : Nat) (chunks : List (List Tid)) (s : Sys) (h : Reachable n chunks s) (t : Tid) :
    s.unexecuted t + s.log.count t = chunks.flatten.count t := by
  obtain ⟨es, h⟩ := h
  refine run_inv (fun s => s.unexecuted t + s.log.count t = chunks.flatten.count t) ?_ _ es s h ?_
  · intro a b e hab ha
    show b.unexecuted t + b.log.count t = _
    rw [step_unexec t a b e hab]; exact ha
  · show (init n chunks).unexecuted t + (init n chunks).log.count t = _
    have := sum_replicate_zero (Slot.tasks t) (by simp [Slot.tasks]) n
    simp only [init, Sys.unexecuted, this, List.count_nil]
    omega

theorem results_conserved (n : Nat) (chunks : List (List Tid)) (s : Sys) (h : Reachable n chunks s) (t : Tid) :
    s.resultPlaces t = s.log.count t := by
  obtain ⟨es, h⟩ := h
  refine run_inv (fun s => s.resultPlaces t = s.log.count t) ?_ _ es s h ?_
  · intro a b e hab ha
    show b.resultPlaces t = b.log.count t
    have := step_results t a b e hab
    have ha : a.resultPlaces t = a.log.count t := ha
    omega
  · show (init n chunks).resultPlaces t = (init n chunks).log.count t
    have := sum_replicate_zero (Slot.results t) (by simp [Slot.results]) n
    simp only [init, Sys.resultPlaces, this, List.flatten_nil, List.count_nil]

theorem exec_at_most_once (n : Nat) (chunks : List (List Tid)) (hnd : chunks.flatten.Nodup) (s : Sys)
    (h : Reachable n chunks s) (t : Tid) : s.log.count t ≤ 1 := by
  have h1 := unexecuted_conserved n chunks s h t
  have h2 := List.nodup_iff_count.mp hnd t
  omega

theorem no_loss_without_failure (n : Nat) (chunks : List (List Tid)) (s : Sys) (h : Reachable n chunks s)
    (hf : s.failed = false) : s.dropped = [] ∧ s.lost = [] := by
  obtain ⟨es, h⟩ := h
  refine run_inv (fun s => s.failed = false → s.dropped = [] ∧ s.lost = []) ?_ _ es s h ?_ hf
  · intro a b e hab ha
    exact step_noloss a b e hab ha
  · intro _; simp [init]

theorem sum_eq_zero_of_forall (f : Slot → Nat) (ws : List Slot) (h : ∀ sl ∈ ws, f sl = 0) :
    (ws.map f).sum = 0 := by
  induction ws with
  | nil => simp
  | cons a l ih =>
    simp only [List.map_cons, List.sum_cons]
    rw [h a (by simp), ih (fun sl hsl => h sl (by simp [hsl]))]

theorem quiescent_iff (s : Sys) (hq : s.quiescent = true) :
    s.pending = [] ∧ (∀ sl ∈ s.slots, sl.queue = [] ∧ sl.hand = [] ∧ sl.buf = []) ∧ s.rq = [] ∧ s.iter = [] := by
  simp only [Sys.quiescent, Bool.and_eq_true, List.isEmpty_iff, List.all_eq_true] at hq
  obtain ⟨⟨⟨h1, h2⟩, h3⟩, h4⟩ := hq
  exact ⟨h1, fun sl hsl => by have := h2 sl hsl; simp only [and_assoc] at this; exact this, h3, h4⟩

theorem exec_exactly_once_on_success (n : Nat) (chunks : List (List Tid)) (s : Sys) (h : Reachable n chunks s)
    (hf : s.failed = false) (hq : s.quiescent = true) (t : Tid) : s.log.count t = chunks.flatten.count t := by
  have h1 := unexecuted_conserved n chunks s h t
  obtain ⟨hd, _⟩ := no_loss_without_failure n chunks s h hf
  obtain ⟨hp, hs, _, _⟩ := quiescent_iff s hq
  have h0 : (s.slots.map (Slot.tasks t)).sum = 0 :=
    sum_eq_zero_of_forall _ _ (fun sl hsl => by
      obtain ⟨a, b, _⟩ := hs sl hsl
      simp [Slot.tasks, a, b])
  simp only [Sys.unexecuted, hp, hd, h0, List.flatten_nil, List.count_nil] at h1
  omega

theorem delivered_count_on_success (n : Nat) (chunks : List (List Tid)) (s : Sys) (h : Reachable n chunks s)
    (hf : s.failed = false) (hq : s.quiescent = true) (t : Tid) :
    s.delivered.count t = chunks.flatten.count t := by
  have h1 := exec_exactly_once_on_success n chunks s h hf hq t
  have h2 := results_conserved n chunks s h t
  obtain ⟨_, hl⟩ := no_loss_without_failure n chunks s h hf
  obtain ⟨_, hs, hr, hi⟩ := quiescent_iff s hq
  have h0 : (s.slots.map (Slot.results t)).sum = 0 :=
    sum_eq_zero_of_forall _ _ (fun sl hsl => by
      obtain ⟨_, _, c⟩ := hs sl hsl
      simp [Slot.results, c])
  simp only [Sys.resultPlaces, hr, hi, hl, h0, List.flatten_nil, List.count_nil] at h2
  omega

theorem complete_delivers_all (n : Nat) (chunks : List (List Tid)) (s : Sys) (h : Reachable n chunks s)
    (hf : s.failed = false) (hq : s.quiescent = true) : s.delivered.Perm chunks.flatten := by
  rw [List.perm_iff_count]
  intro t
  exact delivered_count_on_success n chunks s h hf hq t

theorem delivered_le_log (n : Nat) (chunks : List (List Tid)) (s : Sys) (h : Reachable n chunks s) (t : Tid) :
    s.delivered.count t ≤ s.log.count t := by
  have h2 := results_conserved n chunks s h t
  simp only [Sys.resultPlaces] at h2
  omega

theorem delivered_were_executed (n : Nat) (chunks : List (List Tid)) (s : Sys) (h : Reachable n chunks s) (t : Tid)
    (ht : t ∈ s.delivered) : t ∈ s.log ∧ t ∈ chunks.flatten := by
  have h1 := delivered_le_log n chunks s h t
  have h2 := unexecuted_conserved n chunks s h t
  have h3 := List.count_pos_iff.mpr ht
  exact ⟨List.count_pos_iff.mp (by omega), List.count_pos_iff.mp (by omega)⟩

theorem delivered_at_most_once (n : Nat) (chunks : List (List Tid)) (hnd : chunks.flatten.Nodup) (s : Sys)
    (h : Reachable n chunks s) : s.delivered.Nodup := by
  rw [List.nodup_iff_count]
  intro t
  have h1 := delivered_le_log n chunks s h t
  have h2 := exec_at_most_once n chunks hnd s h t
  omega

theorem dispatch_one_queue (s s' : Sys) (w : Nat) (ids : List Tid) (h : step s (.dispatch w ids) = some s') :
    (∀ w', w' ≠ w → s'.slots[w']? = s.slots[w']?) ∧
    (∃ sl, s.slots[w]? = some sl ∧ s'.slots[w]? = some { sl with queue := sl.queue ++ [ids] }) ∧
    s.pending = ids :: s'.pending := by
  simp only [step] at h
  split at h <;> try simp at h
  rename_i c rest sl hp hw
  obtain ⟨hc, h⟩ := h
  subst h
  subst hc
  refine ⟨?_, ⟨sl, hw, ?_⟩, hp⟩
  · intro w' hne
    simp only [List.getElem?_set_ne (Ne.symm hne)]
  · have hlt : w < s.slots.length := by
      have := List.getElem?_eq_some_iff.mp hw
      exact this.1
    simp only [List.getElem?_set_self hlt]

end Mpire.Proofs
