import MpireModel.Model.GracefulStop
/-! Proofs about the graceful-shutdown model (statements used by Props/C07.lean and Props/C11.lean). -/
namespace Mpire.Proofs.GracefulStop
open Mpire.GracefulStop

theorem run_nil (s : S) : run s [] = some s := rfl

theorem run_cons (s : S) (e : Ev) (es : List Ev) :
    run s (e :: es) = (step s e).bind (fun s1 => run s1 es) := by
  simp [run, List.foldlM_cons]

/-- the inductive invariant: the conjuncts of `reach_inv`, and what the induction (and the theorems about variant `final`) need
on top of them -/
def Inv (v : Variant) (ap : Bool) (s : S) : Prop :=
  s.variant = v ∧ s.apply = ap ∧
  (s.gotExit = true ↔ (s.ph = .sent ∨ s.ph = .dead ∨ s.ph = .gone)) ∧
  (s.flag = false → (s.ph = .dead ∨ s.ph = .gone ∨ s.noticed = true)) ∧
  (s.exc = true → s.noticed = true ∧ s.apply = false) ∧
  (s.replaced = true → s.noticed = true ∧ s.apply = true) ∧
  (s.noticed = true → s.killed = true ∧ s.ph ≠ .dead ∧ s.ph ≠ .gone) ∧
  -- a worker that marked itself dead leaves the flag cleared (only a replacement sets it again, and none is started for it)
  ((s.ph = .dead ∨ s.ph = .gone) → s.flag = false) ∧
  -- the handler threads are told to stop only when stop_and_join is past its check of the exception event
  (s.stop = true → (s.mpc = .stopping ∨ s.mpc = .returned ∨ s.mpc = .raised)) ∧
  -- variant `final`, map mode: past `verdict` the exit result is there or the death has been noticed; returned: it is there
  (s.variant = .final → s.apply = false →
    ((s.mpc = .midcheck ∨ s.mpc = .stopping) → (s.gotExit = true ∨ s.noticed = true)) ∧
    (s.mpc = .returned → s.gotExit = true))

theorem inv_init (v : Variant) (ap : Bool) : Inv v ap { variant := v, apply := ap } := by
  simp [Inv]

theorem inv_step (v : Variant) (ap : Bool) (s s' : S) (e : Ev) (hi : Inv v ap s) (h : step s e = some s') : Inv v ap s' := by
  rcases s with ⟨variant, apply, ph, killed, flag, noticed, replaced, exc, gotExit, stop, mpc⟩
  unfold Inv at *
  obtain ⟨h1, h2, h3, h4, h5, h6, h7, h8, h9, h10⟩ := hi
  simp only at h1 h2 h3 h4 h5 h6 h7 h8 h9 h10
  subst h1 h2
  cases e
  · cases killed <;> cases ph <;> simp [step] at h <;> subst h <;> simp_all
  · simp [step] at h
    obtain ⟨_, h⟩ := h
    subst h
    simp_all
  · simp only [step] at h
    repeat' split at h
    all_goals cases h
    all_goals simp_all [processGone]
  · cases mpc <;> simp only [step] at h
    all_goals repeat' split at h
    all_goals cases h
    all_goals simp_all [processGone]
    all_goals grind

theorem inv_run (v : Variant) (ap : Bool) : ∀ (es : List Ev) (s s' : S), Inv v ap s → run s es = some s' → Inv v ap s' := by
  intro es
  induction es with
  | nil => intro s s' hi h; simp [run_nil] at h; subst h; exact hi
  | cons e es ih =>
    intro s s' hi h
    rw [run_cons] at h
    cases hst : step s e with
    | none => simp [hst] at h
    | some s1 =>
      simp [hst] at h
      exact ih s1 s' (inv_step v ap s s1 e hi hst) h

theorem reach_Inv (v : Variant) (ap : Bool) (s : S) (h : Reachable v ap s) : Inv v ap s := by
  obtain ⟨es, hes⟩ := h
  exact inv_run v ap es _ s (inv_init v ap) hes

/-- the steps the three actors can still take, at most (a kill only takes steps away from the worker) -/
def todo (s : S) : Nat :=
  (if s.killed then 0 else match s.ph with | .pill => 4 | .exiting => 3 | .sent => 2 | .dead => 1 | .gone => 0) +
  (if s.exc then 0 else if s.noticed then (if s.apply && s.replaced then 0 else 1) else 2) +
  (match s.mpc with | .joining => 4 | .verdict => 3 | .midcheck => 2 | .stopping => 1 | .returned => 0 | .raised => 0)

theorem todo_le (s : S) : todo s ≤ 10 := by
  unfold todo
  repeat' split
  all_goals omega

/-- every step of the worker, the death handler or stop_and_join brings the end nearer -/
theorem step_todo (s s1 : S) (e : Ev) (he : e ≠ Ev.kill) (h : step s e = some s1) : todo s1 < todo s := by
  rcases s with ⟨variant, apply, ph, killed, flag, noticed, replaced, exc, gotExit, stop, mpc⟩
  cases e
  · cases killed <;> cases ph <;> simp [step] at h <;> subst h <;> simp [todo]
  · exact absurd rfl he
  · simp only [step] at h
    repeat' split at h
    all_goals cases h
    all_goals simp_all [todo]
    split <;> omega
  · cases mpc <;> simp only [step] at h
    all_goals repeat' split at h
    all_goals cases h
    all_goals simp [todo]
    all_goals (repeat' split) <;> omega

/-- variant `final`: as long as stop_and_join has neither returned nor raised, the worker, the death handler or stop_and_join can
take a step -/
theorem final_enabled (ap : Bool) (s : S) (hi : Inv .final ap s) (hf : ¬(s.mpc = .returned ∨ s.mpc = .raised)) :
    (step s .worker).isSome = true ∨ (step s .handler).isSome = true ∨ (step s .main).isSome = true := by
  rcases s with ⟨variant, apply, ph, killed, flag, noticed, replaced, exc, gotExit, stop, mpc⟩
  unfold Inv at hi
  obtain ⟨h1, h2, h3, h4, h5, h6, h7, h8, h9, h10⟩ := hi
  simp only at h1 h2 h3 h4 h5 h6 h7 h8 h9 h10 hf
  subst h1 h2
  cases mpc <;> cases killed <;> cases ph <;> simp_all [step, processGone]
  all_goals grind

/-- … and that step brings the end nearer -/
theorem final_progress (ap : Bool) (s : S) (hi : Inv .final ap s) (hf : ¬(s.mpc = .returned ∨ s.mpc = .raised)) :
    ∃ e s1, e ≠ Ev.kill ∧ step s e = some s1 ∧ todo s1 < todo s := by
  rcases final_enabled ap s hi hf with h | h | h
  all_goals
    obtain ⟨s1, hs⟩ := Option.isSome_iff_exists.mp h
    exact ⟨_, s1, by simp, hs, step_todo s s1 _ (by simp) hs⟩

theorem final_finish_within (ap : Bool) : ∀ (n : Nat) (s : S), Inv .final ap s → todo s ≤ n →
    ∃ es s', es.length ≤ n ∧ run s es = some s' ∧ (s'.mpc = .returned ∨ s'.mpc = .raised) := by
  intro n
  induction n with
  | zero =>
    intro s hi hn
    by_cases hf : s.mpc = .returned ∨ s.mpc = .raised
    · exact ⟨[], s, by simp, run_nil s, hf⟩
    · obtain ⟨e, s1, _, _, hlt⟩ := final_progress ap s hi hf
      omega
  | succ n ih =>
    intro s hi hn
    by_cases hf : s.mpc = .returned ∨ s.mpc = .raised
    · exact ⟨[], s, by simp, run_nil s, hf⟩
    · obtain ⟨e, s1, _, hs, hlt⟩ := final_progress ap s hi hf
      obtain ⟨es, s', hl, hr, hfin⟩ := ih s1 (inv_step .final ap s s1 e hi hs) (by omega)
      exact ⟨e :: es, s', by simp; omega, by simp [run_cons, hs, hr], hfin⟩

/-- invariants of every reachable state (any variant, any mode) -/
theorem reach_inv (v : Variant) (ap : Bool) (s : S) (h : Reachable v ap s) :
    s.variant = v ∧ s.apply = ap ∧
    -- the exit result is with the main process exactly from phase `sent` on
    (s.gotExit = true ↔ (s.ph = .sent ∨ s.ph = .dead ∨ s.ph = .gone)) ∧
    -- only the worker itself (phase `dead` on) or the death handler clears the flag; a replacement sets it again
    (s.flag = false → (s.ph = .dead ∨ s.ph = .gone ∨ s.noticed = true)) ∧
    (s.exc = true → s.noticed = true ∧ s.apply = false) ∧
    (s.replaced = true → s.noticed = true ∧ s.apply = true) ∧
    (s.noticed = true → s.killed = true ∧ s.ph ≠ .dead ∧ s.ph ≠ .gone) := by
  obtain ⟨h1, h2, h3, h4, h5, h6, h7, _⟩ := reach_Inv v ap s h
  exact ⟨h1, h2, h3, h4, h5, h6, h7⟩

/-- THE REPAIR (map-family call): for every interleaving of the worker on its way out, a kill at any moment, the death handler and
stop_and_join — if stop_and_join returns normally, the worker's exit result is with the main process. -/
theorem final_returns_only_complete (s : S) (h : Reachable .final false s) (hr : s.mpc = .returned) : s.gotExit = true := by
  obtain ⟨h1, h2, _, _, _, _, _, _, _, h10⟩ := reach_Inv .final false s h
  exact (h10 h1 h2).2 hr

/-- … and it never hangs, in either mode -/
theorem final_never_hangs (ap : Bool) (s : S) (h : Reachable .final ap s) : hung s = false := by
  have hi := reach_Inv .final ap s h
  by_cases hf : s.mpc = .returned ∨ s.mpc = .raised
  · rcases hf with hf | hf <;> simp [hung, hf]
  · obtain ⟨e, s1, _, hs, _⟩ := final_progress ap s hi hf
    rcases e <;> simp [hung, hs]

/-- … and can always come to an end within 12 steps -/
theorem final_can_always_finish (ap : Bool) (s : S) (h : Reachable .final ap s) :
    ∃ es s', es.length ≤ 12 ∧ run s es = some s' ∧ (s'.mpc = .returned ∨ s'.mpc = .raised) := by
  obtain ⟨es, s', hl, hr, hf⟩ := final_finish_within ap (todo s) s (reach_Inv .final ap s h) (Nat.le_refl _)
  exact ⟨es, s', Nat.le_trans hl (Nat.le_trans (todo_le s) (by omega)), hr, hf⟩

/-- the pinned code: a worker killed inside worker_exit, the death handler not looking in time: the call returns without its result -/
theorem pinned_can_lose_exit_result :
    ∃ es s, run { variant := .pinned, apply := false } es = some s ∧ s.mpc = .returned ∧ s.gotExit = false :=
  ⟨[.worker, .kill, .main, .main, .main], _, rfl, by decide, by decide⟩

/-- first attempt (wait while the slot's flag is set): in apply mode the replacement sets the flag again and stop_and_join spins -/
theorem wait_slot_can_hang :
    ∃ es s, run { variant := .waitSlot, apply := true } es = some s ∧ hung s = true :=
  ⟨[.worker, .kill, .main, .handler, .handler], _, rfl, by decide⟩

/-- second attempt (no look after the handlers are stopped): the death handler clears the flag before it fails the call, and in
between stop_and_join slips through -/
theorem wait_object_can_lose_exit_result :
    ∃ es s, run { variant := .waitObject, apply := false } es = some s ∧ s.mpc = .returned ∧ s.gotExit = false :=
  ⟨[.worker, .kill, .main, .handler, .main, .main, .handler, .main], _, rfl, by decide, by decide⟩

end Mpire.Proofs.GracefulStop
