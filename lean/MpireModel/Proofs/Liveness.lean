import MpireModel.Model.Protocol
import MpireModel.Proofs.Protocol
/-! Progress and variant of the task/result protocol, for `Props/C03.lean`.  Helpers live in `Mpire.Proofs.Liveness`. -/
namespace Mpire.Proofs.Liveness
open Mpire.Proto

/-- weighted position of every task still in the system: each protocol action moves one or more tasks strictly
downstream -/
def slotMu (sl : Slot) : Nat := 5 * sl.queue.flatten.length + 4 * sl.hand.length + 3 * sl.buf.length
def mu (s : Sys) : Nat :=
  6 * s.pending.flatten.length + (s.slots.map slotMu).sum + 2 * s.rq.flatten.length + s.iter.length

theorem slot_progress (s : Sys) (w : Nat) (sl : Slot) (hw : s.slots[w]? = some sl)
    (h : (sl.queue.isEmpty && sl.hand.isEmpty && sl.buf.isEmpty) = false) : ∃ e, (step s e).isSome = true := by
  cases hh : sl.hand with
  | cons t h' => exact ⟨.exec w t, by simp [step, hw, hh]⟩
  | nil =>
    cases hb : sl.buf with
    | cons b bs => exact ⟨.send w sl.buf, by simp [step, hw, hh, hb]⟩
    | nil =>
      cases hqq : sl.queue with
      | cons c q => exact ⟨.pop w c, by simp [step, hw, hh, hb, hqq]⟩
      | nil => simp [hh, hb, hqq] at h

theorem proto_progress (s : Sys) (hn : 0 < s.slots.length) (hq : s.quiescent = false) : ∃ e, (step s e).isSome = true := by
  cases hp : s.pending with
  | cons c rest =>
    have h0 : s.slots[0]? = some s.slots[0] := List.getElem?_eq_getElem hn
    exact ⟨.dispatch 0 c, by simp [step, hp, h0]⟩
  | nil =>
    cases hr : s.rq with
    | cons b r => exact ⟨.recv b, by simp [step, hr]⟩
    | nil =>
      cases hi : s.iter with
      | cons t r => exact ⟨.yield t, by simp [step, hi]⟩
      | nil =>
        simp only [Sys.quiescent, hp, hr, hi, List.isEmpty_nil, Bool.true_and, Bool.and_true] at hq
        have : ∃ sl ∈ s.slots, (sl.queue.isEmpty && sl.hand.isEmpty && sl.buf.isEmpty) = false := by
          simpa [List.all_eq_false] using hq
        obtain ⟨sl, hm, hsl⟩ := this
        obtain ⟨w, hw⟩ := List.getElem?_of_mem hm
        exact slot_progress s w sl hw hsl

theorem proto_variant (s s' : Sys) (e : Ev) (hs : step s e = some s')
    (hne : ∀ c ∈ s.pending, c ≠ [])
    (he : (∃ w ids, e = .dispatch w ids) ∨ (∃ w ids, e = .pop w ids) ∨ (∃ w t, e = .exec w t) ∨ (∃ w ids, e = .send w ids) ∨
          (∃ ids, e = .recv ids) ∨ (∃ t, e = .yield t))
    (hq : ∀ sl ∈ s.slots, ∀ c ∈ sl.queue, c ≠ []) (hr : ∀ b ∈ s.rq, b ≠ []) : mu s' < mu s := by
  rcases he with ⟨w, ids, rfl⟩ | ⟨w, ids, rfl⟩ | ⟨w, t, rfl⟩ | ⟨w, ids, rfl⟩ | ⟨ids, rfl⟩ | ⟨t, rfl⟩
  · -- dispatch
    simp only [step] at hs
    split at hs <;> try simp at hs
    rename_i c rest sl hp hw
    obtain ⟨hc, hs⟩ := hs
    subst hs
    have hpos : 0 < c.length := List.length_pos_iff.mpr (hne c (by simp [hp]))
    have := Mpire.Proofs.sum_set s.slots w sl { sl with queue := sl.queue ++ [c] } hw slotMu
    simp only [mu, slotMu, hp, List.flatten_cons, List.flatten_append, List.length_append,
      List.flatten_nil, List.append_nil] at *
    omega
  · -- pop
    simp only [step] at hs
    split at hs <;> try simp at hs
    rename_i sl hw
    split at hs <;> simp at hs
    rename_i c q hqq
    obtain ⟨⟨hc, hh, hb⟩, hs⟩ := hs
    subst hs
    have hpos : 0 < c.length :=
      List.length_pos_iff.mpr (hq sl (List.mem_of_getElem? hw) c (by simp [hqq]))
    have := Mpire.Proofs.sum_set s.slots w sl { sl with queue := q, hand := c } hw slotMu
    simp only [mu, slotMu, hh, hb, hqq, List.flatten_cons, List.length_append, List.length_nil] at *
    omega
  · -- exec
    simp only [step] at hs
    split at hs <;> try simp at hs
    rename_i sl hw
    split at hs <;> simp at hs
    rename_i t' hd hh
    obtain ⟨ht, hs⟩ := hs
    subst hs
    have := Mpire.Proofs.sum_set s.slots w sl { sl with hand := hd, buf := sl.buf ++ [t] } hw slotMu
    simp only [mu, slotMu, hh, List.length_append, List.length_cons, List.length_nil] at *
    omega
  · -- send
    simp only [step] at hs
    split at hs <;> try simp at hs
    rename_i sl hw
    obtain ⟨⟨hh, hb, hnz⟩, hs⟩ := hs
    subst hs
    have hpos : 0 < ids.length := List.length_pos_iff.mpr hnz
    have := Mpire.Proofs.sum_set s.slots w sl { sl with buf := [] } hw slotMu
    simp only [mu, slotMu, hh, hb, List.flatten_append, List.flatten_cons, List.flatten_nil, List.append_nil,
      List.length_append, List.length_nil] at *
    omega
  · -- recv
    simp only [step] at hs
    split at hs <;> simp at hs
    rename_i b r hrq
    obtain ⟨hb, hs⟩ := hs
    subst hs
    have hpos : 0 < b.length := List.length_pos_iff.mpr (hr b (by simp [hrq]))
    simp only [mu, hrq, List.flatten_cons, List.length_append] at *
    omega
  · -- yield
    simp only [step] at hs
    split at hs <;> simp at hs
    rename_i t' r hi
    obtain ⟨ht, hs⟩ := hs
    subst hs
    simp only [mu, hi, List.length_cons] at *
    omega

end Mpire.Proofs.Liveness
