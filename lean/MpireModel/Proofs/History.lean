import MpireModel.Model.History
/-! Proofs for `Props/C06.lean` and `Props/C10.lean`.  Helpers live in `Mpire.Proofs.History`. -/
namespace Mpire.Proofs.History
open Mpire.History

/-- the inductive invariant of the control state -/
def I (s : Ctl) : Prop := s.mapRunning = false → s.keepOrder = false

theorem I_init : I {} := by simp [I]

/-- the condition under which the prologue keeps the running workers -/
def Reuses (s : Ctl) : Prop := s.workers.isSome = true ∧ s.initialized = true ∧ s.excFlag = false

/-- what a prologue that is let through yields -/
theorem callStart_some (s : Ctl) (ordered : Bool) (p : ParamsId) (s1 : Ctl) (h : callStart s ordered p = some s1) :
    s.mapRunning = false ∧ s1.mapRunning = true ∧ s1.workers = some p ∧ s1.initialized = true ∧
    s1.keepAlive = s.keepAlive ∧
    s1.keepOrder = (ordered || s.keepOrder) ∧
    s1.excFlag = false ∧ s1.taskIdx = 0 ∧ s1.lastCompleted = [] ∧
    (Reuses s → s1.generation = s.generation) ∧
    (¬ Reuses s → s1.generation = s.generation + 1) := by
  obtain ⟨ka, w, g, ini, mr, ko, ef, ti, lc⟩ := s
  cases ordered <;> cases mr <;> cases w <;> cases ini <;> cases ef <;>
    simp [callStart, cleanupFailed, terminate, startWorkers, Reuses] at h ⊢ <;> subst h <;> simp

theorem callStart_none (s : Ctl) (ordered : Bool) (p : ParamsId) (h : callStart s ordered p = none) :
    s.mapRunning = true := by
  obtain ⟨ka, w, g, ini, mr, ko, ef, ti, lc⟩ := s
  cases ordered <;> cases mr <;> simp [callStart] at h ⊢

theorem callStart_isSome (s : Ctl) (ordered : Bool) (p : ParamsId) (h : s.mapRunning = false) :
    ∃ s1, callStart s ordered p = some s1 := by
  cases hc : callStart s ordered p with
  | none => have := callStart_none s ordered p hc; simp [h] at this
  | some s1 => exact ⟨s1, rfl⟩

theorem terminate_workers (s : Ctl) : (terminate s).workers = none := by
  unfold terminate; split <;> simp_all

theorem terminate_fields (s : Ctl) : (terminate s).mapRunning = s.mapRunning ∧ (terminate s).keepOrder = s.keepOrder ∧
    (terminate s).taskIdx = s.taskIdx ∧ (terminate s).lastCompleted = s.lastCompleted ∧
    (terminate s).generation = s.generation ∧ (terminate s).keepAlive = s.keepAlive ∧
    (terminate s).initialized = s.initialized := by
  unfold terminate; split <;> simp

theorem cleanupFailed_fields (s : Ctl) : (cleanupFailed s).mapRunning = s.mapRunning ∧ (cleanupFailed s).keepOrder = s.keepOrder ∧
    (cleanupFailed s).keepAlive = s.keepAlive := by
  unfold cleanupFailed; split
  · have := terminate_fields s; exact ⟨this.1, this.2.1, this.2.2.2.2.2.1⟩
  · simp

/-- an apply batch leaves the running flag, the order mode and the keep-alive setting alone -/
theorem apply_fields (s : Ctl) (p : ParamsId) (o : ApplyOutcome) :
    (step s (.apply p o)).mapRunning = s.mapRunning ∧ (step s (.apply p o)).keepOrder = s.keepOrder ∧
    (step s (.apply p o)).keepAlive = s.keepAlive := by
  have hc := cleanupFailed_fields s
  simp only [step]
  cases hw : (cleanupFailed s).workers <;> cases o <;> simp [dispatchEffects, startWorkers, hc.1, hc.2.1, hc.2.2]

theorem I_step (s : Ctl) (op : Op) (h : I s) : I (step s op) := by
  cases op with
  | setKeepAlive b => exact h
  | setPoolParam c => cases c <;> simpa [step, I] using h
  | stopAndJoin ka =>
    simp only [step]
    split
    · simp [I]
    · split
      · exact h
      · exact h
  | terminate =>
    simp only [step]
    have := terminate_fields s
    unfold I; rw [this.1, this.2.1]; exact h
  | apply p o =>
    have := apply_fields s p o
    unfold I; rw [this.1, this.2.1]; exact h
  | call ordered p o =>
    simp only [step]
    split
    · simp [I]
    · cases hc : callStart s ordered p with
      | none => simp [I, callFinally]
      | some s1 =>
        have hs := callStart_some s ordered p s1 hc
        cases o with
        | rejected => simp_all
        | ok d c => dsimp only; split <;> simp [I, callFinally, dispatchEffects]
        | fails d c => simp [I, callFinally]
        | closedEarly d c => simp [I, callFinally]
        | leftOpen d c => simp [I, dispatchEffects, hs.2.1]

theorem I_foldl (ops : List Op) (s : Ctl) (h : I s) : I (ops.foldl step s) := by
  induction ops generalizing s with
  | nil => exact h
  | cons op ops ih => exact ih _ (I_step s op h)

theorem I_run (ops : List Op) : I (runOps {} ops) := I_foldl ops {} I_init

theorem runOps_snoc (ops : List Op) (op : Op) : runOps {} (ops ++ [op]) = step (runOps {} ops) op := by
  simp [runOps, List.foldl_append]

theorem fresh_at_call_start (ops : List Op) (ordered : Bool) (p : ParamsId) (s1 : Ctl)
    (h : callStart (runOps {} ops) ordered p = some s1) : FreshFor s1 ordered p := by
  have hI := I_run ops
  generalize runOps {} ops = s at h hI
  have hs := callStart_some s ordered p s1 h
  obtain ⟨hm, hm1, hw1, hi1, _, hko, hex, hti, hlc, _, _⟩ := hs
  refine ⟨hex, ?_, hti, hlc, hw1, hi1, hm1⟩
  rw [hko, hI hm]; simp

theorem rejected_only_while_open (ops : List Op) (ordered : Bool) (p : ParamsId)
    (h : callStart (runOps {} ops) ordered p = none) : (runOps {} ops).mapRunning = true :=
  callStart_none _ ordered p h

theorem closed_or_finished_is_not_running (ops : List Op) (ordered : Bool) (p : ParamsId) (o : Outcome)
    (ho : ∀ d c, o ≠ .leftOpen d c) (hr : o ≠ .rejected) : (runOps {} (ops ++ [.call ordered p o])).mapRunning = false := by
  rw [runOps_snoc]
  generalize runOps {} ops = s
  simp only [step, hr, if_false]
  cases hc : callStart s ordered p with
  | none => simp [callFinally]
  | some s1 =>
    cases o with
    | rejected => exact absurd rfl hr
    | ok d c => simp [callFinally]
    | fails d c => simp [callFinally]
    | closedEarly d c => simp [callFinally]
    | leftOpen d c => exact absurd rfl (ho d c)

/-- a call that is rejected while its arguments are validated changes nothing but (withdrawing) the order mode -/
theorem rejected_changes_nothing (s : Ctl) (ordered : Bool) (p : ParamsId) :
    step s (.call ordered p .rejected) = { s with keepOrder := false } := by
  simp [step]

/-- the state after a failed call -/
theorem after_fails (s : Ctl) (ordered : Bool) (p : ParamsId) (d : Nat) (c : List Nat) :
    (step s (.call ordered p (.fails d c))).workers = none ∧
    (step s (.call ordered p (.fails d c))).mapRunning = false := by
  simp only [step, reduceCtorEq, if_false]
  cases hc : callStart s ordered p <;> simp [callFinally, terminate_workers]

theorem failure_drops_workers (ops : List Op) (ordered : Bool) (p : ParamsId) (d : Nat) (c : List Nat) :
    (runOps {} (ops ++ [.call ordered p (.fails d c)])).workers = none ∧
    (runOps {} (ops ++ [.call ordered p (.closedEarly d c)])).workers = none := by
  rw [runOps_snoc, runOps_snoc]
  generalize runOps {} ops = s
  refine ⟨(after_fails s ordered p d c).1, ?_⟩
  simp only [step, reduceCtorEq, if_false]
  cases hc : callStart s ordered p <;> simp [callFinally, terminate_workers]

theorem next_call_after_failure_starts_workers (ops : List Op) (o1 o2 : Bool) (p q : ParamsId) (d : Nat) (c : List Nat)
    (s1 : Ctl) (h : callStart (runOps {} (ops ++ [.call o1 p (.fails d c)])) o2 q = some s1) :
    s1.generation = (runOps {} (ops ++ [.call o1 p (.fails d c)])).generation + 1 := by
  rw [runOps_snoc] at h ⊢
  generalize runOps {} ops = s at h ⊢
  have hf := after_fails s o1 p d c
  have hs := callStart_some _ o2 q s1 h
  exact hs.2.2.2.2.2.2.2.2.2.2 (by simp [Reuses, hf.1])

/-- after an apply batch that flagged the pool as failed (worker_init / worker_exit error) the next call does not reuse
the stopped workers: it starts fresh ones, with the exception flag clear -/
theorem next_call_after_failed_apply_starts_workers (ops : List Op) (o2 : Bool) (p q : ParamsId) (d : Nat) (c : List Nat)
    (s1 : Ctl) (h : callStart (runOps {} (ops ++ [.apply p (.poolFailed d c)])) o2 q = some s1) :
    s1.generation = (runOps {} (ops ++ [.apply p (.poolFailed d c)])).generation + 1 ∧ s1.excFlag = false := by
  rw [runOps_snoc] at h ⊢
  generalize runOps {} ops = s at h ⊢
  have hs := callStart_some _ o2 q s1 h
  refine ⟨hs.2.2.2.2.2.2.2.2.2.2 ?_, hs.2.2.2.2.2.2.1⟩
  simp only [Reuses, step]
  cases hw : (cleanupFailed s).workers <;> simp [dispatchEffects, startWorkers]

theorem keep_alive_reuses_workers (ops : List Op) (o1 o2 : Bool) (p q : ParamsId) (d : Nat) (c : List Nat) (s1 : Ctl)
    (hk : (runOps {} ops).keepAlive = true) (hm : (runOps {} ops).mapRunning = false)
    (h : callStart (runOps {} (ops ++ [.call o1 p (.ok d c)])) o2 q = some s1) :
    s1.generation = (runOps {} (ops ++ [.call o1 p (.ok d c)])).generation ∧ s1.workers = some q := by
  rw [runOps_snoc] at h ⊢
  generalize runOps {} ops = s at h hk hm ⊢
  obtain ⟨s0, hc⟩ := callStart_isSome s o1 p hm
  have hs0 := callStart_some s o1 p s0 hc
  have hs := callStart_some _ o2 q s1 h
  refine ⟨hs.2.2.2.2.2.2.2.2.2.1 ?_, hs.2.2.1⟩
  simp [Reuses, step, hc, dispatchEffects, callFinally, hs0.2.2.2.2.1, hk, hs0.2.2.1, hs0.2.2.2.1, hs0.2.2.2.2.2.2.1]

theorem no_keep_alive_fresh_workers (ops : List Op) (o1 o2 : Bool) (p q : ParamsId) (d : Nat) (c : List Nat) (s1 : Ctl)
    (hk : (runOps {} ops).keepAlive = false) (hm : (runOps {} ops).mapRunning = false)
    (h : callStart (runOps {} (ops ++ [.call o1 p (.ok d c)])) o2 q = some s1) :
    s1.generation = (runOps {} (ops ++ [.call o1 p (.ok d c)])).generation + 1 := by
  rw [runOps_snoc] at h ⊢
  generalize runOps {} ops = s at h hk hm ⊢
  obtain ⟨s0, hc⟩ := callStart_isSome s o1 p hm
  have hs0 := callStart_some s o1 p s0 hc
  have hs := callStart_some _ o2 q s1 h
  refine hs.2.2.2.2.2.2.2.2.2.2 ?_
  simp [Reuses, step, hc, dispatchEffects, callFinally, hs0.2.2.2.2.1, hk]

theorem setters_force_restart (ops : List Op) (o : Bool) (q : ParamsId) (s1 : Ctl)
    (h : callStart (runOps {} (ops ++ [.setPoolParam true])) o q = some s1) :
    s1.generation = (runOps {} (ops ++ [.setPoolParam true])).generation + 1 := by
  rw [runOps_snoc] at h ⊢
  generalize runOps {} ops = s at h ⊢
  have hs := callStart_some _ o q s1 h
  refine hs.2.2.2.2.2.2.2.2.2.2 ?_
  simp [Reuses, step]

end Mpire.Proofs.History
