import MpireModel.Model.Progress
import MpireModel.Model.Exception
import Mathlib.Tactic.Linarith
import Mathlib.Algebra.Order.Field.Rat
import Mathlib.Algebra.Order.Field.Basic
/-! Proofs for `Props/C19.lean`, `Props/C18.lean`, `Props/C04.lean`.  Helpers live in `Mpire.Proofs.Progress`. -/
namespace Mpire.Proofs.Progress
open Mpire.Progress

theorem sum_set_nat (l : List Nat) (w v : Nat) (h : w < l.length) : (l.set w v).sum + l.getD w 0 = l.sum + v := by
  induction l generalizing w with
  | nil => simp at h
  | cons a t ih =>
    cases w with
    | zero => simp [List.set]; omega
    | succ j =>
      have := ih j (by simpa using h)
      simp only [List.set_cons_succ, List.sum_cons, List.getD_cons_succ]
      omega

theorem pend_set (ws : List PW) (w : Nat) (pw pw' : PW) (h : ws[w]? = some pw) :
    ((ws.set w pw').map (·.pending)).sum + pw.pending = (ws.map (·.pending)).sum + pw'.pending := by
  induction ws generalizing w with
  | nil => simp at h
  | cons a t ih =>
    cases w with
    | zero => simp at h; subst h; simp [List.set]; omega
    | succ j =>
      have := ih j (by simpa using h)
      simp only [List.set_cons_succ, List.map_cons, List.sum_cons]
      omega

def PInv (s : PSt) : Prop :=
  s.arr.sum + pendingSum s = s.done ∧ s.shown ≤ s.arr.sum ∧ s.arr.length = s.workers.length

theorem sum_replicate_zero (n : Nat) : (List.replicate n 0).sum = 0 := by
  induction n with
  | zero => rfl
  | succ k ih => simp [List.replicate_succ, ih]

theorem PInv_init (n : Nat) (tot : Option Nat) : PInv (pinit n tot) := by
  refine ⟨?_, ?_, by simp [pinit]⟩
  · simp only [pinit, pendingSum, List.map_replicate, sum_replicate_zero]
  · simp [pinit]

theorem flush_spec (s : PSt) (w : Nat) (pw0 pw : PW) (h : s.workers[w]? = some pw0) (hl : s.arr.length = s.workers.length) :
    (flush s w pw).arr.sum = s.arr.sum + pw.pending ∧ pendingSum (flush s w pw) + pw0.pending = pendingSum s ∧
    (flush s w pw).arr.length = (flush s w pw).workers.length ∧ (flush s w pw).done = s.done ∧
    (flush s w pw).shown = s.shown ∧ (flush s w pw).workers[w]? = some { pending := 0, last := s.now } := by
  have hw : w < s.workers.length := by
    rcases Nat.lt_or_ge w s.workers.length with h' | h'
    · exact h'
    · rw [List.getElem?_eq_none h'] at h; simp at h
  have h1 := sum_set_nat s.arr w (s.arr.getD w 0 + pw.pending) (hl ▸ hw)
  have h2 := pend_set s.workers w pw0 { pending := 0, last := s.now } h
  refine ⟨?_, ?_, ?_, rfl, rfl, ?_⟩
  · simp only [flush]; omega
  · simp only [flush, pendingSum] at h2 ⊢; omega
  · simp [flush, hl]
  · simp [flush, hw]

theorem PInv_step (s s' : PSt) (e : PEv) (h : PInv s) (hs : pstep s e = some s') : PInv s' := by
  obtain ⟨h1, h2, h3⟩ := h
  cases e with
  | taskDone w =>
    simp only [pstep] at hs
    split at hs
    · rename_i pw hw
      split at hs
      · injection hs with hs; subst hs
        have := flush_spec { s with done := s.done + 1 } w pw { pw with pending := pw.pending + 1 } hw h3
        simp only [PInv]
        simp only [pendingSum] at this h1 ⊢
        refine ⟨by omega, by omega, this.2.2.1⟩
      · injection hs with hs; subst hs
        have := pend_set s.workers w pw { pw with pending := pw.pending + 1 } hw
        simp only [PInv, pendingSum] at h1 ⊢
        dsimp only at this ⊢
        refine ⟨by omega, h2, by simpa using h3⟩
    · simp at hs
  | force w =>
    simp only [pstep] at hs
    split at hs
    · rename_i pw hw
      injection hs with hs; subst hs
      have := flush_spec s w pw pw hw h3
      simp only [PInv]
      refine ⟨by omega, by omega, this.2.2.1⟩
    · simp at hs
  | tick => simp only [pstep] at hs; injection hs with hs; subst hs; exact ⟨h1, h2, h3⟩
  | setTotal n => simp only [pstep] at hs; injection hs with hs; subst hs; exact ⟨h1, h2, h3⟩
  | poll =>
    simp only [pstep] at hs
    split at hs
    · injection hs with hs; subst hs; exact ⟨h1, h2, h3⟩
    · injection hs with hs; subst hs; exact ⟨h1, Nat.le_refl _, h3⟩

theorem PInv_run (es : List PEv) (s s' : PSt) (h : PInv s) (hs : prun s es = some s') : PInv s' := by
  induction es generalizing s with
  | nil => simp [prun] at hs; subst hs; exact h
  | cons e es ih =>
    simp only [prun, List.foldlM_cons] at hs
    cases he : pstep s e with
    | none => simp [he] at hs
    | some s1 =>
      simp only [he] at hs
      exact ih s1 (PInv_step s s1 e h he) hs

theorem PInv_reach (n : Nat) (tot : Option Nat) (s : PSt) (h : PReachable n tot s) : PInv s := by
  obtain ⟨es, hes⟩ := h
  exact PInv_run es _ s (PInv_init n tot) hes

theorem count_conserved (n : Nat) (tot : Option Nat) (s : PSt) (h : PReachable n tot s) :
    s.arr.sum + pendingSum s = s.done := (PInv_reach n tot s h).1

theorem shown_le_done (n : Nat) (tot : Option Nat) (s : PSt) (h : PReachable n tot s) : s.shown ≤ s.arr.sum ∧ s.arr.sum ≤ s.done := by
  have := PInv_reach n tot s h
  exact ⟨this.2.1, by have := this.1; omega⟩

theorem shown_monotone (n : Nat) (tot : Option Nat) (s s' : PSt) (h : PReachable n tot s) (e : PEv) (hs : pstep s e = some s') :
    s.shown ≤ s'.shown := by
  have hI := PInv_reach n tot s h
  cases e with
  | taskDone w =>
    simp only [pstep] at hs
    split at hs
    · split at hs <;> (injection hs with hs; subst hs; simp [flush])
    · simp at hs
  | force w =>
    simp only [pstep] at hs
    split at hs
    · injection hs with hs; subst hs; simp [flush]
    · simp at hs
  | tick => simp only [pstep] at hs; injection hs with hs; subst hs; simp
  | setTotal n => simp only [pstep] at hs; injection hs with hs; subst hs; simp
  | poll =>
    simp only [pstep] at hs
    split at hs
    · injection hs with hs; subst hs; simp
    · injection hs with hs; subst hs; exact hI.2.1

theorem all_flushed_shows_all (n : Nat) (tot : Option Nat) (s s' : PSt) (h : PReachable n tot s) (hp : pendingSum s = 0)
    (hs : pstep s .poll = some s') : s'.shown = s.done := by
  have hI := PInv_reach n tot s h
  have hd : s.arr.sum = s.done := by have := hI.1; omega
  simp only [pstep] at hs
  split at hs
  · rename_i hc
    injection hs with hs; subst hs; omega
  · injection hs with hs; subst hs; exact hd

theorem force_empties (n : Nat) (tot : Option Nat) (s s' : PSt) (h : PReachable n tot s) (w : Nat) (hs : pstep s (.force w) = some s') :
    (s'.workers[w]?.map (·.pending)) = some 0 ∧ s'.arr.sum + pendingSum s' = s'.done := by
  have hI := PInv_reach n tot s h
  refine ⟨?_, (PInv_step s s' _ hI hs).1⟩
  simp only [pstep] at hs
  split at hs
  · rename_i pw hw
    injection hs with hs; subst hs
    have := flush_spec s w pw pw hw hI.2.2
    rw [this.2.2.2.2.2]; rfl
  · simp at hs

set_option linter.unusedVariables false in
theorem complete_only_at_total (n : Nat) (tot : Option Nat) (s s' : PSt) (e : PEv) (hs : pstep s e = some s')
    (hc : s.complete = false) (hc' : s'.complete = true) : s'.total = some s'.shown := by
  cases e with
  | taskDone w =>
    simp only [pstep] at hs
    split at hs
    · split at hs <;> (injection hs with hs; subst hs; simp [flush, hc] at hc')
    · simp at hs
  | force w =>
    simp only [pstep] at hs
    split at hs
    · injection hs with hs; subst hs; simp [flush, hc] at hc'
    · simp at hs
  | tick => simp only [pstep] at hs; injection hs with hs; subst hs; simp [hc] at hc'
  | setTotal n => simp only [pstep] at hs; injection hs with hs; subst hs; simp [hc] at hc'
  | poll =>
    simp only [pstep] at hs
    split at hs
    · injection hs with hs; subst hs; simp [hc] at hc'
    · injection hs with hs; subst hs
      simpa [hc] using hc'

/-! insights -/

theorem top5_length (es : List (Nat × String)) : (top5 es).length ≤ 5 := by
  unfold top5
  dsimp only
  refine Nat.le_trans (List.length_filter_le _ _) (Nat.le_trans (List.takeWhile_sublist _).length_le ?_)
  simp only [List.length_reverse, List.length_drop]
  omega

theorem takeWhile_imp {α : Type} (p : α → Bool) (l : List α) (x : α) (hx : x ∈ l.takeWhile p) : p x = true := by
  induction l with
  | nil => simp at hx
  | cons a t ih =>
    rw [List.takeWhile_cons] at hx
    split at hx
    · rcases List.mem_cons.1 hx with rfl | h
      · assumption
      · exact ih h
    · simp at hx

theorem top5_nonzero (es : List (Nat × String)) : ∀ e ∈ top5 es, e.1 ≠ 0 ∧ e.2 ≠ "" := by
  intro e he
  unfold top5 at he
  dsimp only at he
  rw [List.mem_filter] at he
  have h1 := takeWhile_imp _ _ _ he.1
  simpa using And.intro h1 he.2

theorem top5_sorted (es : List (Nat × String)) : (top5 es).Pairwise (fun a b => b.1 ≤ a.1) := by
  unfold top5
  dsimp only
  refine List.Pairwise.sublist (List.filter_sublist) (List.Pairwise.sublist (List.takeWhile_sublist _) ?_)
  rw [List.pairwise_reverse]
  refine List.Pairwise.sublist (List.drop_sublist _ _) ?_
  have := List.pairwise_mergeSort (le := fun (a b : Nat × String) => decide (a.1 ≤ b.1))
    (fun a b c h1 h2 => by simp only [decide_eq_true_eq] at *; omega)
    (fun a b => by simp only [Bool.or_eq_true, decide_eq_true_eq]; omega) es
  simpa using this

theorem top5_from_input (es : List (Nat × String)) : ∀ e ∈ top5 es, e ∈ es := by
  intro e he
  unfold top5 at he
  dsimp only at he
  have h1 := (List.mem_filter.1 he).1
  have h2 := (List.takeWhile_sublist _).subset h1
  rw [List.mem_reverse] at h2
  have h3 := List.mem_of_mem_drop h2
  exact List.mem_mergeSort.1 h3

theorem sum_nonneg_rat (parts : List Rat) (hp : ∀ p ∈ parts, 0 ≤ p) : 0 ≤ parts.sum := by
  induction parts with
  | nil => simp
  | cons a t ih =>
    have h1 := hp a (by simp)
    have h2 := ih (fun p h => hp p (by simp [h]))
    simp only [List.sum_cons]; linarith

theorem le_sum_rat (parts : List Rat) (hp : ∀ p ∈ parts, 0 ≤ p) : ∀ p ∈ parts, p ≤ parts.sum := by
  induction parts with
  | nil => simp
  | cons a t ih =>
    intro p hm
    have h1 := hp a (by simp)
    have h2 := sum_nonneg_rat t (fun p h => hp p (by simp [h]))
    simp only [List.sum_cons]
    rcases List.mem_cons.1 hm with rfl | hm
    · linarith
    · have := ih (fun p h => hp p (by simp [h])) p hm; linarith

theorem sum_map_div (parts : List Rat) (c : Rat) : (parts.map fun p => p / c).sum = parts.sum / c := by
  induction parts with
  | nil => simp
  | cons a t ih => simp only [List.map_cons, List.sum_cons, ih, add_div]

theorem ratios_in_unit (parts : List Rat) (eps : Rat) (hp : ∀ p ∈ parts, 0 ≤ p) (he : 0 < eps) :
    ∀ r ∈ ratios parts eps, 0 ≤ r ∧ r ≤ 1 := by
  intro r hr
  simp only [ratios, List.mem_map] at hr
  obtain ⟨p, hm, rfl⟩ := hr
  have h0 := hp p hm
  have h1 := le_sum_rat parts hp p hm
  have hc : 0 < parts.sum + eps := by linarith
  exact ⟨div_nonneg h0 hc.le, (div_le_one hc).2 (by linarith)⟩

theorem ratios_sum (parts : List Rat) (eps : Rat) (hp : ∀ p ∈ parts, 0 ≤ p) (he : 0 < eps) :
    (ratios parts eps).sum = parts.sum / (parts.sum + eps) ∧ (ratios parts eps).sum < 1 := by
  have h0 := sum_nonneg_rat parts hp
  have hc : 0 < parts.sum + eps := by linarith
  have h : (ratios parts eps).sum = parts.sum / (parts.sum + eps) := by
    simp only [ratios]; exact sum_map_div parts _
  exact ⟨h, by rw [h, div_lt_one hc]; linarith⟩

/-! exception transport -/
open Mpire.Exc

theorem guard_sound (e : Exc) : serialisable e (guard e) = true := by
  unfold Exc.guard
  split
  · rename_i h; simpa [serialisable] using h
  · rfl

theorem transport_faithful (e : Exc) :
    populate (guard e) = (if e.typeOk && e.argsOk && e.attrsOk then Rebuilt.same e.cls e.args e.attrs else Rebuilt.cannotPickle e.repr) := by
  unfold Exc.guard
  split <;> rfl

theorem every_raise_handled (k : ClassKind) : escapes k = false ∧ (k ≠ .interruptWorker → reported k = true) := by
  cases k <;> simp [escapes, reported]

end Mpire.Proofs.Progress
