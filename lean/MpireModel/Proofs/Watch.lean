import MpireModel.Model.Watch
import MpireModel.Model.Worker
import MpireModel.Proofs.Worker
/-! Proofs for `Props/C08.lean` and `Props/C07.lean`.  Helpers live in `Mpire.Proofs.Watch`. -/
namespace Mpire.Proofs.Watch
open Mpire.Watch

theorem idle_never_times_out (now t : Nat) : timedOut none now t = false := rfl

theorem timed_out_iff (s now t : Nat) : timedOut (some s) now t = true ↔ s + t ≤ now := by
  simp [timedOut]

theorem tstep_inv (s s' : TSt) (e : TEv) (h : s.slot.stamp = s.running) (hs : tstep s e = some s') :
    s'.slot.stamp = s'.running := by
  cases e <;> simp only [tstep] at hs
  · split at hs
    · injection hs with hs; subst hs; rfl
    · simp at hs
  · split at hs
    · injection hs with hs; subst hs; rfl
    · simp at hs
  · injection hs with hs; subst hs; exact h

theorem trun_inv (es : List TEv) (s s' : TSt) (h : s.slot.stamp = s.running) (hs : trun s es = some s') :
    s'.slot.stamp = s'.running := by
  induction es generalizing s with
  | nil => simp [trun] at hs; subst hs; exact h
  | cons e es ih =>
    simp only [trun, List.foldlM_cons] at hs
    cases he : tstep s e with
    | none => simp [he] at hs
    | some s1 =>
      simp only [he] at hs
      exact ih s1 (tstep_inv s s1 e h he) hs

theorem stamp_tracks_running (es : List TEv) (s : TSt) (h : trun {} es = some s) : s.slot.stamp = s.running :=
  trun_inv es {} s rfl h

theorem no_false_timeout (es : List TEv) (s : TSt) (h : trun {} es = some s) (t : Nat)
    (hf : timedOut s.slot.stamp s.now t = true) : ∃ since, s.running = some since ∧ since + t ≤ s.now := by
  rw [stamp_tracks_running es s h] at hf
  cases hr : s.running with
  | none => simp [hr, timedOut] at hf
  | some since => exact ⟨since, rfl, by simpa [hr, timedOut] using hf⟩

theorem timeout_detected (es : List TEv) (s : TSt) (h : trun {} es = some s) (t since : Nat)
    (hr : s.running = some since) (hl : since + t ≤ s.now) : timedOut s.slot.stamp s.now t = true := by
  rw [stamp_tracks_running es s h, hr]
  simpa [timedOut] using hl

theorem scan_latency (P x : Nat) (hP : 0 < P) : ∃ k, x ≤ k * P ∧ k * P < x + P := by
  refine ⟨(x + P - 1) / P, ?_⟩
  have h1 := Nat.div_add_mod (x + P - 1) P
  have h2 := Nat.mod_lt (x + P - 1) hP
  rw [Nat.mul_comm] at h1
  generalize (x + P - 1) / P * P = q at h1 ⊢
  generalize (x + P - 1) % P = r at h1 h2
  omega

/-- the stamp discipline of the worker: fold over the actions; `none` = some stamp was set twice / cleared when not set -/
def stampFold : Option (Option Mpire.Worker.Kind) → Mpire.Worker.Act → Option (Option Mpire.Worker.Kind)
  | some none, .stampStart k => some (some k)
  | some (some k), .stampClear k' => if k = k' then some none else none
  | _, .stampStart _ => none
  | _, .stampClear _ => none
  | st, _ => st

section Stamps
open Mpire.Worker Mpire.Proofs.Worker

/-- `stampFold` that moreover fails on a task function entered outside a task stamp -/
def fold2 : Option (Option Kind) → Act → Option (Option Kind)
  | some none, .stampStart k => some (some k)
  | some (some k), .stampClear k' => if k = k' then some none else none
  | _, .stampStart _ => none
  | _, .stampClear _ => none
  | some (some .task), .user .task _ => some (some .task)
  | _, .user .task _ => none
  | st, _ => st

theorem fold2_none (l : List Act) : l.foldl fold2 none = none := by
  induction l with
  | nil => rfl
  | cons a t ih =>
    have : fold2 none a = none := by cases a <;> first | rfl | (rename_i k _; cases k <;> rfl)
    simp only [List.foldl_cons, this, ih]

theorem fold2_or (st : Option (Option Kind)) (a : Act) : fold2 st a = none ∨ fold2 st a = stampFold st a := by
  rcases st with _ | _ | k <;> cases a <;> try (first | exact Or.inr rfl | exact Or.inl rfl)
  all_goals (rename_i k' _; cases k' <;> try (first | exact Or.inr rfl | exact Or.inl rfl))
  all_goals (cases k <;> first | exact Or.inr rfl | exact Or.inl rfl)

theorem fold2_stampFold (l : List Act) (st : Option (Option Kind)) (r : Option Kind) (h : l.foldl fold2 st = some r) :
    l.foldl stampFold st = some r := by
  induction l generalizing st with
  | nil => exact h
  | cons a t ih =>
    simp only [List.foldl_cons] at h ⊢
    rcases fold2_or st a with h' | h'
    · rw [h', fold2_none] at h; simp at h
    · rw [← h']; exact ih _ h


/-- a well-stamped trace (acts in reverse order, as kept in `St.acts`) -/
def Inv (s : St) : Prop := s.acts.reverse.foldl fold2 (some none) = some none

/-- a well-stamped block -/
def Blk (a : List Act) : Prop := a.foldl fold2 (some none) = some none

theorem inv_emit (s : St) (a : List Act) (h : Inv s) (ha : Blk a) : Inv (s.emit a) := by
  simp only [Inv, emit_acts, List.reverse_append, List.reverse_reverse, List.foldl_append] at h ⊢
  rw [h]; exact ha

theorem blk_append (a b : List Act) (ha : Blk a) (hb : Blk b) : Blk (a ++ b) := by
  simp only [Blk, List.foldl_append] at *
  rw [ha]; exact hb

theorem inv_ite {c : Prop} [Decidable c] {a b : St} (ha : Inv a) (hb : Inv b) : Inv (if c then a else b) := by
  split <;> assumption

theorem inv_runInit (s : St) (env : Env) (h : Inv s) : Inv (runInit s env).1 := by
  unfold runInit
  split
  · exact h
  · generalize (if s.flag then Outcome.excAlready else env.initOut) = o
    dsimp only
    refine inv_emit s _ h ?_
    cases o <;> cases s.params.initTimeout <;> rfl

theorem inv_runExit (s : St) (env : Env) (h : Inv s) : Inv (runExit s env).1 := by
  unfold runExit
  generalize (if s.flag then Outcome.excAlready else env.exitOut) = o
  dsimp only
  have : Blk ([Act.workingOn EXIT_FUNC] ++ if s.params.exitTimeout = true then
      [Act.stampStart Kind.exit] ++ (runSafely Kind.exit 0 EXIT_FUNC false o).1 ++ [Act.stampClear Kind.exit]
      else (runSafely Kind.exit 0 EXIT_FUNC false o).1) := by
    cases o <;> cases s.params.exitTimeout <;> rfl
  have h1 := inv_emit s _ h this
  split
  · exact h1
  · split
    · exact inv_emit _ _ h1 rfl
    · exact h1

theorem inv_forcedPB (s : St) (h : Inv s) : Inv (forcedPB s) := by
  unfold forcedPB
  split
  · exact inv_emit s _ h rfl
  · exact h

theorem inv_workOn (s : St) (job : Int) (h : Inv s) : Inv (workOn s job) := by
  unfold workOn
  split
  · exact inv_emit s _ h rfl
  · exact h

theorem inv_afterTask0 (s : St) (job : Int) (ia : Bool) (t : TaskIn) (h : Inv s) : Inv (afterTask0 s job ia t) := by
  unfold afterTask0
  refine inv_emit _ _ (inv_workOn s job h) ?_
  unfold taskRes
  generalize (if (workOn s job).flag then Outcome.excAlready else t.out) = o
  cases o <;> cases ia <;> rfl

theorem inv_afterTask (s : St) (job : Int) (ia : Bool) (t : TaskIn) (h : Inv s) : Inv (afterTask s job ia t) := by
  unfold afterTask
  split
  · exact inv_emit _ _ (inv_afterTask0 s job ia t h) rfl
  · exact inv_afterTask0 s job ia t h

theorem inv_runTasks (job : Int) (ia : Bool) : ∀ (ts : List TaskIn) (s : St) (res : List (Int × Bool × Nat)),
    Inv s → Inv (runTasks s job ia ts res).1 := by
  intro ts
  induction ts with
  | nil => intro s res h; exact h
  | cons t ts ih =>
    intro s res h
    rw [runTasks_cons]
    split
    · exact inv_afterTask0 s job ia t h
    · exact ih _ _ (inv_afterTask s job ia t h)

theorem inv_chunkInit (s : St) (env : Env) (h : Inv s) : Inv (chunkInit s env).1 := by
  unfold chunkInit
  split
  · exact inv_runInit s env h
  · exact h

theorem inv_runChunk (s : St) (env : Env) (job : Int) (ia : Bool) (ts : List TaskIn) (h : Inv s) :
    Inv (runChunk s env job ia ts).1 := by
  rw [runChunk_eq]
  have h1 := inv_chunkInit s env h
  have h2 := inv_runTasks job ia ts _ [] h1
  split
  · exact inv_emit _ _ h1 rfl
  · split
    · exact inv_emit _ _ h2 rfl
    · split
      · exact inv_emit _ _ (inv_emit _ _ h2 rfl) rfl
      · exact inv_emit _ _ h2 rfl

theorem inv_handle (s : St) (env : Env) (it : Item) (h : Inv s) : Inv (handle s env it).1 := by
  cases it with
  | stopNow => exact h
  | pill =>
    simp only [handle]
    have h1 := inv_emit _ [.taskDone] (inv_forcedPB _ (inv_emit s [.got] h rfl)) rfl
    have h2 : Inv (if ((forcedPB (s.emit [.got])).emit [.taskDone]).params.hasExit &&
        decide (0 < ((forcedPB (s.emit [.got])).emit [.taskDone]).executed) then
        (runExit ((forcedPB (s.emit [.got])).emit [.taskDone]) env).1 else (forcedPB (s.emit [.got])).emit [.taskDone]) := by
      split
      · exact inv_runExit _ env h1
      · exact h1
    exact inv_ite (inv_emit _ [.waitPB] h2 rfl) h2
  | pillNL => exact inv_emit _ [.taskDone] (inv_forcedPB _ (inv_emit s [.got] h rfl)) rfl
  | newParams q =>
    cases q with
    | none => exact inv_emit s _ h rfl
    | some q => exact inv_emit s [.got, .taskDone, .got, .taskDone] h rfl
  | apply t =>
    cases t with
    | none => exact inv_emit s _ h rfl
    | some jt => exact inv_runChunk _ env _ _ _ (inv_emit s _ h rfl)
  | chunk job ts => exact inv_runChunk _ env _ _ _ (inv_emit s _ h rfl)

theorem inv_lifespanSt (s : St) (env : Env) (h : Inv s) : Inv (lifespanSt s env) := by
  unfold lifespanSt
  split
  · exact inv_runExit _ env (inv_forcedPB s h)
  · exact inv_forcedPB s h

theorem run_fold2 (p : Params) (env : Env) (items : List Item) :
    (run p env items).foldl fold2 (some none) = some none := by
  obtain ⟨s', hs', he⟩ := loop_inv env Inv Inv items
    (fun s it _ hi _ _ => ⟨fun _ => inv_handle s env it hi, fun _ => inv_handle s env it hi⟩)
    (fun s hi _ => inv_lifespanSt s env hi) (fun s hi _ => hi)
    { params := p, acts := [.resetRecv, .alive] } rfl
  unfold run
  rw [he, finish_eq, List.foldl_append, hs']
  split <;> rfl

theorem stamps_balanced (p : Mpire.Worker.Params) (env : Mpire.Worker.Env) (items : List Mpire.Worker.Item) :
    (Mpire.Worker.run p env items).foldl stampFold (some none) = some none :=
  fold2_stampFold _ _ _ (run_fold2 p env items)

theorem user_function_inside_stamps (p : Mpire.Worker.Params) (env : Mpire.Worker.Env) (items : List Mpire.Worker.Item)
    (pre post : List Mpire.Worker.Act) (i : Nat)
    (h : Mpire.Worker.run p env items = pre ++ [.user .task i] ++ post) :
    pre.foldl stampFold (some none) = some (some .task) := by
  have h1 := run_fold2 p env items
  rw [h, List.foldl_append, List.foldl_append] at h1
  cases hp : pre.foldl fold2 (some none) with
  | none => rw [hp] at h1; simp only [List.foldl_cons, List.foldl_nil] at h1; rw [show fold2 none (Act.user Kind.task i) = none from rfl, fold2_none] at h1; simp at h1
  | some x =>
    have hx : x = some .task := by
      rw [hp] at h1
      simp only [List.foldl_cons, List.foldl_nil] at h1
      rcases x with _ | k
      · rw [show fold2 (some none) (Act.user Kind.task i) = none from rfl, fold2_none] at h1; simp at h1
      · cases k
        · rw [show fold2 (some (some .init)) (Act.user Kind.task i) = none from rfl, fold2_none] at h1; simp at h1
        · rfl
        · rw [show fold2 (some (some .exit)) (Act.user Kind.task i) = none from rfl, fold2_none] at h1; simp at h1
    subst hx
    exact fold2_stampFold _ _ _ hp

end Stamps

/-! death scan -/

def ScanOK (w : WSt) : Scan → Prop
  | .idle => True
  | .gotObj g => g ≤ w.gen
  | .gotFlag g _ => g ≤ w.gen
  | .gotId g _ => g < w.gen ∨ (g = w.gen ∧ w.known = true)
  | .gotOs g _ os => g < w.gen ∨ (g = w.gen ∧ (os = false → w.phase = .gone))
  | .gotFlag2 g _ _ f2 => g < w.gen ∨ (g = w.gen ∧ f2 = false)
  | .verdict d => d = false

/-- what holds as long as no kill happened -/
def J (s : DSt) : Prop :=
  s.w.killed = false ∧ (s.w.osAlive = false ↔ s.w.phase = .gone) ∧ (s.w.flag = true ↔ s.w.phase = .alive) ∧
  s.oldOsAlive = false ∧ ScanOK s.w s.scan

theorem everKilled_back (s s' : DSt) (e : DEv) (hs : dstep s e = some s') (hk : s'.everKilled = false) :
    s.everKilled = false ∧ e ≠ .kill := by
  obtain ⟨⟨ph, fl, os, k, g, kn⟩, old, sc, ek⟩ := s
  cases e <;> simp only [dstep] at hs
  all_goals (try split at hs)
  all_goals (try split at hs)
  all_goals (try split at hs)
  all_goals (first | (injection hs with hs; subst hs; simp_all) | simp at hs)

theorem J_step (s s' : DSt) (e : DEv) (hs : dstep s e = some s') (he : e ≠ .kill) (hJ : J s) : J s' := by
  obtain ⟨⟨ph, fl, os, k, g, kn⟩, old, sc, ek⟩ := s
  obtain ⟨h1, h2, h3, h4, h5⟩ := hJ
  simp only at h1 h2 h3 h4 h5
  subst h1 h4
  cases e with
  | kill => exact absurd rfl he
  | startReturns =>
    simp only [dstep] at hs
    split at hs
    · simp at hs
    · injection hs with hs; subst hs
      refine ⟨rfl, h2, h3, rfl, ?_⟩
      cases sc <;> simp_all [ScanOK]
  | signalAlive =>
    simp only [dstep] at hs
    split at hs
    · injection hs with hs; subst hs
      rename_i hc
      obtain ⟨rfl, rfl⟩ := hc
      refine ⟨rfl, by simp, by simp, rfl, ?_⟩
      cases sc <;> simp_all [ScanOK]
    · simp at hs
  | signalDead =>
    simp only [dstep] at hs
    split at hs
    · injection hs with hs; subst hs
      rename_i hc
      obtain ⟨rfl, rfl⟩ := hc
      refine ⟨rfl, by simp, by simp, rfl, ?_⟩
      cases sc <;> simp_all [ScanOK]
    · simp at hs
  | processExit =>
    simp only [dstep] at hs
    split at hs
    · injection hs with hs; subst hs
      rename_i hc
      obtain ⟨rfl, rfl⟩ := hc
      refine ⟨rfl, by simp, by simpa using h3, rfl, ?_⟩
      cases sc <;> simp_all [ScanOK] <;> omega
    · simp at hs
  | restart =>
    simp only [dstep] at hs
    split at hs
    · injection hs with hs; subst hs
      rename_i hc
      obtain ⟨rfl, -⟩ := hc
      refine ⟨rfl, by simp, by simpa using h3, rfl, ?_⟩
      cases sc <;> simp_all [ScanOK] <;> omega
    · simp at hs
  | rescan =>
    simp only [dstep] at hs
    split at hs
    · injection hs with hs; subst hs
      exact ⟨rfl, h2, h3, rfl, trivial⟩
    · simp at hs
  | read =>
    simp only [dstep] at hs
    split at hs
    · injection hs with hs; subst hs
      exact ⟨rfl, h2, h3, rfl, Nat.le_refl _⟩
    · injection hs with hs; subst hs
      exact ⟨rfl, h2, h3, rfl, h5⟩
    · rename_i g' f1
      simp only [ScanOK] at h5
      rcases Nat.lt_or_eq_of_le h5 with h | h
      · have hne : g' ≠ g := Nat.ne_of_lt h
        simp only [hne, if_false, if_true] at hs
        injection hs with hs; subst hs
        exact ⟨rfl, h2, h3, rfl, Or.inl h⟩
      · subst h
        cases kn
        · simp only [if_true] at hs
          simp at hs
          subst hs
          exact ⟨rfl, h2, h3, rfl, rfl⟩
        · simp only [if_true] at hs
          injection hs with hs; subst hs
          exact ⟨rfl, h2, h3, rfl, Or.inr ⟨rfl, rfl⟩⟩
    · rename_i g' f1
      simp only [ScanOK] at h5
      injection hs with hs; subst hs
      refine ⟨rfl, h2, h3, rfl, ?_⟩
      simp only [ScanOK]
      rcases h5 with h | ⟨h, hkn⟩
      · exact Or.inl h
      · subst h; subst hkn
        exact Or.inr ⟨rfl, by simpa using h2.1⟩
    · split at hs
      · injection hs with hs; subst hs
        rename_i hc
        refine ⟨rfl, h2, h3, rfl, ?_⟩
        simp only [ScanOK] at h5 ⊢
        rcases h5 with h | ⟨h, h'⟩
        · exact Or.inl h
        · refine Or.inr ⟨h, ?_⟩
          simp only [Bool.and_eq_true, Bool.not_eq_true'] at hc
          have := h' hc.2
          cases fl
          · rfl
          · rw [this] at h3; simp at h3
      · injection hs with hs; subst hs
        exact ⟨rfl, h2, h3, rfl, rfl⟩
    · injection hs with hs; subst hs
      refine ⟨rfl, h2, h3, rfl, ?_⟩
      simp only [ScanOK] at h5 ⊢
      rcases h5 with h | ⟨h, h'⟩
      · simp; intro _; omega
      · simp [h']
    · simp at hs

def DI (s : DSt) : Prop := (s.everKilled = false → J s) ∧ (s.w.killed = true → s.w.osAlive = false)

theorem DI_step (s s' : DSt) (e : DEv) (hs : dstep s e = some s') (h : DI s) : DI s' := by
  refine ⟨fun hk => ?_, ?_⟩
  · have := everKilled_back s s' e hs hk
    exact J_step s s' e hs this.2 (h.1 this.1)
  · have h2 := h.2
    obtain ⟨⟨ph, fl, os, k, g, kn⟩, old, sc, ek⟩ := s
    cases e <;> simp only [dstep] at hs
    all_goals (try split at hs)
    all_goals (try split at hs)
    all_goals (try split at hs)
    all_goals (first | (injection hs with hs; subst hs; simp_all) | simp at hs)

theorem DI_run (es : List DEv) (s s' : DSt) (h : DI s) (hs : drun s es = some s') : DI s' := by
  induction es generalizing s with
  | nil => simp [drun] at hs; subst hs; exact h
  | cons e es ih =>
    simp only [drun, List.foldlM_cons] at hs
    cases he : dstep s e with
    | none => simp [he] at hs
    | some s1 =>
      simp only [he] at hs
      exact ih s1 (DI_step s s1 e he h) hs

theorem DI_reach (s : DSt) (h : DReachable s) : DI s := by
  obtain ⟨es, hes⟩ := h
  refine DI_run es {} s ⟨fun _ => ?_, by simp⟩ hes
  exact ⟨rfl, by simp, by simp, rfl, trivial⟩

theorem restart_not_death (s : DSt) (h : DReachable s) (hk : s.everKilled = false) : s.scan ≠ .verdict true := by
  have := ((DI_reach s h).1 hk).2.2.2.2
  intro hc
  rw [hc] at this
  simp [ScanOK] at this

theorem kill_freezes_worker (s : DSt) (hk : s.w.killed = true) (hos : s.w.osAlive = false) :
    dstep s .signalAlive = none ∧ dstep s .signalDead = none ∧ dstep s .processExit = none ∧ dstep s .restart = none := by
  simp [dstep, hk, hos]

theorem death_detected (s : DSt) (h : DReachable s) (hk : s.w.killed = true) (hf : s.w.flag = true)
    (hkn : s.w.known = true) (hi : s.scan = .idle) :
    (drun s [.read, .read, .read, .read, .read, .read]).map (·.scan) = some (.verdict true) := by
  have hos := (DI_reach s h).2 hk
  obtain ⟨⟨ph, fl, os, k, g, kn⟩, old, sc, ek⟩ := s
  simp only at hk hf hkn hi hos
  subst hk hf hkn hi hos
  simp [drun, dstep]

end Mpire.Proofs.Watch
