import MpireModel.Model.ParamFlow
/-! Proofs about the parameter-flow model (statements used by Props/C10.lean). -/
namespace Mpire.Proofs.ParamFlow
open Mpire.ParamFlow

/-- what holds in every reachable state -/
def Inv (s : Sys) : Prop :=
  -- the pool has recorded the parameters of the latest call
  (∀ r, s.recorded = some r → s.calls.getLast? = some r) ∧
  (s.recorded = none → s.workers = []) ∧
  -- every worker will meet every queued chunk with the parameters of the chunk's call, and ends up with the recorded ones
  (∀ w ∈ s.workers, consistent s.calls w.cur w.queue ∧ (∀ r, s.recorded = some r → finalParam w.cur w.queue = r)) ∧
  -- queued chunks belong to the latest call
  (∀ w ∈ s.workers, ∀ c, Item.chunk c ∈ w.queue → c + 1 = s.calls.length) ∧
  -- what has been run was run with the parameters of its call
  (∀ c p, (c, p) ∈ s.log → s.calls[c]? = some p)

theorem finalParam_append (cur : PId) (q : List Item) (i : Item) :
    finalParam cur (q ++ [i]) = match i with | .params p => p | _ => finalParam cur q := by
  induction q generalizing cur with
  | nil => cases i <;> simp [finalParam]
  | cons j q ih => cases j <;> simp [finalParam, ih]

theorem consistent_append_chunk (calls : List PId) (cur : PId) (q : List Item) (c : Nat) :
    consistent calls cur (q ++ [.chunk c]) ↔ consistent calls cur q ∧ calls[c]? = some (finalParam cur q) := by
  induction q generalizing cur with
  | nil => simp [consistent, finalParam]
  | cons j q ih => cases j <;> simp [consistent, finalParam, ih, and_assoc]

theorem consistent_append_params (calls : List PId) (cur : PId) (q : List Item) (p : PId) :
    consistent calls cur (q ++ [.params p]) ↔ consistent calls cur q := by
  induction q generalizing cur with
  | nil => simp [consistent]
  | cons j q ih => cases j <;> simp [consistent, ih]

theorem consistent_append_pause (calls : List PId) (cur : PId) (q : List Item) :
    consistent calls cur (q ++ [.pause]) ↔ consistent calls cur q := by
  induction q generalizing cur with
  | nil => simp [consistent]
  | cons j q ih => cases j <;> simp [consistent, ih]

theorem getElem?_append_of_some (calls : List PId) (p : PId) (c : Nat) (x : PId) (h : calls[c]? = some x) :
    (calls ++ [p])[c]? = some x := by
  have hlt : c < calls.length := by
    rcases Nat.lt_or_ge c calls.length with h1 | h1
    · exact h1
    · rw [List.getElem?_eq_none h1] at h; cases h
  rw [List.getElem?_append_left hlt]; exact h

theorem consistent_mono (calls : List PId) (p : PId) (cur : PId) (q : List Item) (h : consistent calls cur q) :
    consistent (calls ++ [p]) cur q := by
  induction q generalizing cur with
  | nil => simp [consistent]
  | cons j q ih =>
    cases j with
    | params p' => exact ih _ h
    | chunk c => exact ⟨getElem?_append_of_some _ _ _ _ h.1, ih _ h.2⟩
    | pause => exact ih _ h

theorem getElem?_last (calls : List PId) (c : Nat) (h : c + 1 = calls.length) : calls[c]? = calls.getLast? := by
  rw [List.getLast?_eq_getElem?]
  congr 1; omega

theorem consistent_restart (calls : List PId) (cur r : PId) (q : List Item)
    (hc : ∀ c, Item.chunk c ∈ q → c + 1 = calls.length) (hl : calls.getLast? = some r)
    (h : consistent calls cur q) : consistent calls r q := by
  induction q generalizing cur with
  | nil => simp [consistent]
  | cons j q ih =>
    cases j with
    | params p' => exact h
    | chunk c =>
      refine ⟨?_, ih _ (fun c hc' => hc c (List.mem_cons_of_mem _ hc')) h.2⟩
      rw [getElem?_last calls c (hc c (List.mem_cons_self))]; exact hl
    | pause => exact ih _ (fun c hc' => hc c (List.mem_cons_of_mem _ hc')) h

theorem finalParam_restart (cur r : PId) (q : List Item) (h : finalParam cur q = r) : finalParam r q = r := by
  induction q generalizing cur with
  | nil => rfl
  | cons j q ih =>
    cases j with
    | params p' => exact h
    | chunk c => exact ih _ h
    | pause => exact ih _ h

theorem no_chunk_of_hasChunk_false (w : Wk) (h : hasChunk w = false) (c : Nat) : Item.chunk c ∉ w.queue := by
  intro hm
  have : hasChunk w = true := by
    unfold hasChunk
    rw [List.any_eq_true]
    exact ⟨_, hm, rfl⟩
  rw [h] at this; cases this

theorem run_nil (s : Sys) : run s [] = some s := rfl

theorem run_cons (s : Sys) (e : Ev) (es : List Ev) :
    run s (e :: es) = (step s e).bind (fun s1 => run s1 es) := by
  simp [run, List.foldlM_cons]

theorem inv_init : Inv {} := by
  simp [Inv]

theorem inv_step (s s' : Sys) (e : Ev) (hi : Inv s) (h : step s e = some s') : Inv s' := by
  rcases s with ⟨workers, recorded, calls, log⟩
  obtain ⟨h1, h2, h3, h4, h5⟩ := hi
  simp only at h1 h2 h3 h4 h5
  cases e with
  | fresh n p =>
    simp only [step] at h
    split at h
    · cases h
      refine ⟨?_, ?_, ?_, ?_, ?_⟩
      · intro r hr; simp at hr; simp [hr]
      · simp
      · intro w hw
        simp only [List.mem_replicate] at hw
        obtain ⟨_, rfl⟩ := hw
        simp [consistent, finalParam]
      · intro w hw c hc
        simp only [List.mem_replicate] at hw
        obtain ⟨_, rfl⟩ := hw
        simp at hc
      · intro c q hm
        exact getElem?_append_of_some _ _ _ _ (h5 c q hm)
    · cases h
  | startCall p =>
    simp only [step] at h
    cases recorded with
    | none => simp at h
    | some r =>
      simp only at h
      split at h
      · cases h
      · rename_i hany
        have hno : ∀ w ∈ workers, ∀ c, Item.chunk c ∉ w.queue := by
          intro w hw c
          apply no_chunk_of_hasChunk_false
          cases hb : hasChunk w with
          | false => rfl
          | true => exact absurd (List.any_eq_true.mpr ⟨w, hw, hb⟩) hany
        split at h
        · rename_i hpr
          subst hpr
          cases h
          refine ⟨?_, ?_, ?_, ?_, ?_⟩
          · intro r hr; simp at hr; simp [hr]
          · intro hr; simp at hr
          · intro w hw
            exact ⟨consistent_mono _ _ _ _ (h3 w hw).1, (h3 w hw).2⟩
          · intro w hw c hc
            exact absurd hc (hno w hw c)
          · intro c q hm
            exact getElem?_append_of_some _ _ _ _ (h5 c q hm)
        · cases h
          refine ⟨?_, ?_, ?_, ?_, ?_⟩
          · intro r hr; simp at hr; simp [hr]
          · intro hr; simp at hr
          · intro w hw
            simp only [List.mem_map] at hw
            obtain ⟨w0, hw0, rfl⟩ := hw
            refine ⟨?_, ?_⟩
            · simp only [consistent_append_params]
              exact consistent_mono _ _ _ _ (h3 w0 hw0).1
            · intro r hr
              simp only [finalParam_append]
              simpa using hr
          · intro w hw c hc
            simp only [List.mem_map] at hw
            obtain ⟨w0, hw0, rfl⟩ := hw
            simp at hc
            exact absurd hc (hno w0 hw0 c)
          · intro c q hm
            exact getElem?_append_of_some _ _ _ _ (h5 c q hm)
  | dispatch k =>
    simp only [step] at h
    split at h
    · rename_i w c hwk hlen
      split at h
      · rename_i hsome
        cases h
        obtain ⟨r, rfl⟩ := Option.isSome_iff_exists.mp hsome
        have hwm : w ∈ workers := List.mem_of_getElem? hwk
        refine ⟨h1, ?_, ?_, ?_, h5⟩
        · intro hr; simp at hr
        · intro w' hw'
          rcases List.mem_or_eq_of_mem_set hw' with hw' | rfl
          · exact h3 w' hw'
          · refine ⟨?_, ?_⟩
            · simp only [consistent_append_chunk]
              refine ⟨(h3 w hwm).1, ?_⟩
              rw [(h3 w hwm).2 r rfl, getElem?_last calls c hlen.symm]
              exact h1 r rfl
            · intro r' hr'
              simp only [finalParam_append]
              exact (h3 w hwm).2 r' hr'
        · intro w' hw' c' hc'
          rcases List.mem_or_eq_of_mem_set hw' with hw' | rfl
          · exact h4 w' hw' c' hc'
          · simp at hc'
            rcases hc' with hc' | rfl
            · exact h4 w hwm c' hc'
            · exact hlen.symm
      · cases h
    · cases h
  | endCall =>
    simp only [step] at h
    split at h
    · cases h
      refine ⟨h1, ?_, ?_, ?_, h5⟩
      · intro hr; simp [h2 hr]
      · intro w hw
        simp only [List.mem_map] at hw
        obtain ⟨w0, hw0, rfl⟩ := hw
        simp only [consistent_append_pause, finalParam_append]
        exact h3 w0 hw0
      · intro w hw c hc
        simp only [List.mem_map] at hw
        obtain ⟨w0, hw0, rfl⟩ := hw
        simp at hc
        exact h4 w0 hw0 c hc
    · cases h
  | take k =>
    simp only [step] at h
    split at h
    · rename_i c i q hwk
      have hwm := List.mem_of_getElem? hwk
      have h3w := h3 _ hwm
      have h4w := h4 _ hwm
      simp only at h3w h4w
      cases i with
      | params p =>
        cases h
        refine ⟨h1, ?_, ?_, ?_, h5⟩
        · intro hr; have := h2 hr; subst this; simp at hwm
        · intro w' hw'
          rcases List.mem_or_eq_of_mem_set hw' with hw' | rfl
          · exact h3 w' hw'
          · exact h3w
        · intro w' hw' c' hc'
          rcases List.mem_or_eq_of_mem_set hw' with hw' | rfl
          · exact h4 w' hw' c' hc'
          · exact h4w c' (List.mem_cons_of_mem _ hc')
      | chunk call =>
        cases h
        refine ⟨h1, ?_, ?_, ?_, ?_⟩
        · intro hr; have := h2 hr; subst this; simp at hwm
        · intro w' hw'
          rcases List.mem_or_eq_of_mem_set hw' with hw' | rfl
          · exact h3 w' hw'
          · exact ⟨h3w.1.2, h3w.2⟩
        · intro w' hw' c' hc'
          rcases List.mem_or_eq_of_mem_set hw' with hw' | rfl
          · exact h4 w' hw' c' hc'
          · exact h4w c' (List.mem_cons_of_mem _ hc')
        · intro c' p' hm
          simp only [List.mem_append, List.mem_singleton, Prod.mk.injEq] at hm
          rcases hm with hm | ⟨rfl, rfl⟩
          · exact h5 c' p' hm
          · exact h3w.1.1
      | pause =>
        cases h
        refine ⟨h1, ?_, ?_, ?_, h5⟩
        · intro hr; have := h2 hr; subst this; simp at hwm
        · intro w' hw'
          rcases List.mem_or_eq_of_mem_set hw' with hw' | rfl
          · exact h3 w' hw'
          · exact h3w
        · intro w' hw' c' hc'
          rcases List.mem_or_eq_of_mem_set hw' with hw' | rfl
          · exact h4 w' hw' c' hc'
          · exact h4w c' (List.mem_cons_of_mem _ hc')
    · cases h
  | restart k =>
    simp only [step] at h
    split at h
    · rename_i _ _ w r hwk
      cases h
      have hwm := List.mem_of_getElem? hwk
      refine ⟨h1, ?_, ?_, ?_, h5⟩
      · intro hr; simp at hr
      · intro w' hw'
        rcases List.mem_or_eq_of_mem_set hw' with hw' | rfl
        · exact h3 w' hw'
        · refine ⟨consistent_restart _ _ _ _ (h4 w hwm) (h1 r rfl) (h3 w hwm).1, ?_⟩
          intro r' hr'
          cases hr'
          exact finalParam_restart _ _ _ ((h3 w hwm).2 r rfl)
      · intro w' hw' c' hc'
        rcases List.mem_or_eq_of_mem_set hw' with hw' | rfl
        · exact h4 w' hw' c' hc'
        · exact h4 w hwm c' hc'
    · cases h
  | stop =>
    simp only [step] at h
    cases h
    refine ⟨?_, ?_, ?_, ?_, h5⟩
    · intro r hr; simp at hr
    · simp
    · intro w hw; simp at hw
    · intro w hw; simp at hw

theorem inv_run : ∀ (es : List Ev) (s s' : Sys), Inv s → run s es = some s' → Inv s' := by
  intro es
  induction es with
  | nil => intro s s' hi h; simp [run_nil] at h; subst h; exact hi
  | cons e es ih =>
    intro s s' hi h
    rw [run_cons] at h
    cases hst : step s e with
    | none => simp [hst] at h
    | some s1 =>
      simp [hst] at h
      exact ih s1 s' (inv_step s s1 e hi hst) h

theorem reach_inv (s : Sys) (h : Reachable s) : Inv s := by
  obtain ⟨es, hes⟩ := h
  exact inv_run es _ s inv_init hes

/-- every chunk is run with the parameters of the call it belongs to — whatever the number of calls, whichever of them change the
parameters, however the workers' takes interleave with the dispatcher, whenever workers are restarted -/
theorem chunk_runs_with_its_calls_params (s : Sys) (h : Reachable s) (c : Nat) (p : PId) (hm : (c, p) ∈ s.log) :
    s.calls[c]? = some p :=
  (reach_inv s h).2.2.2.2 c p hm

/-- a worker that is (re)started at any moment holds, after working through what is queued for it, the parameters of the latest call -/
theorem restarted_worker_catches_up (s s' : Sys) (k : Nat) (h : Reachable s) (hs : step s (.restart k) = some s') :
    ∀ w ∈ s'.workers, ∀ r, s'.recorded = some r → finalParam w.cur w.queue = r := by
  intro w hw
  exact ((inv_step s s' (.restart k) (reach_inv s h) hs).2.2.1 w hw).2

/-- no pill is sent when a call has the parameters the pool has recorded, and then nothing about the workers changes -/
theorem same_params_no_pill (s s' : Sys) (p : PId) (hr : s.recorded = some p) (h : step s (.startCall p) = some s') :
    s'.workers = s.workers ∧ s'.recorded = some p := by
  simp only [step, hr] at h
  split at h
  · cases h
  · simp only [if_true] at h
    cases h
    exact ⟨rfl, rfl⟩

end Mpire.Proofs.ParamFlow
