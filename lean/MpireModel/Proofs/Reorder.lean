import MpireModel.Model.Reorder
/-! Helper lemmas and proofs for the ordering part of `Props/C01.lean`. Core Lean only (no Mathlib). -/
namespace Mpire.Proofs
open Mpire.Reorder

/-- every pair carries the value of `vals` at its key -/
def Valid {β} (vals : List β) (l : List (Nat × β)) : Prop := ∀ p ∈ l, vals[p.1]? = some p.2

structure Inv {β} (vals : List β) (seen : List (Nat × β)) (s : St β) : Prop where
  out : s.out = vals.take s.next
  tmp : s.tmp.Perm (seen.filter fun p => decide (s.next ≤ p.1))
  low : ∀ i, i < s.next → ∃ p ∈ seen, p.1 = i

theorem take_succ_of_get {β} (vals : List β) (n : Nat) (v : β) (h : vals[n]? = some v) :
    vals.take (n + 1) = vals.take n ++ [v] := by
  simp [List.take_add_one, h]

theorem flush_inv {β} (vals : List β) (seen : List (Nat × β)) (hv : Valid vals seen) (fuel : Nat) :
    ∀ s : St β, Inv vals seen s → Inv vals seen (flush fuel s) := by
  induction fuel with
  | zero => intro s h; exact h
  | succ f ih =>
    intro s h
    unfold flush
    split
    · next k v hf =>
      have hk : k = s.next := by have := List.find?_some hf; simpa using this
      have hm : (k, v) ∈ s.tmp := List.mem_of_find?_eq_some hf
      subst hk
      have hs : (s.next, v) ∈ seen := (List.mem_filter.1 (h.tmp.mem_iff.1 hm)).1
      apply ih
      refine ⟨?_, ?_, ?_⟩
      · simp only [h.out]
        exact (take_succ_of_get vals _ v (hv _ hs)).symm
      · have := h.tmp.filter (fun p => p.1 != s.next)
        rw [List.filter_filter] at this
        refine this.trans (List.Perm.of_eq (List.filter_congr ?_))
        intro p _
        rw [Bool.eq_iff_iff]
        simp only [Bool.and_eq_true, decide_eq_true_eq, bne_iff_ne, ne_eq]
        omega
      · intro i hi
        by_cases hi' : i = s.next
        · exact ⟨_, hs, hi'.symm⟩
        · exact h.low i (by simp at hi; omega)
    · exact h

theorem feed_inv {β} (vals : List β) (seen : List (Nat × β)) (r : Nat × β)
    (hv : Valid vals (seen ++ [r])) (hn : ((seen ++ [r]).map (·.1)).Nodup) (s : St β) (h : Inv vals seen s) :
    Inv vals (seen ++ [r]) (feed s r) := by
  have hvs : Valid vals seen := fun p hp => hv p (List.mem_append_left _ hp)
  have h' := flush_inv vals seen hvs (s.tmp.length + 1) s h
  have hr : ∀ p ∈ seen, p.1 ≠ r.1 := by
    intro p hp heq
    rw [List.map_append, List.nodup_append] at hn
    exact hn.2.2 p.1 (List.mem_map_of_mem hp) r.1 (by simp) heq
  unfold feed
  simp only
  generalize flush (s.tmp.length + 1) s = t at h'
  split
  · next he =>
    refine ⟨?_, ?_, ?_⟩
    · simp only [h'.out]
      exact (take_succ_of_get vals _ _ (he ▸ hv r (by simp))).symm
    · refine h'.tmp.trans (List.Perm.of_eq ?_)
      rw [List.filter_append]
      have : List.filter (fun p => decide (t.next + 1 ≤ p.1)) [r] = [] := by
        simp [he]
      rw [this, List.append_nil]
      apply List.filter_congr
      intro p hp
      have := hr p hp
      simp only [decide_eq_decide]
      omega
    · intro i hi
      by_cases hi' : i = t.next
      · exact ⟨r, by simp, by omega⟩
      · obtain ⟨p, hp, hpi⟩ := h'.low i (by simp at hi; omega)
        exact ⟨p, List.mem_append_left _ hp, hpi⟩
  · next he =>
    have hge : t.next ≤ r.1 := by
      apply Nat.le_of_not_lt
      intro hlt
      obtain ⟨p, hp, hpi⟩ := h'.low _ hlt
      exact hr p hp hpi
    refine ⟨h'.out, ?_, ?_⟩
    · rw [List.filter_append]
      have : List.filter (fun p => decide (t.next ≤ p.1)) [r] = [r] := by
        simp [hge]
      rw [this]
      exact h'.tmp.append_right _
    · intro i hi
      obtain ⟨p, hp, hpi⟩ := h'.low i hi
      exact ⟨p, List.mem_append_left _ hp, hpi⟩


theorem foldl_inv {β} (vals : List β) (rest : List (Nat × β)) :
    ∀ (seen : List (Nat × β)) (s : St β), Inv vals seen s → Valid vals (seen ++ rest) →
      ((seen ++ rest).map (·.1)).Nodup → Inv vals (seen ++ rest) (rest.foldl feed s) := by
  induction rest with
  | nil => intro seen s h _ _; simpa using h
  | cons r rs ih =>
    intro seen s h hv hn
    rw [List.append_cons] at hv hn ⊢
    rw [List.foldl_cons]
    apply ih (seen ++ [r]) (feed s r) _ hv hn
    apply feed_inv vals seen r _ _ s h
    · exact fun p hp => hv p (List.mem_append_left _ hp)
    · rw [List.map_append] at hn
      exact (List.nodup_append.1 hn).1

theorem inv_init {β} (vals : List β) : Inv vals [] ({} : St β) :=
  ⟨by simp, by simp, fun i hi => by simp at hi⟩

theorem reorder_run_inv {β} (vals : List β) (seen : List (Nat × β)) (hv : Valid vals seen)
    (hn : (seen.map (·.1)).Nodup) : Inv vals seen (seen.foldl feed {}) := by
  have := foldl_inv vals seen [] {} (inv_init vals) (by simpa using hv) (by simpa using hn)
  simpa using this

/-! ### facts about `tagged` -/

def taggedFrom {β} (k : Nat) (vals : List β) : List (Nat × β) := (vals.zipIdx k).map fun (v, i) => (i, v)

theorem tagged_eq {β} (vals : List β) : tagged vals = taggedFrom 0 vals := rfl

theorem taggedFrom_cons {β} (k : Nat) (v : β) (vs : List β) :
    taggedFrom k (v :: vs) = (k, v) :: taggedFrom (k + 1) vs := by
  simp [taggedFrom, List.zipIdx_cons]

theorem taggedFrom_ge {β} (vals : List β) : ∀ k, ∀ p ∈ taggedFrom k vals, k ≤ p.1 := by
  induction vals with
  | nil => intro k p hp; simp [taggedFrom] at hp
  | cons v vs ih =>
    intro k p hp
    rw [taggedFrom_cons, List.mem_cons] at hp
    rcases hp with rfl | hp
    · exact Nat.le_refl _
    · exact Nat.le_of_succ_le (ih _ p hp)

theorem taggedFrom_sorted {β} (vals : List β) : ∀ k, (taggedFrom k vals).Pairwise (fun a b => a.1 < b.1) := by
  induction vals with
  | nil => intro k; simp [taggedFrom]
  | cons v vs ih =>
    intro k
    rw [taggedFrom_cons, List.pairwise_cons]
    exact ⟨fun p hp => taggedFrom_ge vs _ p hp, ih _⟩

theorem taggedFrom_filter {β} (n : Nat) (vals : List β) : ∀ k,
    ((taggedFrom k vals).filter fun p => decide (n ≤ p.1)).map (·.2) = vals.drop (n - k) := by
  induction vals with
  | nil => intro k; simp [taggedFrom]
  | cons v vs ih =>
    intro k
    rw [taggedFrom_cons, List.filter_cons]
    by_cases h : n ≤ k
    · have h0 : n - k = 0 := by omega
      have h1 : n - (k + 1) = 0 := by omega
      have := ih (k + 1)
      rw [h1] at this
      simp [h, h0, this]
    · have h0 : n - k = (n - (k + 1)) + 1 := by omega
      have := ih (k + 1)
      simp [h, h0, this]

theorem tagged_valid {β} (vals : List β) : Valid vals (tagged vals) := by
  intro p hp
  simp only [tagged, List.mem_map] at hp
  obtain ⟨⟨v, i⟩, hm, rfl⟩ := hp
  simpa [List.mem_zipIdx_iff_getElem?] using hm

theorem nodup_of_sorted {l : List Nat} (h : l.Pairwise (· < ·)) : l.Nodup :=
  h.imp (fun h => Nat.ne_of_lt h)

theorem tagged_keys_nodup {β} (vals : List β) : ((tagged vals).map (·.1)).Nodup := by
  apply nodup_of_sorted
  rw [List.pairwise_map]
  exact taggedFrom_sorted vals 0

/-! ### insertion sort -/

theorem insertByKey_perm {β} (r : Nat × β) (l : List (Nat × β)) : (insertByKey r l).Perm (r :: l) := by
  induction l with
  | nil => exact List.Perm.refl _
  | cons x xs ih =>
    unfold insertByKey
    split
    · exact List.Perm.refl _
    · exact (ih.cons x).trans (List.Perm.swap r x xs)

theorem sortByKey_perm {β} (l : List (Nat × β)) : (sortByKey l).Perm l := by
  induction l with
  | nil => exact List.Perm.refl _
  | cons x xs ih => exact (insertByKey_perm x _).trans (ih.cons x)

theorem insertByKey_sorted {β} (r : Nat × β) (l : List (Nat × β)) (h : l.Pairwise (fun a b => a.1 ≤ b.1)) :
    (insertByKey r l).Pairwise (fun a b => a.1 ≤ b.1) := by
  induction l with
  | nil => simp [insertByKey]
  | cons x xs ih =>
    rw [List.pairwise_cons] at h
    unfold insertByKey
    split
    · next hlt =>
      refine List.pairwise_cons.2 ⟨?_, List.pairwise_cons.2 h⟩
      intro p hp
      rcases List.mem_cons.1 hp with rfl | hp
      · exact Nat.le_of_lt hlt
      · exact Nat.le_trans (Nat.le_of_lt hlt) (h.1 p hp)
    · next hge =>
      refine List.pairwise_cons.2 ⟨?_, ih h.2⟩
      intro p hp
      rcases List.mem_cons.1 ((insertByKey_perm r xs).mem_iff.1 hp) with rfl | hp
      · exact Nat.le_of_not_lt hge
      · exact h.1 p hp

theorem sortByKey_sorted {β} (l : List (Nat × β)) : (sortByKey l).Pairwise (fun a b => a.1 ≤ b.1) := by
  induction l with
  | nil => simp [sortByKey]
  | cons x xs ih => exact insertByKey_sorted x _ ih

theorem eq_of_perm_of_sorted {β} : ∀ (a b : List (Nat × β)), a.Perm b →
    a.Pairwise (fun x y => x.1 < y.1) → b.Pairwise (fun x y => x.1 < y.1) → a = b
  | [], b, h, _, _ => (List.nil_perm.1 h).symm
  | x :: a, [], h, _, _ => by simp at h
  | x :: a, y :: b, h, ha, hb => by
    rw [List.pairwise_cons] at ha hb
    have hxy : x = y := by
      rcases List.mem_cons.1 (h.mem_iff.1 (List.mem_cons_self)) with hx | hx
      · exact hx
      · rcases List.mem_cons.1 (h.mem_iff.2 (List.mem_cons_self)) with hy | hy
        · exact hy.symm
        · have := hb.1 x hx
          have := ha.1 y hy
          omega
    subst hxy
    rw [eq_of_perm_of_sorted a b (List.Perm.cons_inv h) ha.2 hb.2]

theorem sortByKey_eq {β} (l l' : List (Nat × β)) (h : l.Perm l') (hs : l'.Pairwise (fun x y => x.1 < y.1)) :
    sortByKey l = l' := by
  have hp : (sortByKey l).Perm l' := (sortByKey_perm l).trans h
  apply eq_of_perm_of_sorted _ _ hp _ hs
  have hnd : ((sortByKey l).map (·.1)).Nodup :=
    (hp.map _).nodup_iff.2 (nodup_of_sorted (List.pairwise_map.2 hs))
  have hnd' : (sortByKey l).Pairwise (fun x y => x.1 ≠ y.1) := List.pairwise_map.1 hnd
  exact ((sortByKey_sorted l).and hnd').imp (fun h => Nat.lt_of_le_of_ne h.1 h.2)

/-! ### the four theorems -/

theorem reorder_prefix {β} (vals : List β) (arrivals : List (Nat × β)) (h : arrivals.Perm (tagged vals)) (k : Nat) :
    imapPrefix (arrivals.take k) <+: vals := by
  have hv : Valid vals (arrivals.take k) :=
    fun p hp => tagged_valid vals p (h.mem_iff.1 (List.mem_of_mem_take hp))
  have hn : ((arrivals.take k).map (·.1)).Nodup :=
    (((h.map _).nodup_iff.2 (tagged_keys_nodup vals))).sublist ((List.take_sublist _ _).map _)
  have := (reorder_run_inv vals _ hv hn).out
  unfold imapPrefix
  rw [this]
  exact List.take_prefix _ _

theorem reorder_complete {β} (vals : List β) (arrivals : List (Nat × β)) (h : arrivals.Perm (tagged vals)) :
    imap arrivals = vals := by
  have hv : Valid vals arrivals := fun p hp => tagged_valid vals p (h.mem_iff.1 hp)
  have hn : (arrivals.map (·.1)).Nodup := (h.map _).nodup_iff.2 (tagged_keys_nodup vals)
  have hi := reorder_run_inv vals _ hv hn
  unfold imap finish
  generalize arrivals.foldl feed {} = s at hi
  have hp : s.tmp.Perm ((tagged vals).filter fun p => decide (s.next ≤ p.1)) := hi.tmp.trans (h.filter _)
  have hs : ((tagged vals).filter fun p => decide (s.next ≤ p.1)).Pairwise (fun x y => x.1 < y.1) :=
    (taggedFrom_sorted vals 0).sublist List.filter_sublist
  rw [sortByKey_eq _ _ hp hs, hi.out, tagged_eq, taggedFrom_filter, Nat.sub_zero, List.take_append_drop]

theorem map_sort {β} (vals : List β) (results : List (Nat × β)) (h : results.Perm (tagged vals)) :
    mapSort results = vals := by
  unfold mapSort
  rw [sortByKey_eq _ _ h (taggedFrom_sorted vals 0)]
  have := taggedFrom_filter 0 vals 0
  rw [List.filter_eq_self.2 (by simp)] at this
  simpa [tagged_eq] using this

theorem tagged_range {β} (f : Nat → β) (m : Nat) :
    tagged ((List.range m).map f) = (List.range m).map fun t => (t, f t) := by
  apply List.ext_getElem
  · simp [tagged]
  · intro i h1 h2
    simp [tagged]

end Mpire.Proofs
