import MpireModel.Model.ResultIter
/-! Proofs about the result iterator. Core Lean only. -/
namespace Mpire.Proofs.ResultIter
open Mpire.ResultIter

def Inv (s : It) : Prop := (s.waiting = true → s.items = []) ∧ s.nReceived = s.nReturned + s.items.length

theorem inv_init (n : Option Nat) : Inv (init n) := by simp [Inv, init]

theorem step_inv (s : It) (op : Op) (h : Inv s) : Inv (step s op).1 := by
  obtain ⟨h1, h2⟩ := h
  cases op with
  | setOk v =>
    simp only [step]; unfold Inv
    by_cases hw : s.waiting = true
    · have := h1 hw
      simp [hw, this] at h2 ⊢; omega
    · simp [hw]; omega
  | setErr e => exact ⟨h1, h2⟩
  | setLength n =>
    simp only [step]; unfold Inv
    cases hn : s.nTasks with
    | some m => simp only; split <;> exact ⟨h1, h2⟩
    | none => simp only; split <;> simp_all
  | next b =>
    simp only [step]; unfold Inv
    by_cases hw : s.waiting = true
    · simp [hw]; exact ⟨h1 hw, h2⟩
    · simp only [hw]
      cases hi : s.items with
      | nil => simp only [Bool.false_eq_true, ↓reduceIte]; split <;> (try split) <;> simp_all
      | cons x r => simp [hi] at h2 ⊢; simp_all; omega
  | timeout =>
    simp only [step]; unfold Inv
    split <;> simp_all

theorem step_fifo (s : It) (op : Op) (h : Inv s) :
    values [(step s op).2] ++ (step s op).1.items = s.items ++ oks [op] := by
  obtain ⟨h1, _⟩ := h
  cases op with
  | setOk v =>
    simp only [step]
    by_cases hw : s.waiting = true
    · simp [hw, h1 hw, values, oks]
    · simp [hw, values, oks]
  | setErr e => simp [step, values, oks]
  | setLength n =>
    simp only [step]
    cases hn : s.nTasks with
    | some m => simp only; split <;> simp [values, oks]
    | none => simp only; split <;> simp [values, oks]
  | next b =>
    simp only [step]
    by_cases hw : s.waiting = true
    · simp [hw, values, oks]
    · simp only [hw]
      cases hi : s.items with
      | nil => simp only [Bool.false_eq_true, ↓reduceIte]; split <;> (try split) <;> simp [values, oks, hi]
      | cons x r => simp [values, oks]
  | timeout => simp only [step]; split <;> simp [values, oks]

theorem values_cons (o : Out) (os : List Out) : values (o :: os) = values [o] ++ values os := by
  cases o <;> simp [values]

theorem oks_cons (o : Op) (os : List Op) : oks (o :: os) = oks [o] ++ oks os := by
  cases o <;> simp [oks]

theorem run_inv (ops : List Op) (s : It) (h : Inv s) : Inv (run s ops).1 := by
  induction ops generalizing s with
  | nil => simpa [run]
  | cons op r ih => simp only [run]; exact ih _ (step_inv s op h)

theorem run_fifo (ops : List Op) (s : It) (h : Inv s) :
    values (run s ops).2 ++ (run s ops).1.items = s.items ++ oks ops := by
  induction ops generalizing s with
  | nil => simp [run, values, oks]
  | cons op r ih =>
    simp only [run]
    rw [values_cons, oks_cons, List.append_assoc, ih _ (step_inv s op h), ← List.append_assoc, step_fifo s op h,
      List.append_assoc]

theorem stop_means_all (s : It) (op : Op) (h : Inv s) (hs : (step s op).2 = .stop) :
    (step s op).1.items = [] ∧ (step s op).1.nTasks = some (step s op).1.nReturned ∧
    (step s op).1.nReceived = (step s op).1.nReturned ∧ (step s op).1.waiting = false := by
  obtain ⟨h1, h2⟩ := h
  cases op with
  | setOk v =>
    simp only [step] at hs
    by_cases hw : s.waiting = true
    · simp [hw, h1 hw] at hs
    · simp [hw] at hs
  | setErr e => simp [step] at hs
  | setLength n =>
    simp only [step] at hs ⊢
    cases hn : s.nTasks with
    | some m => simp only [hn] at hs; split at hs <;> simp at hs
    | none =>
      simp only [hn] at hs ⊢
      split at hs
      · rename_i hc
        simp only [hc, ↓reduceIte]
        simp [exhausted] at hc
        have := h1 hc.1
        simp [this] at h2 ⊢
        exact ⟨hc.2, h2⟩
      · simp at hs
  | next b =>
    simp only [step] at hs ⊢
    by_cases hw : s.waiting = true
    · simp [hw] at hs
    · simp only [hw] at hs ⊢
      cases hi : s.items with
      | cons x r => simp [hi] at hs
      | nil =>
        simp only [hi, Bool.false_eq_true, ↓reduceIte] at hs ⊢
        split at hs
        · rename_i hc
          simp only [hc, ↓reduceIte]
          simp [exhausted] at hc
          simp [hi] at h2
          simp_all
        · split at hs <;> simp at hs
  | timeout => simp only [step] at hs; split at hs <;> simp at hs

/-- taking everything that is there, then once more -/
theorem drain (s : It) (n : Nat) (b : Bool) (hw : s.waiting = false) (hn : s.nTasks = some n)
    (hr : s.nReturned + s.items.length = n) :
    (run s (List.replicate (s.items.length + 1) (.next b))).2 = s.items.map .value ++ [.stop] := by
  generalize hl : s.items = l
  induction l generalizing s with
  | nil =>
    simp [hl] at hr
    simp [run, step, hw, hl, exhausted, hn, hr]
  | cons x r ih =>
    simp [hl] at hr
    have := ih { s with items := r, nReturned := s.nReturned + 1 } hw hn (by simp; omega) rfl
    simp only [List.length_cons, List.replicate_succ, run, step, hw, hl] at this ⊢
    simp only [Bool.false_eq_true, ↓reduceIte, List.map_cons, List.cons_append, List.cons.injEq, true_and]
    simpa [List.replicate_succ] using this

end Mpire.Proofs.ResultIter
