import MpireModel.Model.Signal
/-! Proofs for `Props/C05.lean` / `Props/C17.lean` (signal state).  Helpers live in `Mpire.Proofs.Signal`. -/
namespace Mpire.Proofs.Signal
open Mpire.Signal

/-- a state as the pool finds it: some handler installed, no context manager of ours active -/
def idle (h : H) (n : Nat) : St := { handler := h, nextId := n }

/-- the handler installed when the active context managers are `fs` (innermost first) and `h` was found -/
def handlerOf (h : H) : List Frame → H
  | [] => h
  | .delayed id _ _ :: _ => .delayed id
  | .disabled _ :: _ => .ign

/-- every frame saved the handler determined by the frames below it -/
def WF (h : H) : List Frame → Prop
  | [] => True
  | .delayed _ old _ :: fs => old = handlerOf h fs ∧ WF h fs
  | .disabled saved :: fs => saved = handlerOf h fs ∧ WF h fs

structure Good (h : H) (s : St) : Prop where
  handler_eq : s.handler = handlerOf h s.stack
  wf : WF h s.stack

/-- signals accounted for -/
def T (s : St) : Nat := s.raised + s.dropped + pending s.stack

@[simp] theorem pending_nil : pending [] = 0 := rfl
@[simp] theorem pending_delayed_true (i : Nat) (o : H) (fs : List Frame) :
    pending (.delayed i o true :: fs) = pending fs + 1 := by simp [pending]
@[simp] theorem pending_delayed_false (i : Nat) (o : H) (fs : List Frame) :
    pending (.delayed i o false :: fs) = pending fs := by simp [pending]
@[simp] theorem pending_disabled (o : H) (fs : List Frame) :
    pending (.disabled o :: fs) = pending fs := by simp [pending]

theorem good_idle (h : H) (n : Nat) : Good h (idle h n) := ⟨rfl, trivial⟩

/-- delivering a signal to the installed handler of a good state -/
theorem deliver_good (h : H) (hx : h = .dfl ∨ h = .ign) (s : St) (hg : Good h s) :
    Good h (deliver s s.handler) ∧ T s ≤ T (deliver s s.handler) ∧ T (deliver s s.handler) ≤ T s + 1 ∧
      0 < T (deliver s s.handler) := by
  obtain ⟨hh, hw⟩ := hg
  obtain ⟨handler, stack, raised, dropped, nextId⟩ := s
  simp only at hh hw
  subst hh
  cases stack with
  | nil =>
    rcases hx with rfl | rfl
    · refine ⟨⟨rfl, trivial⟩, ?_, ?_, ?_⟩ <;> simp [deliver, handlerOf, T] <;> omega
    · refine ⟨⟨rfl, trivial⟩, ?_, ?_, ?_⟩ <;> simp [deliver, handlerOf, T] <;> omega
  | cons f fs =>
    cases f with
    | delayed id old r =>
      refine ⟨⟨?_, ?_⟩, ?_, ?_, ?_⟩
      · simp [deliver, handlerOf, markReceived]
      · simpa [deliver, handlerOf, markReceived, WF] using hw
      all_goals cases r <;> simp [deliver, handlerOf, markReceived, T] <;> omega
    | disabled saved =>
      refine ⟨⟨rfl, hw⟩, ?_, ?_, ?_⟩ <;> simp [deliver, handlerOf, T] <;> omega

/-- one operation on a good state -/
theorem step_good (h : H) (hx : h = .dfl ∨ h = .ign) (s s' : St) (o : Op) (hg : Good h s) (hs : step s o = some s') :
    Good h s' ∧ T s' ≤ T s + (if o = .sigint then 1 else 0) ∧ (0 < T s → 0 < T s') ∧ (o = .sigint → 0 < T s') := by
  cases o with
  | enterDelayed =>
    simp only [step, Option.some.injEq] at hs
    subst hs
    refine ⟨⟨rfl, hg.handler_eq, hg.wf⟩, ?_, ?_, ?_⟩ <;> simp [T]
  | enterDisabled =>
    simp only [step, Option.some.injEq] at hs
    subst hs
    refine ⟨⟨rfl, hg.handler_eq, hg.wf⟩, ?_, ?_, ?_⟩ <;> simp [T]
  | sigint =>
    simp only [step, Option.some.injEq] at hs
    subst hs
    have := deliver_good h hx s hg
    exact ⟨this.1, by simpa using this.2.2.1, fun _ => this.2.2.2, fun _ => this.2.2.2⟩
  | exit =>
    obtain ⟨hh, hw⟩ := hg
    obtain ⟨handler, stack, raised, dropped, nextId⟩ := s
    simp only at hh hw
    cases stack with
    | nil => simp [step] at hs
    | cons f fs =>
      cases f with
      | disabled saved =>
        simp only [step, Option.some.injEq] at hs
        subst hs
        refine ⟨⟨hw.1, hw.2⟩, ?_, ?_, ?_⟩ <;> simp [T]
      | delayed id old r =>
        simp only [step, Option.some.injEq] at hs
        have hg1 : Good h { handler := old, stack := fs, raised := raised, dropped := dropped, nextId := nextId } :=
          ⟨hw.1, hw.2⟩
        cases r with
        | false =>
          simp only [Bool.false_eq_true, if_false] at hs
          subst hs
          refine ⟨hg1, ?_, ?_, ?_⟩ <;> simp [T]
        | true =>
          simp only [if_true] at hs
          subst hs
          have := deliver_good h hx _ hg1
          simp only at this
          refine ⟨this.1, ?_, ?_, ?_⟩ <;> simp [T] at this ⊢ <;> omega

theorem run_nil (s : St) : run s [] = some s := rfl

theorem run_cons (s : St) (o : Op) (ops : List Op) : run s (o :: ops) = (step s o).bind (fun s1 => run s1 ops) := by
  simp [run, List.foldlM_cons]

theorem countSig_cons (o : Op) (ops : List Op) : countSig (o :: ops) = countSig ops + (if o = .sigint then 1 else 0) := by
  simp only [countSig, List.count_cons]
  cases o <;> simp

/-- lifting through a run, with `k` the signals seen so far -/
theorem run_good (h : H) (hx : h = .dfl ∨ h = .ign) (ops : List Op) : ∀ (s s' : St) (k : Nat), Good h s → T s ≤ k →
    (0 < k → 0 < T s) → run s ops = some s' →
    Good h s' ∧ T s' ≤ k + countSig ops ∧ (0 < k + countSig ops → 0 < T s') := by
  induction ops with
  | nil =>
    intro s s' k hg hk hp hr
    simp only [run_nil, Option.some.injEq] at hr
    subst hr
    exact ⟨hg, by simpa [countSig] using hk, by simpa [countSig] using hp⟩
  | cons o ops ih =>
    intro s s' k hg hk hp hr
    rw [run_cons, Option.bind_eq_some_iff] at hr
    obtain ⟨s1, hs1, hr1⟩ := hr
    have hst := step_good h hx s s1 o hg hs1
    have := ih s1 s' (k + (if o = .sigint then 1 else 0)) hst.1 (by omega) (by
      intro hk'
      by_cases ho : o = .sigint
      · exact hst.2.2.2 ho
      · simp [ho] at hk'
        exact hst.2.2.1 (hp hk')) hr1
    rw [countSig_cons]
    refine ⟨this.1, by omega, fun hpos => this.2.2 (by omega)⟩

theorem run_idle (h : H) (n : Nat) (hx : h = .dfl ∨ h = .ign) (ops : List Op) (s : St)
    (hr : run (idle h n) ops = some s) :
    Good h s ∧ T s ≤ countSig ops ∧ (0 < countSig ops → 0 < T s) := by
  have := run_good h hx ops (idle h n) s 0 (good_idle h n) (by simp [T, idle]) (by simp) hr
  simpa using this

theorem handler_balanced (h : H) (n : Nat) (hx : h = .dfl ∨ h = .ign) (ops : List Op) (s : St)
    (hr : run (idle h n) ops = some s) (he : s.stack = []) : s.handler = h := by
  have := (run_idle h n hx ops s hr).1.handler_eq
  rw [he] at this
  exact this

theorem signals_not_invented (h : H) (n : Nat) (hx : h = .dfl ∨ h = .ign) (ops : List Op) (s : St)
    (hr : run (idle h n) ops = some s) :
    s.raised + s.dropped + pending s.stack ≤ countSig ops :=
  (run_idle h n hx ops s hr).2.1

theorem signals_not_lost (h : H) (n : Nat) (hx : h = .dfl ∨ h = .ign) (ops : List Op) (s : St)
    (hr : run (idle h n) ops = some s) (hc : 0 < countSig ops) :
    0 < s.raised + s.dropped + pending s.stack :=
  (run_idle h n hx ops s hr).2.2 hc

theorem single_signal_once (h : H) (n : Nat) (hx : h = .dfl ∨ h = .ign) (ops : List Op) (s : St)
    (hr : run (idle h n) ops = some s) (he : s.stack = []) (h1 : countSig ops = 1) :
    s.raised + s.dropped = 1 := by
  have := run_idle h n hx ops s hr
  simp only [T, he, pending_nil] at this
  omega

/-- no `DisableKeyboardInterruptSignal` frame is active -/
def AllDelayed : List Frame → Prop
  | [] => True
  | .delayed _ _ _ :: fs => AllDelayed fs
  | .disabled _ :: _ => False

theorem deliver_noIgn (s : St) (hh : s.handler = handlerOf .dfl s.stack) (ha : AllDelayed s.stack) :
    AllDelayed (deliver s s.handler).stack ∧ (deliver s s.handler).dropped = s.dropped := by
  obtain ⟨handler, stack, raised, dropped, nextId⟩ := s
  simp only at hh ha
  subst hh
  cases stack with
  | nil => simp [deliver, handlerOf, AllDelayed]
  | cons f fs =>
    cases f with
    | delayed id old r => simpa [deliver, handlerOf, markReceived, AllDelayed] using ha
    | disabled saved => exact absurd ha (by simp [AllDelayed])

theorem step_noIgn (s s' : St) (o : Op) (hg : Good .dfl s) (ha : AllDelayed s.stack) (ho : o ≠ .enterDisabled)
    (hs : step s o = some s') : AllDelayed s'.stack ∧ s'.dropped = s.dropped := by
  cases o with
  | enterDelayed =>
    simp only [step, Option.some.injEq] at hs
    subst hs
    exact ⟨ha, rfl⟩
  | enterDisabled => exact absurd rfl ho
  | sigint =>
    simp only [step, Option.some.injEq] at hs
    subst hs
    exact deliver_noIgn s hg.handler_eq ha
  | exit =>
    obtain ⟨hh, hw⟩ := hg
    obtain ⟨handler, stack, raised, dropped, nextId⟩ := s
    simp only at hh hw ha
    cases stack with
    | nil => simp [step] at hs
    | cons f fs =>
      cases f with
      | disabled saved => exact absurd ha (by simp [AllDelayed])
      | delayed id old r =>
        simp only [step, Option.some.injEq] at hs
        cases r with
        | false =>
          simp only [Bool.false_eq_true, if_false] at hs
          subst hs
          exact ⟨ha, rfl⟩
        | true =>
          simp only [if_true] at hs
          subst hs
          exact deliver_noIgn { handler := old, stack := fs, raised := raised, dropped := dropped, nextId := nextId }
            hw.1 ha

theorem run_noIgn (ops : List Op) : ∀ (s s' : St), Good .dfl s → AllDelayed s.stack →
    (∀ o ∈ ops, o ≠ .enterDisabled) → run s ops = some s' → s'.dropped = s.dropped := by
  induction ops with
  | nil =>
    intro s s' _ _ _ hr
    simp only [run_nil, Option.some.injEq] at hr
    subst hr
    rfl
  | cons o ops ih =>
    intro s s' hg ha hnd hr
    rw [run_cons, Option.bind_eq_some_iff] at hr
    obtain ⟨s1, hs1, hr1⟩ := hr
    have hst := step_noIgn s s1 o hg ha (hnd o List.mem_cons_self) hs1
    have hg1 := (step_good .dfl (Or.inl rfl) s s1 o hg hs1).1
    rw [ih s1 s' hg1 hst.1 (fun o' ho' => hnd o' (List.mem_cons_of_mem _ ho')) hr1, hst.2]

theorem dropped_only_when_ignored (n : Nat) (ops : List Op) (s : St) (hr : run (idle .dfl n) ops = some s)
    (hnd : ∀ o ∈ ops, o ≠ .enterDisabled) : s.dropped = 0 :=
  run_noIgn ops (idle .dfl n) s (good_idle .dfl n) trivial hnd hr

theorem interrupt_reaches_caller (n : Nat) (ops : List Op) (s : St) (hr : run (idle .dfl n) ops = some s)
    (hnd : ∀ o ∈ ops, o ≠ .enterDisabled) (he : s.stack = []) (hc : 0 < countSig ops) : 0 < s.raised := by
  have h1 := signals_not_lost .dfl n (Or.inl rfl) ops s hr hc
  have h2 := dropped_only_when_ignored n ops s hr hnd
  rw [he, h2] at h1
  simpa using h1

end Mpire.Proofs.Signal
