import MpireModel.Model.Chunk
import Mathlib.Tactic.Linarith
import Mathlib.Tactic.Ring
import Mathlib.Algebra.Order.Field.Rat
import Mathlib.Data.Rat.Cast.Order
/-! Helper lemmas for `Props/C14.lean`. -/
namespace Mpire.Proofs
open Mpire

/-! ## One-step unfoldings of `chunkLoop` -/

theorem want_ne_zero {α} (A : Arith α) (cur : α) : A.want cur ≠ 0 := by
  have := A.want_pos cur; omega

theorem chunkLoop_nil {α β} (A : Arith α) (c : α) (lim : Option Nat) (cur : α) (ret : Nat) :
    chunkLoop A c lim ([] : List β) cur ret = [] := by
  rw [chunkLoop.eq_def]; simp

theorem chunkLoop_none {α β} (A : Arith α) (c : α) (xs : List β) (cur : α) (ret : Nat) (h : xs ≠ []) :
    chunkLoop A c none xs cur ret =
      xs.take (A.want cur) ::
        chunkLoop A c none (xs.drop (A.want cur)) (A.next c cur) (ret + min (A.want cur) xs.length) := by
  rw [chunkLoop]; simp [want_ne_zero, h]

theorem chunkLoop_some_cut {α β} (A : Arith α) (c : α) (l : Nat) (xs : List β) (cur : α) (ret : Nat)
    (h : xs ≠ []) (hgt : l < ret + min (A.want cur) xs.length) :
    chunkLoop A c (some l) xs cur ret = if l - ret = 0 then [] else [xs.take (l - ret)] := by
  rw [chunkLoop]
  have : min (l - ret) (A.want cur) = l - ret := by omega
  simp [want_ne_zero, h, hgt, List.take_take, this]

theorem chunkLoop_some_go {α β} (A : Arith α) (c : α) (l : Nat) (xs : List β) (cur : α) (ret : Nat)
    (h : xs ≠ []) (hle : ret + min (A.want cur) xs.length ≤ l) :
    chunkLoop A c (some l) xs cur ret =
      xs.take (A.want cur) ::
        chunkLoop A c (some l) (xs.drop (A.want cur)) (A.next c cur) (ret + min (A.want cur) xs.length) := by
  rw [chunkLoop]
  simp [want_ne_zero, h, Nat.not_lt.2 hle]

/-! ## The loop on sizes only -/

/-- The sizes of the chunks the loop yields when `avail` elements are still going to be yielded. -/
def sizesLoop {α} (A : Arith α) (c : α) (avail : Nat) (cur : α) : List Nat :=
  if _h : avail = 0 then []
  else min (A.want cur) avail :: sizesLoop A c (avail - A.want cur) (A.next c cur)
termination_by avail
decreasing_by have := A.want_pos cur; omega

theorem sizesLoop_zero {α} (A : Arith α) (c : α) (cur : α) : sizesLoop A c 0 cur = [] := by
  rw [sizesLoop]; simp

theorem sizesLoop_pos {α} (A : Arith α) (c : α) (avail : Nat) (cur : α) (h : avail ≠ 0) :
    sizesLoop A c avail cur =
      min (A.want cur) avail :: sizesLoop A c (avail - A.want cur) (A.next c cur) := by
  rw [sizesLoop]; simp [h]

theorem countLoop_eq {α} (A : Arith α) (c : α) (todo : Nat) (cur : α) :
    countLoop A c todo cur = (sizesLoop A c todo cur).length := by
  induction todo using Nat.strong_induction_on generalizing cur with
  | _ todo ih =>
    by_cases h : todo = 0
    · subst h; rw [countLoop, sizesLoop_zero]; simp
    · have := A.want_pos cur
      rw [countLoop, sizesLoop_pos A c todo cur h, dif_neg h, ih _ (by omega)]
      simp; omega

/-! ## Structure of `chunkLoop` (any arithmetic) -/

theorem chunkLoop_none_spec {α β} (A : Arith α) (c : α) (n : Nat) :
    ∀ (xs : List β) (cur : α) (ret : Nat), xs.length = n →
      (chunkLoop A c none xs cur ret).flatten = xs ∧
      (∀ ch ∈ chunkLoop A c none xs cur ret, ch ≠ []) ∧
      (chunkLoop A c none xs cur ret).map List.length = sizesLoop A c xs.length cur := by
  induction n using Nat.strong_induction_on with
  | _ n ih =>
    intro xs cur ret hn
    by_cases h : xs = []
    · subst h; simp [chunkLoop_nil, sizesLoop_zero]
    · have hk := A.want_pos cur
      have hpos : xs.length ≠ 0 := by simpa using h
      obtain ⟨h1, h2, h3⟩ := ih (xs.drop (A.want cur)).length (by simp; omega)
        (xs.drop (A.want cur)) (A.next c cur) (ret + min (A.want cur) xs.length) rfl
      rw [chunkLoop_none A c xs cur ret h]
      refine ⟨?_, ?_, ?_⟩
      · simp [h1]
      · intro ch hch
        rcases List.mem_cons.1 hch with rfl | hch
        · simp [want_ne_zero, h]
        · exact h2 ch hch
      · rw [sizesLoop_pos A c _ cur hpos]
        simp [h3]

theorem chunkLoop_some_spec {α β} (A : Arith α) (c : α) (l : Nat) (n : Nat) :
    ∀ (xs : List β) (cur : α) (ret : Nat), xs.length = n →
      (chunkLoop A c (some l) xs cur ret).flatten = xs.take (l - ret) ∧
      (∀ ch ∈ chunkLoop A c (some l) xs cur ret, ch ≠ []) ∧
      (chunkLoop A c (some l) xs cur ret).map List.length =
        sizesLoop A c (min xs.length (l - ret)) cur := by
  induction n using Nat.strong_induction_on with
  | _ n ih =>
    intro xs cur ret hn
    by_cases h : xs = []
    · subst h; simp [chunkLoop_nil, sizesLoop_zero]
    · have hk := A.want_pos cur
      have hpos : xs.length ≠ 0 := by simpa using h
      by_cases hgt : l < ret + min (A.want cur) xs.length
      · rw [chunkLoop_some_cut A c l xs cur ret h hgt]
        by_cases h0 : l - ret = 0
        · simp [h0, sizesLoop_zero]
        · have hav : min xs.length (l - ret) = l - ret := by omega
          have hav' : l - ret - A.want cur = 0 := by omega
          have hm : min (A.want cur) (l - ret) = l - ret := by omega
          rw [if_neg h0, hav, sizesLoop_pos A c _ cur h0, hav', sizesLoop_zero, hm]
          refine ⟨by simp, ?_, by simp; omega⟩
          intro ch hch
          rw [List.mem_singleton] at hch
          subst hch
          simp [h0, h]
      · have hle : ret + min (A.want cur) xs.length ≤ l := by omega
        obtain ⟨h1, h2, h3⟩ := ih (xs.drop (A.want cur)).length (by simp; omega)
          (xs.drop (A.want cur)) (A.next c cur) (ret + min (A.want cur) xs.length) rfl
        rw [chunkLoop_some_go A c l xs cur ret h hle]
        refine ⟨?_, ?_, ?_⟩
        · rw [List.flatten_cons, h1]
          by_cases hkl : A.want cur ≤ xs.length
          · have e1 : l - ret = A.want cur + (l - (ret + min (A.want cur) xs.length)) := by omega
            rw [e1, List.take_add]
          · have e1 : xs.drop (A.want cur) = [] := by simp; omega
            rw [e1, List.take_nil, List.append_nil, List.take_of_length_le (by omega),
              List.take_of_length_le (by omega)]
        · intro ch hch
          rcases List.mem_cons.1 hch with rfl | hch
          · simp [want_ne_zero, h]
          · exact h2 ch hch
        · have hav : min xs.length (l - ret) ≠ 0 := by omega
          rw [sizesLoop_pos A c _ cur hav, List.map_cons, h3]
          congr 1
          · simp; omega
          · congr 1
            simp; omega

theorem chunkLoop_partition {α β} (A : Arith α) (c : α) (lim : Option Nat) (xs : List β) (cur : α) :
    (chunkLoop A c lim xs cur 0).flatten = cut lim xs ∧ ∀ ch ∈ chunkLoop A c lim xs cur 0, ch ≠ [] := by
  cases lim with
  | none => exact ⟨(chunkLoop_none_spec A c _ xs cur 0 rfl).1, (chunkLoop_none_spec A c _ xs cur 0 rfl).2.1⟩
  | some l =>
    exact ⟨by simpa [cut] using (chunkLoop_some_spec A c l _ xs cur 0 rfl).1,
      (chunkLoop_some_spec A c l _ xs cur 0 rfl).2.1⟩

theorem chunkLoop_sizes {α β} (A : Arith α) (c : α) (lim : Option Nat) (xs : List β) (cur : α) :
    (chunkLoop A c lim xs cur 0).map List.length =
      sizesLoop A c (match lim with | none => xs.length | some l => min xs.length l) cur := by
  cases lim with
  | none => exact (chunkLoop_none_spec A c _ xs cur 0 rfl).2.2
  | some l => simpa using (chunkLoop_some_spec A c l _ xs cur 0 rfl).2.2

theorem chunkLoop_length_full {α β} (A : Arith α) (c : α) (xs : List β) (cur : α) :
    (chunkLoop A c (some xs.length) xs cur 0).length = countLoop A c xs.length cur := by
  have h := chunkLoop_sizes A c (some xs.length) xs cur
  have h' := congrArg List.length h
  simpa [countLoop_eq] using h'

theorem chunkTasks_partition {α β} (A : Arith α) (xs : List β) (sized : Bool) (lim : Option Nat) (cs : CS α)
    (ns : Option Nat) (chunks : List (List β)) (h : chunkTasks A xs sized lim cs ns = .ok chunks) :
    chunks.flatten = cut lim xs ∧ ∀ ch ∈ chunks, ch ≠ [] := by
  unfold chunkTasks at h
  cases cs with
  | int k => injection h with h; subst h; exact chunkLoop_partition intA _ lim xs _
  | real c => injection h with h; subst h; exact chunkLoop_partition A _ lim xs _
  | none =>
    cases ns with
    | none => cases h
    | some s =>
      cases lim with
      | some l => injection h with h; subst h; exact chunkLoop_partition A _ (some l) xs _
      | none =>
        cases sized with
        | true => injection h with h; subst h; exact chunkLoop_partition A _ none xs _
        | false => cases h

theorem chunkLoop_head_length {α β} (A : Arith α) (c : α) (lim : Option Nat) (xs : List β) (cur : α) (ret : Nat)
    (ch : List β) (rest : List (List β)) (h : chunkLoop A c lim xs cur ret = ch :: rest) :
    ch.length = min (A.want cur) (match lim with | none => xs.length | some l => min xs.length (l - ret)) := by
  by_cases hx : xs = []
  · subst hx; rw [chunkLoop_nil] at h; cases h
  · cases lim with
    | none =>
      rw [chunkLoop_none A c xs cur ret hx] at h
      injection h with h _
      subst h; simp
    | some l =>
      by_cases hgt : l < ret + min (A.want cur) xs.length
      · rw [chunkLoop_some_cut A c l xs cur ret hx hgt] at h
        by_cases h0 : l - ret = 0
        · rw [if_pos h0] at h; cases h
        · rw [if_neg h0] at h
          injection h with h _
          subst h; simp; omega
      · rw [chunkLoop_some_go A c l xs cur ret hx (by omega)] at h
        injection h with h _
        subst h; simp; omega

theorem numpy_announced {α β} (A : Arith α) (rows : List β) (lim : Option Nat) (cs : CS α)
    (ns : Option Nat) (nj : Nat) :
    ∃ chunks, (numpyChunks A rows lim cs ns nj).2 = .ok chunks ∧
      (numpyChunks A rows lim cs ns nj).1 = chunks.length := by
  have key : ∀ arr : List β, (∀ l, lim = some l → min l arr.length = arr.length) →
      ∃ chunks, chunkTasks A arr true (some arr.length) cs
          (some (match ns with | some s => if s = 0 then nj * 4 else s | none => nj * 4)) = .ok chunks ∧
        getNChunks A arr.length lim cs ns nj = chunks.length := by
    intro arr harr
    unfold chunkTasks getNChunks
    cases cs <;> refine ⟨_, rfl, ?_⟩ <;> cases lim with
    | none => dsimp only; rw [chunkLoop_length_full]; try (cases ns <;> rfl)
    | some l => dsimp only; rw [harr l rfl, chunkLoop_length_full]; try (cases ns <;> rfl)
  unfold numpyChunks
  apply key
  intro l hl
  subst hl
  simp

/-! ## Generic facts about `sizesLoop` under an invariant of the recurrence -/

theorem sizesLoop_dropLast {α} (A : Arith α) (c : α) (P : α → Prop)
    (hP : ∀ x, P x → P (A.next c x)) :
    ∀ (avail : Nat) (cur : α), P cur →
      ∀ s ∈ (sizesLoop A c avail cur).dropLast, ∃ x, P x ∧ s = A.want x := by
  intro avail
  induction avail using Nat.strong_induction_on with
  | _ avail ih =>
    intro cur hcur s hs
    by_cases h : avail = 0
    · subst h; rw [sizesLoop_zero] at hs; simp at hs
    · have hk := A.want_pos cur
      rw [sizesLoop_pos A c avail cur h] at hs
      by_cases h2 : avail - A.want cur = 0
      · rw [h2, sizesLoop_zero] at hs; simp at hs
      · rw [sizesLoop_pos A c _ _ h2, List.dropLast_cons_cons] at hs
        rcases List.mem_cons.1 hs with rfl | hs
        · exact ⟨cur, hcur, by omega⟩
        · rw [← sizesLoop_pos A c _ _ h2] at hs
          exact ih _ (by omega) _ (hP _ hcur) s hs

theorem sizesLoop_ones {α} (A : Arith α) (c : α) (P : α → Prop)
    (hP : ∀ x, P x → P (A.next c x)) (h1 : ∀ x, P x → A.want x = 1) :
    ∀ (avail : Nat) (cur : α), P cur → sizesLoop A c avail cur = List.replicate avail 1 := by
  intro avail
  induction avail with
  | zero => intro cur _; rw [sizesLoop_zero]; rfl
  | succ n ih =>
    intro cur hcur
    rw [sizesLoop_pos A c _ _ (by omega), h1 cur hcur, List.replicate_succ,
      Nat.add_sub_cancel, ih _ (hP _ hcur), show min 1 (n + 1) = 1 by omega]

/-! ## Integer arithmetic -/

theorem int_sizes {β} (k : Nat) (hk : 1 ≤ k) (lim : Option Nat) (xs : List β) :
    ∀ s ∈ ((chunkLoop intA (k : Int) lim xs (k : Int) 0).map List.length).dropLast, s = k := by
  intro s hs
  rw [chunkLoop_sizes] at hs
  obtain ⟨x, hx, rfl⟩ := sizesLoop_dropLast intA (k : Int) (fun x => x = (k : Int))
    (by intro x hx; subst hx; show ((k : Int) + k) - id (k : Int) = k; simp) _ _ rfl s hs
  subst hx
  show (max 1 (id (k : Int))).toNat = k
  simp only [id]; omega

/-! ## Exact rational arithmetic -/

theorem ratA_want (x : Rat) : ratA.want x = (max 1 x.ceil).toNat := rfl
theorem ratA_next (c x : Rat) : ratA.next c x = x + c - (x.ceil : Rat) := rfl

/-- The invariant of the exact recurrence: `current` always stays in `(c-1, c]`. -/
def RInv (c x : Rat) : Prop := c - 1 < x ∧ x ≤ c

theorem RInv_self (c : Rat) : RInv c c := ⟨by linarith, le_refl _⟩

theorem RInv_next (c x : Rat) : RInv c (ratA.next c x) := by
  rw [ratA_next]
  have h1 := @Rat.le_ceil x
  have h2 := @Rat.ceil_lt x
  constructor <;> linarith

theorem RInv_ceil_le {c x : Rat} (h : RInv c x) : x.ceil ≤ c.ceil := by
  rw [Rat.ceil_le_iff]
  have := @Rat.le_ceil c
  linarith [h.2]

theorem RInv_floor_le {c x : Rat} (h : RInv c x) : c.floor ≤ x.ceil := by
  have h1 := Rat.floor_le c
  have : ((c.floor - 1 : Int) : Rat) < x := by push_cast; linarith [h.1]
  have := Rat.lt_ceil_iff.2 this
  omega

theorem rat_ceil_le_floor_add_one (c : Rat) : c.ceil ≤ c.floor + 1 := by
  rw [Rat.ceil_le_iff]
  exact le_of_lt (Rat.lt_floor_add_one c)

theorem RInv_one_le_ceil {c x : Rat} (hc : 1 ≤ c) (h : RInv c x) : 1 ≤ x.ceil := by
  have : ((0 : Int) : Rat) < x := by push_cast; linarith [h.1]
  have := Rat.lt_ceil_iff.2 this
  omega

theorem RInv_want_one {c x : Rat} (hc : c ≤ 1) (h : RInv c x) : ratA.want x = 1 := by
  rw [ratA_want]
  have : x.ceil ≤ 1 := by rw [Rat.ceil_le_iff]; push_cast; linarith [h.2]
  omega

theorem real_sizes {β} (c : Rat) (hc : 1 ≤ c) (lim : Option Nat) (xs : List β) :
    ∀ s ∈ ((chunkLoop ratA c lim xs c 0).map List.length).dropLast,
      (s : Int) = c.floor ∨ (s : Int) = c.ceil := by
  intro s hs
  rw [chunkLoop_sizes] at hs
  obtain ⟨x, hx, rfl⟩ := sizesLoop_dropLast ratA c (RInv c) (fun x _ => RInv_next c x) _ _
    (RInv_self c) s hs
  rw [ratA_want]
  have h1 := RInv_one_le_ceil hc hx
  have h2 := RInv_ceil_le hx
  have h3 := RInv_floor_le hx
  have h4 := rat_ceil_le_floor_add_one c
  omega

/-- one step of the exact recurrence keeps the closed form -/
theorem step_closed (c : Rat) (hc : 1 ≤ c) (i : Nat) (ret : Int) (cur : Rat)
    (hret : ret = ((i : Rat) * c).ceil) (hcur : cur = ((i : Rat) + 1) * c - ret) :
    (1 ≤ cur.ceil) ∧ (ret + cur.ceil = ((((i + 1 : Nat) : Rat)) * c).ceil) ∧
    (cur + c - cur.ceil = ((((i + 1 : Nat) : Rat)) + 1) * c - ((ret + cur.ceil : Int) : Rat)) := by
  have h1 : cur.ceil = (((i : Rat) + 1) * c).ceil - ret := by
    have : cur = ((i : Rat) + 1) * c + ((-ret : Int) : Rat) := by
      rw [hcur]; push_cast; ring
    rw [this, Rat.ceil_add_intCast]; ring
  refine ⟨?_, ?_, ?_⟩
  · have hr : (ret : Rat) < (i : Rat) * c + 1 := by
      have := @Rat.ceil_lt ((i : Rat) * c)
      rw [hret]; exact this
    have hpos : (0 : Rat) < cur := by rw [hcur]; nlinarith
    have : ((0 : Int) : Rat) < cur := by simpa using hpos
    have := (Rat.lt_ceil_iff).2 this
    omega
  · rw [h1]; push_cast; ring_nf
  · rw [hcur]; push_cast; ring

theorem sizes_closed (n s : Nat) (c : Rat) (hc : 1 ≤ c) (hsc : (s : Rat) * c = n) :
    ∀ (j i : Nat), i + j = s → ∀ (avail : Nat) (cur : Rat),
      (avail : Int) = n - ((i : Rat) * c).ceil →
      cur = ((i : Rat) + 1) * c - ((((i : Rat) * c).ceil : Int) : Rat) →
      (sizesLoop ratA c avail cur).length = j ∧
        ∀ x ∈ sizesLoop ratA c avail cur, c.floor ≤ (x : Int) ∧ (x : Int) ≤ c.ceil := by
  intro j
  induction j with
  | zero =>
    intro i hi avail cur hav _
    have hi' : i = s := by omega
    subst hi'
    have : ((i : Rat) * c).ceil = n := by
      rw [hsc, ← Int.cast_natCast, Rat.ceil_intCast]
    have : avail = 0 := by omega
    subst this
    rw [sizesLoop_zero]; simp
  | succ j ih =>
    intro i hi avail cur hav hcur
    obtain ⟨s1, s2, s3⟩ := step_closed c hc i _ cur rfl hcur
    have hinv : RInv c cur := by
      have h1 := @Rat.le_ceil ((i : Rat) * c)
      have h2 := @Rat.ceil_lt ((i : Rat) * c)
      rw [hcur]; constructor <;> linarith
    have hle : ((((i + 1 : Nat) : Rat)) * c).ceil ≤ n := by
      rw [Rat.ceil_le_iff]
      have : (((i + 1 : Nat) : Rat)) ≤ (s : Rat) := by exact_mod_cast (by omega : i + 1 ≤ s)
      have := mul_le_mul_of_nonneg_right this (by linarith : (0 : Rat) ≤ c)
      rw [hsc] at this
      exact_mod_cast this
    have hw : ratA.want cur = cur.ceil.toNat := by rw [ratA_want]; congr 1; omega
    have h0 : avail ≠ 0 := by omega
    have hmin : min (ratA.want cur) avail = ratA.want cur := by rw [hw]; omega
    obtain ⟨ih1, ih2⟩ := ih (i + 1) (by omega) (avail - ratA.want cur) (ratA.next c cur)
      (by rw [hw, ← s2]; omega)
      (by rw [ratA_next, s3, s2])
    rw [sizesLoop_pos ratA c avail cur h0, hmin]
    refine ⟨by simp [ih1], ?_⟩
    intro x hx
    rcases List.mem_cons.1 hx with rfl | hx
    · have h2 := RInv_ceil_le hinv
      have h3 := RInv_floor_le hinv
      rw [hw]; omega
    · exact ih2 x hx

theorem splits_main (n s : Nat) (hs : 1 ≤ s) :
    (sizesLoop ratA ((n : Rat) / (s : Rat)) n ((n : Rat) / (s : Rat))).length = min n s ∧
    (∀ a ∈ sizesLoop ratA ((n : Rat) / (s : Rat)) n ((n : Rat) / (s : Rat)),
      ∀ b ∈ sizesLoop ratA ((n : Rat) / (s : Rat)) n ((n : Rat) / (s : Rat)), a ≤ b + 1) ∧
    (n ≤ s → ∀ a ∈ sizesLoop ratA ((n : Rat) / (s : Rat)) n ((n : Rat) / (s : Rat)), a = 1) := by
  have hs0 : (0 : Rat) < (s : Rat) := by exact_mod_cast (by omega : 0 < s)
  generalize hc : (n : Rat) / (s : Rat) = c
  have hsc : (s : Rat) * c = n := by rw [← hc]; exact mul_div_cancel₀ _ (ne_of_gt hs0)
  by_cases hns : n ≤ s
  · have hc1 : c ≤ 1 := by
      have : (n : Rat) ≤ (s : Rat) := by exact_mod_cast hns
      nlinarith
    have := sizesLoop_ones ratA c (RInv c) (fun x _ => RInv_next c x)
      (fun x hx => RInv_want_one hc1 hx) n c (RInv_self c)
    rw [this]
    refine ⟨by simp; omega, ?_, ?_⟩
    · intro a ha b hb
      rw [List.mem_replicate] at ha hb
      omega
    · intro _ a ha
      exact (List.mem_replicate.1 ha).2
  · have hc1 : 1 ≤ c := by
      have : (s : Rat) ≤ (n : Rat) := by exact_mod_cast (by omega : s ≤ n)
      nlinarith
    have h0 : (((0 : Nat) : Rat) * c).ceil = 0 := by
      rw [show ((0 : Nat) : Rat) * c = ((0 : Int) : Rat) by simp, Rat.ceil_intCast]
    obtain ⟨k1, k2⟩ := sizes_closed n s c hc1 hsc s 0 (by omega) n c
      (by rw [h0]; simp) (by rw [h0]; push_cast; ring)
    refine ⟨by omega, ?_, fun h => absurd h hns⟩
    intro a ha b hb
    have ha' := k2 a ha
    have hb' := k2 b hb
    have := rat_ceil_le_floor_add_one c
    omega

theorem splits_none_sizes {β} (xs : List β) (s : Nat) (chunks : List (List β))
    (h : chunkTasks ratA xs true none .none (some s) = .ok chunks) :
    chunks.map List.length =
      sizesLoop ratA ((xs.length : Rat) / (s : Rat)) xs.length ((xs.length : Rat) / (s : Rat)) := by
  unfold chunkTasks at h
  injection h with h
  subst h
  exact chunkLoop_sizes ratA _ none xs _

theorem splits_some_sizes {β} (xs : List β) (sized : Bool) (l s : Nat) (hl : l ≤ xs.length)
    (chunks : List (List β))
    (h : chunkTasks ratA xs sized (some l) .none (some s) = .ok chunks) :
    chunks.map List.length =
      sizesLoop ratA ((l : Rat) / (s : Rat)) l ((l : Rat) / (s : Rat)) := by
  unfold chunkTasks at h
  injection h with h
  subst h
  have := chunkLoop_sizes ratA ((l : Rat) / (s : Rat)) (some l) xs ((l : Rat) / (s : Rat))
  dsimp only at this
  rw [show min xs.length l = l by omega] at this
  exact this

theorem splits_count {β} (xs : List β) (s : Nat) (hs : 1 ≤ s) (chunks : List (List β))
    (h : chunkTasks ratA xs true none .none (some s) = .ok chunks) :
    chunks.length = min xs.length s := by
  rw [← (splits_main xs.length s hs).1, ← splits_none_sizes xs s chunks h, List.length_map]

theorem splits_balanced {β} (xs : List β) (s : Nat) (hs : 1 ≤ s) (chunks : List (List β))
    (h : chunkTasks ratA xs true none .none (some s) = .ok chunks) :
    ∀ a ∈ chunks, ∀ b ∈ chunks, a.length ≤ b.length + 1 := by
  intro a ha b hb
  have h2 := (splits_main xs.length s hs).2.1
  rw [← splits_none_sizes xs s chunks h] at h2
  exact h2 _ (List.mem_map_of_mem ha) _ (List.mem_map_of_mem hb)

theorem splits_lim {β} (xs : List β) (sized : Bool) (l s : Nat) (hs : 1 ≤ s) (hl : l ≤ xs.length)
    (chunks : List (List β)) (h : chunkTasks ratA xs sized (some l) .none (some s) = .ok chunks) :
    chunks.length = min l s ∧ ∀ a ∈ chunks, ∀ b ∈ chunks, a.length ≤ b.length + 1 := by
  have hm := splits_main l s hs
  rw [← splits_some_sizes xs sized l s hl chunks h] at hm
  refine ⟨by rw [← hm.1, List.length_map], ?_⟩
  intro a ha b hb
  exact hm.2.1 _ (List.mem_map_of_mem ha) _ (List.mem_map_of_mem hb)

theorem splits_singletons {β} (xs : List β) (s : Nat) (hs : xs.length ≤ s) (hs1 : 1 ≤ s)
    (chunks : List (List β)) (h : chunkTasks ratA xs true none .none (some s) = .ok chunks) :
    ∀ a ∈ chunks, a.length = 1 := by
  intro a ha
  have h3 := (splits_main xs.length s hs1).2.2 hs
  rw [← splits_none_sizes xs s chunks h] at h3
  exact h3 _ (List.mem_map_of_mem ha)

end Mpire.Proofs
