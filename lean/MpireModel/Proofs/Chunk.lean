import MpireModel.Model.Chunk
/-! Helper lemmas for `Props/C14.lean`. -/
namespace Mpire.Proofs
open Mpire

theorem chunkTasks_partition {α β} (A : Arith α) (xs : List β) (sized : Bool) (lim : Option Nat) (cs : CS α)
    (ns : Option Nat) (chunks : List (List β)) (h : chunkTasks A xs sized lim cs ns = .ok chunks) :
    chunks.flatten = cut lim xs ∧ ∀ ch ∈ chunks, ch ≠ [] := by
  sorry

theorem chunkLoop_head_length {α β} (A : Arith α) (c : α) (lim : Option Nat) (xs : List β) (cur : α) (ret : Nat)
    (ch : List β) (rest : List (List β)) (h : chunkLoop A c lim xs cur ret = ch :: rest) :
    ch.length = min (A.want cur) (match lim with | none => xs.length | some l => min xs.length (l - ret)) := by
  sorry

theorem numpy_announced {α β} (A : Arith α) (rows : List β) (lim : Option Nat) (cs : CS α)
    (ns : Option Nat) (nj : Nat) :
    ∃ chunks, (numpyChunks A rows lim cs ns nj).2 = .ok chunks ∧
      (numpyChunks A rows lim cs ns nj).1 = chunks.length := by
  sorry

theorem int_sizes {β} (k : Nat) (hk : 1 ≤ k) (lim : Option Nat) (xs : List β) :
    ∀ s ∈ ((chunkLoop intA (k : Int) lim xs (k : Int) 0).map List.length).dropLast, s = k := by
  sorry

theorem real_sizes {β} (c : Rat) (hc : 1 ≤ c) (lim : Option Nat) (xs : List β) :
    ∀ s ∈ ((chunkLoop ratA c lim xs c 0).map List.length).dropLast,
      (s : Int) = c.floor ∨ (s : Int) = c.ceil := by
  sorry

theorem splits_count {β} (xs : List β) (s : Nat) (hs : 1 ≤ s) (chunks : List (List β))
    (h : chunkTasks ratA xs true none .none (some s) = .ok chunks) :
    chunks.length = min xs.length s := by
  sorry

theorem splits_balanced {β} (xs : List β) (s : Nat) (hs : 1 ≤ s) (chunks : List (List β))
    (h : chunkTasks ratA xs true none .none (some s) = .ok chunks) :
    ∀ a ∈ chunks, ∀ b ∈ chunks, a.length ≤ b.length + 1 := by
  sorry

theorem splits_lim {β} (xs : List β) (sized : Bool) (l s : Nat) (hs : 1 ≤ s) (hl : l ≤ xs.length)
    (chunks : List (List β)) (h : chunkTasks ratA xs sized (some l) .none (some s) = .ok chunks) :
    chunks.length = min l s ∧ ∀ a ∈ chunks, ∀ b ∈ chunks, a.length ≤ b.length + 1 := by
  sorry

theorem splits_singletons {β} (xs : List β) (s : Nat) (hs : xs.length ≤ s) (hs1 : 1 ≤ s)
    (chunks : List (List β)) (h : chunkTasks ratA xs true none .none (some s) = .ok chunks) :
    ∀ a ∈ chunks, a.length = 1 := by
  sorry

end Mpire.Proofs
