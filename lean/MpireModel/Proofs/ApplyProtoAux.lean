import MpireModel.Model.ApplyProto
/-! Helper lemmas for the apply protocol proofs. -/
namespace Mpire.Proofs.ApplyProto
open Mpire.ApplyProto

theorem split_of_getElem? {α} {l : List α} {k : Nat} {a : α} (h : l[k]? = some a) :
    ∃ l₁ l₂, l = l₁ ++ a :: l₂ ∧ ∀ b, l.set k b = l₁ ++ b :: l₂ := by
  induction l generalizing k with
  | nil => simp at h
  | cons x xs ih =>
    cases k with
    | zero => simp at h; subst h; exact ⟨[], xs, rfl, fun b => rfl⟩
    | succ k =>
      simp at h
      obtain ⟨l₁, l₂, h1, h2⟩ := ih h
      exact ⟨x :: l₁, l₂, by simp [h1], fun b => by simp [h2]⟩

theorem run_cons (s : Sys) (e : Ev) (es : List Ev) : run s (e :: es) = (step s e).bind (run · es) := by
  simp [run, List.foldlM_cons]

theorem reachable_induction {P : Sys → Prop} (n : Nat) (h0 : P (init n))
    (hstep : ∀ s e s', P s → step s e = some s' → P s') : ∀ s, Reachable n s → P s := by
  intro s ⟨es, h⟩
  suffices ∀ es s0, P s0 → run s0 es = some s → P s from this es _ h0 h
  clear h
  intro es
  induction es with
  | nil => intro s0 h0 h; simp [run] at h; subst h; exact h0
  | cons e es ih =>
    intro s0 h0 h
    rw [run_cons] at h
    cases hs : step s0 e with
    | none => simp [hs] at h
    | some s1 => simp [hs] at h; exact ih s1 (hstep _ _ _ h0 hs) h

/-- `settle` on the list of settled jobs -/
def settledAdd (l : List (Job × Out)) (j : Job) (o : Out) : List (Job × Out) :=
  if l.any (·.1 == j) then l else l ++ [(j, o)]

@[simp] theorem settle_slots (s j o) : (settle s j o).slots = s.slots := by unfold settle; split <;> rfl
@[simp] theorem settle_rq (s j o) : (settle s j o).rq = s.rq := by unfold settle; split <;> rfl
@[simp] theorem settle_submitted (s j o) : (settle s j o).submitted = s.submitted := by unfold settle; split <;> rfl
@[simp] theorem settle_settled (s j o) : (settle s j o).settled = settledAdd s.settled j o := by
  unfold settle settledAdd isSettled; split <;> rfl
@[simp] theorem settle_queued (s j o) : queued (settle s j o) = queued s := by simp [queued]
@[simp] theorem settle_inHand (s j o) : inHand (settle s j o) = inHand s := by simp [inHand]

theorem step_submit {s s' : Sys} {j k} (hs : step s (.submit j k) = some s') :
    j ∉ s.submitted ∧ ∃ A B, queued s = A ++ B ∧ queued s' = A ++ j :: B ∧ inHand s' = inHand s ∧
      s'.rq = s.rq ∧ s'.settled = s.settled ∧ s'.submitted = s.submitted ++ [j] := by
  simp only [step] at hs
  split at hs
  · rename_i sl hk
    split at hs
    · simp at hs
    · rename_i hj
      obtain ⟨l₁, l₂, h1, h2⟩ := split_of_getElem? hk
      simp only [Option.some.injEq] at hs
      subst hs
      refine ⟨hj, l₁.flatMap (·.queue) ++ sl.queue, l₂.flatMap (·.queue), ?_⟩
      simp only [queued, inHand, h2]
      simp [h1, List.filterMap_cons]
  · simp at hs

theorem step_take {s s' : Sys} {k} (hs : step s (.take k) = some s') :
    ∃ A B H₁ H₂ j q, queued s = A ++ j :: q ++ B ∧ queued s' = A ++ q ++ B ∧ inHand s = H₁ ++ H₂ ∧
      inHand s' = H₁ ++ j :: H₂ ∧ s'.rq = s.rq ∧ s'.settled = s.settled ∧ s'.submitted = s.submitted ∧
      s.slots[k]?.bind (·.queue.head?) = some j := by
  simp only [step] at hs
  split at hs
  · rename_i j q hk
    obtain ⟨l₁, l₂, h1, h2⟩ := split_of_getElem? hk
    simp only [Option.some.injEq] at hs
    subst hs
    refine ⟨l₁.flatMap (·.queue), l₂.flatMap (·.queue), l₁.filterMap (·.hand), l₂.filterMap (·.hand), j, q, ?_⟩
    simp [queued, inHand, h2, hk]
    simp [h1]
  · simp at hs

/-- the events that take the job out of worker k's hand -/
theorem slot_unhand {s : Sys} {k q j} (hk : s.slots[k]? = some { queue := q, hand := some j }) :
    ∃ H₁ H₂, inHand s = H₁ ++ j :: H₂ ∧
      inHand { s with slots := s.slots.set k { queue := q, hand := none } } = H₁ ++ H₂ ∧
      queued { s with slots := s.slots.set k { queue := q, hand := none } } = queued s ∧
      s.slots[k]?.bind (·.hand) = some j := by
  obtain ⟨l₁, l₂, h1, h2⟩ := split_of_getElem? hk
  refine ⟨l₁.filterMap (·.hand), l₂.filterMap (·.hand), ?_⟩
  simp [queued, inHand, h2, hk]
  simp [h1]

theorem step_finish {s s' : Sys} {k ok} (hs : step s (.finish k ok) = some s') :
    ∃ H₁ H₂ j, inHand s = H₁ ++ j :: H₂ ∧ inHand s' = H₁ ++ H₂ ∧ queued s' = queued s ∧
      s'.rq = s.rq ++ [(j, ok)] ∧ s'.settled = s.settled ∧ s'.submitted = s.submitted ∧
      s.slots[k]?.bind (·.hand) = some j := by
  simp only [step] at hs
  split at hs
  · rename_i q j hk
    obtain ⟨H₁, H₂, h1, h2, h3, h4⟩ := slot_unhand hk
    simp only [Option.some.injEq] at hs
    subst hs
    exact ⟨H₁, H₂, j, h1, h2, h3, rfl, rfl, rfl, h4⟩
  · simp at hs

theorem step_handle {s s' : Sys} (hs : step s .handle = some s') :
    ∃ j ok rest, s.rq = (j, ok) :: rest ∧ s'.rq = rest ∧ queued s' = queued s ∧ inHand s' = inHand s ∧
      s'.settled = settledAdd s.settled j (if ok then .ok else .raised) ∧ s'.submitted = s.submitted := by
  simp only [step] at hs
  split at hs
  · rename_i j ok rest hr
    simp only [Option.some.injEq] at hs
    subst hs
    exact ⟨j, ok, rest, hr, by simp, by simp [queued], by simp [inHand], by simp, by simp⟩
  · simp at hs

theorem step_timeoutProc {s s' : Sys} {k} (hs : step s (.timeoutProc k) = some s') :
    ∃ H₁ H₂ j, inHand s = H₁ ++ j :: H₂ ∧ inHand s' = H₁ ++ H₂ ∧ queued s' = queued s ∧
      s'.rq = s.rq ∧ s.settled.any (·.1 == j) = false ∧ s'.settled = s.settled ++ [(j, .timedOut)] ∧
      s'.submitted = s.submitted ∧ s.slots[k]?.bind (·.hand) = some j := by
  simp only [step] at hs
  split at hs
  · rename_i q j hk
    obtain ⟨H₁, H₂, h1, h2, h3, h4⟩ := slot_unhand hk
    split at hs
    · simp at hs
    · rename_i hu
      simp only [Option.some.injEq] at hs
      subst hs
      simp only [isSettled, Bool.not_eq_true] at hu
      refine ⟨H₁, H₂, j, h1, ?_, ?_, by simp, hu, ?_, by simp, h4⟩
      · simpa [inHand] using h2
      · simpa [queued] using h3
      · simp [settledAdd, hu]
  · simp at hs

theorem step_die {s s' : Sys} {k} (hs : step s (.die k) = some s') :
    ∃ H₁ H₂ j, inHand s = H₁ ++ j :: H₂ ∧ inHand s' = H₁ ++ H₂ ∧ queued s' = queued s ∧
      s'.rq = s.rq ∧ s'.settled = settledAdd s.settled j .died ∧
      s'.submitted = s.submitted ∧ s.slots[k]?.bind (·.hand) = some j := by
  simp only [step] at hs
  split at hs
  · rename_i q j hk
    obtain ⟨H₁, H₂, h1, h2, h3, h4⟩ := slot_unhand hk
    simp only [Option.some.injEq] at hs
    subst hs
    refine ⟨H₁, H₂, j, h1, ?_, ?_, by simp, by simp, by simp, h4⟩
    · simpa [inHand] using h2
    · simpa [queued] using h3
  · simp at hs

theorem step_timeoutOnly {s s' : Sys} {j} (hs : step s (.timeoutOnly j) = some s') :
    (j ∈ inHand s ∨ j ∈ inRq s) ∧ s.settled.any (·.1 == j) = false ∧ queued s' = queued s ∧ inHand s' = inHand s ∧
      s'.rq = s.rq ∧ s'.settled = s.settled ++ [(j, .timedOut)] ∧ s'.submitted = s.submitted := by
  simp only [step] at hs
  split at hs
  · rename_i h
    simp only [Option.some.injEq] at hs
    subst hs
    have hu : s.settled.any (·.1 == j) = false := h.2
    refine ⟨h.1, hu, by simp, by simp, by simp, ?_, by simp⟩
    simp [settledAdd, hu]
  · simp at hs


theorem any_fst_iff (l : List (Job × Out)) (j : Job) : l.any (·.1 == j) = true ↔ j ∈ l.map (·.1) := by
  simp [List.any_eq_true]

theorem any_fst_false_iff (l : List (Job × Out)) (j : Job) : l.any (·.1 == j) = false ↔ j ∉ l.map (·.1) := by
  rw [← Bool.not_eq_true, any_fst_iff]

theorem isSettled_iff (s : Sys) (j : Job) : isSettled s j = true ↔ j ∈ s.settled.map (·.1) := any_fst_iff _ _

theorem settledAdd_map (l : List (Job × Out)) (j : Job) (o : Out) :
    (settledAdd l j o).map (·.1) = if j ∈ l.map (·.1) then l.map (·.1) else l.map (·.1) ++ [j] := by
  unfold settledAdd
  by_cases h : l.any (·.1 == j) = true
  · rw [if_pos h, if_pos ((any_fst_iff _ _).1 h)]
  · rw [if_neg h, if_neg (fun h' => h ((any_fst_iff _ _).2 h'))]; simp

theorem init_queued (n : Nat) : queued (init n) = [] := by
  induction n with
  | zero => rfl
  | succ n ih => simp [queued, init, List.replicate_succ] at ih ⊢

theorem init_inHand (n : Nat) : inHand (init n) = [] := by
  induction n with
  | zero => rfl
  | succ n ih => simp [inHand, init, List.replicate_succ] at ih ⊢

/-- how the located jobs `L`, the settled jobs `M` and the submitted jobs `U` change in a step -/
inductive Change : (L M U L' M' U' : List Job) → Prop
  | submit (j L M U L') (hj : j ∉ U) (hc : ∀ a, L'.count a = (j :: L).count a) : Change L M U L' M (U ++ [j])
  | move (L M U L') (hc : ∀ a, L'.count a = L.count a) : Change L M U L' M U
  | settleDrop (j L M U L') (hc : ∀ a, L.count a = (j :: L').count a) :
      Change L M U L' (if j ∈ M then M else M ++ [j]) U
  | settleKeep (j L M U) (hj : j ∈ L) (hm : j ∉ M) : Change L M U L (M ++ [j]) U

theorem inv_change {L M U L' M' U' : List Job} (c : Change L M U L' M' U')
    (h1 : U.Nodup) (h2 : ∀ j ∈ L, j ∈ U) (h3 : ∀ j ∈ M, j ∈ U) (h4 : L.Nodup) (h5 : M.Nodup)
    (h6 : ∀ j ∈ U, j ∈ M ∨ j ∈ L) :
    U'.Nodup ∧ (∀ j ∈ L', j ∈ U') ∧ (∀ j ∈ M', j ∈ U') ∧ L'.Nodup ∧ M'.Nodup ∧ (∀ j ∈ U', j ∈ M' ∨ j ∈ L') := by
  have memc : ∀ {l₁ l₂ : List Job}, (∀ a, l₁.count a = l₂.count a) → ∀ a, a ∈ l₁ ↔ a ∈ l₂ := by
    intro l₁ l₂ h a
    rw [← List.count_pos_iff, ← List.count_pos_iff, h]
  cases c with
  | submit j _ _ _ _ hj hc =>
    have hm := memc hc
    refine ⟨?_, ?_, ?_, ?_, h5, ?_⟩
    · rw [List.nodup_append]; simp; exact ⟨h1, fun a ha e => hj (e ▸ ha)⟩
    · intro a ha; rw [hm] at ha; simp at ha ⊢; rcases ha with rfl | ha; exact Or.inr rfl; exact Or.inl (h2 _ ha)
    · intro a ha; simp; exact Or.inl (h3 _ ha)
    · rw [List.nodup_iff_count] at h4 ⊢
      intro a; rw [hc, List.count_cons]
      have := h4 a
      by_cases e : j = a
      · subst e
        have : L.count j = 0 := List.count_eq_zero.2 (fun h => hj (h2 _ h))
        simp; omega
      · simp [e]; omega
    · intro a ha; simp at ha
      rcases ha with ha | rfl
      · rcases h6 _ ha with h | h
        · exact Or.inl h
        · right; rw [hm]; simp [h]
      · right; rw [hm]; simp
  | move _ _ _ _ hc =>
    have hm := memc hc
    refine ⟨h1, ?_, h3, ?_, h5, ?_⟩
    · intro a ha; rw [hm] at ha; exact h2 _ ha
    · rw [List.nodup_iff_count] at h4 ⊢
      intro a; rw [hc]; exact h4 a
    · intro a ha; rw [hm]; exact h6 _ ha
  | settleDrop j _ _ _ _ hc =>
    have hm := memc hc
    have hjL : j ∈ L := by rw [hm]; simp
    refine ⟨h1, ?_, ?_, ?_, ?_, ?_⟩
    · intro a ha; exact h2 _ (by rw [hm]; simp [ha])
    · intro a ha; split at ha
      · exact h3 _ ha
      · simp at ha; rcases ha with ha | rfl
        · exact h3 _ ha
        · exact h2 _ hjL
    · rw [List.nodup_iff_count] at h4 ⊢
      intro a; have := h4 a; rw [hc, List.count_cons] at this; omega
    · split
      · exact h5
      · rename_i hn; rw [List.nodup_append]; simp; exact ⟨h5, fun a ha e => hn (e ▸ ha)⟩
    · intro a ha
      by_cases e : a = j
      · subst e; left; split
        · assumption
        · simp
      · rcases h6 _ ha with h | h
        · left; split
          · exact h
          · simp [h]
        · rw [hm] at h; simp [e] at h; exact Or.inr h
  | settleKeep j _ _ _ hj hm =>
    refine ⟨h1, h2, ?_, h4, ?_, ?_⟩
    · intro a ha; simp at ha; rcases ha with ha | rfl
      · exact h3 _ ha
      · exact h2 _ hj
    · rw [List.nodup_append]; simp; exact ⟨h5, fun a ha e => hm (e ▸ ha)⟩
    · intro a ha; rcases h6 _ ha with h | h
      · left; simp [h]
      · exact Or.inr h

def L (s : Sys) : List Job := queued s ++ inHand s ++ inRq s
def M (s : Sys) : List Job := s.settled.map (·.1)

theorem step_change {s s' : Sys} {e : Ev} (hs : step s e = some s') :
    Change (L s) (M s) s.submitted (L s') (M s') s'.submitted := by
  cases e with
  | submit j k =>
    obtain ⟨hj, A, B, e1, e2, e3, e4, e5, e6⟩ := step_submit hs
    simp only [L, M, inRq, e1, e2, e3, e4, e5, e6]
    refine Change.submit j _ _ _ _ hj ?_
    intro a; simp only [List.count_append, List.count_cons]; omega
  | take k =>
    obtain ⟨A, B, H₁, H₂, j, q, e1, e2, e3, e4, e5, e6, e7, -⟩ := step_take hs
    simp only [L, M, inRq, e1, e2, e3, e4, e5, e6, e7]
    refine Change.move _ _ _ _ ?_
    intro a; simp only [List.count_append, List.count_cons]; omega
  | finish k ok =>
    obtain ⟨H₁, H₂, j, e1, e2, e3, e4, e5, e6, -⟩ := step_finish hs
    simp only [L, M, inRq, e1, e2, e3, e4, e5, e6]
    refine Change.move _ _ _ _ ?_
    intro a; simp only [List.count_append, List.count_cons, List.map_append, List.map_cons, List.map_nil, List.count_nil]; omega
  | handle =>
    obtain ⟨j, ok, rest, e1, e2, e3, e4, e5, e6⟩ := step_handle hs
    simp only [L, M, inRq, e1, e2, e3, e4, e5, e6, settledAdd_map]
    refine Change.settleDrop j _ _ _ _ ?_
    intro a; simp only [List.count_append, List.count_cons, List.map_cons]; omega
  | timeoutProc k =>
    obtain ⟨H₁, H₂, j, e1, e2, e3, e4, hu, e5, e6, -⟩ := step_timeoutProc hs
    rw [any_fst_false_iff] at hu
    have hu : j ∉ M s := hu
    have := Change.settleDrop j (L s) (M s) s.submitted (L s') (by
      intro a; simp only [L, inRq, e1, e2, e3, e4, List.count_append, List.count_cons]; omega)
    rw [if_neg hu] at this
    simpa only [M, e5, e6, List.map_append, List.map_cons, List.map_nil] using this
  | die k =>
    obtain ⟨H₁, H₂, j, e1, e2, e3, e4, e5, e6, -⟩ := step_die hs
    simp only [L, M, inRq, e1, e2, e3, e4, e5, e6, settledAdd_map]
    refine Change.settleDrop j _ _ _ _ ?_
    intro a; simp only [List.count_append, List.count_cons]; omega
  | timeoutOnly j =>
    obtain ⟨hl, hu, e1, e2, e3, e4, e5⟩ := step_timeoutOnly hs
    rw [any_fst_false_iff] at hu
    have := Change.settleKeep j (L s) (M s) s.submitted
      (by simp only [L, List.mem_append]; rcases hl with h | h <;> simp [h]) hu
    simpa only [L, M, inRq, e1, e2, e3, e4, e5, List.map_append, List.map_cons, List.map_nil] using this


/-- the combined inductive invariant -/
structure Inv (s : Sys) : Prop where
  sub_nodup : s.submitted.Nodup
  loc_sub : ∀ j ∈ L s, j ∈ s.submitted
  set_sub : ∀ j ∈ M s, j ∈ s.submitted
  loc_nodup : (L s).Nodup
  set_nodup : (M s).Nodup
  no_loss : ∀ j ∈ s.submitted, j ∈ M s ∨ j ∈ L s

theorem inv_init (n : Nat) : Inv (init n) := by
  constructor <;> simp [L, M, init_queued, init_inHand, inRq, show (init n).submitted = [] from rfl,
    show (init n).rq = [] from rfl, show (init n).settled = [] from rfl]

theorem inv_step {s s' : Sys} {e : Ev} (hi : Inv s) (hs : step s e = some s') : Inv s' := by
  obtain ⟨h1, h2, h3, h4, h5, h6⟩ := hi
  obtain ⟨g1, g2, g3, g4, g5, g6⟩ := inv_change (step_change hs) h1 h2 h3 h4 h5 h6
  exact ⟨g1, g2, g3, g4, g5, g6⟩

theorem inv_reachable (n : Nat) (s : Sys) (h : Reachable n s) : Inv s :=
  reachable_induction n (inv_init n) (fun _ _ _ hi hs => inv_step hi hs) s h

end Mpire.Proofs.ApplyProto
