import MpireModel.Model.BarHandshake
/-! Proofs for the handshake theorems of `Props/C19.lean`. Core Lean only. -/
namespace Mpire.Proofs.BarHandshake
open Mpire.BarHandshake

/-- what holds of every state of a call with `t` items -/
def Inv (t : Nat) (s : HS) : Prop :=
  s.n ≤ s.arr ∧ s.arr ≤ t ∧ (s.barTotal = none ∨ s.barTotal = some t) ∧ (s.updated = true → s.selfTotal = some t) ∧
  (s.complete = true → s.n = t ∧ s.barTotal = some t)

theorem inv_init (t : Nat) (tot : Option Nat) (h : tot = none ∨ tot = some t) : Inv t (init tot) := by
  unfold Inv init; simp; exact h

theorem pass_inv (t : Nat) (s : HS) (h : Inv t s) : Inv t (pass s) := by
  obtain ⟨h1, h2, h3, h4, h5⟩ := h
  have hbt : (if s.updated = true then s.selfTotal else s.barTotal) = none ∨
      (if s.updated = true then s.selfTotal else s.barTotal) = some t := by
    split
    · right; exact h4 ‹_›
    · exact h3
  have hbc : s.complete = true → (if s.updated = true then s.selfTotal else s.barTotal) = some t := by
    intro hc; split
    · exact h4 ‹_›
    · exact (h5 hc).2
  unfold pass
  generalize (if s.updated = true then s.selfTotal else s.barTotal) = bt at *
  unfold Inv
  split
  · exact ⟨h1, h2, h3, h4, h5⟩
  · split
    · exact ⟨h1, h2, h3, h4, h5⟩
    · dsimp only
      split
      · refine ⟨h1, h2, hbt, by simp, ?_⟩
        intro hc; exact ⟨(h5 hc).1, hbc hc⟩
      · refine ⟨Nat.le_refl _, h2, hbt, by simp, ?_⟩
        simp only [Bool.or_eq_true, beq_iff_eq]
        rintro (hc | hc)
        · have := (h5 hc).1; exact ⟨by omega, hbc hc⟩
        · rcases hbt with hb | hb
          · rw [hb] at hc; cases hc
          · rw [hb] at hc; injection hc with hc; exact ⟨hc.symm, hb⟩

theorem step_inv (t : Nat) (s : HS) (op : Op) (h : Inv t s)
    (hadd : ∀ k, op = .add k → s.arr + k ≤ t) (hset : ∀ u, op = .setTotal u → u = t) : Inv t (step s op) := by
  cases op with
  | pass => exact pass_inv t s h
  | add k =>
    have := hadd k rfl
    unfold Inv step at *; grind
  | setTotal u =>
    have := hset u rfl; subst this
    unfold Inv step at *; grind
  | shutdown => unfold Inv step at *; exact h
  | exc => unfold Inv step at *; exact h
  | kill => unfold Inv step at *; exact h

theorem run_inv (t : Nat) (ops : List Op) (s : HS) (h : Inv t s) (hok : OkHist t s ops) : Inv t (run s ops) := by
  induction ops generalizing s with
  | nil => simpa [run]
  | cons op r ih =>
    have hs : Inv t (step s op) := by
      apply step_inv t s op h
      · intro k hk; subst hk; exact hok.1
      · intro u hu; subst hu; exact hok.1
    have hr : OkHist t (step s op) r := by
      cases op <;> first | exact hok.2 | exact hok
    simpa [run] using ih (step s op) hs hr

theorem n_le_arr_step (s : HS) (op : Op) (h : s.n ≤ s.arr) : (step s op).n ≤ (step s op).arr := by
  cases op <;> simp only [step] <;> try omega
  unfold pass; grind

theorem n_le_arr_run (ops : List Op) (s : HS) (h : s.n ≤ s.arr) : (run s ops).n ≤ (run s ops).arr := by
  induction ops generalizing s with
  | nil => simpa [run]
  | cons op r ih => simpa [run] using ih (step s op) (n_le_arr_step s op h)

theorem n_mono_step (s : HS) (op : Op) (h : s.n ≤ s.arr) : s.n ≤ (step s op).n := by
  cases op <;> simp only [step] <;> try omega
  unfold pass; grind

theorem complete_pass (s : HS) (hc : s.complete = false) (hc' : (pass s).complete = true) :
    (pass s).barTotal = some (pass s).n ∧ (pass s).n = s.arr := by
  unfold pass at hc' ⊢
  generalize (if s.updated = true then s.selfTotal else s.barTotal) = bt at *
  by_cases he : s.exited = true
  · simp [he, hc] at hc'
  · by_cases hp : (s.exc || s.kill || s.shutdown) = true
    · simp [he, hp, hc] at hc'
    · by_cases hk : (decide (0 < s.arr) && s.arr == s.n && bt != some s.n) = true
      · simp only [he, hp, hk] at hc'; simp [hc] at hc'
      · simp only [he, hp, hk] at hc' ⊢; simp [hc] at hc'; simp [hc']

theorem complete_step (s : HS) (op : Op) (hc : s.complete = false) (hc' : (step s op).complete = true) :
    op = .pass ∧ (step s op).barTotal = some (step s op).n ∧ (step s op).n = s.arr := by
  cases op with
  | pass => exact ⟨rfl, complete_pass s hc hc'⟩
  | add k => simp [step, hc] at hc'
  | setTotal u => simp [step, hc] at hc'
  | shutdown => simp [step, hc] at hc'
  | exc => simp [step, hc] at hc'
  | kill => simp [step, hc] at hc'

theorem live (s : HS) (T : Nat) (hx : s.exited = false) (he : s.exc = false) (hk : s.kill = false)
    (hs : s.shutdown = false) (ha : s.arr = T)
    (ht : (s.updated = true ∧ s.selfTotal = some T) ∨ (s.updated = false ∧ s.barTotal = some T)) :
    (pass s).complete = true ∧ (pass s).n = T ∧ (pass s).barTotal = some T ∧ (pass s).exited = false := by
  unfold pass
  grind

theorem pill_exits (s : HS) (hx : s.exited = false) (h : s.exc = true ∨ s.kill = true ∨ s.shutdown = true) :
    (pass s).exited = true ∧ (pass s).n = s.n ∧ (pass s).complete = s.complete := by
  unfold pass
  grind

end Mpire.Proofs.BarHandshake
