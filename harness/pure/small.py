"""Pure (no scheduler) ties of small pieces of /repo to their Lean models: each function runs the REAL code and renders
what it did in the vocabulary of the corresponding driver line."""
import contextlib
import pickle
import threading


# ---------------------------------------------------------------- AsyncResult
def async_run(cb, ecb, sets):
    """sets: list of ('o'|'e', n).  Real AsyncResult, real _set."""
    from mpire.async_result import AsyncResult
    cache = {}
    log = []
    r = AsyncResult(cache, (lambda v: log.append('cb:o:%d' % v)) if cb else None,
                    (lambda e: log.append('ecb:e:%d' % e.args[0])) if ecb else None, job_id=12345)
    escaped = None
    for k, n in sets:
        try:
            r._set(success=(k == 'o'), result=n if k == 'o' else ValueError(n))
        except BaseException as e:  # noqa
            escaped = type(e).__name__
    if r.ready():
        outcome = ('o:%d' % r._value) if r._success else ('e:%d' % r._value.args[0])
    else:
        outcome = '-'
    try:
        g = 'v:%d' % r.get(timeout=0)
    except TimeoutError:
        g = 't'
    except ValueError as e:
        g = 'r:%d' % e.args[0]
    line = 'outcome=%s ready=%d cache=%d cbs=%s get=%s' % (outcome, r.ready(), 12345 in cache, ','.join(log), g)
    return line + ('' if escaped is None else ' ESCAPED:' + escaped)


# ---------------------------------------------------------------- signal context managers
class SigTable:
    """a process's SIGINT slot; `deliver` does what the interpreter does when the signal arrives"""

    def __init__(self, initial):
        self.DFL, self.IGN = 'dfl', 'ign'
        self.h = self.DFL if initial == 'd' else self.IGN
        self.raised = self.dropped = 0

    def signal(self, sig, handler):
        old = self.h
        self.h = handler
        return old

    def getsignal(self, sig):
        return self.h

    def deliver(self):
        h = self.h
        self._call(h)

    def _call(self, h):
        if h == self.IGN:
            self.dropped += 1
        elif h == self.DFL:
            self.raised += 1
        else:
            h(2, None)


def sig_run(initial, ops):
    """ops: list of 'D','X','e','s'.  The default handler really raises KeyboardInterrupt; when that happens the
    enclosing context managers are left innermost-first (as the interpreter would unwind nested with-blocks) and the
    program stops.  Returns (ops actually executed, observation line)."""
    import mpire.signal as ms
    tab = SigTable(initial)
    saved = (ms.signal_, ms.getsignal, ms.current_thread, ms.main_thread, ms.SIG_IGN)
    tok = object()
    ms.signal_, ms.getsignal = tab.signal, tab.getsignal
    ms.current_thread = ms.main_thread = lambda: tok
    ms.SIG_IGN = tab.IGN

    def dfl(*a):
        tab.raised += 1
        raise KeyboardInterrupt

    # 'd' is Python's default_int_handler (a callable that raises KeyboardInterrupt); 'i' is the REAL signal.SIG_IGN — an enum member,
    # not a callable: the interpreter never calls it, the signal is simply dropped
    import signal as _signal
    ign = _signal.SIG_IGN
    tab.DFL, tab.IGN = dfl, ign
    ms.SIG_IGN = ign
    tab.h = dfl if initial == 'd' else ign

    def _arrive(h):
        if h is ign:
            tab.dropped += 1
        else:
            h(2, None)
    tab._call = _arrive
    stack, ids, keep, done = [], {}, [], []
    foreign = []

    def leave(exc):
        m = stack.pop()
        done.append('e')
        m.__exit__(type(exc) if exc else None, exc, None)
        if isinstance(m, ms.DelayedKeyboardInterrupt) and m.signal_received and getattr(m, 'old_handler', None) is ign:
            tab.dropped += 1        # a deferred signal whose turn comes while SIGINT is ignored has no effect: it counts as dropped

    try:
        for op in ops:
            try:
                if op == 'D':
                    m = ms.DelayedKeyboardInterrupt()
                    m.__enter__()
                    ids[id(m)] = len(ids)
                    keep.append(m)
                    stack.append(m)
                    done.append('D')
                elif op == 'X':
                    m = ms.DisableKeyboardInterruptSignal()
                    m.__enter__()
                    stack.append(m)
                    done.append('X')
                elif op == 'e':
                    if not stack:
                        return done, 'bad-exit'
                    leave(None)
                elif op == 's':
                    done.append('s')
                    tab._call(tab.h)
                elif op == 'r':
                    # the code inside the with-blocks raises an ordinary exception: every enclosing manager is left with it
                    exc = ValueError('body failed')
                    while stack:
                        try:
                            leave(exc)
                        except KeyboardInterrupt as e2:
                            exc = e2
                    break
            except KeyboardInterrupt as e:
                # unwind the enclosing with-blocks
                exc = e
                while stack:
                    try:
                        leave(exc)
                    except KeyboardInterrupt as e2:
                        exc = e2
                break
            except Exception as e:  # noqa: anything else coming out of a context manager is not an outcome the interrupt may have
                foreign.append(type(e).__name__)
                break

        def show(h):
            if h is dfl:
                return 'd'
            if h is ign:
                return 'i'
            return 'D%d' % ids.get(id(getattr(h, '__self__', None)), 99)
        pending = sum(1 for m in stack if isinstance(m, ms.DelayedKeyboardInterrupt) and m.signal_received)
        return done, 'handler=%s raised=%d dropped=%d depth=%d pending=%d' % (show(tab.h), tab.raised, tab.dropped, len(stack), pending) + \
            (' ESCAPED:' + foreign[0] if foreign else '')
    finally:
        ms.signal_, ms.getsignal, ms.current_thread, ms.main_thread, ms.SIG_IGN = saved


# ---------------------------------------------------------------- argument convention
def py_tok(v):
    import numpy as np
    if isinstance(v, bool) or v is None:
        return 'a0'
    if isinstance(v, int):
        return 'a%d' % v
    if isinstance(v, str):
        return 's.' + v
    if isinstance(v, bytes):
        return 'b.' + v.decode()
    if isinstance(v, np.ndarray):
        return 'n%d' % int(v.flat[0])
    if isinstance(v, tuple):
        return 't(' + ';'.join(py_tok(x) for x in v) + ')'
    if isinstance(v, list):
        return 'l(' + ';'.join(py_tok(x) for x in v) + ')'
    if isinstance(v, dict):
        return 'd(' + ';'.join('%s~%s' % (k, py_tok(x)) for k, x in v.items()) + ')'
    raise AssertionError(v)


def gen_py(rng, depth=0):
    import numpy as np
    r = rng.random()
    if r < .25 or depth >= 1 and r < .6:
        return rng.randint(0, 9)
    if r < .35:
        return 'x%d' % rng.randint(0, 9)
    if r < .42:
        return b'y%d' % rng.randint(0, 9)
    if r < .5:
        return np.array([rng.randint(0, 9), 1])
    # containers hold leaves only (the line protocol of the driver is flat)
    if depth >= 1:
        return rng.randint(0, 9)
    if r < .7:
        return tuple(gen_py(rng, depth + 1) for _ in range(rng.randint(0, 3)))
    if r < .82:
        return [gen_py(rng, depth + 1) for _ in range(rng.randint(0, 3))]
    return {'k%d' % i: gen_py(rng, depth + 1) for i in range(rng.randint(0, 3))}


def args_run(kind, pass_id, shared, state, wid, arg, kw):
    """real AbstractWorker helpers: what does the user function receive?"""
    import mpire.worker as mw
    from mpire.params import WorkerMapParams, WorkerPoolParams
    got = {}

    def f(*a, **k):
        got['pos'], got['kw'] = a, k
    pp = WorkerPoolParams(3, None, shared_objects='SHARED' if shared else None, pass_worker_id=bool(pass_id), use_worker_state=bool(state))
    mp_ = WorkerMapParams(f, f, f)
    comms = type('C', (), {'keep_order': lambda self: False})()
    ins = type('I', (), {'get_max_task_duration_list': lambda self, w: None})()
    w = mw.AbstractWorker(wid, pp, mp_, comms, ins, (None, None), (None, None, False), 0.0)
    w.worker_state = 'STATE'
    w._set_additional_args()
    if kind == 'hook':
        mp_.worker_init(*w.additional_args)
    elif kind == 'task':
        w._get_func(f)(arg)
    else:
        w._get_func(f, is_apply_func=True)(arg, kw)
    return 'pos=' + '|'.join(py_tok(x) for x in got['pos']) + ' kw=' + '|'.join('%s~%s' % (k, py_tok(v)) for k, v in got['kw'].items())


# ---------------------------------------------------------------- timeouts
def timeout_run(started, now, t, scale=1.0):
    import mpire.comms as mc
    saved = mc.time
    mc.time = type('T', (), {'time': staticmethod(lambda: 1000.0 + now * scale)})
    try:
        st = 0.0 if started is None else 1000.0 + started * scale
        return '1' if mc.WorkerComms._has_worker_timed_out(st, t * scale) else '0'
    finally:
        mc.time = saved


# ---------------------------------------------------------------- progress counting (worker side)
def progress_run(n, interval_ticks, evs):
    """real WorkerComms.task_completed_progress_bar with a controlled clock; ticks are 1 s, the update interval is
    interval_ticks seconds.  Only worker-side events (T<w>, F<w>, t); 'p'/'S' are skipped by the caller."""
    import mpire.comms as mc
    from mpire.context import MP_CONTEXTS
    clock = [1000.0]
    saved = mc.time
    mc.time = type('T', (), {'time': staticmethod(lambda: clock[0]), 'sleep': staticmethod(lambda d: None)})
    try:
        c = mc.WorkerComms(MP_CONTEXTS['threading'], n, False)
        c.progress_bar_update_interval = float(interval_ticks)
        import ctypes
        c.init_comms()          # (the array the library itself allocates)
        local = [[1000.0, 0] for _ in range(n)]
        done = 0
        for e in evs:
            if e == 't':
                clock[0] += 1.0
            elif e[0] == 'T':
                w = int(e[1:])
                local[w] = list(c.task_completed_progress_bar(w, local[w][0], local[w][1], False))
                done += 1
            elif e[0] == 'F':
                w = int(e[1:])
                local[w] = list(c.task_completed_progress_bar(w, local[w][0], local[w][1], True))
            elif e[0] == 'B':
                # a burst: k tasks completed by worker w (large counts)
                w, k = (int(x) for x in e[1:].split('x'))
                for _ in range(k):
                    local[w] = list(c.task_completed_progress_bar(w, local[w][0], local[w][1], False))
                done += k
        return 'arr=%s pending=%s done=%d' % (','.join(str(x) for x in c._tasks_completed_array), ','.join(str(l[1]) for l in local), done)
    finally:
        mc.time = saved


# ---------------------------------------------------------------- insights
def insights_run(n_jobs, durations, args, times):
    """real WorkerInsights.get_insights() on synthetic arrays.  durations/args: n_jobs*5 entries; times: dict of 5 lists"""
    import mpire.insights as mi
    from mpire.context import MP_CONTEXTS

    class FM:
        def __init__(self, *a): pass
        def start(self): pass
        def list(self, x): return list(x)
    saved = mi.NonPickledSyncManager
    mi.NonPickledSyncManager = FM
    try:
        wi = mi.WorkerInsights(MP_CONTEXTS['threading'], n_jobs, False)
        wi.reset_insights(True)
        wi.max_task_duration[:] = [float(d) for d in durations]
        wi.max_task_args[:] = list(args)
        for k, v in times.items():
            getattr(wi, 'worker_%s_time' % k)[:] = [float(x) for x in v]
        return wi.get_insights()
    finally:
        mi.NonPickledSyncManager = saved


# ---------------------------------------------------------------- exceptions
class ReduceHides(Exception):
    """constructor with extra arguments and its own __reduce__ (the usual recipe) that leaves the instance dict out"""

    def __init__(self, a, b):
        super().__init__(a, b)
        self.a, self.b = a, b

    def __reduce__(self):
        return (ReduceHides, (self.a, self.b))


def make_exc(shape):
    """returns an exception instance for a shape name"""
    import asyncio
    if shape == 'builtin':
        return ValueError('v', 3)
    if shape == 'custom_init':
        from harness.detsim.scenario import CustomError
        return CustomError(1, 'x', extra={'k': 2})
    if shape == 'attrs':
        e = KeyError('k')
        e.payload = [1, 2]
        return e
    if shape == 'lock_attr':
        e = ValueError('has lock')
        e.lock = threading.Lock()
        return e
    if shape == 'lambda_arg':
        return ValueError('lam', lambda: 1)
    if shape == 'local_class':
        class Local(Exception):
            pass
        return Local('loc')
    if shape == 'gen_attr':
        e = RuntimeError('g')
        e.g = (i for i in range(3))
        return e
    if shape == 'systemexit':
        return SystemExit(3)
    if shape == 'keyboardinterrupt':
        return KeyboardInterrupt()
    if shape == 'cancelled':
        return asyncio.CancelledError()
    if shape == 'reduce_hides_lock':
        e = ReduceHides(1, 'x')
        e.lock = threading.Lock()
        return e
    if shape == 'reduce_ok':
        return ReduceHides(2, 'y')
    if shape == 'oserror':
        return OSError(2, 'No such file', 'name')
    if shape == 'ctor_rewrites_args':
        from harness.detsim.scenario import PrefixedError
        return PrefixedError('bad value', limit=3)
    if shape == 'ctor_rejects_args':
        from harness.detsim.scenario import WrapError, _Resp
        return WrapError(_Resp(404))
    if shape == 'local_attr':
        e = ValueError('la')
        e.obj = type('Dyn', (), {})()
        return e
    raise AssertionError(shape)


EXC_SHAPES = ['builtin', 'custom_init', 'attrs', 'lock_attr', 'lambda_arg', 'local_class', 'gen_attr', 'systemexit',
              'keyboardinterrupt', 'cancelled', 'local_attr', 'reduce_hides_lock', 'reduce_ok', 'oserror', 'ctor_rewrites_args', 'ctor_rejects_args']


def exc_run(shape, use_dill, start_method='fork'):
    """real AbstractWorker._get_exception + populate_exception; the ok-bits are measured with the queue's pickler"""
    import mpire.worker as mw
    from mpire.exception import CannotPickleExceptionError, populate_exception
    from mpire.params import WorkerMapParams, WorkerPoolParams
    err = make_exc(shape)
    if use_dill and start_method != 'threading':
        import dill as pk
    else:
        pk = pickle

    def ok(x):
        try:
            pk.dumps(x)
            return 1
        except Exception:
            return 0
    bits = (ok(type(err)), ok(err.args), ok(err.__dict__))
    pp = WorkerPoolParams(2, None, use_dill=use_dill, start_method=start_method)
    comms = type('C', (), {'keep_order': lambda self: False})()
    ins = type('I', (), {'get_max_task_duration_list': lambda self, w: None})()
    w = mw.AbstractWorker(0, pp, WorkerMapParams(None), comms, ins, (None, None), (None, None, False), 0.0)
    try:
        raise err
    except BaseException as e:  # noqa
        shipped = w._get_exception(None, e)
    t, a, d, tb = shipped
    shipped_ok = ok(t) and ok(a) and ok(d) and ok(tb)
    rebuilt, cause = populate_exception(t, a, d, tb)
    if t is CannotPickleExceptionError:
        kind = 'cannotPickle'
        faithful = a == (repr(err),)
    else:
        kind = 'same'
        faithful = type(rebuilt) is type(err) and rebuilt.args == err.args and rebuilt.__dict__ == err.__dict__
        # attributes builtin exceptions derive from their arguments
        for attr in ('errno', 'strerror', 'code'):
            if hasattr(err, attr) and getattr(rebuilt, attr, None) != getattr(err, attr):
                faithful = False
    return bits, kind, bool(shipped_ok), bool(faithful), 'Traceback' in str(cause) or 'Exception occurred' in str(cause)
