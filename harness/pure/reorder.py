"""Real WorkerPool.imap / WorkerPool.map (pool.py 419-494, 552-643) with imap_unordered / map_unordered scripted."""


# results are results whatever their truth value: with `falsy` the values 100..105 travel as these objects
FALSY = {100: None, 101: 0, 102: '', 103: False, 104: [], 105: 0.0}


def _enc(v):
    for k, f in FALSY.items():
        if type(v) is type(f) and v == f:
            return k
    return v


def run_imap(arrivals, falsy=False):
    """arrivals: list of (idx, val).  Returns (values yielded by the real imap, number yielded when each arrival was requested + at the end)"""
    from mpire import WorkerPool
    pool = WorkerPool(1, start_method='threading')
    got, asked = [], []

    def fake(*a, **k):
        for idx, val in arrivals:
            asked.append(len(got))
            yield (idx, FALSY.get(val, val) if falsy else val)
        asked.append(len(got))
    pool.imap_unordered = fake
    for v in pool.imap(None, [None] * len(arrivals)):
        got.append(_enc(v) if falsy else v)
    return got, asked


def run_map(results, falsy=False):
    from mpire import WorkerPool
    pool = WorkerPool(1, start_method='threading')
    pool.map_unordered = lambda *a, **k: [(i, FALSY.get(v, v) if falsy else v) for i, v in results]
    out = pool.map(None, [None] * len(results))
    return [_enc(v) for v in out] if falsy else out


def gen_arrivals(rng, n):
    vals = [100 + rng.randint(0, 50) for _ in range(n)]
    arr = list(enumerate(vals))
    mode = rng.random()
    if mode < .4:
        rng.shuffle(arr)
    elif mode < .6:
        arr.reverse()
    elif mode < .8:      # local disorder (what really happens: chunks overtaking each other)
        k = rng.randint(1, 4)
        blocks = [arr[i:i + k] for i in range(0, n, k)]
        for i in range(len(blocks) - 1):
            if rng.random() < .5:
                blocks[i], blocks[i + 1] = blocks[i + 1], blocks[i]
        arr = [x for b in blocks for x in b]
    return vals, arr
