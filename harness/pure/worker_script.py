"""Runs the REAL AbstractWorker.run() (mpire/worker.py) against a scripted communication object and records every
action, in the vocabulary of the Lean worker transducer (Model/Worker.lean)."""
import contextlib

OUT = ('ok', 'ra', 'rq', 'st', 'in', 'ex')


class Script:
    """items: list of ('c', job, [(id, out)...]) | ('P',) | ('N',) | ('M', params|None) | ('A', job, (id,out)) | ('A', None) | ('S',)"""

    def __init__(self, params, env, items):
        self.params, self.env, self.items = params, env, items


def params_tok(p):
    return '%s,%d,%d,%d,%d,%d' % ('-' if p['lifespan'] is None else p['lifespan'], p['hasInit'], p['hasExit'],
                                  p['progressBar'], p['initTimeout'], p['exitTimeout'])


def item_tok(it):
    k = it[0]
    if k == 'c':
        return 'c:%d:%s' % (it[1], '+'.join('%d/%s' % t for t in it[2]))
    if k in 'PNS':
        return k
    if k == 'M':
        return 'M:-' if it[1] is None else 'M:' + params_tok(it[1])
    if k == 'A':
        return 'A:-' if it[1] is None else 'A:%d:%d/%s' % (it[1], it[2][0], it[2][1])
    raise AssertionError(it)


def line_of(params, env, items, exc_at_end):
    return 'worker p=%s env=%s,%s,%d items=%s' % (params_tok(params), env['initOut'], env['exitOut'], int(exc_at_end),
                                                  ';'.join(item_tok(i) for i in items) or '-')


class ScriptedComms:
    def __init__(self, items, env, mk_params):
        self.acts = []
        self.flag = False
        self.exc_job = 0
        self.queue = []
        self.env = env
        self.upcoming = []   # outcomes of the tasks of the chunk being processed
        self.mk_params = mk_params
        from mpire.comms import APPLY_PILL, NEW_MAP_PARAMS_PILL, NON_LETHAL_POISON_PILL, POISON_PILL
        for it in items:
            k = it[0]
            if k == 'c':
                self.queue.append(('chunk', (it[1], tuple((t,) for t in it[2])), [o for _, o in it[2]]))
            elif k == 'P':
                self.queue.append(('x', POISON_PILL))
            elif k == 'N':
                self.queue.append(('x', NON_LETHAL_POISON_PILL))
            elif k == 'S':
                self.queue.append(('stop',))
            elif k == 'M':
                self.queue.append(('x', NEW_MAP_PARAMS_PILL))
                self.queue.append(('stop',) if it[1] is None else ('x', mk_params(it[1])))
            elif k == 'A':
                self.queue.append(('x', APPLY_PILL))
                self.queue.append(('stop',) if it[1] is None else ('apply', it[1], it[2]))
        self.apply_func = None

    # --- what the worker calls ---
    def signal_worker_alive(self, w): self.acts.append('alive')
    def reset_results_received(self, w): self.acts.append('resetRecv')

    def get_task(self, w):
        if self.flag or not self.queue:
            return None
        e = self.queue.pop(0)
        if e[0] == 'stop':
            self.flag = True          # get_task returns None only because the exception flag is set
            self.queue.clear()
            return None
        self.acts.append('got')
        if e[0] == 'chunk':
            self.upcoming = list(e[2])
            return e[1]
        if e[0] == 'apply':
            self.upcoming = [e[2][1]]
            return (e[1], (self.apply_func, ((e[2],), {})))
        return e[1]

    def task_done(self, w): self.acts.append('td')
    def keep_order(self): return False
    def exception_thrown(self): return self.flag
    def get_exception_thrown_job_id(self): return self.exc_job
    def set_worker_running_task(self, w, b): pass
    def get_worker_running_task(self, w): return False

    def get_worker_running_task_lock(self, w): return contextlib.nullcontext()

    def signal_worker_working_on_job(self, w, job):
        self.acts.append('wo:%d' % job)
        if job == -2 and self.env['initOut'] == 'ex':
            self.flag = True
        if job == -3 and self.env['exitOut'] == 'ex':
            self.flag = True

    def signal_worker_init_started(self, w): self.acts.append('ss:init')
    def signal_worker_init_completed(self, w): self.acts.append('sc:init')
    def signal_worker_exit_started(self, w): self.acts.append('ss:exit')
    def signal_worker_exit_completed(self, w): self.acts.append('sc:exit')

    def signal_worker_task_started(self, w):
        self.acts.append('ss:task')
        if self.upcoming and self.upcoming.pop(0) == 'ex':
            self.flag = True

    def signal_worker_task_completed(self, w): self.acts.append('sc:task')

    def signal_exception_thrown(self, job):
        self.flag = True
        self.exc_job = job
        self.acts.append('raise:%d' % job)
        self._skip_next_failure = True

    _skip_next_failure = False
    last_task = 0

    def add_results(self, w, results):
        if self._skip_next_failure and len(results) == 1 and results[0][1] is False:
            self._skip_next_failure = False     # the failure record that belongs to the raise_ action
            return
        toks = []
        for job, succ, val in results:
            if job == -3:
                toks.append('-3/1/0')
            elif succ:
                toks.append('%d/1/%d' % (job, val))
            else:
                toks.append('%d/0/%d' % (job, self.last_task))   # failure of the apply task that was just run
        self.acts.append('ar:' + '+'.join(toks))

    def task_completed_progress_bar(self, w, last, n, force=False):
        self.acts.append('pb:%d' % int(force))
        return last, (0 if force else (n or 0) + 1)

    def wait_until_progress_bar_is_complete(self): self.acts.append('waitPB')
    def wait_for_all_results_received(self, w): self.acts.append('waitAll')
    def signal_worker_restart(self, w): self.acts.append('restart')
    def signal_worker_dead(self, w): self.acts.append('dead')
    def signal_kill_signal_received(self): pass


def run_real(params, env, items):
    """returns (acts as list of str, exception flag value at the end, error or None)"""
    import mpire.worker as mw
    from mpire.exception import InterruptWorker, StopWorker
    from mpire.insights import WorkerInsights
    from mpire.params import WorkerMapParams, WorkerPoolParams
    from mpire.context import MP_CONTEXTS
    from mpire.tqdm_utils import TqdmManager
    comms_box = []

    def behave(kind, tid, out):
        c = comms_box[0]
        c.acts.append('u:%s:%d' % (kind, tid))
        c.last_task = tid
        if out == 'ok':
            return tid
        if out == 'ra':
            raise ValueError(tid)
        if out == 'rq':
            c.flag = True
            raise ValueError(tid)
        if out == 'st':
            c.flag = True
            raise StopWorker
        if out == 'in':
            raise InterruptWorker
        raise AssertionError(out)

    def func(t):
        return behave('task', t[0], t[1])

    def apply_func(t):
        return behave('task', t[0], t[1])

    def init():
        behave('init', 0, env['initOut'])

    def exit_():
        return behave('exit', 0, env['exitOut'])

    def mk_params(p):
        return WorkerMapParams(func, init if p['hasInit'] else None, exit_ if p['hasExit'] else None, p['lifespan'],
                               bool(p['progressBar']), None, 1.0 if p['initTimeout'] else None, 1.0 if p['exitTimeout'] else None)

    comms = ScriptedComms(items, env, mk_params)
    comms.apply_func = apply_func
    comms_box.append(comms)
    pp = WorkerPoolParams(2, None)
    ins = WorkerInsights(MP_CONTEXTS['threading'], 2, False)
    saved = (mw.current_thread, TqdmManager.LOCK, TqdmManager.POSITION_REGISTER)
    mw.current_thread = lambda: object()      # not the main thread: the worker must not touch real signal handlers
    err = None
    try:
        w = mw.AbstractWorker(0, pp, mk_params(params), comms, ins, (None, None), (None, None, False), 0.0)
        w.run()
    except BaseException as e:  # noqa: an exception escaping run() is an observation
        err = type(e).__name__ + ':' + str(e)[:80]
        comms.acts.append('ESCAPED:' + type(e).__name__)
    finally:
        mw.current_thread = saved[0]
        TqdmManager.LOCK, TqdmManager.POSITION_REGISTER = saved[1], saved[2]
    return comms.acts, comms.flag, err


def gen_script(rng, clean=False):
    """random script; clean=True: only successful outcomes (the C11/C12 shape suites)"""
    def mk_p():
        return {'lifespan': rng.choice([None, None, 1, 2, 3, 5]), 'hasInit': rng.random() < .5, 'hasExit': rng.random() < .5,
                'progressBar': rng.random() < .4, 'initTimeout': rng.random() < .3, 'exitTimeout': rng.random() < .3}
    params = mk_p()
    bad = (lambda: 'ok') if clean else (lambda: rng.choice(['ok'] * 12 + ['ra', 'rq', 'st', 'in', 'ex']))
    env = {'initOut': 'ok' if clean or rng.random() < .85 else rng.choice(['ra', 'st', 'ex', 'rq']),
           'exitOut': 'ok' if clean or rng.random() < .85 else rng.choice(['ra', 'st', 'ex', 'rq'])}
    items = []
    tid = 0
    for _ in range(rng.randint(0, 7)):
        r = rng.random()
        if r < .6:
            k = rng.randint(1, 4)
            ts = []
            for _ in range(k):
                o = bad()
                ts.append((tid, o if o != 'in' else 'ok'))     # InterruptWorker is only sent to apply tasks
                tid += 1
            items.append(('c', rng.choice([0, 7]), ts))
        elif r < .7:
            items.append(('N',))
        elif r < .8:
            items.append(('M', mk_p() if clean or rng.random() < .85 else None))
        elif r < .9:
            if clean or rng.random() < .85:
                items.append(('A', 9, (tid, bad())))
                tid += 1
            else:
                items.append(('A', None))
        elif not clean and r < .93:
            items.append(('S',))
        else:
            items.append(('P',))
    if rng.random() < .6:
        items.append(('P',))
    return params, env, items
