"""The real insights bookkeeping (WorkerInsights.reset_insights / get_max_task_duration_list / update_n_completed_tasks /
update_task_insights and utils.TimeIt) as an operation-sequence machine.  The clock is a counter, the SyncManager list an
in-process list; everything else is the code of mpire/insights.py and mpire/utils.py."""


class _Clock:
    def __init__(self):
        self.now = 1000.0

    def time(self):
        return self.now


def run_ops(ops):
    import mpire.insights as mi
    import mpire.utils as mu
    from mpire.context import MP_CONTEXTS

    class FM:
        def __init__(self, *a): pass
        def start(self): pass
        def list(self, x): return list(x)

    clock = _Clock()
    saved = (mi.NonPickledSyncManager, mi.time, mu.time)

    class T:            # stands in for the time module inside the two modules
        time = staticmethod(clock.time)
    mi.NonPickledSyncManager, mi.time, mu.time = FM, T, T
    try:
        wi = None
        own = []
        n = 0
        for op in ops:
            f = op.split(':')
            if f[0] == 'S':
                n = int(f[1])
                wi = mi.WorkerInsights(MP_CONTEXTS['threading'], n, False)
                wi.reset_insights(True)
                own = [wi.get_max_task_duration_list(w) for w in range(n)]      # worker.py 79
                continue
            w = int(f[1])
            if wi is None or w >= n:
                continue
            if f[0] == 'B':
                # a burst of tasks of zero duration: large counts
                for _ in range(int(f[2])):
                    t = mu.TimeIt(wi.worker_working_time, w, own[w], lambda: '')
                    t.__enter__()
                    t.__exit__(None, None, None)
                    wi.update_n_completed_tasks(w)
                continue
            if f[0] == 'T':
                arg = '' if f[3] == '_' else f[3]
                t = mu.TimeIt(wi.worker_working_time, w, own[w], lambda arg=arg: arg)     # worker.py 424
                t.__enter__()
                clock.now += int(f[2])
                t.__exit__(None, None, None)
                wi.update_n_completed_tasks(w)
            elif f[0] == 'Y':
                wi.update_task_insights(w, 0.0, own[w], force_update=True)
            elif f[0] == 'R':
                wi.update_task_insights(w, 0.0, own[w], force_update=True)         # worker.py 196
                own[w] = wi.get_max_task_duration_list(w)
            elif f[0] == 'K':
                own[w] = wi.get_max_task_duration_list(w)
            else:
                raise ValueError(op)
        if wi is None:
            return 'ok counts= own= pub=', None

        def show(lst):
            return ';'.join('%d:%s' % (int(round(d)), a or '_') for d, a in sorted((float(d), a) for d, a in lst))
        pub = [list(zip(wi.max_task_duration[w * 5:(w + 1) * 5], wi.max_task_args[w * 5:(w + 1) * 5])) for w in range(n)]
        line = 'ok counts=%s own=%s pub=%s' % (','.join(str(c) for c in wi.worker_n_completed_tasks), '|'.join(show(x) for x in own), '|'.join(show(x) for x in pub))
        return line, wi.get_insights()
    finally:
        mi.NonPickledSyncManager, mi.time, mu.time = saved


def gen_ops(rng, big=False):
    ops = []
    n = 0
    k = 0
    for _ in range(rng.randint(1, 40)):
        r = rng.random()
        if not n or r < .04:
            n = rng.randint(1, 4)
            ops.append('S:%d' % n)
            continue
        w = rng.randrange(n + (1 if rng.random() < .03 else 0))
        if r < .7:
            k += 1
            # few distinct durations: ties, and tasks no longer than the shortest entry kept
            ops.append('T:%d:%d:%s' % (w, rng.choice([0, 1, 2, 3, 5, 8, rng.randint(1, 30)]), rng.choice(['_', 'a%d' % k, 'a%d' % k, 'b'])))
        elif r < .72 and big:
            # counts beyond what fits 16 and 32 bits signed / unsigned stay exact (a counter lives as long as the pool's workers)
            ops.append('B:%d:%d' % (w, rng.choice([32767, 32768, 40000, 65535, 65536, 70000])))
        elif r < .8:
            ops.append('Y:%d' % w)
        elif r < .92:
            ops.append('R:%d' % w)
        else:
            ops.append('K:%d' % w)
    return ops
