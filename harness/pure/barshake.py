"""The library's own progress-bar handler loop (ProgressBarHandler._progress_bar_handler) and the caller's side of the
completion handshake (set_new_total, wait_until_progress_bar_is_complete, the shutdown / exception / kill flags of the
real WorkerComms), run against a script: everything the workers and the caller do to the shared state happens inside the
handler's own call of get_tasks_completed_progress_bar, so one script has one outcome.  The real tqdm 'std' class draws
into a StringIO; only the TqdmManager (a server process) is replaced by a stand-in.

Script tokens (the same line goes to the Lean driver, suite `hshake`): A<k> workers add k items to the array,
S<t> set_new_total(t), X signal_progress_bar_shutdown, E exception flagged (+ traceback handed over, as _handle_exception
does), K kill signal flagged, p one pass of the handler loop.  Output: n/total/complete/exited after every pass and
whether wait_until_progress_bar_is_complete lets the caller go on at the end."""
import io
import threading


def run(total, ops):
    import mpire.progress_bar as pb
    import mpire.comms as mc
    from mpire.context import MP_CONTEXTS
    from mpire.params import WorkerPoolParams, WorkerMapParams

    outs = []
    state = {'i': 0, 'bar': None, 'passes': 0}

    class Reg:
        def register_progress_bar_position(self, pos): return True
        def get_highest_progress_bar_position(self): return 0

    class FakeManager:
        def __init__(self, *a, **k): pass
        @staticmethod
        def get_connection_details(): return threading.RLock(), Reg()

    class Comms(mc.WorkerComms):
        progress_bar_update_interval = 0.0

        def get_tasks_completed_progress_bar(self):
            if state['passes']:
                outs.append(show(False))
            # everything up to the next 'p'
            while state['i'] < len(ops) and ops[state['i']] != 'p':
                o = ops[state['i']]
                state['i'] += 1
                if o[0] == 'A':
                    with self._tasks_completed_array.get_lock():
                        self._tasks_completed_array[0] += int(o[1:])
                elif o[0] == 'S':
                    handler.set_new_total(int(o[1:]))
                elif o == 'X':
                    self.signal_progress_bar_shutdown()
                elif o == 'E':
                    self.signal_exception_thrown(1)
                    handler.set_exception(RuntimeError('scripted'))
                elif o == 'K':
                    self.signal_kill_signal_received()
            if state['i'] >= len(ops):
                raise RuntimeError('script ends without a closing pass')
            state['i'] += 1
            state['passes'] += 1
            return super().get_tasks_completed_progress_bar()

    comms = Comms(MP_CONTEXTS['threading'], 1, False)
    comms.init_comms()
    comms.reset_progress()
    buf = io.StringIO()
    opts = {'total': total, 'file': buf, 'position': 0, 'dynamic_ncols': False, 'mininterval': 0, 'maxinterval': 0, 'leave': True,
            'bar_format': '{n_fmt}/{total_fmt}'}
    handler = pb.ProgressBarHandler(None, None, True, opts, None, comms, None)

    def show(exited):
        bar = state['bar']
        return '%d/%s/%d/%d' % (bar.n, '-' if bar.total is None else bar.total, 1 if comms._progress_bar_complete.is_set() else 0, 1 if exited else 0)

    real_get = pb.get_tqdm

    def get_tqdm(style):
        cls = real_get(style)

        class Spy(cls):
            def __init__(self, *a, **k):
                super().__init__(*a, **k)
                state['bar'] = self
        return Spy
    saved = (pb.TqdmManager, pb.get_tqdm)
    pb.TqdmManager, pb.get_tqdm = FakeManager, get_tqdm
    try:
        comms.clear_progress_bar_complete()          # what __enter__ does before it starts the thread
        err = []

        def body():
            try:
                handler._progress_bar_handler()
            except BaseException as e:      # noqa
                err.append(e)
        th = threading.Thread(target=body, daemon=True)
        th.start()
        th.join(15.0)
        if th.is_alive():
            comms.signal_progress_bar_shutdown()
            th.join(2.0)
            raise RuntimeError('the handler did not come to the end of the script')
        if err:
            raise err[0]
    finally:
        pb.TqdmManager, pb.get_tqdm = saved
    outs.append(show(True))
    # the caller's side: does wait_until_progress_bar_is_complete return?  (it polls every 0.1 s: decide from its own condition)
    go = comms._progress_bar_complete.is_set() or comms.exception_thrown()
    done = threading.Event()
    if go:
        t = threading.Thread(target=lambda: (comms.wait_until_progress_bar_is_complete(), done.set()), daemon=True)
        t.start()
        t.join(2.0)
        go = done.is_set()
    return 'ok ' + ';'.join(outs) + ' go=%d' % (1 if go else 0)


def gen(rng):
    """a script that ends with exactly one pass that sees the pill"""
    t = rng.choice([0, 0, 1, 2, 3, 5, 8]) if rng.random() < .93 else rng.choice([65535, 65536, 70000, 2 ** 32 + 5])     # (counts past 16 / 32 bits stay exact)
    known = rng.random() < .5
    ops, left, total_given = [], t, known
    for _ in range(rng.randint(0, 10)):
        r = rng.random()
        if r < .35 and left:
            k = rng.randint(1, left)
            left -= k
            ops.append('A%d' % k)
        elif r < .5 and not total_given and (left == 0 or rng.random() < .2):
            ops.append('S%d' % (t if rng.random() < .9 else t + rng.randint(0, 2)))
            total_given = True
        else:
            ops.append('p')
    if rng.random() < .5:
        # the tail that matters: everything in, total handed over (late), passes
        if left:
            ops.append('A%d' % left)
            left = 0
        if rng.random() < .5:
            ops.append('p')
        if not total_given:
            ops.append('S%d' % t)
        ops += ['p'] * rng.randint(0, 2)
    ops += [rng.choice(['X', 'X', 'E', 'K']), 'p']
    return (t if known else None), ops
