"""The permanent entries of a pool's job cache as operation-sequence machines (driver suite `perm`): the library's
AsyncResultWithExceptionGetter (kind G) and UnorderedAsyncExitResultIterator (kind X).  Tokens: O<v> _set(True, v),
E<e> _set(False, e), R reset()."""


def run(kind, ops):
    from mpire.async_result import AsyncResultWithExceptionGetter, UnorderedAsyncExitResultIterator
    from mpire.comms import INIT_FUNC
    cache = {}
    if kind == 'G':
        g = AsyncResultWithExceptionGetter(cache, INIT_FUNC)
        for o in ops:
            if o == 'R':
                g.reset()
            else:
                g._set(o[0] == 'O', int(o[1:]))
        if g.ready():
            out = ('ok:%d' if g.successful() else 'err:%d') % g.get_exception()
        else:
            out = '-'
        return 'ok ready=%d out=%s' % (1 if g.ready() else 0, out)
    x = UnorderedAsyncExitResultIterator(cache)
    for o in ops:
        if o == 'R':
            x.reset()
        else:
            x._set(o[0] == 'O', int(o[1:]))
    return 'ok results=%s rec=%d exc=%s got=%d' % (','.join(str(v) for v in x.get_results()), x._n_received, '-' if x._exception is None else x._exception,
                                                  1 if x._got_exception.is_set() else 0)


def gen(rng):
    kind = rng.choice(['G', 'X'])
    ops = []
    for _ in range(rng.randint(0, 12)):
        r = rng.random()
        ops.append('R' if r < .2 else ('O%d' if r < .6 else 'E%d') % rng.randint(0, 30))
    return kind, ops


def tie(chk, drv, n):
    rng = chk.rng
    cases = [gen(rng) for _ in range(n)]
    lines = ['perm kind=%s ops=%s' % (k, ','.join(ops) or '-') for k, ops in cases]
    for (k, ops), line, m in zip(cases, lines, drv.run(lines)):
        try:
            i = run(k, ops)
        except Exception as e:      # noqa
            i = 'error %s: %s' % (type(e).__name__, e)
        chk.count('permanent cache entries (getter / exit-result collector) vs Mpire.Permanent', key=line, nontrivial='R' in ops and len(ops) >= 3,
                  sample={'line': line, 'impl': i}, kind=k, resets=min(ops.count('R'), 3))
        if i == m:
            continue
        chk.mismatch('permanent cache entries vs Mpire.Permanent', {'line': line}, i, m)
        # the property on what the real object did: nothing from before the last reset is visible
        last = max([j for j, o in enumerate(ops) if o == 'R'], default=-1)
        since = ops[last + 1:]
        if k == 'G':
            want = '-' if not since else ('ok:%s' if since[-1][0] == 'O' else 'err:%s') % since[-1][1:]
            if i.split('out=')[-1] != want:
                chk.violation('fresh_after_reset', {'line': line, 'kind': k, 'ops': ops}, i, 'the getter holds the most recent store since the last reset, nothing older',
                              input_class='permanent_getter')
        else:
            want = ','.join(o[1:] for o in since if o[0] == 'O')
            if not i.startswith('ok ') or i.split('results=')[1].split(' ')[0] != want:
                chk.violation('fresh_after_reset', {'line': line, 'kind': k, 'ops': ops}, i, 'the exit results are those stored since the last reset, in order',
                              input_class='permanent_exit')
