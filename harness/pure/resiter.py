"""The library's own UnorderedAsyncResultIterator as an operation-sequence machine (driver suite `riter`).

Tokens: O<v> _set(True, v); R<e> _set(False, e); L<n> set_length(n); n next(block=False); b next(block=True, timeout):
when the model says the call has to wait, it is made in a second thread, the harness waits until that thread is inside
Condition.wait, and the following tokens (results, the length, or `t` = let the timeout expire) are applied from the
main thread - the outcome of the waiting call is reported at the token that resolves it."""
import queue
import threading
import time


def run(n, ops, wait_timeout=0.25):
    from mpire.async_result import UnorderedAsyncResultIterator
    cache = {}
    it = UnorderedAsyncResultIterator(cache, n, job_id=1)
    outs = []
    waiter = {'t': None, 'res': None}

    def call_next(block, timeout):
        try:
            return 'v%d' % it.next(block=block, timeout=timeout)
        except StopIteration:
            return 'stop'
        except queue.Empty:
            return 'empty'

    def resolved(limit):
        t = waiter['t']
        t.join(limit)
        if t.is_alive():
            return None
        waiter['t'] = None
        return waiter['res']

    for o in ops:
        if o[0] == 'O':
            it._set(True, int(o[1:]))
            outs.append((resolved(2.0) or 'hang') if waiter['t'] else '-')
        elif o[0] == 'R':
            it._set(False, int(o[1:]))
            outs.append('-')
        elif o[0] == 'L':
            try:
                it.set_length(int(o[1:]))
                r = '-'
            except ValueError:
                r = 'valueerror'
            if waiter['t'] and r == '-':
                # released only when the call was waiting for the end; otherwise it goes on waiting
                got = resolved(0.05 if not (it._n_tasks == it._n_returned) else 2.0)
                r = got or '-'
            outs.append(r)
        elif o == 'n':
            outs.append('bad' if waiter['t'] else call_next(False, None))
        elif o == 'b':
            if waiter['t']:
                outs.append('bad')
                continue
            if it._items or (it._n_tasks is not None and it._n_returned == it._n_tasks):
                outs.append(call_next(True, 0.01))
                continue

            def target():
                waiter['res'] = call_next(True, wait_timeout)
            th = threading.Thread(target=target, daemon=True)
            waiter['t'] = th
            th.start()
            t0 = time.time()
            while not it._condition._waiters and th.is_alive() and time.time() - t0 < 2.0:
                time.sleep(0.0005)
            outs.append('waits' if th.is_alive() else (resolved(0.1) or 'hang'))
        elif o == 't':
            outs.append((resolved(wait_timeout + 2.0) or 'hang') if waiter['t'] else 'bad')
    if waiter['t']:
        resolved(wait_timeout + 2.0)
    return 'ok ' + ','.join(outs) + ' items=%s rec=%d ret=%d len=%s exc=%s' % (
        ','.join(str(x) for x in it._items), it._n_received, it._n_returned, '-' if it._n_tasks is None else it._n_tasks,
        '-' if it._exception is None else it._exception)


def gen(rng, waits=True):
    """mostly well-formed histories of one call; a waiting next is always resolved before the history ends"""
    total = rng.choice([0, 1, 2, 3, 5])
    known = rng.random() < .4
    ops, sent, val, length_set, waiting = [], 0, rng.randint(0, 50), known, False
    for _ in range(rng.randint(1, 14)):
        r = rng.random()
        if r < .3 and sent < total + (1 if rng.random() < .05 else 0):
            ops.append('O%d' % val)
            val += rng.randint(1, 9)
            sent += 1
            waiting = False
        elif r < .4 and (not length_set or rng.random() < .2):
            ln = total if rng.random() < .85 else total + rng.choice([-1, 1, 2])
            if ln < 0:
                ln = 0
            if waiting and length_set:
                continue
            ops.append('L%d' % ln)
            length_set = True
            # (whether the waiter is released is for model and code to say)
            if waiting:
                ops.append('t')         # resolve it in any case: 'bad' on both sides when it was released already
                waiting = False
        elif r < .45:
            ops.append('R%d' % rng.randint(1, 9))
        elif r < .75:
            if waiting:
                ops.append('t')
                waiting = False
            else:
                ops.append('n')
        elif waits:
            if waiting:
                ops.append('t')
                waiting = False
            else:
                ops.append('b')
                waiting = True      # may or may not really wait; a following 't' answers 'bad' consistently if it did not
        else:
            ops.append('n')
    if waiting:
        ops.append('t')
    return (total if known else None), ops


def tie(chk, drv, n_cases):
    """real iterator vs Mpire.ResultIter over generated histories; on a difference the history is repeated with a long
    timeout (a loaded machine can let the short one expire early) and then the property clauses are evaluated on what the
    real object did"""
    from concurrent.futures import ThreadPoolExecutor
    rng = chk.rng
    cases = [gen(rng) for _ in range(n_cases)]
    lines = ['riter n=%s ops=%s' % ('-' if n is None else n, ','.join(ops)) for n, ops in cases]
    model = drv.run(lines)

    def one(c):
        try:
            return run(c[0], c[1], 0.1)
        except Exception as e:      # noqa
            return 'error %s: %s' % (type(e).__name__, e)
    with ThreadPoolExecutor(16) as ex:
        impl = list(ex.map(one, cases))
    for (n, ops), line, i, m in zip(cases, lines, impl, model):
        if i != m:
            try:
                i = run(n, ops, 1.5)
            except Exception as e:      # noqa
                i = 'error %s: %s' % (type(e).__name__, e)
        chk.count('UnorderedAsyncResultIterator (operation sequences, one waiting caller) vs Mpire.ResultIter', key=line,
                  nontrivial=sum(1 for o in ops if o[0] == 'O') >= 2 and any(o in ('n', 'b') for o in ops), sample={'line': line, 'impl': i},
                  length='known' if n is not None else 'late' if any(o[0] == 'L' for o in ops) else 'never', waits='yes' if 'waits' in m else 'no',
                  ends='stop' if 'stop' in m else 'open')
        if i == m:
            continue
        chk.mismatch('result iterator vs Mpire.ResultIter', {'line': line}, i, m)
        case = {'line': line, 'n': n, 'ops': ops}
        if not i.startswith('ok '):
            continue        # (the tie cannot drive the object any more: a broken correspondence, not a failing input)
        outs = i.split(' ')[1].split(',')
        stored = [int(o[1:]) for o in ops if o[0] == 'O']
        got = [int(x[1:]) for x in outs if x[0] == 'v']
        items = [int(x) for x in i.split('items=')[1].split(' ')[0].split(',') if x]
        if got + items != stored:
            chk.violation('results_handed_over_once_in_arrival_order', case, i, 'returned ++ queued == stored, in order', input_class='iterator_fifo')
        elif 'hang' in outs:
            chk.violation('waiting_caller_released', case, i, 'a waiting next is released by the result / the length / its timeout', input_class='iterator_hang')
        else:
            # an early end: stop reported while fewer results were returned than stored so far or than announced
            k_stored, k_ret, length = 0, 0, n
            for o, r in zip(ops, outs):
                if o[0] == 'O':
                    k_stored += 1
                if o[0] == 'L' and length is None and r != 'valueerror':
                    length = int(o[1:])
                if r[0] == 'v':
                    k_ret += 1
                if r == 'stop' and (k_ret != k_stored or length != k_ret):
                    chk.violation('stop_only_after_everything', case, i, 'StopIteration only when everything stored was returned and the count is the announced length',
                                  input_class='iterator_early_stop')
                    break
