"""One round of the library's own timeout handler (WorkerPool._timeout_handler) on a snapshot: real WorkerComms stamps and
"working on" array, a real job cache (AsyncResult / UnorderedAsyncResultIterator objects and the three permanent
entries), a clock that stands still; `time.sleep` inside the handler ends it after the first round.  What is recorded:
which workers were sent the kill signal (in order), which jobs were set to failed by whose timeout, which job the
exception flag names, whether the handler ended by itself (driver suite `tscan`)."""
import threading
import types


def run(now, init_to, exit_to, jobs, workers):
    """jobs: [(id, is_map, timeout|None)], workers: [(working, tInit|None, tTask|None, tExit|None)] with working 'I', 'E' or a job id"""
    import mpire.pool as mpool
    import mpire.comms as mc
    from mpire.async_result import AsyncResult, UnorderedAsyncResultIterator, AsyncResultWithExceptionGetter, UnorderedAsyncExitResultIterator
    from mpire.context import MP_CONTEXTS
    n = len(workers)
    base = 1000.0
    comms = mc.WorkerComms(MP_CONTEXTS['threading'], n, False)
    comms.init_comms()
    cache = {}
    AsyncResultWithExceptionGetter(cache, mc.MAIN_PROCESS)
    AsyncResultWithExceptionGetter(cache, mc.INIT_FUNC)
    UnorderedAsyncExitResultIterator(cache)
    for (jid, is_map, to) in jobs:
        if is_map:
            UnorderedAsyncResultIterator(cache, None, job_id=jid, timeout=to)
        else:
            AsyncResult(cache, None, None, job_id=jid, delete_from_cache=True, timeout=to)
    objs = dict(cache)
    for w, (working, ti, tt, te) in enumerate(workers):
        comms.signal_worker_working_on_job(w, mc.INIT_FUNC if working == 'I' else mc.EXIT_FUNC if working == 'E' else int(working))
        for k, s in enumerate((ti, tt, te)):
            comms._workers_time_task_started[w * 3 + k] = 0.0 if s is None else base + s
    killed = []
    ended = {'by_itself': True}

    class OneRound(threading.Event):
        # however the handler pauses between two rounds (time.sleep, or a wait on this event), the pause ends it
        def wait(self, timeout=None):
            ended['by_itself'] = False
            self.set()
            return True
    stop = OneRound()

    class T:
        @staticmethod
        def time():
            return base + now

        @staticmethod
        def sleep(_d):
            ended['by_itself'] = False
            stop.set()
    pool = types.SimpleNamespace(_worker_comms=comms, _cache=cache, _handler_threads_stop_event=stop,
                                 map_params=types.SimpleNamespace(worker_init_timeout=init_to, worker_exit_timeout=exit_to),
                                 pool_params=types.SimpleNamespace(n_jobs=n, start_method='fork'),
                                 _send_kill_signal_to_worker=lambda w: killed.append(w))
    saved = (mpool.time, mc.time)
    mpool.time = mc.time = T
    try:
        th = threading.Thread(target=mpool.WorkerPool._timeout_handler, args=(pool,), daemon=True)
        th.start()
        th.join(10.0)
        if th.is_alive():
            threading.Event.set(stop)
            th.join(2.0)
            raise RuntimeError('the handler did not finish one round')
    finally:
        mpool.time, mc.time = saved
    failed = []
    for jid, ob in objs.items():
        if jid == mc.MAIN_PROCESS:
            continue
        exc = None
        if isinstance(ob, UnorderedAsyncResultIterator):
            exc = ob._exception
        elif ob._ready_event.is_set() and ob._success is False:
            exc = ob._value
        if isinstance(exc, TimeoutError):
            import re
            m = re.match(r'Worker-(\d+) ', str(exc))
            failed.append(('I' if jid == mc.INIT_FUNC else 'E' if jid == mc.EXIT_FUNC else str(jid), int(m.group(1)) if m else -1))
    exc_job = '-'
    if comms.exception_thrown():
        j = comms.get_exception_thrown_job_id()
        exc_job = 'I' if j == mc.INIT_FUNC else 'E' if j == mc.EXIT_FUNC else str(j)
    left = sorted(j for j in cache if j >= 0)
    return 'ok killed=%s failed=%s exc=%s returned=%d cache=%s' % (
        ','.join(map(str, killed)), ','.join(sorted('%s:%d' % f for f in failed)), exc_job, 1 if ended['by_itself'] else 0, ','.join(map(str, left)))


def gen(rng):
    now = rng.randint(5, 40)
    tos = [None, None, 1, 3, 5, 10]
    init_to, exit_to = rng.choice(tos), rng.choice(tos)
    n = rng.choice([1, 2, 3, 4, 6, 9])
    n_jobs = rng.randint(0, n + 1)
    jobs = []
    has_map = False
    for j in range(1, n_jobs + 1):
        is_map = (not has_map) and rng.random() < .25       # one map-family call at a time
        has_map = has_map or is_map
        jobs.append((j, is_map, rng.choice([None, 1, 3, 5, 10, 10])))
    ids = [j[0] for j in jobs]
    apply_ids = [j[0] for j in jobs if not j[1]]
    rng.shuffle(apply_ids)
    map_id = next((j[0] for j in jobs if j[1]), None)
    workers = []
    for w in range(n):
        r = rng.random()
        if r < .1:
            working = 'I'
        elif r < .2:
            working = 'E'
        elif r < .3 or not ids:
            working = str(rng.randint(50, 60))        # a job that is no longer in the cache
        elif map_id is not None and rng.random() < .4:
            working = str(map_id)
        elif apply_ids:
            working = str(apply_ids.pop())            # an apply job runs on one worker
        else:
            working = str(rng.randint(50, 60))

        def stamp():
            return None if rng.random() < .3 else rng.randint(0, now)
        workers.append((working, stamp(), stamp(), stamp()))
    return now, init_to, exit_to, jobs, workers


def line(case):
    now, init_to, exit_to, jobs, workers = case
    o = lambda x: '-' if x is None else str(x)      # noqa
    return 'tscan now=%d init=%s exit=%s jobs=%s ws=%s' % (
        now, o(init_to), o(exit_to), ';'.join('%d:%d:%s' % (j, 1 if m else 0, o(t)) for j, m, t in jobs) or '-',
        ';'.join('%s:%s:%s:%s' % (wk, o(a), o(b), o(c)) for wk, a, b, c in workers) or '-')
