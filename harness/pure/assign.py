"""The real WorkerComms assignment code (comms.py _get_task_worker_id / get_results / reset_progress) as an
operation-sequence machine."""
_cache = {}


def comms_for(n, order):
    from mpire.comms import WorkerComms
    from mpire.context import MP_CONTEXTS
    key = (n, order)
    if key not in _cache:
        c = WorkerComms(MP_CONTEXTS['threading'], n, order)
        c.init_comms()
        _cache[key] = c
    return _cache[key]


def run_ops(n, order, ops):
    c = comms_for(n, order)
    c.reset_progress()
    out = []
    i = 0
    for op in ops:
        if op == 'A':
            out.append('%d:%d' % (i, c._get_task_worker_id()))
            i += 1
        elif op == 'R':
            c.reset_progress()
            i = 0
        elif op == 'P':
            # an apply submission in between (it goes to some worker's queue; what matters here is what it does to the chunks)
            c.add_apply_task(12345, len, ((),), {})
            for q in c._task_queues:
                try:
                    while True:
                        q.get(block=False)
                        q.task_done()
                except Exception:  # noqa: empty
                    pass
        else:
            w = int(op[2:])
            c.add_results(w, [(0, True, None)])
            c.get_results(block=True, timeout=5)
    return 'ok ' + ','.join(out)


def gen_ops(rng, n):
    ops = []
    for _ in range(rng.randint(0, 25)):
        r = rng.random()
        ops.append('A' if r < .5 else 'R' if r < .57 else 'P' if r < .7 else 'C:%d' % rng.randrange(n))
    return ops
