"""The real WorkerComms assignment code (comms.py _get_task_worker_id / get_results / reset_progress) as an
operation-sequence machine."""
_cache = {}


def comms_for(n, order):
    from mpire.comms import WorkerComms
    from mpire.context import MP_CONTEXTS
    key = (n, order)
    if key not in _cache:
        c = WorkerComms(MP_CONTEXTS['threading'], n, order)
        c.init_comms()
        _cache[key] = c
    return _cache[key]


def run_ops(n, order, ops):
    c = comms_for(n, order)
    c.reset_progress()
    out = []
    i = 0
    for op in ops:
        if op == 'A':
            out.append('%d:%d' % (i, c._get_task_worker_id()))
            i += 1
        elif op == 'R':
            c.reset_progress()
            i = 0
        else:
            w = int(op[2:])
            c.add_results(w, [(0, True, None)])
            c.get_results(block=True, timeout=5)
    return 'ok ' + ','.join(out)


def gen_ops(rng, n):
    ops = []
    for _ in range(rng.randint(0, 25)):
        r = rng.random()
        ops.append('A' if r < .55 else 'R' if r < .62 else 'C:%d' % rng.randrange(n))
    return ops
