"""Run many scenarios across OS processes (one DetSim run at a time per process)."""
import multiprocessing as mp
import os
import signal


def _one(sc):
    from harness.detsim.scenario import run_scenario
    signal.alarm(int(os.environ.get('VERIF_CASE_WALL', '120')))
    try:
        return run_scenario(sc)
    finally:
        signal.alarm(0)


def _init():
    import logging
    logging.getLogger('mpire').setLevel(logging.ERROR)
    signal.signal(signal.SIGALRM, lambda *_: os._exit(3))


def run_all(scenarios, procs=None, chunksize=4):
    procs = procs or min(16, os.cpu_count() or 4)
    if len(scenarios) <= 2 or procs == 1:
        _init_local()
        return [_one_local(s) for s in scenarios]
    ctx = mp.get_context('fork')
    out = [None] * len(scenarios)
    with ctx.Pool(procs, initializer=_init, maxtasksperchild=200) as pool:
        hs = [pool.apply_async(_one, (sc,)) for sc in scenarios]
        for i, h in enumerate(hs):
            try:
                out[i] = h.get(600)
            except Exception as e:  # a crashed/timed-out harness process: infrastructure, not a verdict
                out[i] = {'harness_error': 'case did not finish: ' + repr(e), 'ops': [], 'calls': []}
    return out


def _init_local():
    pass


def _one_local(sc):
    from harness.detsim.scenario import run_scenario
    return run_scenario(sc)
