"""Run many scenarios across OS processes (one DetSim run at a time per process)."""
import multiprocessing as mp
import os
import signal


_strikes = [0]


def _one(sc):
    from harness.detsim.scenario import run_scenario
    _strikes[0] = 0
    signal.alarm(int(os.environ.get('VERIF_CASE_WALL', '120')))
    try:
        return run_scenario(sc)
    finally:
        signal.alarm(0)


def _on_alarm(*_):
    """a case that is still running after the wall-clock budget (normal cases take < 2 s): first it is ended like a run the
    scheduler found stuck, so that it is reported with its scenario; if that does not end it, the process is given up"""
    from harness.detsim import sim
    _strikes[0] += 1
    if _strikes[0] >= 2:
        os._exit(3)
    signal.alarm(20)
    msg = 'the case was still running after %s s of wall-clock time' % os.environ.get('VERIF_CASE_WALL', '120')
    if sim.S is not None:
        # like a run the scheduler found stuck: every simulated thread unwinds at its next primitive operation
        try:
            msg += '; ' + sim.S.describe()[:600]
        except Exception:
            pass
        sim.S.stuck = ('wall-clock', msg)
        sim.S.abort = True
    raise sim.Stuck('wall-clock', msg)


def _init():
    import logging
    logging.getLogger('mpire').setLevel(logging.ERROR)
    signal.signal(signal.SIGALRM, _on_alarm)


TOTAL = [0]
HARNESS_ERRORS = []


def _account(out):
    TOTAL[0] += len(out)
    for o in out:
        if o and o.get('harness_error') and 'skipped: more than' not in str(o['harness_error']):
            HARNESS_ERRORS.append(str(o['harness_error'])[-400:])
    return out


def run_all(scenarios, procs=None, chunksize=4):
    return _account(_run_all(scenarios, procs, chunksize))


def _run_all(scenarios, procs=None, chunksize=4):
    procs = procs or min(16, os.cpu_count() or 4)
    if len(scenarios) <= 2 or procs == 1:
        _init_local()
        return [_one_local(s) for s in scenarios]
    ctx = mp.get_context('fork')
    out = [None] * len(scenarios)
    wall = int(os.environ.get('VERIF_CASE_WALL', '120'))
    # (a twentieth of a large batch: the known findings alone make about 2 % of the thorough C07 sweep end stuck)
    many = max(int(os.environ.get('VERIF_MANY_HANGS', '40')), len(scenarios) // 20)
    n_stuck = 0
    with ctx.Pool(procs, initializer=_init, maxtasksperchild=200) as pool:
        hs = [pool.apply_async(_one, (sc,)) for sc in scenarios]
        for i, h in enumerate(hs):
            if n_stuck >= many:
                # the tree under test hangs all over the place: that is established; the rest of the batch is not waited for
                if h.ready():
                    try:
                        out[i] = h.get(0)
                    except Exception as e:  # noqa
                        out[i] = {'harness_error': 'case did not finish: ' + repr(e), 'ops': [], 'calls': []}
                else:
                    out[i] = {'harness_error': 'skipped: more than %d runs of this batch ended stuck' % many, 'ops': [], 'calls': []}
                continue
            try:
                out[i] = h.get(wall + 45)
            except Exception as e:  # a crashed/timed-out harness process: infrastructure, not a verdict
                out[i] = {'harness_error': 'case did not finish: ' + repr(e), 'ops': [], 'calls': []}
            if out[i].get('stuck'):
                n_stuck += 1
        if n_stuck >= many:
            pool.terminate()
    # a run that ended stuck is repeated once in a process of its own (DetSim is deterministic per scenario: a genuine hang
    # reproduces; one that does not was disturbed by an earlier run in the same harness process and is counted, not reported).
    # When a whole batch is riddled with hangs there is nothing to confirm.
    again = [i for i, o in enumerate(out) if o and o.get('stuck')]
    if again and len(again) <= 12:
        with ctx.Pool(min(procs, len(again)), initializer=_init, maxtasksperchild=1) as pool:
            hs = [(i, pool.apply_async(_one, (scenarios[i],))) for i in again]
            for i, h in hs:
                try:
                    o2 = h.get(wall + 45)
                except Exception:
                    continue
                if not o2.get('stuck'):
                    o2['first_run_was_stuck'] = out[i]['stuck']
                    out[i] = o2
    return out


def _init_local():
    pass


def _one_local(sc):
    from harness.detsim.scenario import run_scenario
    return run_scenario(sc)
