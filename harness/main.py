import argparse
import importlib
import os
import signal
import sys
import traceback

from harness.common import Check, Infra

WATCHDOG = {'quick': 900, 'thorough': 3 * 3600}


def main():
    import logging
    logging.getLogger('mpire').setLevel(logging.ERROR)
    ap = argparse.ArgumentParser()
    ap.add_argument('prop')
    ap.add_argument('--tier', default=os.environ.get('VERIF_TIER', 'quick'), choices=['quick', 'thorough'])
    ap.add_argument('--replay')
    a = ap.parse_args()
    try:
        seed = int(os.environ.get('VERIF_SEED', '0'))
    except ValueError:
        seed = 0
    # wall-clock budget of one DetSim case (normal cases take well under 2 s; one that is still running after this is ended and
    # reported like a run the scheduler found stuck)
    os.environ.setdefault('VERIF_CASE_WALL', '30' if a.tier == 'quick' else '90')
    signal.signal(signal.SIGALRM, lambda *_: (print(f'[{a.prop}] watchdog expired', flush=True), os._exit(2)))
    signal.alarm(WATCHDOG[a.tier])
    try:
        if a.replay:
            from harness.replay import replay
            return replay(a.prop, a.replay)
        mod = importlib.import_module('harness.checks.' + a.prop)
        chk = Check(a.prop, a.tier, seed, level=getattr(mod, 'LEVEL', 'proof'))
        chk.proof_side()
        try:
            search = mod.run(chk)
        except Infra:
            raise
        except Exception:  # noqa
            # a suite of the harness itself fell over on this tree (e.g. the code under test grew an interface the scripted stand-ins
            # do not have): the tie is broken — reported as such, with whatever the suites that did run have found
            tb = traceback.format_exc()
            print(tb[-1500:], file=sys.stderr)
            chk.broken.append({'kind': 'correspondence', 'what': 'a harness suite could not be run against this tree', 'detail': tb[-1500:]})
            search = None
        return chk.finish(search=search)
    except Infra as e:
        print(f'[{a.prop}] infrastructure problem: {e}', file=sys.stderr)
        return 2
    except Exception:
        traceback.print_exc()
        return 2


if __name__ == '__main__':
    sys.exit(main())
