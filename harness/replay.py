"""./check Cxx --replay <file>: re-runs the recorded case against /repo's current tree."""
import importlib
import json
import os
import sys

from harness import oracles
from harness.common import Check


def replay(prop, path):
    d = json.load(open(path))
    case = d.get('case') or (d.get('first_break') or {}).get('case') or {}
    sc = case.get('scenario') if isinstance(case, dict) else None
    print(f'[replay {prop}] kind={d.get("kind")} clause={d.get("oracle_clause")} broken={d.get("broken")}')
    if sc:
        from harness.detsim.scenario import run_scenario
        o = run_scenario(dict(sc, keep_trace=False))
        found = []
        oracles.check_scenario(sc, o, lambda p, c, dd: found.append((p, c, dd)))
        chk = Check(prop, 'quick', d.get('seed', 0))
        chk.known = []
        mod = importlib.import_module('harness.checks.' + prop)
        for name in ('judge', 'judge_idle'):
            j = getattr(mod, name, None)
            if j is not None:
                try:
                    if name == 'judge_idle' and not sc.get('idle'):
                        continue
                    if name == 'judge' and sc.get('idle'):
                        continue
                    j(chk, sc, o)
                except Exception as e:  # noqa
                    print('  (judge not applicable to this case: %r)' % e)
        for v in chk.violations:
            found.append((prop, v['oracle_clause'], v['observed']))
        print('  outcomes:', [(x.get('op'), x.get('outcome'), (x.get('exc') or {}).get('type')) for x in o.get('ops', [])], 'stuck:', o.get('stuck'))
        if found:
            for p, c, dd in found[:10]:
                print(f'  STILL FAILS {p}:{c} {json.dumps(dd, default=str)[:300]}')
            print(f'VIOLATION property={prop} replay={path}')
            return 1
        print('  no oracle clause fails on this case now')
        return 0
    print('  recorded case:', json.dumps(case, default=str)[:1500])
    print('  this case is not a DetSim scenario: re-running the whole check with the recorded seed')
    os.environ['VERIF_SEED'] = str(d.get('seed', 0))
    from harness import main as m
    sys.argv = ['check', prop, '--tier', d.get('tier', 'quick')]
    return m.main()
