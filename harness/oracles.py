"""Black-box oracles: each states one clause of a property in terms of what a user of the pool can observe
(results, which calls of the user functions happened, exceptions, timing in virtual seconds, liveness).
They never look at mpire internals except the documented control snapshot used by C06."""
import collections
import json
import math

from harness.detsim.scenario import value_of

MAPS = ('map', 'map_unordered', 'imap', 'imap_unordered')


def effective_n(op):
    n = op['n']
    il = op.get('iterable_len')
    return n if il is None else min(n, il)


def expected_values(op):
    m = effective_n(op)
    if op.get('input') == 'nd':
        if op.get('nd_dims') == 1:
            return {'nd': [i * 3 + 1 for i in range(m)]}
        return {'nd': [[i * 3 + 1, 2 * i * 3 + 1] for i in range(m)]}
    from harness.detsim.scenario import ret_of
    return [ret_of(op, i) for i in range(m)]


def spec_sizes(n_tasks, chunk_size, n_splits, n_jobs, default_div=64):
    """chunk sizes by the documented rule, written out independently of /repo: an explicit chunk size c is used as it is (a real
    c by the running recurrence ceil / carry), otherwise n_tasks / n_splits, otherwise n_tasks / (64 * n_jobs) (numpy pre-chunking:
    4 * n_jobs; unknown length: 4); every chunk has at least one task"""
    if chunk_size is None:
        chunk_size = n_tasks / (n_splits or n_jobs * default_div)
    sizes, cur, done = [], chunk_size, 0
    while done < n_tasks:
        k = min(max(1, math.ceil(cur)), n_tasks - done)
        sizes.append(k)
        done += k
        cur = (cur + chunk_size) - math.ceil(cur)
    return sizes


def ref_chunks(op, n_jobs):
    """the reference chunking of this call (task indices per chunk), by the documented rule — NOT computed with the code under test"""
    m = op['n']
    il = op.get('iterable_len')
    n_tasks = m if il is None else min(il, m)
    cs, ns = op.get('chunk_size'), op.get('n_splits')
    if op.get('input') == 'nd':
        # the array is cut into row blocks first (same rule); every block is one task, tasks are then handed out one per chunk
        rows, k = [], 0
        for sz in spec_sizes(n_tasks, cs, ns, n_jobs, default_div=4):
            rows.append(list(range(k, k + sz)))
            k += sz
        return [[r[0]] for r in rows], rows
    chunks, k = [], 0
    if cs is None and op.get('input') == 'gen' and il is None:
        cs = 4          # length unknown: documented fall-back
    for sz in spec_sizes(n_tasks, cs, ns, n_jobs):
        chunks.append(list(range(k, k + sz)))
        k += sz
    return chunks, None


def repo_chunks(op, n_jobs):
    """the same, computed with /repo's own parameter derivation and chunker (for cross-checking the two)"""
    from mpire.params import WorkerPoolParams, check_map_parameters
    from mpire.utils import chunk_tasks
    import warnings
    m = op['n']
    pp = WorkerPoolParams(n_jobs, None)
    data = list(range(m))
    il = op.get('iterable_len')
    sized = op.get('input', 'list') != 'gen'
    with warnings.catch_warnings():
        warnings.simplefilter('ignore')
        if op.get('input') == 'nd':
            from mpire.utils import apply_numpy_chunking
            import numpy as np
            it, il2, cs2, ns2 = apply_numpy_chunking(np.arange(m).reshape(m, 1), il, op.get('chunk_size'), op.get('n_splits'), n_jobs)
            rows = [[int(r[0]) for r in c[0]] for c in it]
            return [[r[0]] for r in rows], rows
        n_tasks, ma, cs, _, _ = check_map_parameters(pp, data if sized else iter(data), il, op.get('max_tasks_active'),
                                                    op.get('chunk_size'), op.get('n_splits'), None, False, None, None, None, None, None)
        chunks = [list(c) for c in chunk_tasks(data, n_tasks, cs, op.get('n_splits'))]
    return chunks, None


def _vcount(xs):
    """multiset of result values (values can be lists when something went wrong: count them by their JSON text)"""
    out = collections.Counter()
    for x in (xs if isinstance(xs, (list, tuple)) else [xs]):
        out[x if isinstance(x, (int, str, bool)) or x is None else json.dumps(x, sort_keys=True, default=str)] += 1
    return out


def check_op(sc, obs, opi, add):
    """add(prop, clause, detail) for every clause violated by op number opi of the scenario."""
    op = sc['ops'][opi]
    o = obs['ops'][opi] if opi < len(obs['ops']) else None
    if o is None or op['op'] not in MAPS:
        return
    n_jobs = sc['pool'].get('n_jobs', 2)
    calls = [c for c in obs.get('calls', []) if c[0] == opi]
    tasks = [c for c in calls if c[1] == 'task']
    m = effective_n(op)
    numpy_in = op.get('input') == 'nd'
    ok = o.get('outcome') == 'ok'
    full = ok and (op['op'] in ('map', 'map_unordered') or op.get('consume', 'all') == 'all')
    # a task whose argument could not be recognised (e.g. it was given to a function of another call) counts as index -1
    for c in tasks:
        if not isinstance(c[5], int) or isinstance(c[5], bool):
            c[5] = -1
    entered = collections.Counter(c[5] for c in tasks)

    # ---- C02 ----
    if entered.get(-1):
        # the user function was entered with something that is not one of the submitted tasks (e.g. a second, differently
        # packed invocation of a task)
        add('C02', 'unexpected_invocation', {'calls_with_unrecognised_arguments': entered[-1], 'example': [c[:6] for c in tasks if c[5] == -1][:2]})
    dup = {k: v for k, v in entered.items() if v > 1}
    if dup:
        add('C02', 'exec_at_most_once', {'task_indices_executed_more_than_once': dict(list(dup.items())[:5])})
    if full:
        if numpy_in:
            want = collections.Counter(r[0] for r in ref_chunks(op, n_jobs)[1])
        else:
            want = collections.Counter(range(m))
        if entered != want:
            missing = sorted((want - entered).elements())[:8]
            extra = sorted((entered - want).elements())[:8]
            add('C02', 'exec_exactly_once_on_success', {'missing': missing, 'unexpected': extra})

    # ---- C01 ----
    if full:
        res = o.get('result')
        exp = expected_values(op)
        if numpy_in:
            got = res
            if isinstance(res, list) and op['op'] in ('map',) and op.get('concatenate_numpy_output') is False:
                got = {'nd': [row for part in res for row in part['nd']]}
            elif isinstance(res, list):
                rows = [row for part in res for row in (part['nd'] if isinstance(part, dict) else part)]
                got = {'nd': rows if op['op'] in ('map', 'imap') else sorted(rows)}
                if op['op'] not in ('map', 'imap'):
                    exp = {'nd': sorted(exp['nd'])}
            if got != exp:
                add('C01', 'numpy_concat', {'got': str(got)[:200], 'expected': str(exp)[:200]})
        elif op['op'] in ('map', 'imap'):
            if res != exp:
                bad = next((i for i, (a, b) in enumerate(zip(res, exp)) if a != b), min(len(res), len(exp)))
                add('C01', 'ordered_equals_sequential', {'len_got': len(res), 'len_expected': len(exp), 'first_difference_at': bad,
                                                         'got': res[bad:bad + 3], 'expected': exp[bad:bad + 3]})
        else:
            res = [tuple(x) if isinstance(x, list) else x for x in res]
            if _vcount(res) != _vcount(exp):
                add('C01', 'unordered_same_multiset', {'len_got': len(res), 'len_expected': len(exp),
                                                       'missing': sorted((_vcount(exp) - _vcount(res)).elements(), key=str)[:5],
                                                       'unexpected': sorted((_vcount(res) - _vcount(exp)).elements(), key=str)[:5]})
        badconv = [c[5] for c in tasks if not c[8]]
        if badconv:
            add('C01', 'unpack_convention', {'elem': op.get('elem', 'scalar'), 'tasks': badconv[:5]})
    elif ok and op['op'] in ('imap', 'imap_unordered'):
        # partially consumed lazy call: what was yielded must be correct
        res = o.get('result') or []
        exp = expected_values(op)
        if not numpy_in:
            if op['op'] == 'imap' and res != exp[:len(res)]:
                add('C01', 'imap_prefix', {'got': res[:10], 'expected': exp[:len(res)][:10]})
            if op['op'] == 'imap_unordered' and (_vcount(res) - _vcount(exp)):
                add('C01', 'unordered_sub_multiset', {'got': res[:10]})

    # ---- C11 / C12 / C13 per instance ----
    by_inst = collections.OrderedDict()
    for c in calls:
        by_inst.setdefault(c[3], []).append(c)
    L = op.get('worker_lifespan')
    try:
        chunks, rows = ref_chunks(op, n_jobs)
        cmax = max((len(c) for c in chunks), default=1)
    except Exception:
        chunks, cmax = None, None
    has_init, has_exit = bool(op.get('init')), bool(op.get('exit'))
    keep_alive_pool = bool(sc['pool'].get('keep_alive'))
    for tok, cs in by_inst.items():
        kinds = ''.join({'init': 'I', 'task': 'T', 'exit': 'E'}[c[1]] for c in cs)
        if full and not keep_alive_pool and not sc.get('relax_shape'):
            import re
            pat = ('I' if has_init else '') + 'T+' + ('E' if has_exit else '')
            if not re.fullmatch(pat, kinds):
                add('C11', 'instance_shape', {'instance': cs[0][2], 'token': tok, 'sequence': kinds[:60], 'required': pat})
        ntask = kinds.count('T')
        if L is not None and cmax is not None and ntask > L + cmax - 1:
            add('C12', 'lifespan_bound', {'instance': cs[0][2], 'token': tok, 'tasks_executed': ntask, 'L': L, 'max_chunk': cmax})
        for c in cs:
            true_id = int(c[2].split('-')[-1]) if c[2].startswith('Worker-') else None
            if sc['pool'].get('pass_worker_id') is not None or c[4] is not None:
                if c[4] is not None and (c[4] != true_id or not (0 <= c[4] < n_jobs)):
                    add('C13', 'worker_id_value', {'seen': c[4], 'actual': true_id, 'n_jobs': n_jobs})
            if not c[9]:
                add('C13', 'state_private', {'instance': c[2], 'token': tok})
            if not c[10]:
                add('C13', 'shared_objects_passed', {'instance': c[2]})
            if not c[8] and c[1] != 'task':
                add('C13', 'extras_order_init_exit', {'kind': c[1]})
    # one live instance per id: the call intervals of two instances with the same id must not interleave
    by_role = collections.defaultdict(list)
    for tok, cs in by_inst.items():
        t0 = min(c[6] for c in cs)
        t1 = max((c[7] if c[7] is not None else c[6]) for c in cs)
        by_role[cs[0][2]].append((t0, t1, tok))
    for role, ivs in by_role.items():
        ivs.sort()
        for (a0, a1, ta), (b0, b1, tb) in zip(ivs, ivs[1:]):
            if b0 < a1:
                add('C13', 'one_live_instance_per_id', {'id': role, 'instances': [ta, tb], 'intervals': [(a0, a1), (b0, b1)]})
    if full and not has_exit and not keep_alive_pool and o.get('exit_results'):
        # the workers of this call were started for it and none of them ran an exit function: nothing of an earlier generation is shown
        add('C11', 'exit_results_of_this_generation_only', {'got': o['exit_results'][:6], 'expected': []})
    if full and has_exit and not keep_alive_pool:
        ex = o.get('exit_results') or []
        got = collections.Counter(tuple(x) if isinstance(x, list) else x for x in ex)
        def _exit_value(tok, cs):
            if op.get('exit_none') == 'all' or (op.get('exit_none') == 'even' and isinstance(tok, int) and tok % 2 == 0):
                return None
            return ('exit', tok, sum(1 for c in cs if c[1] == 'task' and c[7] is not None))
        want = collections.Counter(_exit_value(tok, cs) for tok, cs in by_inst.items() if any(c[1] == 'exit' and c[7] is not None for c in cs))
        if got != want:
            add('C11', 'exit_results_conserved', {'got': sorted(got.elements(), key=str)[:6], 'expected': sorted(want.elements(), key=str)[:6]})
        elif full and not numpy_in and not op.get('exit_none') and sum(x[2] for x in got.elements()) != m:
            add('C11', 'exit_results_account_for_every_task', {'sum': sum(x[2] for x in got.elements()), 'tasks': m})

    # ---- C16 ----
    order_eff = bool(sc['pool'].get('order_tasks'))
    for prev in sc['ops'][:opi]:
        if prev.get('op') == 'set' and prev.get('what') == 'order_tasks':
            order_eff = bool(prev.get('value'))
    if order_eff and chunks is not None and ok:
        # (whatever part of the call has been executed: a lazy call that was left open, or resumed later, included)
        where = {}
        if numpy_in:
            # every row block is one task and one chunk; the task function reports the first row of its block
            for ci, block in enumerate(rows or []):
                if block:
                    where[block[0]] = ci
        else:
            for ci, ch in enumerate(chunks):
                for i in ch:
                    where[i] = ci
        for c in tasks:
            ci = where.get(c[5])
            if ci is not None and c[2] != f'Worker-{ci % n_jobs}':
                add('C16', 'chunk_i_to_worker_i_mod_n', {'task': c[5], 'chunk': ci, 'executed_by': c[2], 'required': f'Worker-{ci % n_jobs}'})
                break

    # ---- C15 ----
    if op['op'] in ('imap_unordered', 'imap') and op.get('input', 'list') in ('list', 'gen') and ok:
        io = o.get('io') or []
        drawn = delivered = 0
        worst = 0
        paused = False
        drawn_while_paused = 0
        for e in io:
            if e[0] == 'd':
                drawn += 1
                worst = max(worst, drawn - delivered)
                if paused:
                    drawn_while_paused += 1
            elif e[0] == 'y':
                delivered += 1
            elif e[0] == 'p0':
                paused = True
            elif e[0] == 'p1':
                paused = False
        cs = op.get('chunk_size')
        ma = op.get('max_tasks_active')
        if cs is None and ma is not None and op.get('input', 'list') in ('list', 'gen'):
            # the chunk size the call derives (documented rule): n / n_splits, 4 for an input of unknown length, n / (64 n_jobs)
            il = op.get('iterable_len')
            known = m if op.get('input', 'list') == 'list' or il is not None else None
            cs = (known / op['n_splits']) if (op.get('n_splits') and known) else 4 if known is None else known / (n_jobs * 64)
            cs = max(cs, 1)
        if cs is not None and op['op'] == 'imap_unordered':
            bound = (ma if ma is not None else 2 * n_jobs * math.ceil(cs)) + math.ceil(cs)
            if worst > bound:
                add('C15', 'lookahead_bound', {'max_drawn_minus_delivered': worst, 'bound': bound, 'max_tasks_active': ma, 'chunk_size': cs})
        if drawn_while_paused:
            add('C15', 'no_draw_while_consumer_idle', {'elements_drawn_while_consumer_paused': drawn_while_paused})

    # ---- C19 ----
    if op.get('progress_bar') and full:
        bar = o.get('bar') or []
        ns = [int(a) for a, b in bar]
        totals = [None if b == '?' else int(b) for a, b in bar]
        items = len(rows) if numpy_in and rows is not None else m
        if any(b < a for a, b in zip(ns, ns[1:])):
            add('C19', 'displayed_monotone', {'sequence': ns[:40]})
        if any(t is not None and x > t for x, t in zip(ns, totals)):
            add('C19', 'displayed_le_total', {'sequence': list(zip(ns, totals))[:40]})
        if not ns or ns[-1] != items or totals[-1] != items:
            add('C19', 'final_eq_total_eq_items', {'last': (ns[-1], totals[-1]) if ns else None, 'items': items})

    # ---- C18 ----
    ins = o.get('insights')
    if sc['pool'].get('enable_insights') and full:
        if not isinstance(ins, dict) or 'n_completed_tasks' not in ins:
            add('C18', 'insights_present', {'insights': str(ins)[:100]})
        else:
            # tasks executed since the pool last started its workers
            start_op = opi
            # (workers are kept after a call with keep_alive, and after apply submissions in any case)
            while start_op > 0 and obs['ops'][start_op - 1].get('outcome') == 'ok' and _same_workers(sc, start_op) and \
                    ((sc['pool'].get('keep_alive') and sc['ops'][start_op - 1]['op'] in MAPS) or sc['ops'][start_op - 1]['op'] == 'apply_batch'):
                start_op -= 1
            since = sum(1 for c in obs['calls'] if start_op <= c[0] <= opi and c[1] == 'task' and c[7] is not None)
            if len(ins['n_completed_tasks']) != n_jobs:
                add('C18', 'one_entry_per_worker', {'entries': len(ins['n_completed_tasks'])})
            if sum(ins['n_completed_tasks']) != since:
                add('C18', 'completed_sum', {'sum': sum(ins['n_completed_tasks']), 'tasks_executed_since_start': since})
            rs = [ins[k + '_ratio'] for k in ('start_up', 'init', 'waiting', 'working', 'exit')]
            if any(r < 0 or r > 1 for r in rs):
                add('C18', 'ratios_in_unit_interval', {'ratios': rs})
            if sum(rs) > 1 + 1e-6 or (sum(rs) < 1 - 1e-3 and ins.get('total_time') not in ('0:00:00',)):
                add('C18', 'ratios_sum_to_one', {'sum': sum(rs)})
            if len(ins['top_5_max_task_durations']) > 5 or len(ins['top_5_max_task_durations']) != len(ins['top_5_max_task_args']):
                add('C18', 'top5_shape', {'n': len(ins['top_5_max_task_durations'])})
            if sorted(ins['top_5_max_task_durations'], reverse=True) != ins['top_5_max_task_durations']:
                add('C18', 'top5_sorted', {'durations': ins['top_5_max_task_durations']})
    elif not sc['pool'].get('enable_insights') and ok and ins not in (None, {}):
        add('C18', 'disabled_empty', {'insights': str(ins)[:100]})


def expected_exc_types(op):
    f = op.get('fail') or {}
    return {'ValueError': 'ValueError', 'Custom': 'CustomError', 'Attr': 'AttrError', 'SystemExit': 'SystemExit', 'KeyError': 'KeyError', 'Wrap': 'WrapError', 'Prefix': 'PrefixedError', 'TypeError': 'TypeError', 'KeyboardInterrupt': 'KeyboardInterrupt'}.get(f.get('exc', 'ValueError'))


def check_failure_op(sc, obs, opi, add, latency_bound=None):
    """clauses for a map-family op that was made to fail by a user function raising"""
    op = sc['ops'][opi]
    o = obs['ops'][opi] if opi < len(obs['ops']) else None
    if o is None or op['op'] not in MAPS or not op.get('fail'):
        return
    f = op['fail']
    will_fail = bool(f.get('at')) or f.get('init') or f.get('exit')
    tasks = [c for c in obs.get('calls', []) if c[0] == opi and c[1] == 'task']
    raised = [r for r in obs.get('raised', []) if r.get('opi', opi) == opi]      # only what user functions raised in THIS call
    if o.get('outcome') == 'ok':
        reached = any(c[5] in f.get('at', ()) for c in tasks) or any(c[1] in ('init', 'exit') and c[7] is None for c in obs.get('calls', []) if c[0] == opi)
        if reached and op.get('consume', 'all') == 'all':
            add('C04', 'failure_surfaces', {'raised_in_worker': raised[:2], 'call_outcome': 'ok'})
        return
    exc = o.get('exc') or {}
    if not raised:
        add('C04', 'raised_is_real', {'got': exc, 'raised_by_user_functions': []})
        return
    match = [r for r in raised if r['type'] == exc.get('type') and r['args'] == exc.get('args') and r['attrs'] == exc.get('attrs')]
    if not match and exc.get('type') != 'CannotPickleExceptionError':
        add('C04', 'same_type_args_attrs', {'got': exc, 'raised_by_user_functions': raised[:3]})
    if not exc.get('cause_has_traceback'):
        add('C04', 'cause_has_worker_traceback', {'cause': exc.get('cause_text')})
    elif f.get('at') and op.get('elem') != 'badrepr' and not any(('Arg 0: %r' % elem_repr(op, i)) in (exc.get('cause_text') or '') or str(i) in (exc.get('cause_text') or '') for i in f['at']):
        add('C04', 'cause_names_failing_arguments', {'cause': (exc.get('cause_text') or '')[:200]})
    elif f.get('at') and op.get('input', 'list') != 'nd':
        # … and names exactly them: one "Arg <k>: <repr>" line per argument of a failing task, as the function received them
        text = exc.get('cause_text') or ''
        got = [l.strip() for l in text.splitlines() if l.strip().startswith('Arg ')]
        wants = [arg_lines(op, i) for i in f['at']]
        if got and all(w is not None for w in wants) and not any(got == w for w in wants):
            add('C04', 'cause_lists_the_failing_tasks_arguments', {'cause_lines': got[:6], 'expected_one_of': wants[:3]})
    if op['op'] in ('map', 'map_unordered') and o.get('result') is not None:
        add('C04', 'map_no_partial', {'result': str(o.get('result'))[:100]})
    if op['op'] in ('imap', 'imap_unordered'):
        ys = [e[1] for e in (o.get('io') or []) if e[0] == 'y']
        exp = expected_values(op)
        if op.get('input') != 'nd':
            if op['op'] == 'imap' and ys != exp[:len(ys)]:
                add('C04', 'yielded_before_raising_correct', {'yielded': ys[:10]})
            if op['op'] == 'imap_unordered' and (_vcount(ys) - _vcount(exp)):
                add('C04', 'yielded_before_raising_correct', {'yielded': ys[:10]})
    if latency_bound is not None:
        tfail = min((c[6] for c in obs.get('calls', []) if c[0] == opi and c[7] is None), default=None)
        if tfail is not None and o.get('t1') is not None and o['t1'] - tfail > latency_bound:
            add('C04', 'prompt', {'raised_in_worker_at': tfail, 'call_raised_at': o['t1'], 'bound': latency_bound})


def arg_lines(op, i):
    """the "Arg k: repr" lines that describe task i of this call (None when the element kind has no stable repr)"""
    from harness.detsim.scenario import elem_of
    kind = op.get('elem', 'scalar')
    if kind == 'badrepr':
        return None
    e = elem_of(kind, i)
    if isinstance(e, dict):
        return ['Arg %s: %r' % (k, v) for k, v in e.items()]
    if isinstance(e, (tuple, list)):
        return ['Arg %d: %r' % (k, v) for k, v in enumerate(e)]
    return ['Arg 0: %r' % (e,)]


def elem_repr(op, i):
    from harness.detsim.scenario import elem_of
    e = elem_of(op.get('elem', 'scalar'), i)
    return e[0] if isinstance(e, (tuple, list)) else e


def check_apply_op(sc, obs, opi, add):
    op = sc['ops'][opi]
    o = obs['ops'][opi] if opi < len(obs['ops']) else None
    if o is None or op['op'] != 'apply_batch' or 'apply' not in o:
        if o is not None and op['op'] == 'apply_batch' and o.get('outcome') == 'raise':
            add('C09', 'apply_batch_completes', {'exc': o.get('exc')})
        return
    f = op.get('fail') or {}
    to = op.get('task_timeout')
    dur = (op.get('dur') or {}).get('map', {}) if isinstance(op.get('dur'), dict) else {}
    cbs = collections.defaultdict(list)
    for c in o.get('callbacks', []):
        cbs[c[1]].append(c)
    for i, rdy in o.get('ready_after_join') or []:
        if not rdy:
            add('C09', 'ready_once_joined', {'task': i})
    for (i, kind, val, ready) in o['apply']:
        slow = to is not None and float(dur.get(str(i), 0)) > to
        if f.get('init') == 'all' and op.get('init') and any(c[0] == opi and c[1] == 'init' for c in obs.get('calls', [])):
            want = ('raise', expected_exc_types(op))       # worker_init fails in every worker: every task reports that error
            if kind == 'raise' and val == want[1]:
                if len(cbs[i]) != 1 or cbs[i][0][0] != 'ecb':
                    add('C09', 'exactly_one_callback', {'task': i, 'callbacks': cbs[i]})
                continue
        natural = ('raise', expected_exc_types(op)) if i in f.get('at', ()) else ('ok', value_of(i))
        # (the task function sleeps, then returns or raises: a slow task is timed out before either happens)
        want = ('raise', 'TimeoutError') if slow else natural
        if slow and op.get('cb_dur') and float(dur.get(str(i), 0)) < 100 and (kind, val) == natural:
            # user callbacks run in the handler threads: while one is being delivered the timeout scan is held up, so a slow
            # task may complete (or fail by itself) before its timeout is noticed.  Either outcome is accepted; it still has to be
            # delivered once
            want = natural
        if (kind, val) != want:
            add('C09', 'value_correct', {'task': i, 'got': (kind, val), 'expected': want})
        elif i in f.get('at', ()) and want == natural:
            got = (o.get('apply_exc') or {}).get(str(i)) or {}
            raised = [r for r in obs.get('raised', []) if r.get('opi', opi) == opi]
            if not any(r['type'] == got.get('type') and r['args'] == got.get('args') and r['attrs'] == got.get('attrs') for r in raised):
                add('C09', 'raises_what_func_raised', {'task': i, 'got': got, 'raised_by_user_function': raised[:3]})
        if not ready:
            add('C09', 'ready_after_get', {'task': i})
        if len(cbs[i]) != 1:
            add('C09', 'exactly_one_callback', {'task': i, 'callbacks': cbs[i]})
        elif (cbs[i][0][0] == 'cb') != (want[0] == 'ok'):
            add('C09', 'callback_kind_matches', {'task': i, 'callback': cbs[i][0], 'expected': want})
    if o.get('outcome') != 'ok':
        add('C09', 'failure_does_not_stop_pool', {'exc': o.get('exc')})
    # identity, private state and extras of the apply family: what a task (or a hook run for it) received
    n_jobs = sc['pool'].get('n_jobs', 2)
    for c in [c for c in obs.get('calls', []) if c[0] == opi]:
        true_id = int(c[2].split('-')[-1]) if str(c[2]).startswith('Worker-') else None
        if c[4] is not None and (c[4] != true_id or not (0 <= c[4] < n_jobs)):
            add('C13', 'worker_id_value', {'seen': c[4], 'actual': true_id, 'n_jobs': n_jobs, 'family': 'apply'})
        if not c[9]:
            add('C13', 'state_private', {'instance': c[2], 'token': c[3], 'family': 'apply'})
        if not c[10]:
            add('C13', 'shared_objects_passed', {'instance': c[2], 'family': 'apply'})
        if not c[8]:
            add('C13', 'extras_order_apply', {'kind': c[1]})
    if op.get('want_insights') and sc['pool'].get('enable_insights') and opi == 0:
        ins = o.get('insights')
        done = sum(1 for a in o['apply'] if a[1] == 'ok')
        if not isinstance(ins, dict) or 'n_completed_tasks' not in ins:
            add('C18', 'insights_present', {'insights': str(ins)[:100], 'after': 'apply'})
        elif sum(ins['n_completed_tasks']) != done or len(ins['n_completed_tasks']) != sc['pool'].get('n_jobs', 2):
            add('C18', 'completed_sum', {'sum': sum(ins['n_completed_tasks']), 'apply_tasks_completed': done, 'entries': len(ins['n_completed_tasks'])})


def _same_workers(sc, opi):
    return True


def check_scenario(sc, obs, add):
    """whole-scenario clauses: termination, leaks; then per-op clauses"""
    if obs.get('harness_error'):
        return
    if obs.get('stuck') and not sc.get('expect_stuck_ok'):
        add('C03', 'terminates', {'stuck': obs['stuck']})
        return
    if sc.get('all_valid') and not sc.get('inject'):
        # a scenario made of valid calls only (nothing raises, times out, dies or is interrupted): no call may raise
        lazy_open = False
        for opi, (op, oo) in enumerate(zip(sc['ops'], obs.get('ops', []))):
            if op['op'] in ('kill_idle', 'terminate') or op.get('fail') or op.get('bad_arg') or op.get('task_timeout') or op.get('worker_init_timeout') \
                    or op.get('worker_exit_timeout'):
                break
            if oo.get('outcome') == 'raise' and op['op'] in MAPS + ('apply_batch', 'stop_and_join', 'set') and not lazy_open:
                for p in ('C01', 'C02', 'C09', 'C10', 'C11', 'C12', 'C13', 'C15', 'C16', 'C18', 'C19'):
                    add(p, 'valid_call_raises', {'op': opi, 'raised': oo.get('exc')})
                break
            if op['op'] in ('imap', 'imap_unordered') and op.get('consume', 'all') != 'all' and op.get('abandon') != 'close':
                lazy_open = True
    # a worker id is held by one live instance at a time, over the whole history: the spans in which two instances of one id are inside
    # user functions (first entry to last return) do not overlap
    spans = {}
    for c in obs.get('calls', []):
        if str(c[2]).startswith('Worker-'):
            a, b = spans.get(c[3], (c[6], c[6]))[0:2] if c[3] in spans else (c[6], c[6])
            spans[c[3]] = (min(a, c[6]), max(b, c[7] if c[7] is not None else c[6]), c[2])
    by_id = collections.defaultdict(list)
    for tok, (a, b, role) in spans.items():
        by_id[role].append((a, b, tok))
    for role, ivs in by_id.items():
        ivs.sort()
        for (a0, a1, ta), (b0, b1, tb) in zip(ivs, ivs[1:]):
            if b0 < a1:
                add('C13', 'one_live_instance_per_id', {'id': role, 'instances': [ta, tb], 'spans': [(a0, a1), (b0, b1)], 'over': 'the whole history'})
                break
    # operations that pass their own function objects (groups of operations share theirs): what runs for an operation is what it passed
    for c in obs.get('calls', []):
        # (tasks: a deferred worker_exit of workers that are being retired is theirs, whichever call it runs during)
        if len(c) > 13 and c[13] is not None and c[0] < len(sc['ops']) and c[1] == 'task':
            want = sc['ops'][c[0]].get('func_group')
            if want is not None and want != c[13]:
                for p in ('C01', 'C02', 'C10', 'C11', 'C13'):
                    add(p, 'runs_the_functions_it_was_given', {'op': c[0], 'kind': c[1], 'functions_of_group': c[13], 'the_call_passed_group': want})
                break
    # worker_state is ONE object per instance: the k-th call an instance makes (init, tasks, exit, over all the calls it serves) is the
    # k-th call its state object sees
    seen = {}
    for c in sorted([c for c in obs.get('calls', []) if len(c) > 12 and c[12] is not None], key=lambda c: c[6]):
        k = seen.get(c[3], 0) + 1
        seen[c[3]] = k
        if c[12] != k:
            add('C13', 'state_same_object', {'instance': c[2], 'token': c[3], 'call': c[1], 'nth_call_of_the_instance': k, 'nth_call_seen_by_its_state': c[12]})
            break
    # a second pool of the same process, used in between: its calls are calls like any other (correct results, no failure)
    for opi, (op, oo) in enumerate(zip(sc['ops'], obs.get('ops', []))):
        if op['op'] == 'other_pool' and (oo.get('outcome') != 'ok' or oo.get('other_wrong')):
            for p in ('C01', 'C02', 'C03', 'C12', 'C15', 'C16'):
                add(p, 'second_pool_unaffected', {'op': opi, 'raised': oo.get('exc'), 'wrong': oo.get('other_wrong')})
            break
    for opi in range(len(obs.get('ops', []))):
        check_op(sc, obs, opi, add)
        check_failure_op(sc, obs, opi, add, latency_bound=sc.get('latency_bound'))
        check_apply_op(sc, obs, opi, add)
    # a worker id is never held by two instances that are alive at the same time (instance life = start .. finished/killed)
    by_role = collections.defaultdict(list)
    for role, a, b in obs.get('lifetimes') or []:
        if a is not None:
            by_role[role].append((a, b))
    for role, ivs in by_role.items():
        ivs.sort()
        for (a0, a1), (b0, b1) in zip(ivs, ivs[1:]):
            if a1 is None or b0 < a1:
                add('C13', 'one_live_instance_per_id', {'id': role, 'first_instance_steps': [a0, a1], 'next_instance_started_at_step': b0})
                break
    # one of the pool's own helper threads ended with an exception: whatever it was responsible for is no longer done
    for role, err, tb in obs.get('thread_excs') or []:
        if role in ('results_handler', 'restart_handler', 'timeout_handler', 'unexpected_death_handler', 'progress_bar_handler') and 'SimAbort' not in err:
            for p in ('C03', 'C04', 'C05', 'C07', 'C08', 'C09', 'C12', 'C19'):
                add(p, 'helper_thread_crashed', {'thread': role, 'error': err[:200]})
            break
    # insights stay readable after the with-block: what the pool reports then is what it reported after its last operation
    if sc['pool'].get('enable_insights') and obs.get('ops') and 'insights_after_exit' in obs and obs.get('exit_outcome') == 'ok':
        last = next((oo for oo in reversed(obs['ops']) if isinstance(oo.get('insights'), dict) and 'n_completed_tasks' in oo['insights']), None)
        after = obs['insights_after_exit']
        if last is not None and obs['ops'][-1] is last and last.get('outcome') == 'ok':
            if not isinstance(after, dict) or after.get('n_completed_tasks') != last['insights'].get('n_completed_tasks'):
                add('C18', 'insights_readable_after_exit', {'inside_the_with_block': last['insights'].get('n_completed_tasks'),
                                                             'after_it': (after or {}).get('n_completed_tasks') if isinstance(after, dict) else str(after)[:100]})
    if obs.get('procs_alive'):
        add('C05', 'no_worker_process_alive_after_exit', {'alive': obs['procs_alive'][:8]})
    if obs.get('alive_at_exit'):
        add('C05', 'no_thread_or_worker_alive_after_exit', {'alive': obs['alive_at_exit'][:8]})
    if obs.get('sigint_handler_after') != obs.get('sigint_handler_before'):
        add('C05', 'sigint_handler_restored', {'before': obs.get('sigint_handler_before'), 'after': obs.get('sigint_handler_after')})
    if obs.get('tqdm_lock_same') is False:
        add('C05', 'tqdm_lock_restored', {})
