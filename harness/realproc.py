"""Real-process tier (thorough only; exploration, never a theorem): runs small drivers in child processes with a watchdog
and inspects /proc."""
import json
import os
import signal
import subprocess
import sys
import textwrap
import time

ROOT = os.path.dirname(os.path.dirname(os.path.abspath(__file__)))

LEAK_DRIVER = r'''
import os, sys, json, signal, threading, time, gc
sys.path.insert(0, %(root)r)
from mpire import WorkerPool
import mpire.tqdm_utils as tu
def sq(x): return x * x
def slow(x): time.sleep(30); return x
def boom(x):
    if x == 3: raise ValueError(x)
    return x
def bad_init(): raise KeyError('init')
def bad_exit(): raise KeyError('exit')
def late_bad_exit():
    time.sleep(0.6)      # the other workers are gone and the task queues are closed by the time this one fails
    raise KeyError('exit')
def zombies():
    me = os.getpid(); n = 0
    for p in os.listdir('/proc'):
        if p.isdigit():
            try:
                st = open('/proc/%%s/stat' %% p).read().rsplit(')', 1)[1].split()
                if int(st[1]) == me and st[0] == 'Z': n += 1
            except Exception: pass
    return n
def children():
    me = os.getpid(); out = []
    for p in os.listdir('/proc'):
        if p.isdigit():
            try:
                st = open('/proc/%%s/stat' %% p).read().rsplit(')', 1)[1].split()
                if int(st[1]) == me and st[0] != 'Z': out.append(int(p))
            except Exception: pass
    return out
EXTRA = []
def cycle(cause, sm, **kw):
    before = set(threading.enumerate())
    holder = []
    try:
        return _cycle2(cause, sm, kw, holder)
    finally:
        # right after the with-block, while the pool object still exists: no helper thread of the pool is alive
        # (a thread that is just ending gets up to two seconds)
        for _ in range(20):
            extra = sorted(t.name for t in threading.enumerate() if t not in before and t.is_alive())
            if not extra:
                break
            time.sleep(0.1)
        EXTRA.append(extra)
        holder.clear()
def _cycle2(cause, sm, kw, holder):
    try:
        with WorkerPool(2, start_method=sm, **kw) as p:
            holder.append(p)
            if cause == 'late_exit_exc': p.map(sq, range(8), worker_exit=late_bad_exit)
            elif cause == 'success': p.map(sq, range(8), chunk_size=2)
            elif cause == 'lifespan': p.map(sq, range(10), chunk_size=1, worker_lifespan=2)
            elif cause == 'task_exc': p.map(boom, range(8), chunk_size=1)
            elif cause == 'init_exc': p.map(sq, range(8), worker_init=bad_init)
            elif cause == 'exit_exc': p.map(sq, range(8), worker_exit=bad_exit)
            elif cause == 'timeout': p.map(slow, range(4), task_timeout=0.2)
            elif cause == 'terminate_during_imap':
                g = p.imap(sq, range(50), chunk_size=1); next(g); p.terminate()
            elif cause == 'abandoned_imap':
                g = p.imap_unordered(sq, range(50), chunk_size=1); next(g); del g
            elif cause == 'mixed_map':
                g = p.imap(sq, range(50), chunk_size=1); next(g); p.map(sq, range(4))
            elif cause == 'progress': p.map(sq, range(8), progress_bar=True, progress_bar_options={'file': open(os.devnull, 'w')})
            elif cause == 'apply':
                rs = [p.apply_async(sq, (i,)) for i in range(5)]; [r.get() for r in rs]
    except BaseException as e:
        return type(e).__name__
    return 'ok'
def main():
    cause, sm = sys.argv[1], sys.argv[2]
    kw = json.loads(sys.argv[3])
    std = tu.get_tqdm(None)
    start = dict(children=len(children()), zombies=zombies())
    cycle(cause, sm, **kw)            # warm-up
    gc.collect(); time.sleep(0.3)
    base = dict(fds=len(os.listdir('/proc/self/fd')), threads=sorted(t.name for t in threading.enumerate()), children=len(children()), zombies=zombies(),
                handler=repr(signal.getsignal(signal.SIGINT)), lock=id(std.get_lock()))
    outs = [cycle(cause, sm, **kw) for _ in range(3)]
    gc.collect(); time.sleep(0.5)
    after = dict(fds=len(os.listdir('/proc/self/fd')), threads=sorted(t.name for t in threading.enumerate()), children=len(children()), zombies=zombies(),
                 handler=repr(signal.getsignal(signal.SIGINT)), lock=id(std.get_lock()))
    print(json.dumps({'start': start, 'base': base, 'after': after, 'outs': outs, 'extra_threads_after_with': EXTRA[1:]}))
if __name__ == '__main__':
    main()
'''


def run_driver(code, args, timeout=90):
    # the driver is a real file: with the spawn/forkserver start methods the children re-import __main__ from its path
    import tempfile
    d = tempfile.mkdtemp(prefix='mpire_verif_rp_')
    path = os.path.join(d, 'rp_driver.py')
    with open(path, 'w') as f:
        f.write(code)
    try:
        return _run_file(path, args, timeout)
    finally:
        import shutil
        shutil.rmtree(d, ignore_errors=True)


def _run_file(path, args, timeout):
    p = subprocess.Popen(['/venv/bin/python', '-W', 'ignore', path] + args, stdout=subprocess.PIPE, stderr=subprocess.PIPE, text=True,
                         start_new_session=True, env=dict(os.environ, PYTHONPATH=os.environ.get('MPIRE_REPO', '/repo')))
    try:
        out, err = p.communicate(timeout=timeout)
        return p.returncode, out, err
    except subprocess.TimeoutExpired:
        os.killpg(p.pid, signal.SIGKILL)
        out, err = p.communicate()
        return 'timeout', out, err


def leak_suite(chk, quick=False):
    code = LEAK_DRIVER % {'root': ROOT}
    causes = ['success', 'lifespan', 'task_exc', 'init_exc', 'exit_exc', 'late_exit_exc', 'timeout', 'terminate_during_imap', 'abandoned_imap', 'mixed_map', 'progress', 'apply']
    jobs = []
    for cause in causes:
        for sm in ('fork', 'threading', 'spawn', 'forkserver'):
            if cause == 'timeout' and sm == 'threading':
                continue
            for kw in ({}, {'keep_alive': True}):
                jobs.append((cause, sm, kw))
            if cause == 'lifespan':
                jobs.append((cause, sm, {'enable_insights': True}))
    if quick:
        # the few combinations DetSim cannot express at all (queues with feeder threads and pipes, start methods that pickle)
        jobs = [('late_exit_exc', 'spawn', {}), ('exit_exc', 'forkserver', {}), ('success', 'spawn', {'keep_alive': True}), ('abandoned_imap', 'forkserver', {}),
                ('lifespan', 'fork', {'enable_insights': True})]      # replaced workers are processes too: ended, waited for, forgotten
    from concurrent.futures import ThreadPoolExecutor
    with ThreadPoolExecutor(6) as ex:
        results = list(ex.map(lambda j: run_driver(code, [j[0], j[1], json.dumps(j[2])], timeout=150), jobs))
    if True:
        if True:
            for (cause, sm, kw), (rc, out, err) in zip(jobs, results):
                case = {'cause': cause, 'start_method': sm, 'pool': kw, 'cycles': 3}
                if rc == 'timeout':
                    chk.notes.setdefault('realproc_inconclusive', []).append(case)      # infrastructure-level: not a verdict by itself
                    continue
                try:
                    d = json.loads(out.strip().splitlines()[-1])
                except Exception:
                    chk.notes.setdefault('realproc_inconclusive', []).append(dict(case, err=err[-300:]))
                    continue
                chk.count('real processes: 3 cycles after warm-up, /proc children + fds + threads + handler + tqdm lock', key=json.dumps(case), nontrivial=True,
                          sample=dict(case, base=d['base'], after=d['after'], outs=d['outs']), cause=cause, start=sm)
                b, a = d['base'], d['after']
                if a['children'] > b['children']:
                    chk.violation('no_worker_process_alive_after_exit', case, {'children_before': b['children'], 'after': a['children']}, 'no child process left', input_class='real_children_' + cause)
                st = d.get('start') or {}
                # (spawn and forkserver leave multiprocessing's own resource tracker / fork server behind: fork and threads only)
                if st and sm in ('fork', 'threading') and (a['children'] > st['children'] or a.get('zombies', 0) > st.get('zombies', 0)):
                    # (not only "no more than after the first cycle": nothing at all, compared with before the first pool)
                    chk.violation('no_worker_process_alive_after_exit', case, {'before_the_first_pool': st, 'after_the_last': {'children': a['children'], 'defunct': a.get('zombies')}},
                                  'no process of the pool is left behind, alive or defunct', input_class='real_leftover_' + cause)
                if a.get('zombies', 0) > b.get('zombies', 0):
                    chk.violation('no_worker_process_alive_after_exit', case, {'defunct_children_before': b.get('zombies'), 'after': a.get('zombies')},
                                  'no process of the pool is left behind, not even one that has ended and was never waited for', input_class='real_zombies_' + cause)
                if a['fds'] > b['fds']:
                    chk.violation('no_descriptor_accumulation', case, {'fds_before': b['fds'], 'after': a['fds']}, 'descriptor count does not grow over cycles', input_class='real_fds_' + cause)
                if a['threads'] != b['threads']:
                    chk.violation('no_thread_or_worker_alive_after_exit', case, {'threads_before': b['threads'], 'after': a['threads']}, 'no helper thread left', input_class='real_threads_' + cause)
                extra = [x for x in d.get('extra_threads_after_with', []) if x]
                if extra:
                    chk.violation('no_thread_or_worker_alive_after_exit', case, {'threads_alive_right_after_the_with_block': extra[:3]},
                                  'no helper thread of the pool is alive once the with-block is left', input_class='real_threads_after_with_' + cause)
                if a['handler'] != b['handler'] or a['lock'] != b['lock']:
                    chk.violation('sigint_handler_restored', case, {'before': b, 'after': a}, 'SIGINT handler and tqdm lock unchanged', input_class='real_handler_' + cause)


PIPE_DRIVER = r'''
import sys, json, time, faulthandler
sys.path.insert(0, %(root)r)
from mpire import WorkerPool
BIG = b"x" * (2 * 1024 * 1024)          # far above the capacity of an OS pipe (64 KiB)
def echo(idx, payload): return idx
def big_result(idx): return (idx, BIG)
def fail_first(idx, payload):
    if idx == 0:
        time.sleep(0.3)                  # the dispatcher fills the task queues meanwhile
        raise ValueError('boom')
    time.sleep(0.2)
    return idx
def main():
    case, sm = sys.argv[1], sys.argv[2]
    faulthandler.dump_traceback_later(45, exit=True)
    t0 = time.time()
    out = {'case': case}
    try:
        with WorkerPool(2, start_method=sm) as pool:
            if case == 'big_args':
                r = pool.map(echo, [(i, BIG) for i in range(12)], chunk_size=1)
                out['ok'] = r == list(range(12))
            elif case == 'big_results':
                r = pool.map(big_result, range(10), chunk_size=1)
                out['ok'] = [x[0] for x in r] == list(range(10)) and all(len(x[1]) == len(BIG) for x in r)
            elif case == 'fail_with_big_args_queued':
                try:
                    pool.map(fail_first, [(i, BIG) for i in range(24)], chunk_size=1, max_tasks_active=24)
                    out['ok'] = False
                except ValueError:
                    out['ok'] = True
            elif case == 'abandon_with_big_args_queued':
                g = pool.imap_unordered(echo, [(i, BIG) for i in range(24)], chunk_size=1, max_tasks_active=24)
                next(g)
                g.close()
                out['ok'] = pool.map(echo, [(i, b'') for i in range(4)]) == [0, 1, 2, 3]
            elif case == 'big_apply':
                rs = [pool.apply_async(echo, (i, BIG)) for i in range(6)]
                out['ok'] = [r.get(timeout=30) for r in rs] == list(range(6))
                pool.stop_and_join()
    except BaseException as e:
        out['ok'] = False
        out['error'] = type(e).__name__ + ': ' + str(e)[:100]
    out['seconds'] = round(time.time() - t0, 2)
    print(json.dumps(out))
if __name__ == '__main__':
    main()
'''


def pipe_suite(chk, quick=True):
    """payloads far above the capacity of an OS pipe: every call ends (returns or raises what it should) within bounded time.
    DetSim's queues are unbounded and have no feeder threads, so this half of C03 is explored on real processes only."""
    code = PIPE_DRIVER % {'root': ROOT}
    cases = ['big_args', 'big_results', 'fail_with_big_args_queued', 'abandon_with_big_args_queued', 'big_apply']
    jobs = [(c, sm) for c in cases for sm in (('fork', 'threading', 'spawn') if not quick else ('fork',))]
    if quick:
        jobs = [('fail_with_big_args_queued', 'fork'), ('abandon_with_big_args_queued', 'fork'), ('big_results', 'fork'), ('big_args', 'threading')]
    from concurrent.futures import ThreadPoolExecutor
    with ThreadPoolExecutor(4) as ex:
        results = list(ex.map(lambda j: run_driver(code, [j[0], j[1]], timeout=90), jobs))
    suite = 'real processes: payloads above the pipe capacity (every call ends in time)'

    def bad(r):
        rc, out, err = r
        try:
            return not json.loads(out.strip().splitlines()[-1]).get('ok')
        except Exception:
            return True
    # a probe that fails is repeated once on its own (the machine may be busy): only what fails again is reported
    results = [r if not bad(r) else run_driver(code, [j[0], j[1]], timeout=90) for j, r in zip(jobs, results)]
    for (case, sm), (rc, out, err) in zip(jobs, results):
        c = {'case': case, 'start_method': sm, 'payload_bytes': 2 * 1024 * 1024}
        try:
            d = json.loads(out.strip().splitlines()[-1])
        except Exception:
            d = None
        chk.count(suite, key=json.dumps(c), nontrivial=True, sample=dict(c, result=d, rc=rc), case=case, start=sm)
        if rc == 'timeout' or (d is None and 'Timeout' in (err or '')) or (d is None and rc not in (0,)):
            # the driver's own watchdog (45 s) or ours (90 s) fired: the call did not end — with stacks in `err` when it was the former
            chk.violation('terminates', c, {'watchdog': rc, 'stacks': (err or '')[-1500:]}, 'the call returns or raises within bounded time', input_class='pipe_hang_' + case)
        elif d is not None and not d.get('ok'):
            chk.violation('terminates', c, d, 'the call ends with the right outcome', input_class='pipe_wrong_' + case)


GROUP_SIGINT_DRIVER = r'''
import os, sys, json, signal, threading, time, faulthandler
sys.path.insert(0, %(root)r)
from mpire import WorkerPool
def sq(x):
    time.sleep(0.05)
    return x * x
def pester(stop):
    t_end = time.time() + 1.5
    while time.time() < t_end and not stop.is_set():
        os.killpg(os.getpgrp(), signal.SIGINT)       # what a terminal does on Ctrl-C: every process of the group gets it
        time.sleep(0.03)
def main():
    sm = sys.argv[1]
    faulthandler.dump_traceback_later(40, exit=True)
    signal.signal(signal.SIGINT, signal.SIG_IGN)      # the caller ignores SIGINT (a background job, nohup)
    stop = threading.Event()
    out = {}
    t = threading.Thread(target=pester, args=(stop,), daemon=True)
    try:
        with WorkerPool(2, start_method=sm) as pool:
            t.start()
            r = pool.map(sq, range(8), chunk_size=1)
            out['ok'] = r == [x * x for x in range(8)]
    except BaseException as e:
        out['ok'] = False
        out['error'] = type(e).__name__ + ': ' + str(e)[:100]
    stop.set()
    out['handler_unchanged'] = signal.getsignal(signal.SIGINT) == signal.SIG_IGN
    print(json.dumps(out))
if __name__ == '__main__':
    main()
'''


def group_sigint_suite(chk, quick=True):
    """the caller ignores SIGINT and Ctrl-C goes to the whole process group again and again while the workers are being started and
    work: nobody is affected — the call completes with correct results.  (Worker processes started with spawn / forkserver get
    their SIGINT disposition through exec, which DetSim does not model.)"""
    code = GROUP_SIGINT_DRIVER % {'root': ROOT}
    jobs = ['spawn', 'forkserver'] if quick else ['spawn', 'forkserver', 'fork', 'spawn', 'forkserver']
    from concurrent.futures import ThreadPoolExecutor
    with ThreadPoolExecutor(3) as ex:
        results = list(ex.map(lambda sm: run_driver(code, [sm], timeout=80), jobs))

    def bad(r):
        try:
            d = json.loads(r[1].strip().splitlines()[-1])
            return not (d.get('ok') and d.get('handler_unchanged'))
        except Exception:
            return True
    results = [r if not bad(r) else run_driver(code, [sm], timeout=80) for sm, r in zip(jobs, results)]
    suite = 'real processes: Ctrl-C to the whole group while the caller ignores SIGINT'
    for sm, (rc, out, err) in zip(jobs, results):
        c = {'start_method': sm, 'caller': 'SIG_IGN', 'signal': 'SIGINT to the process group every 30 ms for 1.5 s'}
        try:
            d = json.loads(out.strip().splitlines()[-1])
        except Exception:
            d = None
        chk.count(suite, key=sm, nontrivial=True, sample=dict(c, result=d, rc=rc), start=sm)
        if d is None:
            chk.violation('no_hang', c, {'watchdog': rc, 'stacks': (err or '')[-1200:]}, 'an ignored interrupt has no effect: the call completes', input_class='group_sigint_hang_' + sm)
        elif not d.get('ok') or not d.get('handler_unchanged'):
            chk.violation('ignored_interrupt_completes', c, d, 'an ignored interrupt has no effect: the call completes with correct results and the disposition is unchanged',
                          input_class='group_sigint_' + sm)

FULL_PIPE_SIGINT_DRIVER = r"""
import sys, os, json, time, signal, threading, faulthandler
sys.path.insert(0, %(root)r)
from mpire import WorkerPool
PAYLOAD = b"x" * (32 * 1024)
def slow(idx, payload):
    time.sleep(0.05)
    return idx
def main():
    sm = sys.argv[1]
    faulthandler.dump_traceback_later(40, exit=True)
    # (whatever this process inherited — a background job starts with SIGINT ignored —, the caller here is one with Python's own handler)
    signal.signal(signal.SIGINT, signal.default_int_handler)
    before = signal.getsignal(signal.SIGINT)
    threading.Timer(0.6, lambda: os.kill(os.getpid(), signal.SIGINT)).start()
    t0 = time.time()
    out = {}
    try:
        with WorkerPool(2, start_method=sm) as pool:
            pool.map(slow, [(i, PAYLOAD) for i in range(400)], chunk_size=1, max_tasks_active=200)
        out['outcome'] = 'completed'
    except KeyboardInterrupt:
        out['outcome'] = 'KeyboardInterrupt'
    except BaseException as e:
        out['outcome'] = type(e).__name__
    out['seconds'] = round(time.time() - t0, 2)
    out['handler_unchanged'] = signal.getsignal(signal.SIGINT) is before
    print(json.dumps(out)); sys.stdout.flush()
    os._exit(0)
if __name__ == '__main__':
    main()
"""


def full_pipe_sigint_suite(chk, quick=True):
    """Ctrl-C while the task queues hold far more than a pipe takes (a look-ahead of 200 tasks of 32 KiB each): shutting the pool down
    has to empty what the feeder threads still hold, or the caller waits for them for ever.  Pipes and feeder threads are not part of
    DetSim."""
    code = FULL_PIPE_SIGINT_DRIVER % {'root': ROOT}
    jobs = ['fork'] if quick else ['fork', 'spawn', 'forkserver']
    results = [run_driver(code, [sm], timeout=60) for sm in jobs]

    def bad(r):
        try:
            return json.loads(r[1].strip().splitlines()[-1]).get('outcome') not in ('KeyboardInterrupt', 'completed')
        except Exception:
            return True
    results = [r if not bad(r) else run_driver(code, [sm], timeout=60) for sm, r in zip(jobs, results)]
    suite = 'real processes: Ctrl-C while the task queues hold more than the pipes take'
    for sm, (rc, out, err) in zip(jobs, results):
        c = {'start_method': sm, 'max_tasks_active': 200, 'payload': '32 KiB per task'}
        try:
            d = json.loads(out.strip().splitlines()[-1])
        except Exception:
            d = None
        chk.count(suite, key=sm, nontrivial=True, sample=dict(c, result=d, rc=rc), start=sm)
        if d is None:
            chk.violation('no_hang', c, {'watchdog': rc, 'stacks': (err or '')[-1200:]}, 'the call ends within bounded time', input_class='sigint_full_pipes_hang_' + sm)
        elif d.get('outcome') not in ('KeyboardInterrupt', 'completed') or not d.get('handler_unchanged'):
            # (on a slow machine the signal can fall into the start-up section in which it is ignored on purpose: the call then completes)
            chk.violation('keyboard_interrupt_or_completion', c, d, 'KeyboardInterrupt or completion, handler unchanged', input_class='sigint_full_pipes_' + sm)
