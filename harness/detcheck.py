"""Shared pieces of the DetSim-based checks."""
import collections
import json

from harness import oracles, par
from harness.common import Driver


def key_of(sc):
    return json.dumps({'pool': sc['pool'], 'ops': sc['ops']}, sort_keys=True, default=str)


def run_scenarios(chk, suite, scs, props, nontrivial=None, dist=None):
    """Runs scenarios under DetSim; feeds every oracle clause of `props` that fails into chk.violation.
    Returns the observations."""
    obs = par.run_all(scs)
    for sc, o in zip(scs, obs):
        if o.get('harness_error'):
            chk.notes.setdefault('harness_errors', []).append(str(o['harness_error'])[-300:])
            continue
        nt = nontrivial(sc, o) if nontrivial else any(len(c) for c in [o.get('calls', [])])
        d = dist(sc, o) if dist else {}
        chk.count(suite, key=key_of(sc), nontrivial=nt,
                  sample={'scenario': sc, 'outcomes': [x.get('outcome') for x in o.get('ops', [])], 'steps': o.get('steps')}, **d)

        def add(p, clause, detail, sc=sc):
            if p in props:
                chk.violation(clause, {'scenario': sc}, detail, f'{p}:{clause}', input_class=clause)
        oracles.check_scenario(sc, o, add)
        if o.get('stuck') and 'C03' not in props and not sc.get('expect_stuck_ok'):
            # whatever the property says about what a call returns, it does not hold for a call that never returns
            chk.violation('call_never_returns', {'scenario': sc}, {'stuck': o['stuck']}, 'the call returns (and then satisfies the property)', input_class='call_never_returns')
    return obs


def proto_lines(sc, o):
    """one acceptor line per map-family op of the scenario that produced protocol events"""
    out = []
    n_jobs = sc['pool'].get('n_jobs', 2)
    for opi, (op, oo) in enumerate(zip(sc['ops'], o.get('ops', []))):
        if op['op'] not in oracles.MAPS or 'proto' not in oo:
            continue
        try:
            chunks, _ = oracles.ref_chunks(op, n_jobs)
        except Exception:
            continue
        cs = '|'.join(','.join(map(str, c)) for c in chunks) or '-'
        out.append((opi, 'proto n=%d chunks=%s ev=%s' % (n_jobs, cs, ';'.join(oo['proto']) or '-')))
    return out


def proto_correspondence(chk, suite, scs, obs):
    """folds the Lean `step` over the protocol events of every recorded call; a rejected event, a non-quiescent
    end state of a successful call or a delivered/log sequence different from what the implementation did is a
    correspondence break."""
    drv = Driver()
    lines, refs = [], []
    for sc, o in zip(scs, obs):
        if o.get('harness_error') or o.get('stuck'):
            continue
        for opi, line in proto_lines(sc, o):
            lines.append(line)
            refs.append((sc, o, opi))
    outs = drv.run(lines)
    for (sc, o, opi), line, res in zip(refs, lines, outs):
        op, oo = sc['ops'][opi], o['ops'][opi]
        ok_call = oo.get('outcome') == 'ok' and op.get('consume', 'all') == 'all'
        chk.count(suite, key=line, nontrivial=line.count(';') > 3, sample={'line': line[:400], 'model': res[:200]},
                  call='success' if ok_call else 'failed-or-partial', events='<=20' if line.count(';') <= 20 else '>20')
        if not res.startswith('ok '):
            chk.mismatch(suite + ': trace rejected by Mpire.Proto.step', {'scenario': sc, 'op': opi, 'line': line[:2000]}, 'trace of the real pool', res)
            continue
        f = dict(x.split('=', 1) for x in res.split(' ')[1:])
        if ok_call and (f['q'] != '1' or f['f'] != '0' or f['dropped'] != '0' or f['lost'] != '0'):
            chk.mismatch(suite + ': successful call but model state not quiescent-success', {'scenario': sc, 'op': opi, 'line': line[:2000]}, 'ok', res)
        # executed log of the model == user-function log of the implementation
        impl_log = [c[5] for c in o.get('calls', []) if c[0] == opi and c[1] == 'task']
        model_log = [int(x) for x in f['log'].split(',') if x]
        impl_log = [x if isinstance(x, int) and not isinstance(x, bool) else -1 for x in impl_log]
        if sorted(impl_log) != sorted(model_log):
            chk.mismatch(suite + ': executed tasks differ', {'scenario': sc, 'op': opi}, sorted(impl_log)[:50], sorted(model_log)[:50])
    return len(lines)
