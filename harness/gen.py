"""Seeded generators of scenarios (JSON-able)."""
import random


def gen_map_op(rng, n_jobs, rich=True, small=False):
    kind = rng.choice(['map', 'map', 'imap', 'imap_unordered', 'map_unordered'])
    n = rng.choice([0, 1, 2, 3, rng.randint(0, 12), rng.randint(5, 40 if not small else 14)])
    inp = rng.choice(['list', 'list', 'range', 'gen', 'nd'] if rich else ['list', 'gen'])
    op = {'op': kind, 'n': n, 'input': inp, 'elem': rng.choice(['scalar', 'tuple', 'tuple1', 'dict', 'str', 'bytes', 'list']) if inp not in ('nd', 'range') else 'scalar'}
    if inp == 'nd' and rng.random() < .4:
        op['nd_dims'] = 1           # a one-dimensional array (chunks are 1-D slices; map puts the pieces together again)
    r = rng.random()
    if r < .35:
        op['chunk_size'] = rng.choice([1, 2, 3, 5, rng.randint(1, n + 2)])
    elif r < .5:
        op['chunk_size'] = rng.choice([1.5, 2.5, 1.2, 3.7, 1.0 + rng.random() * 4])
    elif r < .75:
        op['n_splits'] = rng.randint(1, n + 3)
    if inp == 'gen':
        if rng.random() < .6 or ('chunk_size' not in op):
            op['iterable_len'] = rng.choice([n, n, max(0, n - rng.randint(0, 3))])
    elif rng.random() < .2:
        op['iterable_len'] = rng.choice([n, max(0, n - rng.randint(0, 3))])
        if inp == 'nd' and n > 0 and rng.random() < .4:
            # for numpy input an iterable_len that OVER-estimates the array is clamped to the number of rows (for other inputs the
            # call fails with ValueError when the announced and the real number of tasks differ: not a valid call)
            op['iterable_len'] = n + rng.randint(1, 6)
    if rng.random() < .3:
        op['max_tasks_active'] = rng.choice([1, 2, 3, rng.randint(1, 12)])
    if rng.random() < .35:
        op['worker_lifespan'] = rng.choice([1, 1, 2, 3, 5])
    if rng.random() < .3:
        op['init'] = True
    if rng.random() < .3:
        op['exit'] = True
    if rng.random() < .2:
        op['progress_bar'] = True
    if rng.random() < .5:
        op['dur'] = {'kind': 'hash', 'salt': rng.randint(0, 99), 'unit': rng.choice([0.001, 0.01, 0.05])}
    if kind in ('imap', 'imap_unordered') and rng.random() < .3:
        op['consume_pause'] = {'kind': 'hash', 'salt': rng.randint(0, 99), 'unit': rng.choice([0.01, 0.1])}
    return op


def gen_pool(rng, rich=True):
    p = {'n_jobs': rng.choice([1, 2, 2, 3, 4, 5]), 'start_method': rng.choice(['fork', 'fork', 'threading'])}
    if rich:
        for k in ('pass_worker_id', 'use_worker_state', 'shared_objects', 'order_tasks', 'enable_insights', 'keep_alive'):
            if rng.random() < .3:
                p[k] = True
        if p.get('shared_objects') and rng.random() < .3:
            p['shared_objects'] = 'falsy'       # enabled means "not None": an empty container is passed on like any other object
    return p


def gen_success_scenario(rng, n_ops=None, small=False):
    pool = gen_pool(rng)
    k = n_ops or rng.choice([1, 1, 2, 3])
    ops = [gen_map_op(rng, pool['n_jobs'], small=small) for _ in range(k)]
    return {'seed': rng.randint(0, 10 ** 6), 'pool': pool, 'ops': ops, 'all_valid': True}


def gen_fail_scenario(rng, kinds=('ValueError', 'Custom', 'Attr', 'KeyError', 'SystemExit', 'Wrap', 'Prefix', 'TypeError')):
    sc = gen_success_scenario(rng, n_ops=1)
    op = sc['ops'][0]
    numpy_in = op.get('input') == 'nd' and rng.random() < .6
    if op.get('input') == 'nd' and not numpy_in:
        op['input'] = 'list'
    if op['n'] < 2:
        op['n'] = rng.randint(2, 20)
    if op.get('iterable_len') is not None:
        op['iterable_len'] = op['n']
    if not numpy_in and op.get('input') in ('list', 'gen') and rng.random() < .12:
        op['elem'] = 'badrepr'          # the error report cannot format this argument
        sc['pool'].pop('enable_insights', None)   # (insights would call the raising repr() itself, for successful tasks too)
    r = rng.random()
    if numpy_in:
        # array input: tasks are array chunks, identified by the index of their first row
        op['fail'] = {'at': [0], 'exc': rng.choice(kinds)}
        op.pop('iterable_len', None)
    elif r < .7:
        k = rng.choice([1, 1, 2])
        op['fail'] = {'at': sorted(rng.sample(range(op['n']), min(k, op['n']))), 'exc': rng.choice(kinds)}
    elif r < .85:
        op['init'] = True
        op['fail'] = {'init': rng.choice(['all', 'Worker-0']), 'exc': rng.choice(kinds)}
    else:
        op['exit'] = True
        op['fail'] = {'exit': rng.choice(['all', 'Worker-0']), 'exc': rng.choice(kinds)}
    op['dur'] = {'kind': 'hash', 'salt': rng.randint(0, 99), 'unit': rng.choice([0.001, 0.01])}
    sc['latency_bound'] = 3.0
    return sc


def gen_apply_op(rng, n_jobs, with_failures=True):
    k = rng.randint(1, 10)
    op = {'op': 'apply_batch', 'tasks': [{'idx': i, 'gap': rng.choice([0, 0, 0.01])} for i in range(k)]}
    durs = {}
    if with_failures and rng.random() < .6:
        op['fail'] = {'at': sorted(rng.sample(range(k), rng.randint(0, min(3, k)))), 'exc': rng.choice(['ValueError', 'Custom', 'KeyError', 'Wrap', 'Prefix', 'TypeError', 'SystemExit', 'KeyboardInterrupt'])}
    if with_failures and rng.random() < .5:
        op['task_timeout'] = 0.2
        for i in rng.sample(range(k), rng.randint(0, min(3, k))):
            if i not in (op.get('fail') or {}).get('at', ()):
                durs[str(i)] = rng.choice([2.0, 5.0, 1000.0])
    op['dur'] = {'kind': 'map', 'map': durs, 'default': rng.choice([0.0, 0.01, 0.05])}
    order = list(range(k))
    rng.shuffle(order)
    op['wait_order'] = order
    if rng.random() < .3:
        op['join_first'] = True
    if rng.random() < .3:
        op['init'] = True
    if rng.random() < .2:
        op['bare_args'] = True          # apply_async(f, 3): a bare value instead of a tuple (0 is one of them)
    if rng.random() < .3:
        op['cb_dur'] = rng.choice([0.05, 0.5])      # slow callbacks: another outcome may arrive while one is being delivered
    return op


def gen_repeat_fail_scenario(rng):
    """several failing calls in a row on ONE pool, failing at the same kind of site: every call must raise ITS OWN error"""
    import copy
    sc = gen_fail_scenario(rng)
    sc['pool'].pop('keep_alive', None)
    op = sc['ops'][0]
    reps = rng.choice([2, 2, 3])
    sc['ops'] = [copy.deepcopy(op) for _ in range(reps)]
    if rng.random() < .5:
        for o in sc['ops']:
            o['fail']['exc'] = rng.choice(['ValueError', 'Custom', 'KeyError', 'Wrap', 'Prefix', 'TypeError'])
    return sc


def schedule_rules(rng, n_jobs):
    """an adversarial schedule: one or two actors are descheduled for a while (virtual time) at one kind of step, every time
    they take it with probability p — staggered worker start-up, a slow dispatcher, slow result delivery, a restart that takes
    long, a death watch that is held up between its reads"""
    lib = [
        {'role': 'restart_handler', 'op': 'start', 'obj': None, 'sleep': rng.choice([0.05, 0.15, 0.3]), 'p': .7},
        {'role': 'main', 'op': 'start', 'obj': None, 'sleep': rng.choice([0.02, 0.1]), 'p': .5},
        {'role': 'main', 'op': 'q.put', 'obj': None, 'sleep': rng.choice([0.01, 0.05]), 'p': .3},
        {'role': 'Worker-%d' % rng.randrange(n_jobs), 'op': 'q.put', 'obj': 'rq', 'sleep': rng.choice([0.02, 0.1]), 'p': .5},
        {'role': 'Worker-%d' % rng.randrange(n_jobs), 'op': 'q.task_done', 'obj': None, 'sleep': rng.choice([0.02, 0.1]), 'p': .5},
        {'role': 'results_handler', 'op': 'array.set', 'obj': 'results_received', 'sleep': rng.choice([0.02, 0.1]), 'p': .5},
        {'role': 'unexpected_death_handler', 'op': 'is_alive', 'obj': None, 'sleep': rng.choice([0.03, 0.12]), 'p': .5},
        {'role': 'unexpected_death_handler', 'op': 'array.get', 'obj': 'workers_dead', 'k': rng.choice([20, 60, 120]), 'p': .5},
        # a handler thread is held up between testing its stop conditions and going to sleep on its condition variable
        {'role': 'restart_handler', 'op': 'lock.acquire', 'obj': None, 'sleep': rng.choice([0.03, 0.1, 0.5]), 'p': .5},
        {'role': 'timeout_handler', 'op': 'event.is_set', 'obj': None, 'sleep': rng.choice([0.03, 0.1]), 'p': .3},
        # … or an actor is held up right AFTER one of its writes became visible ('+': post-write points)
        {'role': 'restart_handler', 'op': 'array.set+', 'obj': None, 'sleep': rng.choice([0.15, 0.3]), 'p': .6},
        {'role': 'Worker-%d' % rng.randrange(n_jobs), 'op': 'array.set+', 'obj': rng.choice(['workers_dead', 'working_on_job', 'restart_array', 'results_received']),
         'sleep': rng.choice([0.03, 0.15]), 'p': .5},
        {'role': 'main', 'op': 'event.set+', 'obj': None, 'sleep': rng.choice([0.02, 0.1]), 'p': .4},
        {'role': 'Worker-%d' % rng.randrange(n_jobs), 'op': 'q.task_done+', 'obj': None, 'sleep': rng.choice([0.02, 0.2]), 'p': .5},
        {'role': 'results_handler', 'op': 'array.set+', 'obj': None, 'sleep': rng.choice([0.02, 0.1]), 'p': .4},
    ]
    return rng.sample(lib, rng.choice([1, 1, 2]))


def two_pool_scenarios(rng, n):
    """the pool under test shares its process with a second pool that has a lazy call in flight, consumed bit by bit between the
    operations of the first (pools of different sizes, the second one with or without worker restarts); one of the two may be
    stopped or terminated while the other goes on"""
    out = []
    for _ in range(n):
        nj = rng.choice([1, 2, 3])
        pool = {'n_jobs': nj, 'start_method': 'fork'}
        if rng.random() < .3:
            pool['keep_alive'] = True
        nb = rng.choice([x for x in (1, 2, 3, 4, 5) if x != nj])
        total = rng.randint(12, 24)
        ops = [{'op': 'other_pool', 'do': 'open', 'n_jobs': nb, 'n': total, 'kind': rng.choice(['imap_unordered', 'imap']),
                'lifespan': rng.choice([None, 2, 3])},
               {'op': 'other_pool', 'do': 'take', 'k': rng.randint(1, 3)}]
        for k in range(rng.randint(1, 3)):
            op = gen_map_op(rng, nj, small=True)
            op.pop('progress_bar', None)
            ops.append(op)
            if rng.random() < .3:
                ops.append({'op': rng.choice(['stop_and_join', 'terminate'])})
            ops.append({'op': 'other_pool', 'do': 'take', 'k': rng.randint(1, 4)})
        ops.append({'op': 'other_pool', 'do': 'finish'})
        if rng.random() < .5:
            ops.append(dict(gen_map_op(rng, nj, small=True)))
            ops[-1].pop('progress_bar', None)
        out.append({'seed': rng.randint(0, 10 ** 6), 'pool': pool, 'ops': ops, 'all_valid': not any(o['op'] == 'terminate' for o in ops), 'two_pools': True})
    return out


def gen_reuse_fail_scenario(rng):
    """workers that are REUSED (kept alive after a successful call, or started by apply submissions) run a call of the other ordering
    mode with otherwise identical parameters, and a task of that call raises: the error — and the arguments its cause lists — are
    those of the failing task of THIS call"""
    nj = rng.choice([1, 2, 3])
    elem = rng.choice(['scalar', 'tuple', 'list', 'dict', 'str'])
    n2 = rng.randint(3, 10)
    first_ordered = rng.random() < .5
    op2 = {'op': rng.choice(['map_unordered', 'imap_unordered'] if first_ordered else ['map', 'imap']), 'n': n2, 'chunk_size': rng.choice([1, 2]), 'elem': elem,
           'fail': {'at': [rng.randrange(n2)], 'exc': rng.choice(['ValueError', 'Custom', 'KeyError'])}}
    if rng.random() < .6:
        pool = {'n_jobs': nj, 'start_method': rng.choice(['fork', 'threading']), 'keep_alive': True}
        op1 = {'op': rng.choice(['map', 'imap'] if first_ordered else ['map_unordered', 'imap_unordered']), 'n': rng.randint(2, 8), 'chunk_size': op2['chunk_size'], 'elem': elem}
    else:
        pool = {'n_jobs': nj, 'start_method': 'fork'}
        op1 = {'op': 'apply_batch', 'tasks': [{'idx': i} for i in range(rng.randint(1, 3))], 'dur': {'kind': 'map', 'map': {}, 'default': 0.01}, 'get_timeout': 30}
        op2['op'] = rng.choice(['map', 'imap', 'map_unordered'])
    return {'seed': rng.randint(0, 10 ** 6), 'pool': pool, 'ops': [op1, op2], 'same_func': True, 'relax_shape': True}
