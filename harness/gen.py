"""Seeded generators of scenarios (JSON-able)."""
import random


def gen_map_op(rng, n_jobs, rich=True, small=False):
    kind = rng.choice(['map', 'map', 'imap', 'imap_unordered', 'map_unordered'])
    n = rng.choice([0, 1, 2, 3, rng.randint(0, 12), rng.randint(5, 40 if not small else 14)])
    inp = rng.choice(['list', 'list', 'range', 'gen', 'nd'] if rich else ['list', 'gen'])
    op = {'op': kind, 'n': n, 'input': inp, 'elem': rng.choice(['scalar', 'tuple', 'tuple1', 'dict', 'str', 'bytes', 'list']) if inp not in ('nd', 'range') else 'scalar'}
    r = rng.random()
    if r < .35:
        op['chunk_size'] = rng.choice([1, 2, 3, 5, rng.randint(1, n + 2)])
    elif r < .5:
        op['chunk_size'] = rng.choice([1.5, 2.5, 1.2, 3.7, 1.0 + rng.random() * 4])
    elif r < .75:
        op['n_splits'] = rng.randint(1, n + 3)
    if inp == 'gen':
        if rng.random() < .6 or ('chunk_size' not in op):
            op['iterable_len'] = rng.choice([n, n, max(0, n - rng.randint(0, 3))])
    elif rng.random() < .15:
        op['iterable_len'] = rng.choice([n, max(0, n - rng.randint(0, 3))])
    if rng.random() < .3:
        op['max_tasks_active'] = rng.choice([1, 2, 3, rng.randint(1, 12)])
    if rng.random() < .35:
        op['worker_lifespan'] = rng.choice([1, 1, 2, 3, 5])
    if rng.random() < .3:
        op['init'] = True
    if rng.random() < .3:
        op['exit'] = True
    if rng.random() < .2:
        op['progress_bar'] = True
    if rng.random() < .5:
        op['dur'] = {'kind': 'hash', 'salt': rng.randint(0, 99), 'unit': rng.choice([0.001, 0.01, 0.05])}
    if kind in ('imap', 'imap_unordered') and rng.random() < .3:
        op['consume_pause'] = {'kind': 'hash', 'salt': rng.randint(0, 99), 'unit': rng.choice([0.01, 0.1])}
    return op


def gen_pool(rng, rich=True):
    p = {'n_jobs': rng.choice([1, 2, 2, 3, 4, 5]), 'start_method': rng.choice(['fork', 'fork', 'threading'])}
    if rich:
        for k in ('pass_worker_id', 'use_worker_state', 'shared_objects', 'order_tasks', 'enable_insights', 'keep_alive'):
            if rng.random() < .3:
                p[k] = True
    return p


def gen_success_scenario(rng, n_ops=None, small=False):
    pool = gen_pool(rng)
    k = n_ops or rng.choice([1, 1, 2, 3])
    ops = [gen_map_op(rng, pool['n_jobs'], small=small) for _ in range(k)]
    return {'seed': rng.randint(0, 10 ** 6), 'pool': pool, 'ops': ops}
