"""Shared machinery of the checks: Lean build + axiom audit, line-protocol driver, evidence, replays,
known findings.  Python side of the correspondence; nothing here decides a property by itself."""
import hashlib
import json
import os
import random
import re
import subprocess
import sys
import time

ROOT = os.path.dirname(os.path.dirname(os.path.abspath(__file__)))
REPO = os.environ.get('MPIRE_REPO', '/repo')
OUT = os.environ.get('VERIF_OUT') or None      # seeded-change runs write their evidence/replays elsewhere
LEAN = os.path.join(ROOT, 'lean')
DRIVER = os.path.join(LEAN, '.lake', 'build', 'bin', 'driver')
ALLOWED_AXIOMS = {'propext', 'Classical.choice', 'Quot.sound'}
FORBIDDEN = re.compile(r'\b(sorry|admit|native_decide|bv_decide|implemented_by)\b|^\s*axiom\s|\bunsafe\s|maxHeartbeats\s+0\b')

TRUSTED_BASE = [
    'Lean 4.33.0 kernel (lake build re-checks every proof on every run)',
    'axioms per theorem audited on every run: subset of {propext, Classical.choice, Quot.sound}; no sorry/native_decide/bv_decide/own axioms',
    'hand-written Lean model of the Python code; tied to /repo by the correspondence suites of this check (differential testing, not proof)',
    'Lean compiler + runtime for the executable model (driver); native Float for IEEE doubles',
]


class Infra(Exception):
    """Infrastructure problem (exit 2), never a violation."""


def strip_comments(src):
    out, i, depth = [], 0, 0
    while i < len(src):
        if src.startswith('/-', i):
            depth += 1; i += 2; continue
        if src.startswith('-/', i) and depth:
            depth -= 1; i += 2; continue
        if depth:
            if src[i] == '\n':
                out.append('\n')
            i += 1; continue
        if src.startswith('--', i):
            j = src.find('\n', i)
            i = len(src) if j < 0 else j
            continue
        out.append(src[i]); i += 1
    return ''.join(out)


def lean_sources():
    res = []
    for d, _, fs in os.walk(os.path.join(LEAN, 'MpireModel')):
        for f in fs:
            if f.endswith('.lean'):
                res.append(os.path.join(d, f))
    res.append(os.path.join(LEAN, 'Driver.lean'))
    res.append(os.path.join(LEAN, 'MpireModel.lean'))
    return sorted(res)


def lean_build():
    """lake build (no-op when built).  Returns (ok, log)."""
    p = subprocess.run(['lake', 'build'], cwd=LEAN, capture_output=True, text=True)
    return p.returncode == 0, (p.stdout + p.stderr)[-6000:]


def forbidden_scan():
    hits = []
    for f in lean_sources():
        src = strip_comments(open(f).read())
        for n, line in enumerate(src.splitlines(), 1):
            if FORBIDDEN.search(line):
                hits.append(f'{os.path.relpath(f, LEAN)}:{n}: {line.strip()[:120]}')
    return hits


def _src_hash():
    h = hashlib.sha256()
    for f in lean_sources():
        h.update(f.encode()); h.update(open(f, 'rb').read())
    return h.hexdigest()


def lean_audit():
    """Runs MpireModel/Audit.lean (one `#print axioms` per property theorem); returns
    {theorem: [axioms]}.  Cached on the hash of all Lean sources."""
    cache = os.path.join(LEAN, '.lake', 'audit-cache.json')
    key = _src_hash()
    try:
        c = json.load(open(cache))
        if c.get('key') == key:
            return c['axioms']
    except Exception:
        pass
    # generated on every run from the Props files: one `#print axioms` per property theorem
    props = sorted(f[:-5] for f in os.listdir(os.path.join(LEAN, 'MpireModel', 'Props')) if f.endswith('.lean'))
    gen = ['import MpireModel.Props.%s' % p for p in props]
    for pr in props:
        gen += ['#print axioms Mpire.%s.%s' % (pr, t) for t in property_theorems(pr)]
    os.makedirs(os.path.join(LEAN, '.lake'), exist_ok=True)
    with open(os.path.join(LEAN, '.lake', 'AuditGen.lean'), 'w') as f:
        f.write('\n'.join(gen) + '\n')
    p = subprocess.run(['lake', 'env', 'lean', '.lake/AuditGen.lean'], cwd=LEAN, capture_output=True, text=True)
    if p.returncode != 0:
        raise AuditFailed(p.stdout[-3000:] + p.stderr[-3000:])
    out = p.stdout
    axioms = {}
    for m in re.finditer(r"'([^']+)' (depends on axioms: \[([^\]]*)\]|does not depend on any axioms)", out, re.S):
        axioms[m.group(1)] = [] if m.group(3) is None else [a.strip() for a in m.group(3).replace('\n', ' ').split(',') if a.strip()]
    try:
        json.dump({'key': key, 'axioms': axioms}, open(cache, 'w'))
    except OSError:
        pass
    return axioms


class AuditFailed(Exception):
    pass


def property_theorems(prop):
    """Names of the theorems declared in Props/<prop>.lean (namespace Mpire.<prop>)."""
    path = os.path.join(LEAN, 'MpireModel', 'Props', prop + '.lean')
    if not os.path.exists(path):
        return []
    src = strip_comments(open(path).read())
    return re.findall(r'^theorem\s+([A-Za-z0-9_.\']+)', src, re.M)


class Driver:
    """Batch line protocol: all lines in, all lines out (same count)."""

    def __init__(self):
        if not os.path.exists(DRIVER):
            raise Infra('driver executable missing: run setup (lake build)')

    def run(self, lines):
        if not lines:
            return []
        data = '\n'.join(lines) + '\n'
        p = subprocess.run([DRIVER], input=data, capture_output=True, text=True)
        if p.returncode != 0:
            raise Infra('driver crashed: ' + p.stderr[-2000:])
        out = p.stdout.split('\n')
        if out and out[-1] == '':
            out.pop()
        if len(out) != len(lines):
            raise Infra(f'driver answered {len(out)} lines for {len(lines)}')
        return out


def load_known_findings():
    try:
        return json.load(open(os.path.join(ROOT, 'known_findings.json')))['findings']
    except FileNotFoundError:
        return []


class Check:
    """One run of one property's check."""

    def __init__(self, prop, tier, seed, level='proof'):
        self.prop, self.tier, self.seed, self.level = prop, tier, seed, level
        self.rng = random.Random(seed * 1000003 + int(prop[1:]))
        self.t0 = time.time()
        self.suites = {}          # name -> dict(evaluations, nontrivial:set, samples, dist)
        self.violations = []      # dicts
        self.broken = []          # correspondence / obligation breaks: dict(kind, what, case, impl, model)
        self.known_hits = []
        self.assumptions = []
        self.obligations = []
        self.discharged = []
        self.notes = {}
        self.known = [k for k in load_known_findings() if k.get('property') == prop]

    # ---- proof side -------------------------------------------------------------------------
    def proof_side(self):
        ok, log = lean_build()
        if not ok:
            self.broken.append({'kind': 'proof-obligation', 'what': 'lake build failed', 'detail': log[-1500:]})
            return
        hits = forbidden_scan()
        if hits:
            self.broken.append({'kind': 'proof-obligation', 'what': 'forbidden construct in Lean sources', 'detail': hits[:10]})
        thms = ['Mpire.%s.%s' % (self.prop, t) for t in property_theorems(self.prop)]
        try:
            ax = lean_audit()
        except AuditFailed as e:
            self.broken.append({'kind': 'proof-obligation', 'what': 'Audit.lean failed', 'detail': str(e)[-1500:]})
            return
        self.obligations = thms
        for t in thms:
            if t not in ax:
                self.broken.append({'kind': 'proof-obligation', 'what': f'theorem {t} missing from axiom audit'})
            elif not set(ax[t]) <= ALLOWED_AXIOMS:
                self.broken.append({'kind': 'proof-obligation', 'what': f'theorem {t} uses axioms {ax[t]}'})
            else:
                self.discharged.append(t)
        if not thms:
            self.broken.append({'kind': 'proof-obligation', 'what': f'no theorems found in Props/{self.prop}.lean'})
        if self.tier == 'thorough':
            # independent re-check of the compiled declarations of this property's module (and what it imports from this library)
            r = subprocess.run(['lake', 'env', 'leanchecker', f'MpireModel.Props.{self.prop}'], cwd=LEAN, stdout=subprocess.PIPE, stderr=subprocess.STDOUT, text=True)
            self.notes['leanchecker'] = {'module': f'MpireModel.Props.{self.prop}', 'exit': r.returncode, 'output_tail': r.stdout[-300:]}
            if r.returncode != 0:
                self.broken.append({'kind': 'proof-obligation', 'what': 'leanchecker rejected the compiled module', 'detail': r.stdout[-1500:]})

    # ---- correspondence bookkeeping ---------------------------------------------------------
    def suite(self, name):
        return self.suites.setdefault(name, {'evaluations': 0, 'nontrivial': set(), 'samples': [], 'dist': {}})

    def count(self, suite, key=None, nontrivial=True, sample=None, **dist):
        s = self.suite(suite)
        s['evaluations'] += 1
        if nontrivial and key is not None:
            s['nontrivial'].add(key)
        if sample is not None and len(s['samples']) < 4:
            s['samples'].append(sample)
        for k, v in dist.items():
            d = s['dist'].setdefault(k, {})
            d[str(v)] = d.get(str(v), 0) + 1

    def mismatch(self, suite, case, impl, model):
        if len(self.broken) < 50:
            self.broken.append({'kind': 'correspondence', 'what': suite, 'case': case, 'impl': impl, 'model': model})

    def violation(self, clause, case, observed, required, input_class=None):
        v = {'oracle_clause': clause, 'input_class': input_class or clause, 'case': case,
             'observed': observed, 'required': required}
        for k in self.known:
            fp = k.get('fingerprint', {})
            if k.get('status') == 'known' and fp.get('oracle_clause') == clause and \
                    (fp.get('input_class') in (None, v['input_class'])):
                if k not in self.known_hits:
                    self.known_hits.append(k)
                return
        if len(self.violations) < 400:
            self.violations.append(v)

    # ---- finishing --------------------------------------------------------------------------
    def finish(self, extra_coverage=None, search=None):
        """Writes evidence, prints VIOLATION / KNOWN-FINDING lines, returns exit code.
        `search` is called (once) when something is broken and no violation was found yet; it may call
        self.violation()."""
        try:
            from harness import par as _par
            n_err, n_tot = len(_par.HARNESS_ERRORS), _par.TOTAL[0]
        except Exception:
            n_err, n_tot = 0, 0
        if n_err >= 10 and n_err * 20 >= n_tot:
            # the harness cannot run or observe the implementation any more (e.g. an internal it reads was renamed): whatever the
            # theorems say, they are no longer tied to this code
            self.broken.append({'kind': 'correspondence', 'what': 'the harness could not run or observe the implementation in %d of %d simulated runs' % (n_err, n_tot),
                                'detail': _par.HARNESS_ERRORS[0]})
        self.notes['harness_errors_total'] = n_err
        if self.broken and not self.violations and search is not None:
            search()
        wall = time.time() - self.t0
        evaluations = sum(s['evaluations'] for s in self.suites.values())
        distinct = sum(len(s['nontrivial']) for s in self.suites.values())
        samples = []
        for n, s in self.suites.items():
            for x in s['samples'][:2]:
                samples.append({'suite': n, 'case': x})
        cov = {
            'obligations': len(self.obligations), 'discharged': len(self.discharged),
            'checker_cmd': 'cd lean && lake build && lake env lean .lake/AuditGen.lean (generated: #print axioms for every theorem of Props/*.lean)   (+ source scan for sorry/admit/axiom/native_decide/bv_decide/implemented_by/unsafe)',
            'trusted_base': TRUSTED_BASE + self.assumptions,
            'theorems': self.obligations,
            'evaluations': evaluations, 'distinct_nontrivial': distinct,
            'rule': 'cases are generated from VERIF_SEED per suite (see suites); a case is non-trivial when it exercises the modelled '
                    'logic beyond the empty/identity path; distinct = distinct case keys counted per suite',
            'traces_validated_against_impl': evaluations,
            'suites': {n: {'evaluations': s['evaluations'], 'distinct_nontrivial': len(s['nontrivial']), 'distribution': s['dist']}
                       for n, s in self.suites.items()},
            'samples': samples or [{'note': 'no case executed'}],
            'broken': self.broken[:5],
        }
        if self.violations:
            vc = {}
            for v in self.violations:
                vc[v['input_class']] = vc.get(v['input_class'], 0) + 1
            cov['violation_classes'] = vc
        if extra_coverage:
            cov.update(extra_coverage)
        cov.update(self.notes)
        ev = {'property_id': self.prop, 'tier': self.tier, 'seed': self.seed, 'level': self.level,
              'coverage': cov, 'assumptions': self.assumptions, 'wall_s': round(wall, 2),
              'violations': len(self.violations) + (1 if self.broken and not self.violations else 0)}
        os.makedirs(os.path.join(OUT or ROOT, 'evidence'), exist_ok=True)
        with open(os.path.join(OUT or ROOT, 'evidence', self.prop + '.json'), 'w') as f:
            json.dump(ev, f, indent=1, default=str)
        for k in self.known_hits:
            print(f"KNOWN-FINDING: property={self.prop} {k.get('what', '')}")
        rc = 0
        if self.violations:
            v = self.violations[0]
            path = self._replay({'property': self.prop, 'kind': 'failing-input', 'broken': [b.get('what') for b in self.broken[:5]],
                                 'case': v['case'], 'impl': v['observed'], 'required': v['required'],
                                 'oracle_clause': v['oracle_clause'], 'input_class': v['input_class'],
                                 'more': self.violations[1:6], 'one_per_class': self._one_per_class(), 'seed': self.seed, 'tier': self.tier,
                                 'how_to_replay': f'./check {self.prop} --replay <this file>'})
            print(f'VIOLATION property={self.prop} replay={path}')
            rc = 1
        elif self.broken:
            b = self.broken[0]
            path = self._replay({'property': self.prop, 'kind': 'no-failing-input-found', 'broken': b.get('what'),
                                 'first_break': b, 'more': self.broken[1:6], 'seed': self.seed, 'tier': self.tier,
                                 'how_to_replay': f'./check {self.prop} --replay <this file>'})
            print(f'VIOLATION property={self.prop} replay={path} no-failing-input-found')
            rc = 1
        print(f'[{self.prop}] tier={self.tier} seed={self.seed} theorems={len(self.discharged)}/{len(self.obligations)} '
              f'cases={evaluations} distinct={distinct} broken={len(self.broken)} violations={len(self.violations)} '
              f'known={len(self.known_hits)} wall={wall:.1f}s')
        return rc

    def _one_per_class(self):
        out = {}
        for v in self.violations:
            out.setdefault(v['input_class'], v)
        return out

    def _replay(self, d):
        os.makedirs(os.path.join(OUT or ROOT, 'replays'), exist_ok=True)
        blob = json.dumps(d, indent=1, default=str, sort_keys=True)
        h = hashlib.sha256(blob.encode()).hexdigest()[:10]
        path = os.path.join('replays', f'{self.prop}-{h}.json')
        with open(os.path.join(OUT or ROOT, path), 'w') as f:
            f.write(blob)
        return path
