"""Enumeration of injection points (SIGINT to the caller, SIGKILL to a worker instance) on top of a baseline run."""
import copy

from harness import par


def baseline(scs):
    obs = par.run_all(scs)
    return obs


def sigint_sweep(sc, base_obs, stride=1, lo=None, hi=None):
    """one scenario per scheduling point of the caller (main thread)"""
    n = base_obs.get('main_points', 0)
    out = []
    for k in range(1 if lo is None else lo, (n if hi is None else hi) + 1, stride):
        s2 = copy.deepcopy(sc)
        s2['inject'] = [{'kind': 'sigint', 'point': k}]
        out.append(s2)
    return out


def sigkill_sweep(sc, base_obs, stride=1, max_per_victim=None):
    """one scenario per (victim instance, scheduling point of that instance)"""
    out = []
    # points per role are those of the LAST instance with that role in the baseline; enumerate generously per instance
    roles = [r for r in base_obs.get('points', {}) if r.startswith('Worker-')]
    inst = {}
    for c in base_obs.get('calls', []):
        inst.setdefault(c[2], set()).add(c[3])
    for r in roles:
        n_inst = max(1, len(inst.get(r, ())))
        pts = base_obs['points'][r]
        ks = list(range(1, pts + 1, stride))
        if max_per_victim:
            ks = ks[:max_per_victim]
        for i in range(n_inst):
            for k in ks:
                s2 = copy.deepcopy(sc)
                s2['inject'] = [{'kind': 'sigkill', 'victim': r, 'instance': i, 'point': k}]
                out.append(s2)
    return out
