"""C08 — timeouts fire iff exceeded, and promptly.
Theorems: Props/C08.lean.  Correspondence: _has_worker_timed_out on a controlled clock vs Mpire.Watch.timedOut; the stamp
discipline via the scripted-worker differential; timeout scenarios under DetSim where latency is exact virtual time:
(which function overruns) x (how many workers overrun) x (n_jobs, chunking, lifespan, keep-alive history with idle gaps > t)."""
import random

from harness import gen, oracles
from harness.checks.C11 import transducer_suite
from harness.common import Driver
from harness.detcheck import run_scenarios
from harness.pure import small

SCAN = 0.1


def timeout_scenarios(rng, n):
    scs = []
    for _ in range(n):
        nj = rng.choice([1, 2, 3, 4])
        t = rng.choice([0.2, 0.3, 0.5])
        which = rng.choice(['task', 'task', 'init', 'exit', 'none', 'none'])
        k = rng.randint(1, nj)
        block = rng.choice([10 * t, 100 * t, 10 ** 6 * t])
        nn = rng.randint(nj, 20)
        op = {'op': rng.choice(['map', 'map_unordered', 'imap', 'imap_unordered']), 'n': nn, 'chunk_size': rng.choice([1, 1, 2, 3]),
              'dur': {'kind': 'map', 'map': {}, 'default': rng.choice([0.0, 0.01, t * 0.5])}}
        if rng.random() < .3:
            op['worker_lifespan'] = rng.choice([1, 2, 3])
        exp = None
        if which == 'task':
            op['task_timeout'] = t
            for i in rng.sample(range(nn), min(k, nn)):
                op['dur']['map'][str(i)] = block
            exp = 'task'
        elif which == 'init':
            op['init'] = True
            op['worker_init_timeout'] = t
            op['init_dur'] = block
            exp = 'worker_init'
        elif which == 'exit':
            op['exit'] = True
            op['worker_exit_timeout'] = t
            op['exit_dur'] = block
            exp = 'worker_exit'
        else:
            op['task_timeout'] = t
            op['worker_init_timeout'] = t
            op['worker_exit_timeout'] = t
            op['init'] = op['exit'] = True
            op['init_dur'] = op['exit_dur'] = t * 0.4
        pool = {'n_jobs': nj, 'start_method': 'fork'}
        ops = [op]
        if which == 'exit' and nj >= 2 and rng.random() < .5:
            # only one worker's exit function overruns; the others are done and wait for a progress bar that lags behind
            op['exit_dur'] = {'kind': 'map', 'map': {'0': block}, 'default': 0.0}
            op['progress_bar'] = True
            scs.append({'seed': rng.randint(0, 10 ** 6), 'pool': pool, 'ops': ops, 'same_func': True, 'expect': exp, 't': t, 'block': block, 'no_latency': True,
                        'rules': [{'role': 'progress_bar_handler', 'op': rng.choice(['array.iter', 'value.get']), 'obj': None, 'sleep': rng.choice([0.5, 1.0]), 'p': .8}]})
            continue
        if rng.random() < .4:
            # a keep-alive history before it, with an idle gap longer than the timeout
            pool['keep_alive'] = True
            pre = {'op': 'map', 'n': rng.randint(1, 8), 'chunk_size': 1, 'dur': {'kind': 'map', 'map': {}, 'default': 0.01}}
            with_timeouts_before = rng.random() < .5      # the earlier call on the kept-alive pool may have had no timeouts at all
            for key in ('task_timeout', 'worker_init_timeout', 'worker_exit_timeout', 'init', 'exit', 'init_dur', 'exit_dur'):
                if key in op and key not in ('init_dur', 'exit_dur') and (with_timeouts_before or 'timeout' not in key):
                    pre[key] = op[key]
            if which in ('init', 'exit'):
                pre['init_dur' if which == 'init' else 'exit_dur'] = 0.0
                if which == 'init':
                    continue_ = True
            ops = [pre, {'op': 'sleep', 'd': rng.choice([t * 3, t * 10])}, op]
            if which in ('init', 'exit'):
                ops = [op]      # worker_init runs once per instance and worker_exit is deferred under keep_alive: simple shape
                pool.pop('keep_alive')
        if len(ops) == 3 and rng.random() < .5:
            # another pool of the same process comes and goes while this pool's workers are alive and idle: its end must not stop
            # this pool's watch threads
            nb = rng.choice([1, 2, 3])
            ops = [{'op': 'other_pool', 'do': 'open', 'n_jobs': nb, 'n': rng.randint(4, 10), 'kind': 'imap_unordered', 'lifespan': None}, ops[0],
                   {'op': 'other_pool', 'do': 'finish'}, ops[1], ops[2]]
        scs.append({'seed': rng.randint(0, 10 ** 6), 'pool': pool, 'ops': ops, 'same_func': True, 'expect': exp, 't': t, 'block': block})
    for _ in range(max(4, n // 12)):
        # kept-alive workers are retired because a pool setting changed: their deferred worker_exit runs at the start of the NEXT call,
        # under the limits of the call they belong to — not under those of the call that is about to start
        nj = rng.choice([1, 2])
        what = rng.choice(['pass_worker_id', 'shared_objects', 'use_worker_state'])
        pool = {'n_jobs': nj, 'start_method': 'fork', 'keep_alive': True}
        if rng.random() < .5:
            t = rng.choice([0.2, 0.3, 0.5])
            ops = [{'op': 'map', 'n': rng.randint(2, 5), 'chunk_size': 1, 'exit': True, 'worker_exit_timeout': t, 'exit_dur': 8.0},
                   {'op': 'set', 'what': what, 'value': True},
                   {'op': 'map', 'n': rng.randint(2, 5), 'chunk_size': 1, 'exit': True, 'exit_dur': 0.0}]
            scs.append({'seed': rng.randint(0, 10 ** 6), 'pool': pool, 'ops': ops, 'same_func': False, 'expect': 'exit', 't': t, 'block': 8.0, 'no_latency': True, 'relax_shape': True})
        else:
            ops = [{'op': 'map', 'n': rng.randint(2, 5), 'chunk_size': 1, 'exit': True, 'worker_exit_timeout': 60.0, 'exit_dur': 1.0},
                   {'op': 'set', 'what': what, 'value': True},
                   {'op': 'map', 'n': rng.randint(2, 5), 'chunk_size': 1, 'exit': True, 'worker_exit_timeout': 0.2, 'exit_dur': 0.0}]
            scs.append({'seed': rng.randint(0, 10 ** 6), 'pool': pool, 'ops': ops, 'same_func': False, 'expect': None, 't': 0.2, 'block': 1.0, 'relax_shape': True})
    return scs


def mixed_scenarios(rng, n):
    """apply tasks with a task_timeout are in flight (one of them overruns) while a map-family call WITHOUT any timeout runs on the same
    pool: only the overrunning apply task fails"""
    scs = []
    for _ in range(n):
        nj = rng.choice([2, 3, 4])
        k = rng.randint(1, nj - 1)
        slow = rng.randrange(k)
        a = {'op': 'apply_batch', 'defer_wait': True, 'tasks': [{'idx': i} for i in range(k)], 'task_timeout': 0.2, 'get_timeout': 30,
             'dur': {'kind': 'map', 'map': {str(slow): rng.choice([0.6, 1.0, 5.0])}, 'default': 0.01}}
        m = {'op': rng.choice(['map', 'map_unordered', 'imap', 'imap_unordered']), 'n': rng.randint(4, 12), 'chunk_size': 1, 'elem': 'scalar',
             'dur': {'kind': 'hash', 'salt': rng.randint(0, 99), 'unit': 0.02}}
        scs.append({'seed': rng.randint(0, 10 ** 6), 'pool': {'n_jobs': nj, 'start_method': 'fork'}, 'ops': [a, m, {'op': 'apply_collect', 'of': 0}],
                    'same_func': False, 'relax_shape': True, 'slow': slow})
    return scs


def mixed_judge(chk, sc, o):
    if o.get('harness_error'):
        return
    case = {'scenario': sc}
    if o.get('stuck'):
        chk.violation('apply_timeout_isolated', case, o['stuck'], 'nothing hangs', input_class='mixed_hang')
        return
    ops = o.get('ops', [])
    if len(ops) < 3:
        return
    if ops[1].get('outcome') != 'ok':
        chk.violation('apply_timeout_isolated', case, {'map_call': ops[1].get('outcome'), 'raised': ops[1].get('exc')},
                      'for apply tasks only the overrunning task fails: a map-family call without timeouts running at the same time is not affected',
                      input_class='apply_timeout_kills_map')
    for (i, kind, val, ready) in ops[0].get('apply', []):
        want = ('raise', 'TimeoutError') if i == sc['slow'] else ('ok', oracles_value(i))
        if (kind, val) != want:
            chk.violation('apply_timeout_isolated', case, {'task': i, 'got': (kind, val), 'expected': want}, 'only the overrunning apply task gets TimeoutError', input_class='apply_timeout_wrong_task')


def oracles_value(i):
    from harness import oracles
    return oracles.value_of(i)


def judge(chk, sc, o):
    if o.get('harness_error') or o.get('stuck'):
        return
    t = sc['t']
    last = o['ops'][-1] if o.get('ops') else None
    if last is None:
        return
    exp = sc['expect']
    if exp is None:
        for oo in o['ops']:
            if oo.get('outcome') == 'raise':
                chk.violation('no_false_timeout', {'scenario': sc}, oo.get('exc'), 'functions finishing well within the timeout never cause TimeoutError', input_class='no_false_timeout')
        return
    if last.get('outcome') != 'raise' or (last.get('exc') or {}).get('type') != 'TimeoutError':
        chk.violation('timeout_fires', {'scenario': sc}, {'outcome': last.get('outcome'), 'exc': last.get('exc')},
                      f'{exp} blocking {sc["block"]}s with timeout {t}s must raise TimeoutError', input_class='timeout_fires_' + exp)
        return
    # latency: first overrunning function started at t_start; the call must have raised by t_start + t + scan period + shutdown slack
    starts = [c[6] for c in o.get('calls', []) if c[0] == len(o['ops']) - 1 and c[7] is None]
    if starts and not sc.get('no_latency'):
        lat = last['t1'] - min(starts)
        bound = t + SCAN + 0.25
        if lat > bound:
            chk.violation('timeout_prompt', {'scenario': sc}, {'latency_virtual_s': round(lat, 3), 'bound': bound, 'workers_blocked': len(starts)},
                          'TimeoutError within timeout + scan period + small shutdown slack, whatever the block duration / number blocked', input_class='timeout_prompt_' + exp)


def run(chk):
    drv = Driver()
    rng = chk.rng
    lines, impl = [], []
    for _ in range(600 if chk.tier == 'quick' else 6000):
        started = rng.choice([None, rng.randint(0, 50)])
        now = (started or 0) + rng.randint(0, 20)
        t = rng.randint(1, 12)
        lines.append('timeout started=%s now=%d t=%d' % ('-' if started is None else started, now, t))
        impl.append(small.timeout_run(started, now, t))
    for line, i, m in zip(lines, impl, drv.run(lines)):
        chk.count('_has_worker_timed_out (controlled clock) vs Mpire.Watch.timedOut', key=line, nontrivial='started=-' not in line, sample={'line': line, 'impl': i})
        if i != m:
            chk.mismatch('_has_worker_timed_out', {'line': line}, i, m)
    transducer_suite(chk, 800 if chk.tier == 'quick' else 10000, suite='stamp discipline: AbstractWorker.run vs Mpire.Worker.run (scripted comms)')
    scs = timeout_scenarios(rng, 250 if chk.tier == 'quick' else 4000)
    for _sc in scs:
        _sc['want_ffail'] = True
    obs = run_scenarios(chk, 'timeout scenarios under DetSim (exact virtual latency)', scs, {'C03'},
                        nontrivial=lambda sc, o: sc['expect'] is not None,
                        dist=lambda sc, o: {'overrun': sc['expect'] or 'none', 'block_over_t': round(sc['block'] / sc['t']), 'n_jobs': sc['pool']['n_jobs'],
                                            'keep_alive_history': len(sc['ops']) > 1})
    for sc, o in zip(scs, obs):
        judge(chk, sc, o)
    from harness.checks.C04 import ffail_tie
    ffail_tie(chk, scs, obs)      # the timeout handler as one of the parties that report a failing call
    # "only if": a task that was given no time limit is never timed out, whatever limits earlier calls on the same workers had — an apply
    # batch with a limit followed by one without that contains a long task; a kept-alive map call with a limit followed by such a batch
    nt = []
    for _ in range(60 if chk.tier == 'quick' else 900):
        nj = rng.choice([1, 2, 3])
        k = rng.randint(1, 4)
        long_task = rng.randrange(k)
        later = {'op': 'apply_batch', 'tasks': [{'idx': i} for i in range(k)], 'get_timeout': 60,
                 'dur': {'kind': 'map', 'map': {str(long_task): rng.choice([0.5, 1.0, 3.0])}, 'default': 0.01}}
        if rng.random() < .5:
            first = {'op': 'apply_batch', 'tasks': [{'idx': i} for i in range(rng.randint(1, 3))], 'task_timeout': rng.choice([0.2, 0.3]), 'get_timeout': 60,
                     'dur': {'kind': 'map', 'map': {}, 'default': 0.01}}
            pool = {'n_jobs': nj, 'start_method': 'fork'}
        else:
            first = {'op': rng.choice(['map', 'imap_unordered']), 'n': rng.randint(2, 6), 'chunk_size': 1, 'task_timeout': rng.choice([0.2, 0.3]),
                     'dur': {'kind': 'map', 'map': {}, 'default': 0.01}}
            pool = {'n_jobs': nj, 'start_method': 'fork', 'keep_alive': True}
        nt.append({'seed': rng.randint(0, 10 ** 6), 'pool': pool, 'ops': [first, later]})
    run_scenarios(chk, 'a task without a time limit after calls that had one, on the same workers (DetSim)', nt, {'C09', 'C03'}, nontrivial=lambda sc, o: True,
                  dist=lambda sc, o: {'first': sc['ops'][0]['op'], 'n_jobs': sc['pool']['n_jobs']})
    # worker_exit functions that overrun in several workers which reach them at different moments (one worker is still busy with an apply
    # task when the pool is joined): TimeoutError within the limit of the first one to overrun, however long the others would block
    xs = []
    for _ in range(30 if chk.tier == 'quick' else 400):
        nj = rng.choice([2, 3])
        busy = rng.randrange(nj)
        # (the busy worker takes its pill before the idle ones overrun, and is the one the pool waits for first or not)
        t = rng.choice([0.5, 0.6])
        xs.append({'seed': rng.randint(0, 10 ** 6), 'pool': {'n_jobs': nj, 'start_method': 'fork'}, 'latency': t + 0.6,
                   'ops': [{'op': 'apply_batch', 'tasks': [{'idx': i} for i in range(nj)], 'exit': True, 'worker_exit_timeout': t, 'exit_dur': rng.choice([50.0, 600.0]),
                            'dur': {'kind': 'map', 'map': {str(busy): 0.3}, 'default': 0.01}, 'join_first': True, 'get_timeout': 5}]})
    xobs = run_scenarios(chk, 'worker_exit overruns in workers that reach it at different moments (DetSim)', xs, set(), nontrivial=lambda sc, o: True,
                         dist=lambda sc, o: {'n_jobs': sc['pool']['n_jobs']})
    for sc, o in zip(xs, xobs):
        if o.get('harness_error') or o.get('stuck') or not o.get('ops'):
            continue
        oo = o['ops'][0]
        if oo.get('outcome') != 'raise' or (oo.get('exc') or {}).get('type') != 'TimeoutError':
            chk.violation('timeout_fires_worker_exit', {'scenario': sc}, {'outcome': oo.get('outcome'), 'raised': oo.get('exc')}, 'stop_and_join raises TimeoutError', input_class='exit_staggered')
        elif oo.get('t1') is not None and oo['t1'] > sc['latency']:
            chk.violation('timeout_latency', {'scenario': sc}, {'raised_at': oo['t1'], 'bound': sc['latency']}, 'within the time limit of the first exit function to overrun (plus polling)',
                          input_class='exit_staggered_latency')
    # a task that overruns on a worker that replaced one that died: interrupted like on any other worker, so that what is queued behind it
    # is served
    rp = []
    for _ in range(30 if chk.tier == 'quick' else 400):
        rp.append({'seed': rng.randint(0, 10 ** 6), 'pool': {'n_jobs': 1, 'start_method': 'fork'},
                   'ops': [{'op': 'apply_batch', 'tasks': [{'idx': 0}, {'idx': 1}], 'dur': {'kind': 'map', 'map': {}, 'default': 0.05}, 'get_timeout': 30},
                           {'op': 'apply_batch', 'tasks': [{'idx': 0}, {'idx': 1}, {'idx': 2}], 'task_timeout': rng.choice([0.2, 0.3]), 'get_timeout': 20,
                            'dur': {'kind': 'map', 'map': {'0': rng.choice([50.0, 600.0])}, 'default': 0.01}}],
                   'inject': [{'kind': 'sigkill', 'victim': 'Worker-0', 'when': 'in_user', 'nth': rng.randint(1, 2)}]})
    robs = run_scenarios(chk, 'a task overruns on the replacement of a worker that died (DetSim)', rp, {'C03'}, nontrivial=lambda sc, o: bool(o.get('injected')),
                         dist=lambda sc, o: {'killed': bool(o.get('injected'))})
    for sc, o in zip(rp, robs):
        if o.get('harness_error') or o.get('stuck') or len(o.get('ops', [])) < 2:
            continue
        got = {a[0]: (a[1], a[2]) for a in o['ops'][1].get('apply', [])}
        if got.get(0) != ('raise', 'TimeoutError') or got.get(1, ('?',))[0] != 'ok' or got.get(2, ('?',))[0] != 'ok':
            chk.violation('timeout_interrupts_only_that_task', {'scenario': sc}, {'outcomes': got}, 'the overrunning task fails with TimeoutError, the tasks behind it complete',
                          input_class='replacement_timeout')
    # one round of the library's own _timeout_handler on a snapshot (real comms stamps, real job cache, a clock that stands still) vs
    # Mpire.TimeoutScan.round: who is signalled, which jobs are failed by whose timeout, which job the exception flag names, whether the
    # handler ends
    from harness.pure import tscan
    from harness.common import Driver as _Driver
    tcases = [tscan.gen(rng) for _ in range(600 if chk.tier == 'quick' else 8000)]
    tlines = [tscan.line(c) for c in tcases]
    for c, line, m in zip(tcases, tlines, _Driver().run(tlines)):
        try:
            i = tscan.run(*c)
        except Exception as e:      # noqa
            i = 'error %s: %s' % (type(e).__name__, e)
        chk.count('_timeout_handler, one round on a snapshot vs Mpire.TimeoutScan.round', key=line, nontrivial='killed= ' not in m, sample={'line': line[:200], 'impl': i},
                  workers=len(c[4]), ends='returned=1' in m, signalled=min(len([x for x in m.split('killed=')[1].split(' ')[0].split(',') if x]), 4))
        if i == m:
            continue
        chk.mismatch('timeout handler round vs Mpire.TimeoutScan', {'line': line}, i, m)
        if not i.startswith('ok '):
            continue        # (the tie cannot drive the handler any more: a broken correspondence, not a failing input)
        # the property on what the real handler did: every worker whose function overran its limit is signalled in this round unless the
        # handler ended at an earlier worker; nobody else is
        now, init_to, exit_to, jobs, workers = c
        jd = {str(j): (m_, t) for j, m_, t in jobs}
        over, ender = [], None
        for w, (working, ti, tt, te) in enumerate(workers):
            lim, st = (init_to, ti) if working == 'I' else (exit_to, te) if working == 'E' else (jd.get(working, (None, None))[1], tt)
            if lim is not None and st is not None and st + lim <= now:
                over.append(w)
                if ender is None and (working in ('I', 'E') or jd[working][0]):
                    ender = w
        if init_to is None and exit_to is None and all(t is None for _, _, t in jobs):
            over, ender = [], None
        want = [w for w in over if ender is None or w <= ender]
        got = [int(x) for x in i.split('killed=')[1].split(' ')[0].split(',') if x]
        if [w for w in want if w not in got]:
            chk.violation('timeout_fires', {'line': line}, {'signalled': got, 'overrunning': want}, 'every worker that overruns is dealt with in the same round, however many there are',
                          input_class='tscan_missed')
        elif [w for w in got if w not in want]:
            chk.violation('no_false_timeout', {'line': line}, {'signalled': got, 'overrunning': want}, 'only workers that overrun are signalled', input_class='tscan_false')
    # "independent of how many workers are blocked", apply half: every worker of a larger pool overruns at the same moment; each
    # task's TimeoutError (its error callback) arrives within its own limit + one scan period + slack, the last one like the first
    many = []
    for _ in range(16 if chk.tier == 'quick' else 200):
        nj = rng.choice([6, 8, 10, 12])
        tt = rng.choice([0.3, 0.5])
        many.append({'seed': rng.randint(0, 10 ** 6), 'pool': {'n_jobs': nj, 'start_method': rng.choice(['fork', 'fork', 'threading'])}, 't': tt,
                     'ops': [{'op': 'apply_batch', 'tasks': [{'idx': i} for i in range(nj)], 'task_timeout': tt, 'get_timeout': 30,
                              'dur': {'kind': 'map', 'map': {}, 'default': rng.choice([50.0, 600.0])}}]})
    mo = run_scenarios(chk, 'every worker of a larger pool overruns an apply task at the same moment (DetSim)', many, {'C03'}, nontrivial=lambda sc, o: True,
                       dist=lambda sc, o: {'n_jobs': sc['pool']['n_jobs'], 'start_method': sc['pool']['start_method']})
    for sc, o in zip(many, mo):
        if o.get('harness_error') or o.get('stuck') or not o.get('ops'):
            continue
        oo = o['ops'][0]
        started = {c[5]: c[6] for c in o.get('calls', []) if c[0] == 0 and c[1] == 'task'}
        failed = {c[1]: c[3] for c in oo.get('callbacks', []) if c[0] == 'ecb' and c[2] == 'TimeoutError'}
        late = {i: round(failed[i] - started[i], 3) for i in failed if i in started and failed[i] - started[i] > sc['t'] + SCAN + 0.25}
        missing = [a[0] for a in oo.get('apply', []) if (a[1], a[2]) != ('raise', 'TimeoutError')]
        if sc['pool']['start_method'] == 'threading':
            missing = []        # (a worker thread cannot be interrupted: its task is failed for the caller, the thread goes on)
        if missing:
            chk.violation('timeout_fires', {'scenario': sc}, {'tasks_without_TimeoutError': missing, 'outcomes': oo.get('apply')}, 'every overrunning apply task gets TimeoutError',
                          input_class='timeout_fires_many')
        elif late:
            chk.violation('timeout_prompt', {'scenario': sc}, {'latency_virtual_s_by_task': late, 'bound': sc['t'] + SCAN + 0.25, 'workers_blocked': len(started)},
                          'TimeoutError within timeout + scan period + slack for every task, independent of how many workers are blocked', input_class='timeout_prompt_many')
    ms = mixed_scenarios(rng, 80 if chk.tier == 'quick' else 1200)
    mobs = run_scenarios(chk, 'an apply task times out while a map-family call without timeouts runs on the same pool (DetSim)', ms, {'C01', 'C02'},
                         nontrivial=lambda sc, o: True, dist=lambda sc, o: {'map_kind': sc['ops'][1]['op'], 'n_jobs': sc['pool']['n_jobs']})
    for sc, o in zip(ms, mobs):
        mixed_judge(chk, sc, o)
    # timeouts of very different size in one pool: a task with a long limit is in flight when a blocking task with a short limit is
    # submitted — the short one is failed within its own limit plus the scan period, whatever else is being watched
    tm = []
    for _ in range(30 if chk.tier == 'quick' else 400):
        nj = rng.choice([2, 3])
        short = rng.choice([0.2, 0.3, 0.5])
        tm.append({'seed': rng.randint(0, 10 ** 6), 'pool': {'n_jobs': nj, 'start_method': 'fork'}, 'same_func': False, 'relax_shape': True, 'short': short,
                   'ops': [{'op': 'apply_batch', 'defer_wait': True, 'tasks': [{'idx': 0}], 'task_timeout': rng.choice([30.0, 60.0, 600.0]), 'get_timeout': 60,
                            'dur': {'kind': 'map', 'map': {'0': rng.choice([2.0, 4.0])}, 'default': 0.01}},
                           {'op': 'sleep', 'd': rng.choice([0.05, 0.2, 0.35])},
                           {'op': 'apply_batch', 'tasks': [{'idx': 0}], 'task_timeout': short, 'get_timeout': 60, 'dur': {'kind': 'map', 'map': {'0': 50.0}, 'default': 0.01}},
                           {'op': 'apply_collect', 'of': 0}]})
    tobs = run_scenarios(chk, 'a short timeout submitted while a task with a long timeout is in flight (DetSim)', tm, {'C03'}, nontrivial=lambda sc, o: True,
                         dist=lambda sc, o: {'short': sc['short'], 'long': sc['ops'][0]['task_timeout']})
    for sc, o in zip(tm, tobs):
        if o.get('harness_error') or o.get('stuck') or len(o.get('ops', [])) < 4:
            continue
        a2 = (o['ops'][2].get('apply') or [[None, None, None, None]])[0]
        if a2[1] != 'raise' or a2[2] != 'TimeoutError':
            chk.violation('timeout_fires', {'scenario': sc}, {'short_task': a2}, 'the blocking task with the short limit is failed with TimeoutError', input_class='timeout_fires_mixed')
            continue
        lat = o['ops'][2]['t1'] - o['ops'][2]['t0']
        bound = sc['short'] + SCAN + 0.25
        if lat > bound:
            chk.violation('timeout_prompt', {'scenario': sc}, {'latency_virtual_s': round(lat, 3), 'bound': bound}, 'TimeoutError within timeout + scan period + small slack, whatever other limits are being watched',
                          input_class='timeout_prompt_mixed')
        a0 = (o['ops'][0].get('apply') or [[None, None, None, None]])[0]
        if a0[1] != 'ok':
            chk.violation('no_false_timeout', {'scenario': sc}, {'long_task': a0}, 'the task with the long limit completes', input_class='no_false_timeout_mixed')
    # the running-task hand-shake of every interrupted worker instance vs Mpire.Kill.step
    klines, krefs = [], []
    for sc, o in zip(scs, obs):
        for oo in o.get('ops', []):
            for inst, evs in (oo.get('kill') or {}).items():
                klines.append('kill ev=' + ','.join(evs))
                krefs.append((sc, inst))
    for line, res, (sc, inst) in zip(klines, drv.run(klines), krefs):
        chk.count('running-task hand-shake of interrupted workers vs Mpire.Kill.step', key=line + inst, nontrivial=True, sample={'instance': inst, 'line': line, 'model': res})
        if not res.startswith('ok ') or 'phase=escaped' in res:
            chk.mismatch('kill-signal hand-shake rejected by Mpire.Kill.step', {'scenario': sc, 'instance': inst, 'line': line}, 'trace of the real hand-shake', res)
            if 'phase=escaped' in res:
                chk.violation('kill_signal_inside_protected_region', {'scenario': sc}, {'instance': inst, 'events': line}, 'the interrupting signal is handled inside _run_safely', input_class='kill_escaped')
    chk.assumptions += ['real signal delivery latency is not modelled (DetSim delivers at the victim\'s next scheduling point)',
                        "'threading' is excluded from the promptness half (documented)"]

    def search():
        extra = timeout_scenarios(random.Random(chk.seed * 43 + 1), 800)
        ob = run_scenarios(chk, 'search', extra, {'C03'})
        for sc, o in zip(extra, ob):
            judge(chk, sc, o)
    return search
