"""C05 — no leaked workers, threads, descriptors or signal state on any exit path.
Theorems: Props/C05.lean (handler balance and signal accounting for every nesting/arrival sequence).
Correspondence: the real context managers vs Mpire.Signal; DetSim histories ending in pool exit over every exit cause
(success, task/init/exit exception, timeout, killed worker, SIGINT, terminate during imap, abandoned imap, mixed-map
misuse) x (keep_alive, lifespan, progress bar, insights, apply): the resource ledger of the simulated primitives at exit.
Thorough tier adds real processes: /proc children, open descriptors, threads, SIGINT handler, tqdm lock after warm-up."""
import copy
import random

from harness import gen, oracles, par
from harness.common import Driver
from harness.checks.C17 import sig_programs
from harness.detcheck import key_of

CAUSES = ['success', 'task_exc', 'init_exc', 'exit_exc', 'timeout', 'exit_timeout', 'sigkill', 'sigint', 'terminate_during_imap', 'abandoned_imap', 'mixed_map', 'apply',
          'explicit_join', 'setter_cycle']


def exit_scenarios(rng, n):
    out = []
    for k in range(n):
        cause = CAUSES[k % len(CAUSES)]
        pool = gen.gen_pool(rng)
        nn = rng.randint(2, 12)
        op = {'op': rng.choice(['map', 'imap', 'imap_unordered', 'map_unordered']), 'n': nn, 'chunk_size': rng.choice([1, 2, 3]),
              'dur': {'kind': 'hash', 'salt': rng.randint(0, 99), 'unit': 0.01}}
        if rng.random() < .3:
            op['worker_lifespan'] = rng.choice([1, 2, 3])
        if rng.random() < .3:
            op['progress_bar'] = True
        ops = [op]
        sc = {'seed': rng.randint(0, 10 ** 6), 'pool': pool, 'cause': cause}
        if cause == 'task_exc':
            op['fail'] = {'at': [rng.randrange(nn)], 'exc': rng.choice(['ValueError', 'Custom'])}
        elif cause == 'init_exc':
            op['init'] = True
            op['fail'] = {'init': rng.choice(['all', 'Worker-0'])}
        elif cause == 'exit_exc':
            op['exit'] = True
            op['fail'] = {'exit': rng.choice(['all', 'Worker-0'])}
        elif cause == 'timeout':
            pool['start_method'] = 'fork'
            op['task_timeout'] = 0.2
            op['dur'] = {'kind': 'map', 'map': {str(rng.randrange(nn)): 50.0}, 'default': 0.01}
        elif cause == 'exit_timeout':
            pool['start_method'] = 'fork'
            pool.pop('keep_alive', None)
            op['exit'] = True
            op['worker_exit_timeout'] = 0.2
            op['exit_dur'] = 8.0
        elif cause == 'sigkill':
            pool['start_method'] = 'fork'
            sc['inject'] = [{'kind': 'sigkill', 'victim': 'Worker-%d' % rng.randrange(pool['n_jobs']), 'instance': 0, 'point': rng.randint(8, 60)}]
        elif cause == 'sigint':
            sc['inject'] = [{'kind': 'sigint', 'point': rng.randint(5, 200)}]
        elif cause == 'terminate_during_imap':
            op['op'] = rng.choice(['imap', 'imap_unordered'])
            op['consume'] = rng.randint(1, max(1, nn - 1))
            ops.append({'op': 'terminate'})
        elif cause == 'abandoned_imap':
            op['op'] = rng.choice(['imap', 'imap_unordered'])
            op['consume'] = rng.randint(1, max(1, nn - 1))
            if rng.random() < .5:
                op['abandon'] = 'close'
            elif rng.random() < .6 and op['consume'] < nn - 1:
                # a task the consumer never asked for fails in the background while the generator is suspended; the pool is left
                # while the caller still holds the generator
                op['fail'] = {'at': [rng.randrange(op['consume'] + 1, nn)], 'exc': 'ValueError'}
                op['max_tasks_active'] = 2 * nn
                op['chunk_size'] = 1
                op['progress_bar'] = True
                ops.append({'op': 'sleep', 'd': 0.5})
        elif cause == 'mixed_map':
            op['op'] = rng.choice(['imap', 'imap_unordered'])
            op['consume'] = 1
            ops.append({'op': 'map', 'n': 4, 'chunk_size': 1})
        elif cause == 'explicit_join':
            # stop_and_join() / terminate() called by the user in the middle of the pool's life (also on a keep-alive pool)
            if rng.random() < .7:
                pool['keep_alive'] = True
            ops.append({'op': rng.choice(['stop_and_join', 'stop_and_join', 'terminate'])})
            if rng.random() < .5:
                ops.append({'op': 'map', 'n': 4, 'chunk_size': 1})
                ops.append({'op': 'stop_and_join'})
        elif cause == 'setter_cycle':
            pool['keep_alive'] = True
            cur = {k: bool(pool.get(k)) for k in ('pass_worker_id', 'shared_objects', 'use_worker_state')}
            for _ in range(rng.randint(1, 3)):
                what = rng.choice(sorted(cur))
                cur[what] = not cur[what]
                ops.append({'op': 'set', 'what': what, 'value': cur[what]})
                ops.append({'op': 'map', 'n': rng.randint(2, 6), 'chunk_size': 1})
        elif cause == 'apply':
            ops = [gen.gen_apply_op(rng, pool['n_jobs'])]
            if ops[0].get('task_timeout'):
                pool['start_method'] = 'fork'
            pool.pop('keep_alive', None)
            pool.pop('order_tasks', None)
        if cause in ('task_exc', 'sigint', 'terminate_during_imap', 'abandoned_imap') and pool['start_method'] == 'fork' and rng.random() < .35:
            # one task cannot be interrupted for a few seconds (it swallows whatever is raised into it): the forced shutdown has
            # to wait for it or kill it, but may not forget it
            victim = rng.randrange(nn)
            if victim not in (op.get('fail') or {}).get('at', ()):
                # … for a few tenths of a second (gone at one of the bounded joins) or for seconds (SIGTERM, unbounded join)
                op['stubborn'] = {str(victim): rng.choice([0.15, 0.35, 0.55, 0.85, 0.95, 1.05, 2.5, 4.0, 7.0])}
        # adversarial schedules: the restart handler is held up between testing its stop conditions and waiting (the notification
        # of the stopping thread is then lost), workers start slowly, the stopping thread is slow, …
        r = rng.random()
        if r < .2:
            sc['rules'] = [{'role': 'restart_handler', 'op': 'lock.acquire', 'obj': None, 'sleep': rng.choice([0.03, 0.1, 0.5]), 'p': .6}]
            if rng.random() < .5 and 'worker_lifespan' not in op and cause != 'apply':
                op['worker_lifespan'] = rng.choice([1, 2])
        elif r < .35:
            sc['rules'] = gen.schedule_rules(rng, pool['n_jobs'])
        if cause not in ('sigint',) and rng.random() < .35:
            # whatever the caller has installed for SIGINT — the OS default action, "ignore", a function of its own — is what is
            # found there afterwards
            sc['sigint_disposition'] = rng.choice(['ign', 'dfl', 'custom'])
        # cycles: the same thing several times on one pool accumulates nothing
        reps = rng.choice([1, 1, 2, 3]) if cause not in ('sigkill', 'sigint', 'abandoned_imap', 'mixed_map', 'terminate_during_imap', 'explicit_join', 'setter_cycle') else 1
        sc['ops'] = [copy.deepcopy(o) for _ in range(reps) for o in ops]
        out.append(sc)
    return out


def shutdown_tie(chk, drv, scs, obs):
    """what terminate() did to every worker process and how the restart handler thread was stopped, against Model/Shutdown.lean:
    the actions of every `_terminate_worker` thread must be `terminateWorker` of what that worker did (flag read, the look at
    which it was gone), and the visible events around every restart handler thread must be a behaviour of the repaired stop."""
    A = 'forced shutdown of a worker process vs Mpire.Shutdown.terminateWorker'
    C = 'stopping the restart handler thread vs Mpire.Shutdown.step (repaired stopper)'
    lines, refs = [], []
    for sc, o in zip(scs, obs):
        if o.get('harness_error') or 'shutdown' not in o:
            if o.get('shutdown_error'):
                chk.mismatch(A + ': the trace could not be read', {'scenario': sc}, o.get('shutdown_error'), 'a readable trace')
            continue
        sd = o['shutdown']
        for r in sd['tw']:
            if r['open'] and o.get('stuck'):
                continue            # the run was cut while this clean-up thread was at work
            if r.get('concurrent'):
                chk.notes['concurrent_terminate_calls_skipped'] = chk.notes.get('concurrent_terminate_calls_skipped', 0) + 1
                continue
            lines.append('tworker started=%d running=%d leaves=%s' % (1 if r.get('usable', True) else 0, 1 if r['running'] else 0, '-' if r['leaves'] is None else r['leaves']))
            refs.append(('A', sc, r))
        for h in sd['hstop']:
            hh = h.split(',') if h else []
            if 'X' in hh:
                hh = hh[:hh.index('X') + 1]       # later calls of _stop_handler_threads find no thread any more
            lines.append('hstop fixed=1 ev=%s' % (','.join(hh) or '-'))
            refs.append(('C', sc, h))
    for line, res, (part, sc, r) in zip(lines, drv.run(lines), refs):
        if part == 'A':
            chk.count(A, key=line + r['acts'], nontrivial=True, sample={'line': line, 'impl': r['acts'], 'model': res},
                      running=r['running'], leaves=str(r['leaves']), sigterm='T' in r['acts'], usable=r.get('usable', True))
            if res != 'acts=' + r['acts'] or r['open']:
                chk.mismatch(A, {'scenario': sc, 'line': line, 'worker': r['wid']}, r['acts'] + (' (thread never ended)' if r['open'] else ''), res)
                acts = r['acts'].split(',')
                # failing input: the pool gave up on a process it had not seen gone, or never waited for one it sent SIGTERM
                if 'J1' not in acts and 'F' not in acts and r['leaves'] is None and r.get('usable', True):
                    chk.violation('forced_shutdown_waits_for_every_worker', {'scenario': sc, 'worker': r['wid']}, {'actions': r['acts']},
                                  'terminate() leaves no worker process it has not seen gone', input_class='gave_up_on_worker')
        else:
            n_ev = line.count(',') + 1
            chk.count(C, key=line, nontrivial=n_ev >= 4, sample={'line': line[:200], 'model': res}, events=min(n_ev // 5 * 5, 40),
                      lost_notification='N0' in line, served='S' in line, failure='!' in line)
            if res != 'ok':
                chk.mismatch(C, {'scenario': sc, 'line': line}, r, res)


def run(chk):
    rng = chk.rng
    drv = Driver()
    sig_programs(chk, 500 if chk.tier == 'quick' else 5000)
    scs = exit_scenarios(rng, 330 if chk.tier == 'quick' else 5500)
    # Ctrl-C at EVERY scheduling point of the caller during one or two whole calls (also while the call is shutting its workers and
    # helper threads down): whatever is interrupted, leaving the pool afterwards leaves nothing behind
    from harness import inject
    bases = []
    for _ in range(1 if chk.tier == 'quick' else 6):
        bases.append({'seed': rng.randint(0, 10 ** 6), 'cause': 'sigint', 'pool': {'n_jobs': rng.choice([2, 3]), 'start_method': 'fork'},
                      'ops': [{'op': rng.choice(['map', 'imap_unordered']), 'n': rng.randint(4, 8), 'chunk_size': 1, 'worker_lifespan': rng.choice([None, 2]),
                               'exit': rng.random() < .5, 'dur': {'kind': 'hash', 'salt': rng.randint(0, 99), 'unit': 0.01}}]})
    for sc, bo in zip(bases, inject.baseline(bases)):
        if not bo.get('stuck') and not bo.get('harness_error'):
            scs += inject.sigint_sweep(sc, bo, stride=1 if chk.tier == 'quick' else 2)
    for sc in scs:
        sc['want_shutdown'] = True
    obs = par.run_all(scs)
    shutdown_tie(chk, drv, scs, obs)
    for sc, o in zip(scs, obs):
        if o.get('harness_error'):
            chk.notes.setdefault('harness_errors', []).append(str(o['harness_error'])[-300:])
            continue
        chk.count('histories ending in pool exit, by exit cause (DetSim resource ledger)', key=key_of(sc) + str(sc.get('inject')), nontrivial=True,
                  sample={'scenario': sc, 'alive_at_exit': o.get('alive_at_exit'), 'ledger': o.get('ledger')},
                  cause=sc['cause'], start=sc['pool']['start_method'], keep_alive=bool(sc['pool'].get('keep_alive')),
                  outcome=str([x.get('outcome') for x in o.get('ops', [])][-1:]))
        case = {'scenario': sc}
        if sc['cause'] == 'sigint' and o.get('ops') and (o.get('injected') or {}).get('point', 0) > (o['ops'][-1].get('main_points_end') or 10 ** 9):
            continue      # the interrupt arrived after the call, while the with-block was being left: not an exit cause of a call
        if o.get('stuck'):
            chk.violation('exit_path_terminates', case, o['stuck'], 'every exit path ends', input_class='exit_hang_' + sc['cause'])
            continue
        if o.get('alive_at_exit'):
            chk.violation('no_thread_or_worker_alive_after_exit', case, {'alive': o['alive_at_exit']}, 'no worker and no helper thread alive after the pool is left',
                          input_class='leak_' + sc['cause'])
        if o.get('alive_at_exit_with_open_generator'):
            chk.violation('no_thread_or_worker_alive_after_exit', case, {'alive': o['alive_at_exit_with_open_generator'], 'generator_still_referenced': True},
                          'no worker and no helper thread alive after the pool is left (also while the caller still holds an abandoned generator)',
                          input_class='leak_open_generator_' + sc['cause'])
        if o.get('procs_alive'):
            chk.violation('no_worker_process_alive_after_exit', case, {'alive': o['procs_alive']}, 'no worker process alive', input_class='proc_leak_' + sc['cause'])
        if o.get('sigint_handler_after') != o.get('sigint_handler_before'):
            chk.violation('sigint_handler_restored', case, {'after': o.get('sigint_handler_after')}, 'SIGINT handler as before', input_class='handler_' + sc['cause'])
        if o.get('tqdm_lock_same') is False:
            chk.violation('tqdm_lock_restored', case, {}, 'tqdm lock as before', input_class='tqdm_lock_' + sc['cause'])
        # right after stop_and_join() (not keep_alive) / terminate() has returned nothing of the pool runs any more
        for opi, (op2, oo2) in enumerate(zip(sc['ops'], o.get('ops', []))):
            if (op2['op'] == 'terminate' or (op2['op'] == 'stop_and_join' and not op2.get('keep_alive'))) and oo2.get('outcome') == 'ok' and oo2.get('alive_after'):
                chk.violation('nothing_alive_after_join', case, {'op': opi, 'alive': oo2['alive_after']}, 'no worker and no helper thread alive once stop_and_join()/terminate() returned',
                              input_class='alive_after_' + op2['op'])
                break
        if o.get('managers_alive_after_release'):
            # (the store that keeps get_insights() readable may live as long as the pool object — not longer)
            chk.violation('nothing_left_once_the_pool_is_released', case, {'manager_processes_still_owned': o['managers_alive_after_release']},
                          'once the pool object is released no process created by it remains', input_class='manager_after_release_' + sc['cause'])
        led = o.get('ledger') or {}
        if led.get('manager_started', 0) != led.get('manager_stopped', 0) and not sc['pool'].get('enable_insights'):
            chk.violation('progress_manager_stopped', case, {'started': led.get('manager_started'), 'stopped': led.get('manager_stopped')}, 'the tqdm manager this pool started is stopped',
                          input_class='manager_' + sc['cause'])
    from harness import realproc
    realproc.leak_suite(chk, quick=chk.tier != 'thorough')
    chk.assumptions += ['descriptors and OS processes are runtime objects: under DetSim they are the simulated primitives\' ledger; the real-process tier observes /proc (thorough)',
                        'a helper that ends by itself within 2 virtual seconds after exit is not counted as leaked',
                        'GC-time release and interpreter-level helpers (resource tracker, fork server) are excluded by the property']

    def search():
        pass
    return search
