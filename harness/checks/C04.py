"""C04 — exceptions propagate faithfully and promptly.
Theorems: Props/C04.lean (guard sound, transport faithful, every raise handled, yielded-before-raising correct).
Correspondence: real _get_exception / populate_exception with real pickle and dill over exception shapes (ok-bits measured by
trying); real AbstractWorker.run scripted with raising tasks incl. BaseException subclasses; failing calls under DetSim at every
kind and position of failure."""
import random

from harness import gen
from harness.checks.C11 import transducer_suite
from harness.common import Driver
from harness.detcheck import proto_correspondence, run_scenarios
from harness.pure import small
from harness.pure import worker_script as ws


def race_scenarios(rng, n):
    """several parties find out at about the same time that the call cannot complete: tasks raising in several workers, a task that
    overruns its timeout, a worker that is killed"""
    scs = []
    for _ in range(n):
        nj = rng.choice([2, 3, 4])
        nn = nj * rng.choice([2, 3])
        t = 0.2
        k = rng.randint(1, nj)
        failing = sorted(rng.sample(range(nj), k))
        durs = {str(i): rng.choice([0.1, 0.19, 0.2, 0.2, 0.21, 0.3]) for i in failing}
        op = {'op': rng.choice(['map', 'map_unordered', 'imap', 'imap_unordered']), 'n': nn, 'chunk_size': 1, 'elem': 'scalar',
              'fail': {'at': failing, 'exc': rng.choice(['ValueError', 'Custom', 'KeyError'])}, 'dur': {'kind': 'map', 'map': durs, 'default': 0.05}}
        sc = {'seed': rng.randint(0, 10 ** 6), 'pool': {'n_jobs': nj, 'start_method': 'fork'}, 'ops': [op], 'want_ffail': True, 'race': []}
        others = [i for i in range(nj) if i not in failing]
        r = rng.random()
        if r < .4 and others:
            op['task_timeout'] = t
            op['dur']['map'][str(others[0])] = 50.0
            sc['race'].append('timeout')
        if .3 < r < .7 and len(others) >= (2 if 'timeout' in sc['race'] else 1):
            sc['inject'] = [{'kind': 'sigkill', 'victim': 'Worker-%d' % others[-1], 'when': 'in_user', 'nth': 1}]
            op['dur']['map'][str(others[-1])] = rng.choice([0.1, 0.2, 0.3])
            sc['race'].append('kill')
        r2 = rng.random()
        if r2 < .5:
            # every party is held up between its look at the flag and what it does next, so that several get through
            sc['rules'] = [{'role': 'Worker-%d' % i, 'op': 'value.set', 'obj': 'exception_job_id', 'sleep': rng.choice([0.01, 0.05, 0.2]), 'p': 1.0} for i in range(nj)]
            sc['rules'] += [{'role': h, 'op': rng.choice(['value.set', 'event.set']), 'obj': rng.choice(['exception_job_id', 'exception_thrown']) if False else None,
                             'sleep': rng.choice([0.01, 0.05, 0.2]), 'p': 0.5} for h in ('timeout_handler', 'unexpected_death_handler')]
            if rng.random() < .5:
                sc['rules'].append({'role': 'Worker-%d' % rng.randrange(nj), 'op': 'event.set', 'obj': 'exception_thrown', 'sleep': rng.choice([0.05, 0.3]), 'p': 1.0})
        elif r2 < .75:
            sc['rules'] = gen.schedule_rules(rng, nj)
        scs.append(sc)
    return scs


def race_judge(chk, sc, o):
    if o.get('harness_error') or o.get('stuck') or not o.get('ops'):
        return
    oo = o['ops'][0]
    op = sc['ops'][0]
    if oo.get('outcome') != 'raise':
        chk.violation('failing_call_raises', {'scenario': sc}, {'outcome': oo.get('outcome')}, 'a call in which a task raises, overruns or loses its worker raises', input_class='race')
        return
    ty = (oo.get('exc') or {}).get('type')
    allowed = {op['fail']['exc'] if op['fail']['exc'] != 'Custom' else 'CustomError'}
    if 'timeout' in sc['race']:
        allowed.add('TimeoutError')
    if 'kill' in sc['race']:
        allowed.add('RuntimeError')
    if ty not in allowed and not (op['fail']['exc'] == 'Custom' and str(ty).startswith('Custom')):
        chk.violation('raises_one_of_the_failures_that_happened', {'scenario': sc}, {'raised': oo.get('exc')}, 'one of: %s' % sorted(allowed), input_class='race')


def ffail_tie(chk, scs, obs):
    """who wrote the job-id slot, set the exception flag, queued or stored a failure, and what the caller then read and fetched, must be a
    run of Mpire.FirstFailure.step that ends with the caller raising what the model's cache holds"""
    suite = 'who reports a failing call (slot, flag, queue, cache, fetch) vs Mpire.FirstFailure.step'
    lines, refs = [], []
    for sc, o in zip(scs, obs):
        if o.get('harness_error') or o.get('stuck'):
            continue
        if 'ffail' not in o:
            if o.get('ffail_error'):
                chk.mismatch(suite + ': the trace could not be read', {'scenario': sc}, o['ffail_error'], 'a readable trace')
            continue
        for e in o['ffail']:
            lines.append('ffail sigs=%s jobs=%s ev=%s' % (','.join(e['sigs']), ','.join(map(str, e['jobs'])) or '-', ','.join(e['ev']) or '-'))
            refs.append(sc)
    for line, res, sc in zip(lines, Driver().run(lines), refs):
        sigs = line.split(' ')[1][5:].split(',')
        chk.count(suite, key=line, nontrivial=len(sigs) >= 2, sample={'line': line[:300], 'model': res[:120]}, signallers=min(len(sigs), 5),
                  kinds=''.join(sorted({x[0] for x in sigs})), fetched='MX:' in line)
        if not res.startswith('ok'):
            chk.mismatch(suite, {'scenario': sc, 'line': line[:1500]}, 'events of the implementation', res)
        elif 'MR:' in line and 'MX:' not in line:
            chk.mismatch(suite + ': the caller read the slot and never got an exception', {'scenario': sc, 'line': line[:1500]}, 'no fetch', res)


def run(chk):
    drv = Driver()
    rng = chk.rng
    lines, impl, meta = [], [], []
    for shape in small.EXC_SHAPES:
        for use_dill in (False, True):
            for sm in ('fork', 'threading'):
                bits, kind, shipped_ok, faithful, cause = small.exc_run(shape, use_dill, sm)
                lines.append('exc t=%d a=%d d=%d' % bits)
                impl.append(kind)
                meta.append((shape, use_dill, sm, shipped_ok, faithful, cause))
    out = drv.run(lines)
    for line, i, m, (shape, use_dill, sm, shipped_ok, faithful, cause) in zip(lines, impl, out, meta):
        case = {'exception_shape': shape, 'use_dill': use_dill, 'start_method': sm}
        chk.count('_get_exception/populate_exception (real pickle/dill) vs Mpire.Exc', key=(shape, use_dill, sm), nontrivial=True,
                  sample=dict(case, bits=line, shipped=i), shipped=i, pickler='dill' if use_dill and sm != 'threading' else 'pickle')
        if i != m:
            chk.mismatch('exception guard vs Mpire.Exc.guard', case, i, m)
        if not shipped_ok:
            chk.violation('guard_sound', case, {'shipped_not_serialisable_by_queue_pickler': True}, 'whatever is shipped can be serialised by the results queue', input_class=shape)
        if not faithful:
            chk.violation('transport_faithful', case, {'rebuilt_differs': True}, 'same type/args/attributes, or CannotPickle(repr)', input_class=shape)
        if not cause:
            chk.violation('cause_has_worker_traceback', case, {}, 'cause carries the worker traceback', input_class=shape)
    # worker loop with raising tasks: BaseException subclasses must be reported like any other
    import asyncio
    for cls in (ValueError, SystemExit, KeyboardInterrupt, asyncio.CancelledError, GeneratorExit):
        acts, flag, err = run_raising(cls)
        model = drv.run([ws.line_of(P0, {'initOut': 'ok', 'exitOut': 'ok'}, [('c', 3, [(0, 'ok'), (1, 'ra'), (2, 'ok')]), ('P',)], flag)])[0]
        chk.count('AbstractWorker.run with a raising task vs Mpire.Worker.run', key=cls.__name__, nontrivial=True, sample={'class': cls.__name__, 'acts': ' '.join(acts)})
        if ' '.join(acts) != model:
            chk.mismatch('worker loop on raising task (class %s)' % cls.__name__, {'class': cls.__name__}, ' '.join(acts), model)
            if err or 'raise:3' not in acts:
                chk.violation('every_raise_reported', {'exception_class': cls.__name__}, {'acts': acts[-6:], 'escaped': err},
                              'the worker reports the exception (flag + failure record) and stops', input_class=cls.__name__)
    transducer_suite(chk, 600 if chk.tier == 'quick' else 10000)
    scs = [gen.gen_fail_scenario(rng) for _ in range(300 if chk.tier == 'quick' else 5000)]
    for _sc in scs:
        if rng.random() < .25 and 'rules' not in _sc:
            _sc['rules'] = gen.schedule_rules(rng, _sc['pool']['n_jobs'])      # adversarial schedules
    for _sc in scs:
        _sc['want_ffail'] = True
    obs = run_scenarios(chk, 'failing calls under DetSim (kind x position of failure)', scs, {'C04', 'C03'},
                        nontrivial=lambda sc, o: bool(o.get('raised')),
                        dist=lambda sc, o: {'where': 'task' if sc['ops'][0]['fail'].get('at') else 'init' if sc['ops'][0]['fail'].get('init') else 'exit',
                                            'exc': sc['ops'][0]['fail'].get('exc'), 'op': sc['ops'][0]['op'], 'start': sc['pool']['start_method']})
    proto_correspondence(chk, 'protocol traces of failing calls vs Mpire.Proto.step', scs, obs)
    ffail_tie(chk, scs, obs)
    rc = race_scenarios(rng, 150 if chk.tier == 'quick' else 3000)
    robs = run_scenarios(chk, 'several failures at about the same time: raising tasks, an overrunning task, a killed worker (DetSim)', rc, set(),
                         nontrivial=lambda sc, o: True, dist=lambda sc, o: {'race': '+'.join(sc['race']) or 'raises-only', 'failing': len(sc['ops'][0]['fail']['at']),
                                                                            'n_jobs': sc['pool']['n_jobs']})
    for _sc, _o in zip(rc, robs):
        race_judge(chk, _sc, _o)
    ffail_tie(chk, rc, robs)
    rs = [gen.gen_repeat_fail_scenario(rng) for _ in range(200 if chk.tier == 'quick' else 3000)]
    run_scenarios(chk, 'several failing calls in a row on one pool: each raises its own error', rs, {'C04', 'C03'},
                  nontrivial=lambda sc, o: len(o.get('raised') or []) >= 2,
                  dist=lambda sc, o: {'where': 'task' if sc['ops'][0]['fail'].get('at') else 'init' if sc['ops'][0]['fail'].get('init') else 'exit', 'calls': len(sc['ops'])})
    ru = [gen.gen_reuse_fail_scenario(rng) for _ in range(120 if chk.tier == 'quick' else 2000)]
    run_scenarios(chk, 'a failing call on reused workers (kept alive, or started by apply) after a call of the other ordering mode', ru, {'C04', 'C03'},
                  nontrivial=lambda sc, o: bool(o.get('raised')),
                  dist=lambda sc, o: {'first': sc['ops'][0]['op'], 'second': sc['ops'][1]['op'], 'elem': sc['ops'][1]['elem'], 'start': sc['pool']['start_method']})
    # apply submissions whose worker_init fails in every worker while several jobs are pending: every job reports that error (same
    # type, args, attributes), nothing else comes out of it
    ai = []
    for _ in range(40 if chk.tier == 'quick' else 600):
        nj = rng.choice([1, 2, 3])
        k = rng.randint(2, 8)
        ai.append({'seed': rng.randint(0, 10 ** 6), 'pool': {'n_jobs': nj, 'start_method': rng.choice(['fork', 'threading'])},
                   'ops': [{'op': 'apply_batch', 'tasks': [{'idx': i, 'gap': rng.choice([0, 0, 0.01])} for i in range(k)], 'init': True, 'init_dur': rng.choice([0.0, 0.02]),
                            'fail': {'init': 'all', 'exc': rng.choice(['ValueError', 'Custom', 'KeyError'])}, 'dur': {'kind': 'map', 'map': {}, 'default': 0.01},
                            'get_timeout': 30, 'wait_order': list(range(k))}]})
    run_scenarios(chk, 'apply submissions whose worker_init fails while several jobs are pending', ai, {'C04', 'C09', 'C03'}, nontrivial=lambda sc, o: True,
                  dist=lambda sc, o: {'jobs': len(sc['ops'][0]['tasks']), 'start': sc['pool']['start_method']})
    # … and a map-family call made afterwards on the same pool, in which nothing raises: it raises nothing, least of all the error of
    # the earlier submissions (the exception has to be one raised by a user function IN THAT CALL)
    st = []
    for _ in range(50 if chk.tier == 'quick' else 700):
        nj = rng.choice([1, 2, 3])
        k = rng.randint(1, 4)
        first = {'op': 'apply_batch', 'tasks': [{'idx': i} for i in range(k)], 'init': True, 'dur': {'kind': 'map', 'map': {}, 'default': 0.01}, 'get_timeout': 30}
        if rng.random() < .6:
            first['fail'] = {'init': 'all', 'exc': rng.choice(['ValueError', 'Custom', 'KeyError'])}
        else:
            first['worker_init_timeout'] = 0.2
            first['init_dur'] = 5.0
        later = {'op': rng.choice(['map', 'imap', 'map_unordered', 'imap_unordered']), 'n': rng.randint(2, 9), 'chunk_size': rng.choice([1, 2]), 'elem': 'scalar'}
        if rng.random() < .4:
            later['init'] = True
        st.append({'seed': rng.randint(0, 10 ** 6), 'pool': {'n_jobs': nj, 'start_method': rng.choice(['fork', 'threading']) if 'fail' in first else 'fork'},
                   'ops': [first, later]})
    sobs = run_scenarios(chk, 'a clean map-family call after apply submissions whose worker_init failed or overran (DetSim)', st, {'C03'}, nontrivial=lambda sc, o: True,
                         dist=lambda sc, o: {'first': 'raises' if 'fail' in sc['ops'][0] else 'overruns', 'later': sc['ops'][1]['op'], 'start': sc['pool']['start_method']})
    for _sc, _o in zip(st, sobs):
        if _o.get('harness_error') or _o.get('stuck') or len(_o.get('ops', [])) < 2:
            continue
        oo = _o['ops'][1]
        if oo.get('outcome') == 'raise':
            chk.violation('raises_only_what_was_raised_in_this_call', {'scenario': _sc}, {'raised': oo.get('exc')},
                          'a call in which no user function raises does not raise (the error of an earlier call is not this call\'s)', input_class='stale_error')
    chk.assumptions += ['pickle/dill verdicts are inputs of the model (measured by really serialising)', 'traceback formatting/highlighting is not modelled']

    def search():
        run_scenarios(chk, 'search', [gen.gen_fail_scenario(random.Random(chk.seed * 31 + i)) for i in range(800)], {'C04', 'C03'})
    return search


P0 = {'lifespan': None, 'hasInit': False, 'hasExit': False, 'progressBar': False, 'initTimeout': False, 'exitTimeout': False}


def run_raising(cls):
    """the scripted worker with task 1 raising an instance of `cls` (instead of the harness' ValueError)"""
    orig = ws.run_real.__globals__['ValueError'] if 'ValueError' in ws.run_real.__globals__ else None
    ws.run_real.__globals__['ValueError'] = cls
    try:
        return ws.run_real(P0, {'initOut': 'ok', 'exitOut': 'ok'}, [('c', 3, [(0, 'ok'), (1, 'ra'), (2, 'ok')]), ('P',)])
    finally:
        if orig is None:
            del ws.run_real.__globals__['ValueError']
        else:
            ws.run_real.__globals__['ValueError'] = orig
