"""C15 — bounded look-ahead.
Theorems: Props/C15.lean (bound, no draw while the consumer is idle, never stalls, variant) for every interleaving.
Correspondence: dispatcher events of real imap_unordered/map_unordered calls under DetSim (counting generator, pausing
consumer, max_tasks_active below/above the chunk size) folded through Mpire.Dispatch.step; max(drawn - delivered) vs bound."""
import math
import random

from harness import gen, oracles
from harness.common import Driver
from harness.detcheck import run_scenarios


def look_scenarios(rng, n):
    scs = []
    for _ in range(n):
        pool = gen.gen_pool(rng, rich=False)
        nn = rng.choice([rng.randint(0, 10), rng.randint(10, 60)])
        op = {'op': rng.choice(['imap_unordered', 'imap_unordered', 'map_unordered']), 'n': nn, 'input': rng.choice(['gen', 'list']),
              'elem': rng.choice(['scalar', 'tuple', 'dict'])}
        op['chunk_size'] = rng.choice([1, 2, 3, 5, 8, 1.5, 2.5, 3.3])
        r = rng.random()
        if r < .75:
            op['max_tasks_active'] = rng.choice([1, 2, 3, 4, 6, 10, rng.randint(1, 20)])
        if op['input'] == 'gen' and rng.random() < .5:
            op['iterable_len'] = nn
        if rng.random() < .3:
            # the chunk size is DERIVED (from n_splits, from the length, or the fall-back for an unknown length) and larger than an
            # explicit look-ahead bound
            op.pop('chunk_size')
            op['n'] = nn = rng.randint(12, 60)
            if op.get('iterable_len') is not None:
                op['iterable_len'] = nn
            if op['input'] == 'list' or op.get('iterable_len') is not None:
                op['n_splits'] = rng.choice([1, 2, 3, 4])
            op['max_tasks_active'] = rng.choice([1, 2, 3])
        op['dur'] = {'kind': 'hash', 'salt': rng.randint(0, 99), 'unit': rng.choice([0.001, 0.01, 0.05])}
        if op['op'] == 'imap_unordered' and rng.random() < .7:
            op['consume_pause'] = {'kind': 'hash', 'salt': rng.randint(0, 99), 'unit': rng.choice([0.01, 0.1, 0.3])}
        if rng.random() < .2:
            op['worker_lifespan'] = rng.choice([1, 2, 3])
        if rng.random() < .25:
            op['progress_bar'] = True          # showing a bar must not make the call read ahead (also when the length is unknown)
        sc = {'seed': rng.randint(0, 10 ** 6), 'pool': pool, 'ops': [op]}
        if rng.random() < .2 and op.get('max_tasks_active') is not None and 'chunk_size' in op:
            # a kept-alive pool: an earlier call with the SAME function and a generous bound, then this call with its own (small) bound
            import copy
            pool['keep_alive'] = True
            first = copy.deepcopy(op)
            first['max_tasks_active'] = rng.choice([20, 50])
            first.pop('consume_pause', None)
            sc['ops'] = [first, op]
            sc['same_func'] = True
        scs.append(sc)
    return scs


def run(chk):
    drv = Driver()
    rng = chk.rng
    from harness.checks.C14 import derive_suite
    derive_suite(chk, drv, 400 if chk.tier == 'quick' else 4000, 'C15')      # incl. the default bound 2 * n_jobs * ceil(chunk size)
    scs = look_scenarios(rng, 400 if chk.tier == 'quick' else 6000)
    # a lazy call that is closed after a result or two (or whose input raises half-way), then another call on the same pool: the look-ahead
    # of the second call is its own — it neither stalls nor runs ahead because of what the first one left
    ab = []
    for _ in range(40 if chk.tier == 'quick' else 600):
        nj = rng.choice([1, 2, 3])
        first = {'op': rng.choice(['imap_unordered', 'imap']), 'n': rng.randint(4 * nj, 8 * nj), 'chunk_size': rng.choice([1, 2]), 'consume': rng.randint(1, 2), 'abandon': 'close',
                 'dur': {'kind': 'hash', 'salt': rng.randint(0, 99), 'unit': 0.01}}
        second = {'op': rng.choice(['imap_unordered', 'map_unordered', 'map', 'imap']), 'n': rng.randint(3 * nj, 8 * nj), 'chunk_size': rng.choice([1, 2]),
                  'max_tasks_active': rng.choice([None, 1, 2, nj + 1])}
        ab.append({'seed': rng.randint(0, 10 ** 6), 'pool': {'n_jobs': nj, 'start_method': rng.choice(['fork', 'threading']), **({'keep_alive': True} if rng.random() < .5 else {})},
                   'ops': [first, second], 'relax_shape': True})
    run_scenarios(chk, 'a call after a lazy call that was closed early (DetSim)', ab, {'C15', 'C03', 'C01'}, nontrivial=lambda sc, o: True,
                  dist=lambda sc, o: {'second': sc['ops'][1]['op'], 'keep_alive': bool(sc['pool'].get('keep_alive'))})
    obs = run_scenarios(chk, 'imap_unordered with counting input and pausing consumer under DetSim', scs, {'C15', 'C03'},
                        nontrivial=lambda sc, o: sc['ops'][0]['n'] >= 4,
                        dist=lambda sc, o: {'bound_vs_chunk': 'default' if sc['ops'][-1].get('max_tasks_active') is None else
                                            ('derived chunk size' if sc['ops'][-1].get('chunk_size') is None else
                                             'below' if sc['ops'][-1]['max_tasks_active'] < math.ceil(sc['ops'][-1]['chunk_size']) else 'at-or-above'),
                                            'consumer': 'pausing' if sc['ops'][0].get('consume_pause') else 'greedy', 'input': sc['ops'][0]['input']})
    lines, refs = [], []
    for sc, o in zip(scs, obs):
        if o.get('harness_error') or o.get('stuck') or not o.get('ops') or 'disp' not in o['ops'][0]:
            continue
        op = sc['ops'][0]
        nj = sc['pool']['n_jobs']
        chunks, _ = oracles.ref_chunks(op, nj)
        ma = op.get('max_tasks_active')
        if ma is None:
            ma = 2 * nj * math.ceil(op['chunk_size'])
        lines.append('disp m=%d chunks=%s ev=%s' % (ma, ','.join(str(len(c)) for c in chunks) or '-', ','.join(o['ops'][0]['disp']) or '-'))
        refs.append((sc, o))
    outs = drv.run(lines)
    for line, res, (sc, o) in zip(lines, outs, refs):
        chk.count('dispatcher traces vs Mpire.Dispatch.step', key=line, nontrivial=line.count('s') >= 2, sample={'line': line[:300], 'model': res})
        if not res.startswith('ok '):
            chk.mismatch('dispatcher trace rejected by Mpire.Dispatch.step', {'scenario': sc, 'line': line[:3000]}, 'trace of the real dispatcher', res)
            continue
        f = dict(x.split('=') for x in res.split(' ')[1:])
        io = o['ops'][0].get('io') or []
        if int(f['delivered']) != sum(1 for e in io if e[0] == 'y') and sc['ops'][0]['op'] == 'imap_unordered':
            chk.mismatch('delivered count differs', {'scenario': sc}, sum(1 for e in io if e[0] == 'y'), f['delivered'])
        if f['finished'] != '1':
            chk.mismatch('successful call but dispatcher model not finished', {'scenario': sc, 'line': line[:3000]}, 'finished', res)
    chk.assumptions += ['the chunk iterator\'s exhaustion is not visible in traces: the acceptor places it lazily',
                        'look-ahead is counted in elements drawn from the input iterable by the chunker (islice), as in the property']

    def search():
        run_scenarios(chk, 'search', look_scenarios(random.Random(chk.seed * 3 + 11), 1500), {'C15', 'C03'})
    return search
