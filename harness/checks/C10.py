"""C10 — keep_alive: same workers, but each call runs with its own parameters.
Theorems: Props/C10.lean (history model: kept instances / fresh instances / setters force a restart; every admitted call gets
ITS parameters and ordering mode).  Correspondence: keep-alive call sequences under DetSim with repeated/changed functions,
ordered<->unordered switches, changed per-call parameters and pool settings — instance tokens, init/exit log and state tokens
of the real workers vs what the theorems predict; results vs sequential evaluation."""
import random

from harness import gen, oracles
from harness.detcheck import key_of, run_scenarios


def ka_scenarios(rng, n):
    out = []
    for _ in range(n):
        pool = {'n_jobs': rng.choice([1, 2, 3]), 'start_method': rng.choice(['fork', 'fork', 'threading']), 'use_worker_state': True}
        for k in ('pass_worker_id', 'shared_objects'):
            if rng.random() < .5:
                pool[k] = True
        ka = rng.random() < .7
        if ka:
            pool['keep_alive'] = True
        ops = []
        same_hooks = rng.random() < .7
        for k in range(rng.randint(2, 5)):
            r = rng.random()
            if r < .12:
                ops.append({'op': 'set', 'what': 'keep_alive', 'value': rng.random() < .5})
                continue
            if r < .3:
                what = rng.choice(['pass_worker_id', 'shared_objects', 'use_worker_state'])
                # mostly real changes (also back to "off"/None), sometimes a no-op
                cur_val = bool(pool.get(what)) if not [o for o in ops if o.get('what') == what] else [o for o in ops if o.get('what') == what][-1]['value']
                ops.append({'op': 'set', 'what': what, 'value': (not cur_val) if rng.random() < .8 else cur_val})
                continue
            op = {'op': rng.choice(['map', 'map_unordered', 'imap', 'imap_unordered']), 'n': rng.randint(1, 12), 'chunk_size': rng.choice([1, 2, 3]),
                  'elem': rng.choice(['scalar', 'tuple', 'dict']), 'init': True, 'exit': True}
            if rng.random() < .25:
                # a call that brings no worker_init / worker_exit of its own, between calls that do
                op.pop(rng.choice(['init', 'exit']))
                if rng.random() < .4:
                    op.pop('init', None)
                    op.pop('exit', None)
            if rng.random() < .3:
                op['task_timeout'] = 5.0
            if rng.random() < .3:
                op['worker_lifespan'] = rng.choice([2, 3, 50])
            if rng.random() < .2:
                op['progress_bar'] = True
            ops.append(op)
        if not any(o['op'] in oracles.MAPS for o in ops):
            ops.append({'op': 'map', 'n': 4, 'chunk_size': 1, 'init': True, 'exit': True})
        if rng.random() < .5:
            ops.append({'op': 'stop_and_join'})
        sc = {'seed': rng.randint(0, 10 ** 6), 'pool': pool, 'ops': ops, 'same_func': rng.random() < .6, 'relax_shape': True}
        if sc['same_func'] and rng.random() < .4:
            # the calls share their task function but bring hooks that are new objects with every call (same code, same qualified name):
            # each call's own hooks are the ones that count from then on
            sc['fresh_hooks'] = True
        if rng.random() < .12:
            # each call's own timeouts: the deferred worker_exit (1 s) runs at stop_and_join under the LAST call's exit timeout (100 s),
            # not under the 0.3 s of an earlier call
            sc['pool'] = {'n_jobs': rng.choice([1, 2]), 'start_method': 'fork', 'keep_alive': True}
            sc['ops'] = [{'op': 'map', 'n': rng.randint(2, 5), 'chunk_size': 1, 'init': True, 'exit': True, 'worker_exit_timeout': 0.3},
                         {'op': 'map', 'n': rng.randint(2, 5), 'chunk_size': 1, 'init': True, 'exit': True, 'worker_exit_timeout': 100.0, 'exit_dur': 1.0},
                         {'op': 'stop_and_join'}]
            sc['same_func'] = True
            sc['expect_join_ok'] = True
        if rng.random() < .12:
            # an ordered lazy call whose slowest task is the first one: when the consumer has its first result(s) the call is over
            # internally (the kept-alive workers are idle again) while the generator still holds buffered results — the next call,
            # of the OTHER ordering mode, runs on the same workers with its own mode; the rest of the generator is taken afterwards
            # (one task per worker, so that the slow first task holds nobody else's task up: the consumer's first result arrives
            # when all are in, its second one lets the inner call finish)
            nn = rng.choice([3, 4])
            sc['pool'] = dict(pool, keep_alive=True, n_jobs=nn)
            sc['rules'] = []
            sc['ops'] = [{'op': 'imap', 'n': nn, 'chunk_size': 1, 'elem': rng.choice(['scalar', 'tuple']), 'consume': rng.randint(2, nn - 1),
                          'dur': {'kind': 'map', 'map': {'0': 0.5}, 'default': 0.01}},
                         {'op': rng.choice(['map_unordered', 'imap_unordered']), 'n': rng.randint(2, 6), 'chunk_size': rng.choice([1, 2]),
                          'elem': rng.choice(['scalar', 'tuple'])}]
            if rng.random() < .5:
                sc['ops'].append({'op': 'map', 'n': rng.randint(2, 5), 'chunk_size': 1})
            sc['same_func'] = rng.random() < .5
            sc.pop('expect_join_ok', None)
        if rng.random() < .12:
            # a worker that sits a call out: call 1 in one ordering mode; call 2 in the other mode with another function and fewer
            # chunks than workers; call 3 in the first mode again with the function of call 2 — the worker that had nothing to do in
            # call 2 gets chunks now
            nj = rng.choice([2, 3, 4])
            a_ordered = rng.random() < .5
            A = ['map', 'imap'] if a_ordered else ['map_unordered', 'imap_unordered']
            B = ['map_unordered', 'imap_unordered'] if a_ordered else ['map', 'imap']
            el = rng.choice(['scalar', 'tuple', 'dict'])
            sc['pool'] = {'n_jobs': nj, 'start_method': rng.choice(['fork', 'threading']), 'keep_alive': True}
            sc['ops'] = [{'op': rng.choice(A), 'n': rng.randint(nj, 3 * nj), 'chunk_size': 1, 'elem': el, 'func_group': 0},
                         {'op': rng.choice(B), 'n': rng.randint(1, nj - 1), 'chunk_size': 1, 'elem': el, 'func_group': 1},
                         {'op': rng.choice(A), 'n': rng.randint(2 * nj, 4 * nj), 'chunk_size': 1, 'elem': el, 'func_group': 1}]
            sc['same_func'] = False
            sc.pop('rules', None)
            sc.pop('expect_join_ok', None)
        if rng.random() < .25 and not any('func_group' in o_ for o_ in sc['ops']):
            # each call passes a functools.partial of the same underlying functions, bound to ITS data
            sc['same_func'] = False
            sc['func_kind'] = rng.choice(['partial', 'partial_kw'])       # bound to its call by a positional or by a keyword argument
        out.append(sc)
    return out


def judge(chk, sc, o):
    if o.get('harness_error') or o.get('stuck'):
        return
    case = {'scenario': sc}
    ka = bool(sc['pool'].get('keep_alive'))
    settings = {k: bool(sc['pool'].get(k)) for k in ('pass_worker_id', 'shared_objects', 'use_worker_state')}
    prev_tokens = None
    old_alive = set()
    prev_reached = False
    calls = o.get('calls', [])
    for opi, (op, oo) in enumerate(zip(sc['ops'], o.get('ops', []))):
        if op['op'] == 'set':
            if op['what'] == 'keep_alive':
                ka = op['value']
            elif settings.get(op['what']) != op['value']:
                settings[op['what']] = op['value']
                if isinstance(prev_tokens, set):
                    old_alive = set(prev_tokens)
                prev_tokens = 'restart'
            continue
        if op['op'] == 'stop_and_join':
            # deferred worker_exit runs now, once per instance that worked
            if sc.get('expect_join_ok') and oo.get('outcome') != 'ok':
                chk.violation('call_runs_with_its_own_settings', case, {'op': opi, 'raised': oo.get('exc')},
                              'the deferred worker_exit is judged by the timeouts of the latest call', input_class='stale_timeouts')
            continue
        if op['op'] in oracles.MAPS and oo.get('outcome') == 'raise' and not op.get('fail'):
            chk.violation('call_runs_with_its_own_settings', case, {'op': opi, 'raised': oo.get('exc')},
                          'a call whose functions do not raise succeeds (its workers received the extras of the current settings)', input_class='unexpected_failure')
        if op['op'] not in oracles.MAPS or oo.get('outcome') != 'ok':
            prev_tokens = None
            continue
        mine = [c for c in calls if (c[11] if c[1] == 'exit' else c[0]) == opi]
        toks = {c[3] for c in mine}
        lifespan = op.get('worker_lifespan')
        restarted = lifespan is not None and lifespan < 50
        if prev_tokens == 'restart':
            workers_now = {c[3] for c in mine if c[1] == 'task'}
            if workers_now & old_alive:
                chk.violation('setters_force_restart', case, {'op': opi, 'reused_instances': sorted(workers_now & old_alive)},
                              'changing pass_worker_id / shared_objects / use_worker_state takes effect through fresh workers', input_class='setters_force_restart')
        elif prev_tokens is not None and prev_ka and not restarted and not prev_restarted:
            fresh = toks - prev_tokens
            if fresh:
                chk.violation('instances_kept', case, {'op': opi, 'new_instances': sorted(fresh), 'previous': sorted(prev_tokens)},
                              'with keep_alive consecutive calls reuse the same worker instances', input_class='instances_kept')
            inits = [c for c in mine if c[1] == 'init' and c[3] in prev_tokens and c[3] in prev_inited]
            if inits:
                chk.violation('init_not_rerun', case, {'op': opi, 'init_calls': inits[:3]}, 'worker_init is not re-run on a kept-alive instance', input_class='init_rerun')
        elif prev_tokens is not None and prev_tokens != 'restart' and not prev_ka:
            if toks & prev_tokens:
                chk.violation('fresh_without_keep_alive', case, {'op': opi, 'reused': sorted(toks & prev_tokens)}, 'without keep_alive every call gets fresh instances',
                              input_class='fresh_without_keep_alive')
        if ka and not restarted:
            workers_of_this_call = {c[3] for c in mine if c[1] == 'task'}
            exits = [c for c in mine if c[1] == 'exit' and c[3] in workers_of_this_call]      # instances retired by a settings change may exit
            if exits:
                chk.violation('exit_deferred', case, {'op': opi, 'exit_calls': exits[:3]}, 'worker_exit is deferred until stop_and_join / pool exit under keep_alive',
                              input_class='exit_deferred')
        if not ka:
            worked = {c[3] for c in mine if c[1] == 'task'}
            exited = {c[3] for c in mine if c[1] == 'exit'}
            inited = {c[3] for c in mine if c[1] == 'init'}
            carried = prev_tokens if isinstance(prev_tokens, set) else set()
            no_exit = (worked - exited) if op.get('exit') else set()         # (a call runs the hooks it was given)
            no_init = (worked - inited - carried) if op.get('init') else set()
            if no_exit or no_init:
                chk.violation('fresh_without_keep_alive', case, {'op': opi, 'no_exit': sorted(no_exit), 'no_init': sorted(no_init)},
                              'without keep_alive every working instance runs init and exit', input_class='hooks_without_keep_alive')
        prev_tokens, prev_ka, prev_restarted = set(oo.get('instances_alive') or []) | toks, ka, restarted
        prev_inited = {c[3] for c in calls if c[1] == 'init' and c[0] <= opi}
    # hooks that are new objects with every call (same code, same name): the hooks that run are those of the call they run for -
    # worker_init in an instance started during call k is call k's, the deferred worker_exit at stop_and_join is the latest call's
    if sc.get('fresh_hooks') and all(x.get('outcome') == 'ok' for x in o.get('ops', [])) and len(o.get('ops', [])) == len(sc['ops']):
        map_ops = [i for i, op in enumerate(sc['ops']) if op['op'] in oracles.MAPS]
        stale_init = [(c[0], c[11], c[2]) for c in calls if c[1] == 'init' and c[0] is not None and c[11] in map_ops and sc['ops'][c[11]].get('init') and c[0] != c[11]]
        if stale_init:
            chk.violation('call_runs_with_its_own_settings', case, {'init_hook_of_call__ran_during_call__worker': stale_init[:4]},
                          "an instance started during a call runs that call's worker_init", input_class='stale_hook_init')
        if sc['ops'][-1]['op'] == 'stop_and_join' and map_ops:
            last, stop = map_ops[-1], len(sc['ops']) - 1
            at_stop = [c for c in calls if c[1] == 'exit' and c[11] == stop and c[0] is not None]
            wrong = [(c[0], c[2]) for c in at_stop if c[0] != last or not sc['ops'][last].get('exit')]
            if wrong:
                chk.violation('call_runs_with_its_own_settings', case, {'exit_hook_of_call__worker': wrong[:4], 'latest_call': last},
                              "the worker_exit that runs when the kept-alive workers are stopped is the latest call's", input_class='stale_hook_exit')
    # the deferred worker_exit is not lost: once stop_and_join() has returned, every instance that ran a task has run its exit
    # function exactly once (at retirement or now)
    if sc['ops'] and sc['ops'][-1]['op'] == 'stop_and_join' and len(o.get('ops', [])) == len(sc['ops']) and o['ops'][-1].get('outcome') == 'ok' \
            and all(op.get('exit') for op in sc['ops'] if op['op'] in oracles.MAPS) and all(x.get('outcome') == 'ok' for x in o['ops']):
        import collections
        worked = {c[3] for c in calls if c[1] == 'task'}
        exits = collections.Counter(c[3] for c in calls if c[1] == 'exit')
        bad = {str(t): exits.get(t, 0) for t in worked if exits.get(t, 0) != 1}
        if bad:
            chk.violation('deferred_exit_runs_at_join', case, {'exit_calls_per_instance_that_worked': bad},
                          'worker_exit is deferred until stop_and_join / pool exit, where it runs once for every instance that worked', input_class='deferred_exit')


def pflow_tie(chk, scs, obs):
    """how the parameters of every call reached the workers (parameter pills into every queue exactly when the call's parameters
    differ from the recorded ones, what each worker took in which order, restarts, stops) must be a run of Mpire.ParamFlow.step"""
    from harness.common import Driver
    suite = 'parameter pills, chunks and restarts of keep-alive call sequences vs Mpire.ParamFlow.step'
    lines, refs = [], []
    for sc, o in zip(scs, obs):
        if o.get('harness_error') or o.get('stuck') or any(x.get('outcome') != 'ok' for x in o.get('ops', [])) or \
                any(op.get('consume') for op in sc['ops']):
            continue
        if 'pflow' not in o:
            if o.get('pflow_error'):
                chk.mismatch(suite + ': the trace could not be read', {'scenario': sc}, o['pflow_error'], 'a readable trace')
            continue
        lines.append('pflow ev=' + (','.join(o['pflow']) or '-'))
        refs.append(sc)
    for line, res, sc in zip(lines, Driver().run(lines), refs):
        chk.count(suite, key=line, nontrivial=line.count('C:') >= 2, sample={'line': line[:300], 'model': res[:120]}, calls=min(line.count('C:'), 6),
                  params_pills='T:' in line and ':P' in line, restarts=',R:' in line, stops=min(line.count(',X'), 3))
        if not res.startswith('ok'):
            chk.mismatch(suite, {'scenario': sc, 'line': line[:1500]}, 'events of the implementation', res)


def run(chk):
    rng = chk.rng
    scs = ka_scenarios(rng, 300 if chk.tier == 'quick' else 5000)
    for _sc in scs:
        _sc['want_pflow'] = True
    for _sc in scs:
        if rng.random() < .25 and 'rules' not in _sc:
            _sc['rules'] = gen.schedule_rules(rng, _sc['pool']['n_jobs'])      # adversarial schedules
    obs = run_scenarios(chk, 'keep-alive call sequences under DetSim', scs, {'C10', 'C01', 'C02', 'C03'},
                        nontrivial=lambda sc, o: sum(1 for op in sc['ops'] if op['op'] in oracles.MAPS) >= 2,
                        dist=lambda sc, o: {'keep_alive': bool(sc['pool'].get('keep_alive')), 'same_func': sc['same_func'], 'start': sc['pool']['start_method'],
                                            'switches_order_mode': len({op['op'] in ('map', 'imap') for op in sc['ops'] if op['op'] in oracles.MAPS}) > 1,
                                            'setters': sum(1 for op in sc['ops'] if op['op'] == 'set')})
    for sc, o in zip(scs, obs):
        judge(chk, sc, o)
    pflow_tie(chk, scs, obs)
    chk.assumptions += ['instance identity is the simulated thread/process object of the worker; worker_state identity is checked through a token stored in it']

    def search():
        extra = ka_scenarios(random.Random(chk.seed * 59 + 1), 1000)
        ob = run_scenarios(chk, 'search', extra, {'C10', 'C01', 'C02', 'C03'})
        for sc, o in zip(extra, ob):
            judge(chk, sc, o)
    return search
