"""C09 — apply/apply_async: correct value, single callback, failures isolated.
Theorems: Props/C09.lean (first outcome wins, exactly one callback, isolation — every sequence of set attempts).
Correspondence: op sequences on REAL AsyncResult objects vs Mpire.Async; apply histories under DetSim (succeed / raise /
time out, get/wait/stop_and_join in any order, completion racing with the timeout scan)."""
import random

from harness import gen
from harness.common import Driver
from harness.detcheck import run_scenarios
from harness.pure import small


def apply_scenarios(rng, n):
    scs = []
    for _ in range(n):
        pool = gen.gen_pool(rng)
        pool.pop('keep_alive', None)
        pool.pop('order_tasks', None)
        ops = [gen.gen_apply_op(rng, pool['n_jobs']) for _ in range(rng.choice([1, 1, 2]))]
        if any(o.get('task_timeout') for o in ops) and pool['start_method'] == 'threading':
            if rng.random() < .5:
                pool['start_method'] = 'fork'
            else:
                # a thread cannot be interrupted: the task is reported as timed out and its late result must be ignored — also when
                # the late result is a FAILURE (a task that was going to raise is slow as well)
                for o in ops:
                    for k in list(o['dur']['map']):
                        o['dur']['map'][k] = rng.choice([0.3, 0.5])
                    for i in (o.get('fail') or {}).get('at', []):
                        if o.get('task_timeout') and rng.random() < .6:
                            o['dur']['map'][str(i)] = rng.choice([0.3, 0.5])
                    o['cb_dur'] = rng.choice([0.5, 1.0])
        for op in ops[1:]:
            op.pop('join_first', None)
        if len(ops) > 1 and ops[0].get('task_timeout') and rng.random() < .6:
            # the batch that started the workers had a timeout; a later batch has none and contains a task that takes longer than that
            ops[1].pop('task_timeout', None)
            ops[1]['dur'] = {'kind': 'map', 'map': {str(rng.randrange(len(ops[1]['tasks']))): rng.choice([0.5, 1.0])}, 'default': 0.01}
        if ops[0].get('join_first') and len(ops) > 1:
            ops[0].pop('join_first')
        if pool['start_method'] == 'fork' and any(o.get('task_timeout') for o in ops) and rng.random() < .35:
            # a task that would have finished on its own shortly after its timeout, an error callback that blocks longer than that,
            # and more tasks queued behind it on the same worker
            for o in ops:
                if o.get('task_timeout'):
                    for k in list(o['dur']['map']):
                        o['dur']['map'][k] = rng.choice([0.25, 0.3, 0.4])
                    o['cb_dur'] = rng.choice([0.5, 1.0])
        if rng.random() < .25 and not any(o.get('join_first') for o in ops):
            # the pool has been used and wound down before (a map call that ended its workers, a join, a terminate): the apply
            # submissions start everything again, time limits included
            r0 = rng.random()
            if r0 < .4:
                ops.insert(0, {'op': rng.choice(['map', 'map_unordered']), 'n': rng.randint(2, 6), 'chunk_size': 1})
            elif len(ops) > 1:
                ops.insert(1, {'op': rng.choice(['stop_and_join', 'terminate'])})
            else:
                ops.insert(0, {'op': 'apply_batch', 'tasks': [{'idx': 0}], 'dur': {'kind': 'map', 'map': {}, 'default': 0.01}, 'get_timeout': 30})
                ops.insert(1, {'op': rng.choice(['stop_and_join', 'terminate'])})
        sc = {'seed': rng.randint(0, 10 ** 6), 'pool': pool, 'ops': ops}
        if ops[0].get('join_first') and rng.random() < .5:
            # the workers are kept when the pool is joined, and the pool is ended right afterwards (as by leaving the with-block): no
            # result may be lost on the way — also when the results handler is slow to pick them up
            ops[0]['join_first'] = rng.choice(['keep_alive', 'keep_alive_then_terminate', 'keep_alive_then_terminate'])
            if rng.random() < .7:
                sc['rules'] = [{'role': 'results_handler', 'op': 'q.get', 'obj': 'rq', 'sleep': rng.choice([0.1, 0.5]), 'p': rng.choice([0.5, 1.0])}]
        if rng.random() < .4 and any(o.get('task_timeout') for o in ops):
            # let completions race with the timeout scan
            for o in ops:
                if o.get('task_timeout'):
                    for t in o['tasks']:
                        if str(t['idx']) not in o['dur']['map'] and rng.random() < .4:
                            o['dur']['map'][str(t['idx'])] = rng.choice([0.19, 0.199, 0.1])
        scs.append(sc)
    return scs


def aproto_tie(chk, drv, scs, obs, suite='apply protocol events of real pools vs Mpire.ApplyProto.step'):
    """the queue / result / settle events of whole apply histories are run through the model's `step`: every event must be
    accepted, the jobs must be settled as the model says, and after stop_and_join nothing may be in flight"""
    lines, refs = [], []
    for sc, o in zip(scs, obs):
        if o.get('harness_error') or o.get('stuck') or 'aproto' not in o:
            continue
        if any((op.get('fail') or {}).get('init') or (op.get('fail') or {}).get('exit') for op in sc['ops']):
            continue        # a failing hook flags the whole pool: outside this model (History.lean covers it)
        evs, submits = o['aproto']
        if any(e.startswith('x:') for e in evs):
            continue
        lines.append('aproto n=%d ev=%s' % (sc['pool']['n_jobs'], ','.join(evs) or '-'))
        refs.append((sc, o, submits))
    for line, res, (sc, o, submits) in zip(lines, drv.run(lines), refs):
        kinds = ''.join(sorted({e[0] for e in line.split('ev=')[1].split(',') if e}))
        chk.count(suite, key=line, nontrivial=line.count('s:') >= 2, sample={'line': line[:300], 'model': res[:200]}, events=kinds,
                  jobs=min(line.count('s:'), 10))
        if not res.startswith('ok '):
            chk.mismatch(suite + ': an event of the implementation is not a step of the model', {'scenario': sc, 'line': line}, 'events', res)
            continue
        f = dict(x.split('=', 1) for x in res.split(' ')[1:])
        model = dict((int(a), b) for a, b in (p.split(':') for p in f['settled'].split(',') if p))
        # implementation: outcome of every task, by submission order
        impl = {}
        k = 0
        for op, oo in zip(sc['ops'], o['ops']):
            if op['op'] != 'apply_batch':
                continue
            by_idx = {a[0]: a for a in oo.get('apply', [])}
            for t in op['tasks']:
                if k < len(submits) and t['idx'] in by_idx:
                    a = by_idx[t['idx']]
                    impl[submits[k]] = 'ok' if a[1] == 'ok' else 'timeout' if a[2] == 'TimeoutError' and a[3] else 'died' if a[2] == 'RuntimeError' else \
                        'unsettled' if a[2] == 'TimeoutError' else 'raised'
                k += 1
        diff = {j: (impl[j], model.get(j)) for j in impl if impl[j] != model.get(j, 'unsettled')}
        if diff:
            chk.mismatch(suite + ': outcomes differ', {'scenario': sc, 'line': line}, {str(j): v[0] for j, v in diff.items()}, {str(j): v[1] for j, v in diff.items()})
        joined = [i for i, (op, oo) in enumerate(zip(sc['ops'], o['ops'])) if op['op'] == 'stop_and_join' and oo.get('outcome') == 'ok']
        if joined and joined[-1] == len(sc['ops']) - 1 and f.get('quiescent') != '1':
            chk.mismatch(suite + ': something is still in flight after stop_and_join', {'scenario': sc, 'line': line}, 'joined', res)


def run(chk):
    drv = Driver()
    rng = chk.rng
    lines, impl = [], []
    for _ in range(600 if chk.tier == 'quick' else 6000):
        cb, ecb = rng.random() < .7, rng.random() < .7
        sets = [(rng.choice('oe'), rng.randint(0, 9)) for _ in range(rng.choice([0, 1, 1, 2, 3, 5]))]
        lines.append('async cb=%d ecb=%d sets=%s' % (cb, ecb, ','.join('%s:%d' % s for s in sets) or '-'))
        impl.append(small.async_run(cb, ecb, sets))
    out = drv.run(lines)
    for line, i, m in zip(lines, impl, out):
        chk.count('AsyncResult._set/get/callbacks vs Mpire.Async', key=line, nontrivial=line.count(':') >= 2, sample={'line': line, 'impl': i},
                  sets=min(line.count(':'), 4), callbacks=line.split(' ')[1] + line.split(' ')[2])
        if i != m:
            chk.mismatch('AsyncResult vs Mpire.Async', {'line': line}, i, m)
            if 'ESCAPED' in i or i.count('cb:') > 1:
                chk.violation('exactly_one_callback', {'line': line}, i, 'one outcome, one callback, no exception from _set', input_class='async_set')
    # the failure of an apply task travels like any other result: whatever the worker decides to ship for an exception has to get through
    # the results queue of that pool (plain pickle for worker threads whatever use_dill says), or the result never becomes ready
    for shape in small.EXC_SHAPES:
        for use_dill in (False, True):
            for sm in ('fork', 'threading'):
                bits, kind, shipped_ok, faithful, cause = small.exc_run(shape, use_dill, sm)
                chk.count('what is shipped for a failing task gets through the results queue (real pickle / dill)', key=(shape, use_dill, sm), nontrivial=True,
                          sample={'exception_shape': shape, 'use_dill': use_dill, 'start_method': sm, 'shipped': kind})
                if not shipped_ok:
                    chk.violation('failed_result_becomes_ready', {'exception_shape': shape, 'use_dill': use_dill, 'start_method': sm},
                                  {'shipped_not_serialisable_by_queue_pickler': True}, 'the failure reaches the caller (as itself or as CannotPickleExceptionError)', input_class=shape)
    scs = apply_scenarios(rng, 300 if chk.tier == 'quick' else 5000)
    for sc in scs:
        # (the protocol tie is for pools used through apply only: histories that begin with a map call or contain a terminate are judged
        # by the oracles)
        sc['want_aproto'] = all(x['op'] in ('apply_batch', 'stop_and_join') for x in sc['ops']) and \
            not any(x['op'] == 'stop_and_join' for x in sc['ops'][:-1])
        if rng.random() < .4:
            sc['ops'].append({'op': 'stop_and_join'})
    obs = run_scenarios(chk, 'apply histories under DetSim', scs, {'C09', 'C03'},
                  nontrivial=lambda sc, o: any(len(x.get('tasks', ())) >= 2 for x in sc['ops']),
                  dist=lambda sc, o: {'failures': any((x.get('fail') or {}).get('at') for x in sc['ops']), 'timeouts': any(x.get('task_timeout') for x in sc['ops']),
                                      'join_first': any(x.get('join_first') for x in sc['ops']), 'start': sc['pool']['start_method'],
                                      'wound_down_before': any(x['op'] in ('terminate', 'map', 'map_unordered') for x in sc['ops']) or
                                      any(x['op'] == 'stop_and_join' for x in sc['ops'][:-1])})
    aproto_tie(chk, drv, scs, obs)
    # apply submissions while a lazy map-family call of the same pool is open (ordered or unordered, some of its tasks still queued):
    # each apply task is called as func(*args) and settles with what it returned or raised
    ov = []
    for _ in range(60 if chk.tier == 'quick' else 900):
        pool = {'n_jobs': rng.choice([1, 2, 3]), 'start_method': rng.choice(['fork', 'threading'])}
        for k in ('pass_worker_id', 'use_worker_state', 'shared_objects'):
            if rng.random() < .3:
                pool[k] = True
        nn = rng.randint(4, 10)
        lazy = {'op': rng.choice(['imap', 'imap', 'imap_unordered']), 'n': nn, 'chunk_size': rng.choice([1, 2]), 'elem': rng.choice(['scalar', 'tuple']),
                'consume': rng.randint(1, 3), 'dur': {'kind': 'hash', 'salt': rng.randint(0, 99), 'unit': 0.02}}
        ap = gen.gen_apply_op(rng, pool['n_jobs'])
        ap.pop('task_timeout', None)
        ap.pop('join_first', None)
        ap.pop('init', None)
        ap['dur'] = {'kind': 'map', 'map': {}, 'default': rng.choice([0.0, 0.01])}
        ov.append({'seed': rng.randint(0, 10 ** 6), 'pool': pool, 'ops': [lazy, ap], 'relax_shape': True})
    run_scenarios(chk, 'apply submissions while a lazy map-family call is open', ov, {'C09', 'C03'}, nontrivial=lambda sc, o: True,
                  dist=lambda sc, o: {'lazy': sc['ops'][0]['op'], 'start': sc['pool']['start_method'], 'failures': bool((sc['ops'][1].get('fail') or {}).get('at'))})

    # an apply task with a timeout is in flight when a map-family call without timeouts starts on the same pool, and overruns while
    # that call runs: only that task fails — the map call and the other apply tasks are not affected
    from harness.checks.C08 import mixed_scenarios, mixed_judge
    ms = mixed_scenarios(rng, 60 if chk.tier == 'quick' else 900)
    mobs = run_scenarios(chk, 'an apply task times out while a map-family call runs on the same pool', ms, {'C09', 'C03'}, nontrivial=lambda sc, o: True,
                         dist=lambda sc, o: {'map_kind': sc['ops'][1]['op'], 'n_jobs': sc['pool']['n_jobs']})
    for sc, o in zip(ms, mobs):
        mixed_judge(chk, sc, o)

    def search():
        run_scenarios(chk, 'search', apply_scenarios(random.Random(chk.seed * 23 + 7), 1000), {'C09', 'C03'})
    return search
