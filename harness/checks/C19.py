"""C19 — the progress bar counts every work item once and ends at the total.
Theorems: Props/C19.lean.  Correspondence: the real worker-side batching (task_completed_progress_bar, controlled clock) vs
Mpire.Progress on event sequences; whole calls under DetSim with the real ProgressBarHandler and real tqdm writing to a buffer
(sequence of displayed n/total), incl. unknown length, numpy input, restarts, call sequences."""
import random

from harness import gen
from harness.common import Driver
from harness.detcheck import run_scenarios
from harness.pure import small


def bar_scenarios(rng, n):
    scs = []
    for _ in range(n):
        sc = gen.gen_success_scenario(rng, n_ops=rng.choice([1, 1, 2, 3]))
        for op in sc['ops']:
            op['progress_bar'] = True
            if rng.random() < .3 and op.get('input') == 'gen':
                op.pop('iterable_len', None)
                op.setdefault('chunk_size', rng.choice([1, 2, 3]))
                op.pop('n_splits', None)
                if rng.random() < .6:
                    # a slow producer: the length becomes known long after the last element was handed out (and possibly after
                    # every task is done and displayed)
                    op['gen_tail'] = rng.choice([0.15, 0.3, 0.6])
                    op['gen_pause'] = rng.choice([0.0, 0.02, 0.15])
                    op['dur'] = {'kind': 'hash', 'salt': rng.randint(0, 99), 'unit': rng.choice([0.0, 0.01, 0.05])}
        if rng.random() < .15:
            # apply tasks are in flight on the kept-alive workers while the next call shows its bar: they are not its work items
            sc['pool']['keep_alive'] = True
            sc['pool'].pop('order_tasks', None)
            k = rng.randint(1, 3)
            first = {'op': 'map', 'n': rng.randint(2, 6), 'chunk_size': 1, 'progress_bar': True, 'elem': 'scalar'}
            nxt = {'op': rng.choice(['map', 'imap']), 'n': rng.randint(3, 8), 'chunk_size': 1, 'progress_bar': True, 'elem': 'scalar',
                   'dur': {'kind': 'hash', 'salt': rng.randint(0, 99), 'unit': 0.02}}
            sc['ops'] = [first, {'op': 'apply_batch', 'defer_wait': True, 'tasks': [{'idx': i} for i in range(k)], 'get_timeout': 30,
                                 'dur': {'kind': 'map', 'map': {}, 'default': rng.choice([0.05, 0.2])}}, nxt, {'op': 'apply_collect', 'of': 1}]
            sc['same_func'] = False
            sc['all_valid'] = True
        elif rng.random() < .1:
            # an apply task was interrupted by its time limit earlier on the same workers: a later call shows its bar as usual
            nj = rng.choice([1, 2, 3])
            k = rng.randint(1, 3)
            sc['pool'] = {'n_jobs': nj, 'start_method': 'fork', 'keep_alive': rng.random() < .5}
            sc['ops'] = [{'op': 'apply_batch', 'tasks': [{'idx': i} for i in range(k)], 'task_timeout': 0.2, 'get_timeout': 30,
                          'dur': {'kind': 'map', 'map': {str(rng.randrange(k)): 30.0}, 'default': 0.01}},
                         {'op': rng.choice(['map', 'imap', 'imap_unordered']), 'n': rng.randint(3, 12), 'chunk_size': rng.choice([1, 2]), 'progress_bar': True, 'elem': 'scalar',
                          'dur': {'kind': 'hash', 'salt': rng.randint(0, 99), 'unit': 0.01}}]
            sc['same_func'] = False
            sc['all_valid'] = False
        elif rng.random() < .12:
            # worker THREADS that are replaced at the very end of a call without a bar (lifespan reached with their last task) and are
            # slow to get going: they come to life while the next call is already showing its bar
            nj = rng.choice([2, 3])
            sc['pool'] = {'n_jobs': nj, 'start_method': 'threading', 'keep_alive': True}
            # (apply tasks are what makes the lifespan run out between two calls: nothing waits for the replacement then)
            sc['ops'] = [{'op': 'map', 'n': nj, 'chunk_size': 1, 'worker_lifespan': 2, 'elem': 'scalar'},
                         {'op': 'apply_batch', 'tasks': [{'idx': i} for i in range(nj)], 'dur': {'kind': 'map', 'map': {}, 'default': 0.01}, 'get_timeout': 30},
                         {'op': 'sleep', 'd': rng.choice([0.02, 0.04, 0.06, 0.08])},
                         {'op': rng.choice(['map', 'imap_unordered']), 'n': rng.randint(2, 6), 'chunk_size': 1, 'worker_lifespan': 2, 'progress_bar': True,
                          'elem': 'scalar', 'dur': {'kind': 'hash', 'salt': rng.randint(0, 99), 'unit': 0.01}}]
            sc['rules'] = [{'role': 'Worker-%d' % k, 'op': 'array.set', 'obj': 'results_received', 'sleep': rng.choice([0.05, 0.1, 0.15]), 'p': 1.0} for k in range(nj)]
            # (the reset of its own "results received" counter is one of the first things a new worker does)
            # … and the caller is slow between setting up the bar's manager and starting the thread that serves the bar
            sc['rules'].append({'role': 'main', 'op': 'start', 'obj': None, 'sleep': 0.1, 'p': 1.0})
            sc['same_func'] = True
            sc['all_valid'] = True
        scs.append(sc)
    return scs


def run(chk):
    drv = Driver()
    rng = chk.rng
    lines, impl = [], []
    for _ in range(500 if chk.tier == 'quick' else 5000):
        n = rng.randint(1, 4)
        iv = rng.choice([0, 1, 2])
        evs = []
        for _k in range(rng.randint(0, 30)):
            r = rng.random()
            evs.append('T%d' % rng.randrange(n) if r < .55 else 't' if r < .8 else 'F%d' % rng.randrange(n))
        if _ % 40 == 0:
            # a worker id completes more tasks than 16 bits hold within one call
            evs.insert(rng.randint(0, len(evs)), 'B%dx%d' % (rng.randrange(n), rng.choice([65535, 65536, 70000])))
            evs.append('F%d' % int(evs[[e[0] for e in evs].index('B')][1:].split('x')[0]))
        lines.append('progress n=%d total=- interval=%d ev=%s' % (n, iv, ','.join(evs) or '-'))
        impl.append(small.progress_run(n, iv, evs))
    out = drv.run(lines)
    for line, i, m in zip(lines, impl, out):
        mm = ' '.join(x for x in m.split(' ') if x.split('=')[0] in ('arr', 'pending', 'done'))
        chk.count('task_completed_progress_bar (controlled clock) vs Mpire.Progress.pstep', key=line, nontrivial=line.count('T') >= 2, sample={'line': line, 'impl': i},
                  interval=line.split(' ')[3], forced='yes' if 'F' in line else 'no')
        if i != mm:
            chk.mismatch('progress batching vs Mpire.Progress', {'line': line}, i, mm)
            arr = [int(x) for x in i.split(' ')[0][4:].split(',')]
            pend = [int(x) for x in i.split(' ')[1][8:].split(',')]
            done = int(i.split('done=')[1])
            if sum(arr) + sum(pend) != done:
                chk.violation('count_conserved', {'line': line}, i, 'array sum + pending == completed items', input_class='batching')
    # the handler's loop and the caller's side of the completion handshake: the library's own _progress_bar_handler, real
    # WorkerComms flags and the real tqdm class against a script, vs Mpire.BarHandshake
    from harness.pure import barshake
    cases = [barshake.gen(rng) for _ in range(400 if chk.tier == 'quick' else 6000)]
    hl = ['hshake total=%s ops=%s' % ('-' if t is None else t, ','.join(ops)) for t, ops in cases]
    hm = drv.run(hl)
    for (tot, ops), line, m in zip(cases, hl, hm):
        try:
            i = barshake.run(tot, ops)
        except Exception as e:      # noqa
            i = 'error %s: %s' % (type(e).__name__, e)
        late = tot is None and any(o[0] == 'S' for o in ops)
        chk.count('_progress_bar_handler (scripted) vs Mpire.BarHandshake', key=line, nontrivial=ops.count('p') >= 3 and any(o[0] == 'A' for o in ops),
                  sample={'line': line, 'impl': i}, total='late' if late else 'known' if tot is not None else 'never', end=ops[-2], passes=min(ops.count('p'), 6))
        if i == m:
            continue
        chk.mismatch('progress bar handshake vs Mpire.BarHandshake', {'line': line}, i, m)
        if not i.startswith('ok '):
            continue        # (the tie cannot drive the handler any more: a broken correspondence, not a failing input)
        # the property itself, on what the real handler did
        states = [tuple(x.split('/')) for x in i[3:].split(' go=')[0].split(';')]
        go = i.endswith('go=1')
        arr, total_now, pending_total, k, prev_n, flagged = 0, tot, None, 0, 0, False
        for o in ops:
            if o[0] == 'A':
                arr += int(o[1:])
            elif o[0] == 'S':
                pending_total = int(o[1:])
            elif o in 'XEK':
                flagged = True
            elif o == 'p':
                n, bt, comp, _ex = states[k]
                k += 1
                n = int(n)
                ready = (not flagged) and ((pending_total if pending_total is not None else total_now) == arr)
                if pending_total is not None and not flagged:
                    total_now, pending_total = pending_total, None
                if n < prev_n or n > arr:
                    chk.violation('displayed_monotone', {'line': line, 'total': tot, 'ops': ops}, i, 'displayed count never decreases nor exceeds the items reported',
                                  input_class='handshake_count')
                    break
                if comp == '1' and bt != str(n) and not any(s[2] == '1' for s in states[:k - 1]):
                    chk.violation('complete_only_at_total', {'line': line, 'total': tot, 'ops': ops}, i, 'completion is signalled only with count == total',
                                  input_class='handshake_complete')
                    break
                if ready and comp != '1':
                    chk.violation('completes_in_one_pass', {'line': line, 'total': tot, 'ops': ops}, i,
                                  'all items reported and the total known: the next pass of the handler signals completion (else the caller waits for ever)',
                                  input_class='handshake_stuck')
                    break
                prev_n = n
        else:
            if go and 'E' not in ops and not (states[-1][2] == '1'):
                chk.violation('caller_goes_on_only_at_total', {'line': line, 'total': tot, 'ops': ops}, i, 'the caller goes on only when the bar is complete', input_class='handshake_go')
    scs = bar_scenarios(rng, 250 if chk.tier == 'quick' else 4000)
    run_scenarios(chk, 'whole calls with the real ProgressBarHandler and tqdm under DetSim', scs, {'C19', 'C01', 'C03'},
                  nontrivial=lambda sc, o: any(len(x.get('bar') or []) >= 2 for x in o.get('ops', [])),
                  dist=lambda sc, o: {'input': sc['ops'][0].get('input'), 'known_length': sc['ops'][0].get('input') != 'gen' or sc['ops'][0].get('iterable_len') is not None,
                                      'lifespan': sc['ops'][0].get('worker_lifespan') is not None, 'ops': len(sc['ops']), 'keep_alive': bool(sc['pool'].get('keep_alive'))})
    # "showing the bar leaves results and exit results unchanged": the same history of calls on a kept-alive pool, once without any
    # bar and once with the bar shown in some of the calls (order_tasks and single-task chunks make the distribution of the tasks
    # over the workers independent of the schedule): same results, same worker restarts, same exit results
    import copy
    from harness import par
    pairs = []
    for _ in range(40 if chk.tier == 'quick' else 600):
        nj = rng.choice([1, 2, 3])
        L = rng.choice([None, 3, 4, 5, 7])
        ops = []
        for _k in range(rng.randint(2, 4)):
            op = {'op': rng.choice(['map', 'imap', 'map_unordered']), 'n': rng.randint(1, 6), 'chunk_size': 1, 'elem': 'scalar', 'init': True, 'exit': True,
                  'dur': {'kind': 'hash', 'salt': rng.randint(0, 99), 'unit': 0.005}}
            if L:
                op['worker_lifespan'] = L
            ops.append(op)
        ops.append({'op': 'stop_and_join'})
        a = {'seed': rng.randint(0, 10 ** 6), 'pool': {'n_jobs': nj, 'start_method': rng.choice(['fork', 'threading']), 'keep_alive': True, 'order_tasks': True},
             'ops': ops, 'same_func': True, 'relax_shape': True}
        b = copy.deepcopy(a)
        for op in b['ops'][:-1]:
            if rng.random() < .5:
                op['progress_bar'] = True
        if not any(op.get('progress_bar') for op in b['ops']):
            b['ops'][rng.randrange(len(b['ops']) - 1)]['progress_bar'] = True
        pairs.append((a, b))
    flat = [x for p_ in pairs for x in p_]
    fobs = par.run_all(flat)

    def digest(o):
        calls = o.get('calls', [])
        per_inst = {}
        for c in calls:
            if c[1] == 'task':
                per_inst.setdefault((c[2], c[3]), 0)
                per_inst[(c[2], c[3])] += 1
        by_worker = {}
        for (role, tok), k in sorted(per_inst.items(), key=lambda kv: kv[0][1]):
            by_worker.setdefault(role, []).append(k)
        exits = sorted(sum(1 for c in calls if c[1] == 'exit' and c[2] == role) for role in by_worker)
        return {'results': [sorted(x['result'], key=str) if isinstance(x.get('result'), list) and x.get('op') in ('map_unordered', 'imap_unordered') else x.get('result')
                            for x in o.get('ops', [])], 'outcomes': [x.get('outcome') for x in o.get('ops', [])],
                'tasks_per_instance_by_worker': by_worker, 'exit_calls_per_worker': exits,
                'exit_results': [sorted(map(str, x.get('exit_results') or [])) if x.get('exit_results') else None for x in o.get('ops', [])]}
    for (a, b), oa, ob in zip(pairs, fobs[0::2], fobs[1::2]):
        if oa.get('harness_error') or ob.get('harness_error') or oa.get('stuck'):
            continue
        chk.count('the same keep-alive history with and without the bar', key=str(b), nontrivial=True, sample={'scenario': b},
                  lifespan=a['ops'][0].get('worker_lifespan'), calls=len(a['ops']) - 1)
        if ob.get('stuck'):
            chk.violation('bar_leaves_the_call_unchanged', {'scenario': b}, {'with_bar': 'never returns', 'stuck': ob['stuck']}, 'showing the bar changes nothing but the display',
                          input_class='bar_changes_outcome')
            continue
        da, db = digest(oa), digest(ob)
        da.pop('exit_results'); db.pop('exit_results')      # (exit results carry instance tokens: compared through the counts above)
        if da != db:
            diff = {k: {'without_bar': da[k], 'with_bar': db[k]} for k in da if da[k] != db[k]}
            chk.violation('bar_leaves_the_call_unchanged', {'scenario': b, 'same_without_bar': a}, diff, 'showing the bar leaves results, worker restarts and exit results unchanged',
                          input_class='bar_changes_outcome')
    chk.assumptions += ['tqdm rendering/refresh policy is not modelled: only the sequence of printed n/total is read',
                        'only the "std" style is exercised (notebook/rich need widgets not available offline)']

    def search():
        run_scenarios(chk, 'search', bar_scenarios(random.Random(chk.seed * 37 + 1), 800), {'C19', 'C01', 'C03'})
    return search
