"""C19 — the progress bar counts every work item once and ends at the total.
Theorems: Props/C19.lean.  Correspondence: the real worker-side batching (task_completed_progress_bar, controlled clock) vs
Mpire.Progress on event sequences; whole calls under DetSim with the real ProgressBarHandler and real tqdm writing to a buffer
(sequence of displayed n/total), incl. unknown length, numpy input, restarts, call sequences."""
import random

from harness import gen
from harness.common import Driver
from harness.detcheck import run_scenarios
from harness.pure import small


def bar_scenarios(rng, n):
    scs = []
    for _ in range(n):
        sc = gen.gen_success_scenario(rng, n_ops=rng.choice([1, 1, 2, 3]))
        for op in sc['ops']:
            op['progress_bar'] = True
            if rng.random() < .3 and op.get('input') == 'gen':
                op.pop('iterable_len', None)
                op.setdefault('chunk_size', rng.choice([1, 2, 3]))
                op.pop('n_splits', None)
                if rng.random() < .6:
                    # a slow producer: the length becomes known long after the last element was handed out (and possibly after
                    # every task is done and displayed)
                    op['gen_tail'] = rng.choice([0.15, 0.3, 0.6])
                    op['gen_pause'] = rng.choice([0.0, 0.02, 0.15])
                    op['dur'] = {'kind': 'hash', 'salt': rng.randint(0, 99), 'unit': rng.choice([0.0, 0.01, 0.05])}
        if rng.random() < .15:
            # apply tasks are in flight on the kept-alive workers while the next call shows its bar: they are not its work items
            sc['pool']['keep_alive'] = True
            sc['pool'].pop('order_tasks', None)
            k = rng.randint(1, 3)
            first = {'op': 'map', 'n': rng.randint(2, 6), 'chunk_size': 1, 'progress_bar': True, 'elem': 'scalar'}
            nxt = {'op': rng.choice(['map', 'imap']), 'n': rng.randint(3, 8), 'chunk_size': 1, 'progress_bar': True, 'elem': 'scalar',
                   'dur': {'kind': 'hash', 'salt': rng.randint(0, 99), 'unit': 0.02}}
            sc['ops'] = [first, {'op': 'apply_batch', 'defer_wait': True, 'tasks': [{'idx': i} for i in range(k)], 'get_timeout': 30,
                                 'dur': {'kind': 'map', 'map': {}, 'default': rng.choice([0.05, 0.2])}}, nxt, {'op': 'apply_collect', 'of': 1}]
            sc['same_func'] = False
            sc['all_valid'] = True
        scs.append(sc)
    return scs


def run(chk):
    drv = Driver()
    rng = chk.rng
    lines, impl = [], []
    for _ in range(500 if chk.tier == 'quick' else 5000):
        n = rng.randint(1, 4)
        iv = rng.choice([0, 1, 2])
        evs = []
        for _ in range(rng.randint(0, 30)):
            r = rng.random()
            evs.append('T%d' % rng.randrange(n) if r < .55 else 't' if r < .8 else 'F%d' % rng.randrange(n))
        lines.append('progress n=%d total=- interval=%d ev=%s' % (n, iv, ','.join(evs) or '-'))
        impl.append(small.progress_run(n, iv, evs))
    out = drv.run(lines)
    for line, i, m in zip(lines, impl, out):
        mm = ' '.join(x for x in m.split(' ') if x.split('=')[0] in ('arr', 'pending', 'done'))
        chk.count('task_completed_progress_bar (controlled clock) vs Mpire.Progress.pstep', key=line, nontrivial=line.count('T') >= 2, sample={'line': line, 'impl': i},
                  interval=line.split(' ')[3], forced='yes' if 'F' in line else 'no')
        if i != mm:
            chk.mismatch('progress batching vs Mpire.Progress', {'line': line}, i, mm)
            arr = [int(x) for x in i.split(' ')[0][4:].split(',')]
            pend = [int(x) for x in i.split(' ')[1][8:].split(',')]
            done = int(i.split('done=')[1])
            if sum(arr) + sum(pend) != done:
                chk.violation('count_conserved', {'line': line}, i, 'array sum + pending == completed items', input_class='batching')
    scs = bar_scenarios(rng, 250 if chk.tier == 'quick' else 4000)
    run_scenarios(chk, 'whole calls with the real ProgressBarHandler and tqdm under DetSim', scs, {'C19', 'C01', 'C03'},
                  nontrivial=lambda sc, o: any(len(x.get('bar') or []) >= 2 for x in o.get('ops', [])),
                  dist=lambda sc, o: {'input': sc['ops'][0].get('input'), 'known_length': sc['ops'][0].get('input') != 'gen' or sc['ops'][0].get('iterable_len') is not None,
                                      'lifespan': sc['ops'][0].get('worker_lifespan') is not None, 'ops': len(sc['ops']), 'keep_alive': bool(sc['pool'].get('keep_alive'))})
    chk.assumptions += ['tqdm rendering/refresh policy is not modelled: only the sequence of printed n/total is read',
                        'only the "std" style is exercised (notebook/rich need widgets not available offline)']

    def search():
        run_scenarios(chk, 'search', bar_scenarios(random.Random(chk.seed * 37 + 1), 800), {'C19', 'C01', 'C03'})
    return search
