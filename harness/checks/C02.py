"""C02 — every task is executed exactly once.
Theorems: Props/C02.lean (conservation laws over every event sequence of Mpire.Proto.step).
Correspondence: traces of real pool calls under DetSim folded through `step`; the model's execution log must equal the
append-only log of user-function invocations.  Oracle: multiset of entered task arguments vs inputs."""
import random

from harness import gen
from harness.detcheck import proto_correspondence, run_scenarios


def fail_scenarios(rng, n):
    out = []
    for _ in range(n):
        sc = gen.gen_success_scenario(rng, n_ops=rng.choice([1, 2]))
        op = sc['ops'][0]
        if op['n'] >= 1 and op.get('input') != 'nd':
            op['fail'] = {'at': [rng.randrange(op['n'])], 'exc': rng.choice(['ValueError', 'Custom', 'KeyError', 'TypeError', 'TypeError'])}
        out.append(sc)
    return out


def stale_scenarios(rng, n):
    """two calls on one pool with the SAME function: the first is cut short (a lazy call closed early, or a call that fails while a
    sibling task is still running for seconds in a thread) while tasks of it are still queued; whatever the second call's function is
    entered for must be the second call's own inputs"""
    out = []
    for _ in range(n):
        nj = rng.choice([1, 2, 3])
        elem = rng.choice(['scalar', 'tuple'])
        n1 = rng.randint(6, 16)
        if rng.random() < .5:
            pool = {'n_jobs': nj, 'start_method': rng.choice(['fork', 'threading'])}
            op1 = {'op': rng.choice(['imap', 'imap_unordered']), 'n': n1, 'chunk_size': rng.choice([1, 2]), 'elem': elem, 'consume': rng.randint(1, 3), 'abandon': 'close',
                   'max_tasks_active': rng.choice([None, 4, 8]), 'dur': {'kind': 'hash', 'salt': rng.randint(0, 99), 'unit': 0.01}}
            if op1['max_tasks_active'] is None:
                op1.pop('max_tasks_active')
        else:
            pool = {'n_jobs': max(2, nj), 'start_method': 'threading'}
            bad = rng.randrange(2)
            op1 = {'op': rng.choice(['map', 'map_unordered']), 'n': n1, 'chunk_size': rng.choice([2, 3]), 'elem': elem, 'fail': {'at': [bad], 'exc': 'ValueError'},
                   'dur': {'kind': 'map', 'map': {str(op_i): rng.choice([1.5, 3.0]) for op_i in [rng.choice([3, 4, 5])]}, 'default': 0.0}}
        if rng.random() < .4:
            pool['keep_alive'] = True
        ordered = op1['op'] in ('map', 'imap')
        op2 = {'op': rng.choice(['map', 'imap'] if ordered else ['map_unordered', 'imap_unordered']), 'n': rng.randint(3, 10), 'chunk_size': rng.choice([1, 2]), 'elem': elem,
               'dur': {'kind': 'hash', 'salt': rng.randint(0, 99), 'unit': 0.02}}
        out.append({'seed': rng.randint(0, 10 ** 6), 'pool': pool, 'ops': [op1, op2], 'same_func': True, 'relax_shape': True})
        if rng.random() < .3:
            # a lazy call that is still OPEN (all of its tasks submitted, most of them queued) while another call — of either ordering
            # mode — is attempted on the same pool: whatever happens to that attempt, the queued tasks of the open call are entered
            # with their own arguments, once
            n1 = rng.randint(5, 9)
            opA = {'op': rng.choice(['imap_unordered', 'imap']), 'n': n1, 'chunk_size': 1, 'elem': rng.choice(['tuple', 'scalar']), 'consume': rng.randint(1, 2),
                   'max_tasks_active': 2 * n1, 'dur': {'kind': 'hash', 'salt': rng.randint(0, 99), 'unit': 0.05}}
            opB = {'op': rng.choice(['map', 'map_unordered', 'imap', 'imap_unordered']), 'n': rng.randint(2, 5), 'chunk_size': 1, 'elem': opA['elem']}
            out.append({'seed': rng.randint(0, 10 ** 6), 'pool': {'n_jobs': rng.choice([1, 2, 3]), 'start_method': rng.choice(['fork', 'threading'])},
                        'ops': [opA, opB, {'op': 'sleep', 'd': 1.0}], 'same_func': rng.random() < .5, 'relax_shape': True, 'overlap': True})
    return out


def run(chk):
    rng = chk.rng
    N = 300 if chk.tier == 'quick' else 5000
    scs = [gen.gen_success_scenario(rng) for _ in range(N)]
    for sc in scs:
        sc['same_func'] = rng.random() < .3
        if not sc['same_func'] and len(sc['ops']) >= 2 and rng.random() < .4:
            # every call passes a functools.partial of the same function, bound to ITS data by a positional or a keyword argument
            sc['func_kind'] = rng.choice(['partial', 'partial_kw'])
            sc['pool']['keep_alive'] = True
        if rng.random() < .3:
            sc['rules'] = gen.schedule_rules(rng, sc['pool']['n_jobs'])
        if rng.random() < .5:
            for op in sc['ops']:
                op.setdefault('worker_lifespan', rng.choice([1, 2, 3]))
    obs = run_scenarios(chk, 'successful calls (restarts, keep-alive sequences)', scs, {'C02'},
                        nontrivial=lambda sc, o: len(o.get('calls', [])) >= 2,
                        dist=lambda sc, o: {'n_jobs': sc['pool']['n_jobs'], 'start': sc['pool']['start_method'], 'ops': len(sc['ops']),
                                            'keep_alive': bool(sc['pool'].get('keep_alive')), 'adversarial_schedule': bool(sc.get('rules')),
                                            'restarts': 'yes' if len({c[3] for c in o.get('calls', [])}) > sc['pool']['n_jobs'] * len(sc['ops']) else 'no'})
    proto_correspondence(chk, 'protocol traces vs Mpire.Proto.step (success)', scs, obs)
    fs = fail_scenarios(rng, N // 3)
    fobs = run_scenarios(chk, 'failing calls (at most once)', fs, {'C02'},
                         nontrivial=lambda sc, o: len(o.get('calls', [])) >= 1,
                         dist=lambda sc, o: {'outcome': (o.get('ops') or [{}])[0].get('outcome')})
    proto_correspondence(chk, 'protocol traces vs Mpire.Proto.step (failure)', fs, fobs)
    st = stale_scenarios(rng, 120 if chk.tier == 'quick' else 2000)
    # minimised past failures run first
    import glob as _glob, json as _json, os as _os
    from harness.common import ROOT as _ROOT
    st = [_json.load(open(f))['case']['scenario'] for f in sorted(_glob.glob(_os.path.join(_ROOT, 'corpus', 'C02', '*.json')))] + st
    run_scenarios(chk, 'a call after one that was cut short, same function: nothing of the earlier call is executed during it', st, {'C02', 'C01'},
                  nontrivial=lambda sc, o: True, dist=lambda sc, o: {'first_call': 'left open' if sc.get('overlap') else 'closed early' if sc['ops'][0].get('abandon') else 'failed with a long sibling',
                                                                     'start': sc['pool']['start_method']})
    # a lazy call that was created but not started yet is no call at all: another call made meanwhile runs as if it were alone, and the
    # lazy one — started afterwards — as well (each task entered once, with its own call's function and arguments)
    nl = []
    for _ in range(60 if chk.tier == 'quick' else 900):
        nj = rng.choice([1, 2, 3])
        lazy = {'op': rng.choice(['imap', 'imap', 'imap_unordered']), 'n': rng.randint(2, 8), 'chunk_size': rng.choice([1, 2]), 'elem': rng.choice(['tuple', 'dict', 'scalar', 'list']),
                'consume': 0}
        other = {'op': rng.choice(['map_unordered', 'imap_unordered', 'map', 'imap']), 'n': rng.randint(2, 8), 'chunk_size': rng.choice([1, 2]),
                 'elem': rng.choice(['tuple', 'dict', 'scalar', 'list'])}
        nl.append({'seed': rng.randint(0, 10 ** 6), 'pool': {'n_jobs': nj, 'start_method': rng.choice(['fork', 'threading']), **({'keep_alive': True} if rng.random() < .5 else {})},
                   'ops': [lazy, other, {'op': 'resume', 'of': 0}], 'same_func': rng.random() < .5, 'relax_shape': True, 'all_valid': True})
    run_scenarios(chk, 'a lazy call created but not started, another call, then the lazy one (DetSim)', nl, {'C02', 'C01'}, nontrivial=lambda sc, o: True,
                  dist=lambda sc, o: {'lazy': sc['ops'][0]['op'], 'other': sc['ops'][1]['op'], 'elem': sc['ops'][0]['elem'] + '/' + sc['ops'][1]['elem']})
    # apply submissions between two calls of one function on kept-alive workers, or in the middle of a lazy call: the chunks that
    # follow are still run by the call's own function (the apply task's function is that task's alone)
    am = []
    for _ in range(50 if chk.tier == 'quick' else 700):
        nj = rng.choice([1, 2, 3])
        k = rng.randint(1, 2 * nj)
        ap = {'op': 'apply_batch', 'tasks': [{'idx': i} for i in range(k)], 'dur': {'kind': 'map', 'map': {}, 'default': 0.0}, 'get_timeout': 30}
        kindu = rng.choice(['map_unordered', 'imap_unordered', 'map', 'imap'])
        if rng.random() < .5:
            ops = [{'op': kindu, 'n': rng.randint(2, 8), 'chunk_size': rng.choice([1, 2]), 'elem': 'scalar', 'func_group': 0}, ap,
                   {'op': kindu, 'n': rng.randint(2 * nj, 4 * nj), 'chunk_size': rng.choice([1, 2]), 'elem': 'scalar', 'func_group': 0}]
            pool = {'n_jobs': nj, 'start_method': rng.choice(['fork', 'threading']), 'keep_alive': True}
        else:
            ops = [{'op': rng.choice(['imap_unordered', 'imap']), 'n': rng.randint(4 * nj, 8 * nj), 'chunk_size': 1, 'elem': 'scalar', 'max_tasks_active': rng.choice([1, 2, nj]),
                    'consume': rng.randint(1, 2), 'func_group': 0}, ap, {'op': 'resume', 'of': 0}]
            pool = {'n_jobs': nj, 'start_method': rng.choice(['fork', 'threading'])}
        am.append({'seed': rng.randint(0, 10 ** 6), 'pool': pool, 'ops': ops, 'relax_shape': True, 'all_valid': True})
    run_scenarios(chk, 'apply submissions between or inside calls of one function on the same workers (DetSim)', am, {'C02', 'C01'}, nontrivial=lambda sc, o: True,
                  dist=lambda sc, o: {'shape': 'inside a lazy call' if sc['ops'][-1]['op'] == 'resume' else 'between two calls', 'n_jobs': sc['pool']['n_jobs']})
    # workers that are still starting up when the next call hands out its parameters: started by an apply submission that is over before
    # the others have come up, or replaced a moment ago
    bs = []
    for _ in range(60 if chk.tier == 'quick' else 900):
        nj = rng.choice([2, 3, 4])
        first = {'op': 'apply_batch', 'tasks': [{'idx': 0}], 'dur': {'kind': 'map', 'map': {}, 'default': 0.0}, 'get_timeout': 30}
        later = {'op': rng.choice(['map', 'map_unordered', 'imap', 'imap_unordered']), 'n': rng.randint(nj, 3 * nj), 'chunk_size': 1, 'elem': rng.choice(['scalar', 'tuple'])}
        slow = rng.sample(range(nj), rng.randint(1, nj - 1))
        bs.append({'seed': rng.randint(0, 10 ** 6), 'pool': {'n_jobs': nj, 'start_method': 'fork'}, 'ops': [first, later], 'all_valid': True,
                   'rules': [{'role': 'Worker-%d' % w, 'op': 'array.set', 'obj': 'workers_dead', 'sleep': rng.choice([0.2, 0.5]), 'p': 1.0} for w in slow]})
    run_scenarios(chk, 'a call whose parameters are handed out while some workers are still starting up (DetSim)', bs, {'C02', 'C01'}, nontrivial=lambda sc, o: True,
                  dist=lambda sc, o: {'n_jobs': sc['pool']['n_jobs'], 'later': sc['ops'][1]['op']})
    chk.assumptions += ['a task interrupted mid-function counts as entered', 'DetSim scheduler granularity: primitive operations']

    def search():
        extra = [gen.gen_success_scenario(random.Random(chk.seed * 91 + i)) for i in range(600)]
        run_scenarios(chk, 'search', extra, {'C02'})
    return search
