"""C02 — every task is executed exactly once.
Theorems: Props/C02.lean (conservation laws over every event sequence of Mpire.Proto.step).
Correspondence: traces of real pool calls under DetSim folded through `step`; the model's execution log must equal the
append-only log of user-function invocations.  Oracle: multiset of entered task arguments vs inputs."""
import random

from harness import gen
from harness.detcheck import proto_correspondence, run_scenarios


def fail_scenarios(rng, n):
    out = []
    for _ in range(n):
        sc = gen.gen_success_scenario(rng, n_ops=rng.choice([1, 2]))
        op = sc['ops'][0]
        if op['n'] >= 1 and op.get('input') != 'nd':
            op['fail'] = {'at': [rng.randrange(op['n'])], 'exc': rng.choice(['ValueError', 'Custom', 'KeyError', 'TypeError', 'TypeError'])}
        out.append(sc)
    return out


def run(chk):
    rng = chk.rng
    N = 300 if chk.tier == 'quick' else 5000
    scs = [gen.gen_success_scenario(rng) for _ in range(N)]
    for sc in scs:
        sc['same_func'] = rng.random() < .3
        if rng.random() < .3:
            sc['rules'] = gen.schedule_rules(rng, sc['pool']['n_jobs'])
        if rng.random() < .5:
            for op in sc['ops']:
                op.setdefault('worker_lifespan', rng.choice([1, 2, 3]))
    obs = run_scenarios(chk, 'successful calls (restarts, keep-alive sequences)', scs, {'C02'},
                        nontrivial=lambda sc, o: len(o.get('calls', [])) >= 2,
                        dist=lambda sc, o: {'n_jobs': sc['pool']['n_jobs'], 'start': sc['pool']['start_method'], 'ops': len(sc['ops']),
                                            'keep_alive': bool(sc['pool'].get('keep_alive')), 'adversarial_schedule': bool(sc.get('rules')),
                                            'restarts': 'yes' if len({c[3] for c in o.get('calls', [])}) > sc['pool']['n_jobs'] * len(sc['ops']) else 'no'})
    proto_correspondence(chk, 'protocol traces vs Mpire.Proto.step (success)', scs, obs)
    fs = fail_scenarios(rng, N // 3)
    fobs = run_scenarios(chk, 'failing calls (at most once)', fs, {'C02'},
                         nontrivial=lambda sc, o: len(o.get('calls', [])) >= 1,
                         dist=lambda sc, o: {'outcome': (o.get('ops') or [{}])[0].get('outcome')})
    proto_correspondence(chk, 'protocol traces vs Mpire.Proto.step (failure)', fs, fobs)
    chk.assumptions += ['a task interrupted mid-function counts as entered', 'DetSim scheduler granularity: primitive operations']

    def search():
        extra = [gen.gen_success_scenario(random.Random(chk.seed * 91 + i)) for i in range(600)]
        run_scenarios(chk, 'search', extra, {'C02'})
    return search
