"""C14 — chunking is an order-preserving partition with the promised sizes.
Correspondence: mpire.utils.chunk_tasks / get_n_chunks / apply_numpy_chunking and the chunk-size derivation of
mpire.params.check_map_parameters against the Lean model (Model/Chunk.lean, Float instance), on the same inputs.
Oracle (failing-input search): the property's clauses evaluated on the implementation's own output."""
import itertools
import math
import struct
import warnings

import numpy as np

from harness.common import Driver


def fbits(x):
    return struct.unpack('<Q', struct.pack('<d', float(x)))[0]


def cs_tok(cs):
    if cs is None:
        return '-'
    if isinstance(cs, int):
        return f'i:{cs}'
    return f'f:{fbits(cs)}'


def opt(x):
    return '-' if x is None else str(x)


def derive_oracle(chk, case, raw, prop):
    """what the properties say about the derived call parameters, stated directly: an explicit chunk size is used as it is; the
    default look-ahead bound is 2 * n_jobs * ceil(chunk size)"""
    if raw is None:
        return
    cs2, ma2 = raw
    nj, cs, ma = case['n_jobs'], case['chunk_size'], case['max_tasks_active']
    if prop == 'C14' and cs is not None and cs2 is not None and float(cs2) != float(cs):
        chk.violation('explicit_chunk_size_used', case, {'derived_chunk_size': cs2}, f'chunks of exactly the requested size {cs}', input_class='derived_chunk_size')
    if prop == 'C15' and ma is None and cs2 is not None and ma2 is not None:
        want = nj * math.ceil(cs2) * 2
        if int(ma2) != want:
            chk.violation('default_lookahead_bound', case, {'derived_max_tasks_active': ma2, 'derived_chunk_size': cs2},
                          f'default max_tasks_active == 2 * n_jobs * ceil(chunk size) == {want}', input_class='default_bound')


def derive_suite(chk, drv, n_cases, prop):
    """check_map_parameters vs Mpire.deriveChunkSize / deriveMaxActive, plus the direct oracles of `prop`"""
    from mpire.params import WorkerPoolParams, check_map_parameters
    rng = chk.rng
    lines3, impl3, cases3, raw3 = [], [], [], []
    for _ in range(n_cases):
        nj = rng.randint(1, 9)
        n = rng.choice([0, 1, 2, rng.randint(0, 50), rng.randint(0, 5000)])
        sized = rng.random() < .7
        lim = rng.choice([None, None, n, rng.randint(0, n + 3)])
        cs = rng.choice([None, None, rng.randint(1, 20), rng.uniform(1, 20)])
        ns = rng.choice([None, rng.randint(1, 40)])
        ma = rng.choice([None, rng.randint(1, 50)])
        pp = WorkerPoolParams(nj, None)
        it = list(range(n)) if sized else iter(range(n))
        try:
            n_tasks, ma2, cs2, _, _ = check_map_parameters(pp, it, lim, ma, cs, ns, None, False, None, None, None, None, None)
            il = f'ok cs={cs_tok(cs2)} ma={ma2}'
            raw3.append((cs2, ma2))
        except Exception as e:  # noqa
            il = 'exc ' + type(e).__name__
            raw3.append(None)
        nt = lim if lim is not None else (n if sized else None)
        lines3.append(f'derive nt={opt(nt)} cs={cs_tok(cs)} ns={opt(ns)} nj={nj} ma={opt(ma)}')
        impl3.append(il)
        cases3.append({'n_jobs': nj, 'n': n, 'sized': sized, 'iterable_len': lim, 'chunk_size': cs, 'n_splits': ns, 'max_tasks_active': ma})
    out3 = drv.run(lines3)
    for case, il, ml, raw in zip(cases3, impl3, out3, raw3):
        chk.count('check_map_parameters', key=tuple(sorted((k, str(v)) for k, v in case.items())), nontrivial=True, sample=dict(case, impl=il),
                  chunk_size='none' if case['chunk_size'] is None else type(case['chunk_size']).__name__,
                  max_tasks_active='none' if case['max_tasks_active'] is None else 'given',
                  both_chunk_size_and_n_splits=case['chunk_size'] is not None and case['n_splits'] is not None)
        if il != ml:
            chk.mismatch('check_map_parameters vs Mpire.deriveChunkSize/deriveMaxActive', case, il, ml)
        derive_oracle(chk, case, raw, prop)


def nudge(x, k):
    for _ in range(abs(k)):
        x = math.nextafter(x, math.inf if k > 0 else -math.inf)
    return x


def gen_cases(chk, tier):
    rng = chk.rng
    cases = []
    N = 14 if tier == 'quick' else 28
    for n in range(0, N + 1):
        lims = [None] + sorted({max(0, n - 3), max(0, n - 1), n, n + 2})
        for lim in lims:
            for kind in ('list', 'iter', 'nd'):
                for cs in [None] + list(range(1, n + 3)):
                    if cs is None:
                        for ns in [None] + list(range(1, n + 3)):
                            cases.append((n, kind, lim, None, ns))
                    else:
                        cases.append((n, kind, lim, cs, None))
                # a few real chunk sizes per n
                for _ in range(3):
                    c = rng.choice([rng.uniform(1, n + 2), rng.randint(1, n + 2) + rng.choice([0.5, 0.25, 1 / 3, 0.1, 0.9]),
                                    max(1.0, nudge(float(rng.randint(1, n + 2)), rng.randint(-40, 40)))])
                    cases.append((n, kind, lim, c, rng.choice([None, 3])))
    # random far beyond the grid
    R = 600 if tier == 'quick' else 2500
    for _ in range(R):
        n = int(10 ** rng.uniform(1, 5.5 if tier == 'quick' else 6.0))
        kind = rng.choice(['list', 'iter', 'nd'])
        lim = rng.choice([None, None, n, max(0, n - rng.randint(1, 50)), n + rng.randint(1, 50)])
        mode = rng.random()
        if mode < 0.45:
            s = rng.choice([rng.randint(1, n + 2), rng.randint(1, max(1, n // 3)), n, n - 1 if n > 1 else 1,
                            math.gcd(n, rng.randint(1, n)) * rng.randint(1, 7)])
            cases.append((n, kind, lim, None, max(1, s)))
        elif mode < 0.7:
            cases.append((n, kind, lim, rng.randint(1, n + 2), None))
        else:
            base = rng.choice([rng.uniform(1, 50), rng.uniform(1, n + 2), float(rng.randint(1, 100)),
                               rng.randint(1, 1000) / rng.randint(1, 37)])
            c = max(1.0, nudge(base, rng.choice([0, 0, 1, -1, rng.randint(-40, 40)])))
            cases.append((n, kind, lim, c, None))
    return cases


def make_input(n, kind):
    if kind == 'list':
        return list(range(n))
    if kind == 'iter':
        return iter(range(n))
    return np.arange(n).reshape(n, 1)


def first_of(chunk, kind):
    x = chunk[0]
    return int(x[0]) if kind == 'nd' else int(x)


def run_impl_chunk(case):
    from mpire.utils import chunk_tasks
    n, kind, lim, cs, ns = case
    try:
        chunks = list(chunk_tasks(make_input(n, kind), lim, cs, ns))
    except ValueError as e:
        msg = str(e)
        return ('err bothNone' if 'cannot both be None' in msg else 'err noLength' if 'iterable_len or an iterable' in msg else 'err other:' + msg), None
    except Exception as e:  # noqa
        return 'err other:' + type(e).__name__, None
    sizes = [len(c) for c in chunks]
    firsts = [first_of(c, kind) if len(c) else 0 for c in chunks]
    # contents: contiguous, in order
    flat = []
    for c in chunks:
        flat.extend(int(x[0]) if kind == 'nd' else int(x) for x in c)
    return 'ok sizes=%s firsts=%s' % (','.join(map(str, sizes)), ','.join(map(str, firsts))), (sizes, flat)


def oracle_chunk(chk, case, sizes, flat):
    n, kind, lim, cs, ns = case
    cj = {'n': n, 'input': kind, 'iterable_len': lim, 'chunk_size': cs, 'n_splits': ns}
    m = n if lim is None else min(n, lim)
    if flat != list(range(m)):
        chk.violation('partition', cj, {'concat_len': len(flat), 'first_bad': next((i for i, (a, b) in enumerate(zip(flat, range(m))) if a != b), min(len(flat), m))},
                      f'concatenation == first {m} elements in order')
    if any(s == 0 for s in sizes):
        chk.violation('non_empty', cj, {'sizes': sizes[:50]}, 'no empty chunk')
    body = sizes[:-1]
    if isinstance(cs, int):
        if any(s != cs for s in body):
            chk.violation('int_chunk_size', cj, {'sizes': sizes[:50]}, f'every chunk but the last has {cs} elements')
    elif cs is not None and cs >= 1:
        lo, hi = math.floor(cs), math.ceil(cs)
        if any(s not in (lo, hi) for s in body):
            chk.violation('real_chunk_size', cj, {'sizes': sizes[:50]}, f'every chunk but the last has {lo} or {hi} elements')
    elif cs is None and ns is not None and (kind != 'iter' or lim is not None) and (lim is None or lim <= n):
        known = m
        if len(sizes) != min(known, ns):
            chk.violation('n_splits_count', cj, {'n_chunks': len(sizes)}, f'exactly min({known},{ns}) chunks')
        elif sizes and max(sizes) - min(sizes) > 1:
            chk.violation('n_splits_balanced', cj, {'min': min(sizes), 'max': max(sizes)}, 'sizes differ by at most one')


def run(chk):
    drv = Driver()
    warnings.simplefilter('ignore')
    cases = gen_cases(chk, chk.tier)
    # ---- suite 1: chunk_tasks ----
    lines, impl = [], []
    for case in cases:
        n, kind, lim, cs, ns = case
        exact = '1' if n <= 3000 else '0'
        lines.append(f"chunk n={n} sized={0 if kind == 'iter' else 1} lim={opt(lim)} cs={cs_tok(cs)} ns={opt(ns)} exact={exact}")
        impl.append(run_impl_chunk(case))
    out = drv.run(lines)
    differ_exact = total_exact = 0
    for case, (iline, extra), mline in zip(cases, impl, out):
        n, kind, lim, cs, ns = case
        mbase = mline.split(' exact_same=')[0]
        if ' exact_same=' in mline:
            es = mline.split(' exact_same=')[1].split(' ')[0]
            if es in '01':
                total_exact += 1
                differ_exact += es == '0'
        branch = 'int' if isinstance(cs, int) else 'real' if cs is not None else 'n_splits' if ns is not None else 'both_none'
        limk = 'none' if lim is None else 'lt' if lim < n else 'eq' if lim == n else 'gt'
        nontrivial = extra is not None and len(extra[0]) >= 2
        chk.count('chunk_tasks', key=(n, kind, lim, cs_tok(cs), ns), nontrivial=nontrivial,
                  sample={'n': n, 'input': kind, 'iterable_len': lim, 'chunk_size': cs, 'n_splits': ns, 'impl': iline[:80]},
                  branch=branch, iterable_len=limk, input=kind, result='error' if extra is None else 'ok',
                  size_class='n<=40' if n <= 40 else 'n<=1e4' if n <= 10 ** 4 else 'n>1e4')
        if iline != mbase:
            chk.mismatch('chunk_tasks vs Mpire.chunkTasks floatA',
                         {'n': n, 'input': kind, 'iterable_len': lim, 'chunk_size': cs, 'n_splits': ns}, iline[:300], mbase[:300])
        if extra is not None:
            oracle_chunk(chk, case, *extra)
    chk.notes['float_vs_exact_partitions'] = {'compared': total_exact, 'differ': differ_exact}

    # ---- suite 2: get_n_chunks / apply_numpy_chunking (announced == produced) ----
    from mpire.utils import apply_numpy_chunking, get_n_chunks
    lines2, impl2, cases2 = [], [], []
    rng = chk.rng
    grid = []
    N2 = 20 if chk.tier == 'quick' else 45
    for n in range(0, N2 + 1):
        for cs in [None] + list(range(1, n + 3)):
            for ns in ([None] + list(range(1, n + 3)) if cs is None else [None]):
                for nj in (1, 3):
                    grid.append((n, None, cs, ns, nj))
        for lim in (max(0, n - 2), n + 2):
            grid.append((n, lim, None, rng.randint(1, n + 2), 2))
            grid.append((n, lim, rng.randint(1, n + 2), None, 2))
        for _ in range(4):
            grid.append((n, None, max(1.0, nudge(rng.choice([rng.uniform(1, n + 2), float(rng.randint(1, n + 2)), rng.randint(1, n + 2) + .5]), rng.randint(-3, 3))), None, 2))
    for _ in range(300 if chk.tier == 'quick' else 3000):
        n = int(10 ** rng.uniform(1, 4.7))
        m = rng.random()
        if m < .5:
            grid.append((n, rng.choice([None, n - 1, n + 5]), None, rng.randint(1, n + 2), rng.randint(1, 8)))
        elif m < .75:
            grid.append((n, None, rng.randint(1, n + 2), None, 2))
        else:
            grid.append((n, None, max(1.0, nudge(rng.uniform(1, 60), rng.randint(-2, 2))), None, 2))
    for (n, lim, cs, ns, nj) in grid:
        arr = np.arange(n).reshape(n, 1)
        try:
            it, announced, cs2, ns2 = apply_numpy_chunking(arr, lim, cs, ns, nj)
            chunks = [c[0] for c in it]
            sizes = [len(c) for c in chunks]
            firsts = [int(c[0][0]) for c in chunks]
            il = 'announced=%d ok sizes=%s firsts=%s' % (announced, ','.join(map(str, sizes)), ','.join(map(str, firsts)))
            if announced != len(sizes):
                chk.violation('announced_eq_produced', {'rows': n, 'iterable_len': lim, 'chunk_size': cs, 'n_splits': ns, 'n_jobs': nj},
                              {'announced': announced, 'produced': len(sizes)}, 'announced chunk count == chunks produced')
            if (cs2, ns2) != (1, None):
                il += f' BAD-RET {cs2},{ns2}'
        except Exception as e:  # noqa
            il = 'exc ' + type(e).__name__
            chk.violation('announced_eq_produced', {'rows': n, 'iterable_len': lim, 'chunk_size': cs, 'n_splits': ns, 'n_jobs': nj},
                          {'exception': repr(e)[:200]}, 'apply_numpy_chunking returns the chunks and their count')
        lines2.append(f'numpy len={n} lim={opt(lim)} cs={cs_tok(cs)} ns={opt(ns)} nj={nj}')
        impl2.append(il)
        cases2.append((n, lim, cs, ns, nj))
        # get_n_chunks on a plain list too
        try:
            g = 'ok n=%d' % get_n_chunks(list(range(n)), lim, cs, ns, nj)
        except Exception as e:  # noqa
            g = 'exc ' + type(e).__name__
        lines2.append(f'nchunks len={n} lim={opt(lim)} cs={cs_tok(cs)} ns={opt(ns)} nj={nj}')
        impl2.append(g)
        cases2.append((n, lim, cs, ns, nj))
    out2 = drv.run(lines2)
    for case, line, il, ml in zip(cases2, lines2, impl2, out2):
        n, lim, cs, ns, nj = case
        suite = 'apply_numpy_chunking' if line.startswith('numpy') else 'get_n_chunks'
        chk.count(suite, key=(n, lim, cs_tok(cs), ns, nj), nontrivial=n >= 2,
                  sample={'rows': n, 'iterable_len': lim, 'chunk_size': cs, 'n_splits': ns, 'n_jobs': nj, 'impl': il[:80]},
                  branch='int' if isinstance(cs, int) else 'real' if cs is not None else 'n_splits' if ns else 'n_jobs*4')
        if il != ml:
            chk.mismatch(f'{suite} vs Mpire.{"numpyChunks" if suite[0] == "a" else "getNChunks"} floatA',
                         {'rows': n, 'iterable_len': lim, 'chunk_size': cs, 'n_splits': ns, 'n_jobs': nj}, il[:300], ml[:300])

    # ---- suite 3: check_map_parameters derivation ----
    from mpire.params import WorkerPoolParams, check_map_parameters
    lines3, impl3, cases3 = [], [], []
    derive_suite(chk, drv, 400 if chk.tier == 'quick' else 4000, 'C14')
    # the chunking a pool call ends up with (parameter derivation + chunker of /repo) vs the documented rule written out independently
    from harness import gen, oracles
    for _ in range(1500 if chk.tier == 'quick' else 20000):
        nj = rng.choice([1, 2, 3, 4, 5, 8])
        op = gen.gen_map_op(rng, nj)
        op = {k: v for k, v in op.items() if k in ('op', 'n', 'input', 'chunk_size', 'n_splits', 'iterable_len', 'max_tasks_active')}
        want = oracles.ref_chunks(op, nj)
        try:
            got = oracles.repo_chunks(op, nj)
        except Exception as e:  # noqa
            got = 'exc ' + type(e).__name__ + ': ' + str(e)[:80]
        chk.count('chunks of a pool call (check_map_parameters + chunk_tasks / apply_numpy_chunking) vs the documented rule', key=str(sorted(op.items())) + str(nj),
                  nontrivial=op['n'] >= 2, sample={'op': op, 'n_jobs': nj}, input=op.get('input'), max_tasks_active='given' if op.get('max_tasks_active') else 'default')
        if got != want:
            chk.violation('chunks_as_documented', {'op': op, 'n_jobs': nj}, {'chunks': str(got)[:300]}, 'chunks == ' + str(want)[:300], input_class='pool_chunking')

    chk.assumptions += [
        'size clauses (k / floor,ceil / min(n,s) balanced) are proved for exact rational arithmetic; for IEEE doubles they are tied per run by '
        'the oracle on the implementation output and by executing the same Lean definitions at Float (float_vs_exact_partitions reports how often the partitions differ)',
        'numpy slicing and itertools.islice are modelled as List.take/drop',
    ]

    def search():
        # extended oracle-only search on the implementation (bigger, denser) when something broke
        rng2 = chk.rng
        for _ in range(4000):
            n = rng2.randint(0, 400)
            kind = rng2.choice(['list', 'iter', 'nd'])
            lim = rng2.choice([None, n, max(0, n - rng2.randint(0, 5)), n + rng2.randint(0, 5)])
            if rng2.random() < .5:
                case = (n, kind, lim, None, rng2.randint(1, n + 2))
            elif rng2.random() < .5:
                case = (n, kind, lim, rng2.randint(1, n + 2), None)
            else:
                case = (n, kind, lim, max(1.0, nudge(rng2.uniform(1, n + 2), rng2.randint(-3, 3))), None)
            il, extra = run_impl_chunk(case)
            if extra is not None:
                oracle_chunk(chk, case, *extra)
            if chk.violations:
                return
    return search
