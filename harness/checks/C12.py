"""C12 — worker_lifespan bounds the work of every worker instance.
Theorems: Props/C12.lean (transducer: tasks per instance <= L + c - 1 for every script; restart iff L reached; restart moves
nothing in the protocol).  Correspondence: scripted-comms differential of AbstractWorker.run; whole calls under DetSim with
lifespans, both start-method semantics, schedules that starve the death watch between its reads (restart must never be
mistaken for a death)."""
import random

from harness import gen
from harness.checks.C11 import transducer_suite
from harness.detcheck import proto_correspondence, run_scenarios


def lifespan_scenarios(rng, n, starve=True):
    scs = []
    for _ in range(n):
        sc = gen.gen_success_scenario(rng, n_ops=rng.choice([1, 1, 2]))
        for op in sc['ops']:
            op['worker_lifespan'] = rng.choice([1, 1, 2, 3, 5])
            if op['n'] < 6:
                op['n'] = rng.randint(6, 30)
            if op.get('iterable_len') is not None:
                op['iterable_len'] = min(op['iterable_len'], op['n'])
            if rng.random() < .6:
                op['chunk_size'] = rng.choice([1, 1, 2, 3])
                op.pop('n_splits', None)
        if starve and sc['pool']['start_method'] == 'fork' and rng.random() < .6:
            sc['rules'] = [{'role': 'unexpected_death_handler', 'op': 'array.get', 'obj': 'workers_dead', 'k': rng.choice([20, 60, 120]), 'p': .5}]
        scs.append(sc)
    return scs


def run(chk):
    rng = chk.rng
    transducer_suite(chk, 1500 if chk.tier == 'quick' else 20000)
    N = 300 if chk.tier == 'quick' else 5000
    scs = lifespan_scenarios(rng, N)

    def extra_oracle(sc, o):
        return {}
    obs = run_scenarios(chk, 'calls with worker_lifespan under DetSim (incl. death-watch starvation schedules)', scs,
                        {'C12', 'C01', 'C02', 'C03'},
                        nontrivial=lambda sc, o: len({c[3] for c in o.get('calls', [])}) > sc['pool']['n_jobs'],
                        dist=lambda sc, o: {'L': sc['ops'][0]['worker_lifespan'], 'start': sc['pool']['start_method'],
                                            'starved_death_watch': bool(sc.get('rules')),
                                            'instances': min(len({c[3] for c in o.get('calls', [])}), 12)})
    # a routine restart must never surface as a failure
    for sc, o in zip(scs, obs):
        for opi, oo in enumerate(o.get('ops', [])):
            if oo.get('outcome') == 'raise':
                chk.violation('restart_not_death', {'scenario': sc}, {'op': opi, 'raised': oo.get('exc')},
                              'a call in which no worker died and no user function raised must not raise', input_class='restart_not_death')
    proto_correspondence(chk, 'protocol traces with restarts vs Mpire.Proto.step', scs, obs)

    def search():
        extra = lifespan_scenarios(random.Random(chk.seed * 17 + 3), 800)
        ob = run_scenarios(chk, 'search', extra, {'C12', 'C01', 'C02', 'C03'})
        for sc, o in zip(extra, ob):
            for opi, oo in enumerate(o.get('ops', [])):
                if oo.get('outcome') == 'raise':
                    chk.violation('restart_not_death', {'scenario': sc}, {'op': opi, 'raised': oo.get('exc')}, 'no spurious failure', input_class='restart_not_death')
    return search
