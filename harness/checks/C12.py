"""C12 — worker_lifespan bounds the work of every worker instance.
Theorems: Props/C12.lean (transducer: tasks per instance <= L + c - 1 for every script; restart iff L reached; restart moves
nothing in the protocol).  Correspondence: scripted-comms differential of AbstractWorker.run; whole calls under DetSim with
lifespans, both start-method semantics, schedules that starve the death watch between its reads (restart must never be
mistaken for a death)."""
import random

from harness import gen
from harness.checks.C11 import transducer_suite
from harness.detcheck import proto_correspondence, run_scenarios


def lifespan_scenarios(rng, n, starve=True):
    scs = []
    for _ in range(n):
        sc = gen.gen_success_scenario(rng, n_ops=rng.choice([1, 1, 2]))
        for op in sc['ops']:
            op['worker_lifespan'] = rng.choice([1, 1, 2, 3, 5])
            if op['n'] < 6:
                op['n'] = rng.randint(6, 30)
            if op.get('iterable_len') is not None:
                op['iterable_len'] = min(op['iterable_len'], op['n'])
            if rng.random() < .6:
                op['chunk_size'] = rng.choice([1, 1, 2, 3])
                op.pop('n_splits', None)
        if starve and sc['pool']['start_method'] == 'fork' and rng.random() < .6:
            # the death watch is held up between its reads: before it reads a worker's flag, or between reading the flag and asking
            # the process object whether it is alive (a whole restart of that slot fits in between)
            sc['rules'] = [rng.choice([{'role': 'unexpected_death_handler', 'op': 'array.get', 'obj': 'workers_dead', 'k': rng.choice([20, 60, 120]), 'p': .5},
                                       {'role': 'unexpected_death_handler', 'op': 'is_alive', 'obj': None, 'sleep': rng.choice([0.03, 0.12]), 'p': .6}])]
        elif starve and rng.random() < .5:
            # the thread that restarts workers is held up right when it starts the replacement: the new instance runs (and the death
            # watch looks at the slot) before the restart is finished
            sc['rules'] = [rng.choice([{'role': 'restart_handler', 'op': 'start', 'obj': None, 'sleep': rng.choice([0.05, 0.15, 0.3]), 'p': .7},
                                       # … or at whatever shared flag it (or the worker object it is constructing) writes
                                       {'role': 'restart_handler', 'op': 'array.set+', 'obj': None, 'sleep': rng.choice([0.15, 0.3]), 'p': .7}])]
        scs.append(sc)
    return scs


def ka_lifespan_histories(rng, n):
    """keep-alive pools: several calls with the SAME lifespan and chunk size but other functions / sizes; the budget of L tasks belongs
    to the worker instance, not to the call"""
    scs = []
    for _ in range(n):
        nj = rng.choice([1, 2, 3])
        L = rng.choice([2, 3, 4, 6])
        c = rng.choice([1, 1, 2])
        ops = []
        for k in range(rng.randint(2, 4)):
            ops.append({'op': rng.choice(['map', 'map_unordered', 'imap', 'imap_unordered']), 'n': rng.randint(1, max(1, (L - 1) * nj)), 'chunk_size': c,
                        'elem': 'scalar', 'worker_lifespan': L, 'dur': {'kind': 'hash', 'salt': rng.randint(0, 99), 'unit': 0.005}})
        same = rng.random() < .3
        if rng.random() < .35:
            # apply tasks on the kept-alive workers (which keep the lifespan of the latest map call), some or all of them raising: a
            # task that fails is a task all the same
            k = rng.randint(L, 3 * L)
            failing = [i for i in range(k) if rng.random() < rng.choice([.3, 1.0])]
            ops.insert(rng.randint(1, len(ops)), {'op': 'apply_batch', 'tasks': [{'idx': i} for i in range(k)], 'get_timeout': 30, 'fail': {'at': failing},
                                                   'dur': {'kind': 'map', 'map': {}, 'default': 0.005}})
            same = False
        ops.append({'op': 'stop_and_join'})
        scs.append({'seed': rng.randint(0, 10 ** 6), 'pool': {'n_jobs': nj, 'start_method': rng.choice(['fork', 'threading']), 'keep_alive': True},
                    'ops': ops, 'same_func': same, 'relax_shape': True, 'L': L, 'c': c})
    return scs


def ka_lifespan_judge(chk, sc, o):
    if o.get('harness_error') or o.get('stuck'):
        return
    import collections
    per = collections.Counter(c[3] for c in o.get('calls', []) if c[1] == 'task')
    bound = sc['L'] + sc['c'] - 1
    over = {str(t): k for t, k in per.items() if k > bound}
    if over:
        chk.violation('lifespan_bound_over_history', {'scenario': sc}, {'tasks_per_instance': over, 'bound': bound},
                      'every worker instance executes at most L + c - 1 tasks in its whole life', input_class='ka_lifespan')


def run(chk):
    rng = chk.rng
    transducer_suite(chk, 1500 if chk.tier == 'quick' else 20000)
    N = 300 if chk.tier == 'quick' else 5000
    scs = lifespan_scenarios(rng, N)

    def extra_oracle(sc, o):
        return {}
    obs = run_scenarios(chk, 'calls with worker_lifespan under DetSim (incl. death-watch starvation schedules)', scs,
                        {'C12', 'C01', 'C02', 'C03'},
                        nontrivial=lambda sc, o: len({c[3] for c in o.get('calls', [])}) > sc['pool']['n_jobs'],
                        dist=lambda sc, o: {'L': sc['ops'][0]['worker_lifespan'], 'start': sc['pool']['start_method'],
                                            'schedule': (sc.get('rules') or [{}])[0].get('role', 'plain'),
                                            'instances': min(len({c[3] for c in o.get('calls', [])}), 12)})
    # a routine restart must never surface as a failure
    for sc, o in zip(scs, obs):
        for opi, oo in enumerate(o.get('ops', [])):
            if oo.get('outcome') == 'raise':
                chk.violation('restart_not_death', {'scenario': sc}, {'op': opi, 'raised': oo.get('exc')},
                              'a call in which no worker died and no user function raised must not raise', input_class='restart_not_death')
    proto_correspondence(chk, 'protocol traces with restarts vs Mpire.Proto.step', scs, obs)
    ka = ka_lifespan_histories(rng, 150 if chk.tier == 'quick' else 2500)
    kobs = run_scenarios(chk, 'keep-alive histories with one lifespan across calls (tasks per instance over its whole life)', ka, {'C12', 'C01', 'C02'},
                         nontrivial=lambda sc, o: len(sc['ops']) >= 3, dist=lambda sc, o: {'L': sc['L'], 'c': sc['c'], 'calls': len(sc['ops']) - 1, 'same_func': sc['same_func']})
    for sc, o in zip(ka, kobs):
        ka_lifespan_judge(chk, sc, o)

    def search():
        extra = lifespan_scenarios(random.Random(chk.seed * 17 + 3), 800)
        ob = run_scenarios(chk, 'search', extra, {'C12', 'C01', 'C02', 'C03'})
        for sc, o in zip(extra, ob):
            for opi, oo in enumerate(o.get('ops', [])):
                if oo.get('outcome') == 'raise':
                    chk.violation('restart_not_death', {'scenario': sc}, {'op': opi, 'raised': oo.get('exc')}, 'no spurious failure', input_class='restart_not_death')
        ka2 = ka_lifespan_histories(random.Random(chk.seed * 19 + 1), 500)
        for sc, o in zip(ka2, run_scenarios(chk, 'search', ka2, {'C12'})):
            ka_lifespan_judge(chk, sc, o)
    return search
