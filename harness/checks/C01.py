"""C01 — map-family results equal sequential evaluation.
Theorems: Props/C01.lean (protocol delivers the task multiset on success for every interleaving; reorder buffer and
sort restore input order for every arrival order; chunking transparent).
Correspondence: (a) real imap/map ordering code vs Mpire.Reorder on scripted arrivals; (b) real pool calls under
DetSim: protocol traces folded through Mpire.Proto.step, outputs compared with sequential evaluation."""
import random

from harness import gen
from harness.common import Driver
from harness.detcheck import proto_correspondence, run_scenarios
from harness.pure import reorder


def run(chk):
    drv = Driver()
    rng = chk.rng
    # ---- (0) the object the caller reads its results from ----
    from harness.pure import resiter
    resiter.tie(chk, drv, 250 if chk.tier == 'quick' else 4000)
    # ---- (a) ordering layer ----
    n_cases = 400 if chk.tier == 'quick' else 4000
    lines, impl, cases = [], [], []
    import itertools
    small = [list(p) for n in range(0, 5) for p in itertools.permutations(range(n))]
    for perm in small:
        arr = [(i, 100 + i) for i in perm]
        cases.append(([100 + i for i in range(len(perm))], arr))
    for _ in range(n_cases):
        cases.append(reorder.gen_arrivals(rng, rng.choice([0, 1, 2, 3, rng.randint(4, 12), rng.randint(10, 60)])))
    for ci, (vals, arr) in enumerate(cases):
        fz = ci % 3 == 1           # a third of the cases with falsy payloads (None, 0, '', False, [], 0.0) for the values 100..105
        got, asked = reorder.run_imap(arr, falsy=fz)
        tok = ','.join('%d:%d' % r for r in arr) or '-'
        lines.append('imap arr=' + tok)
        impl.append('out=%s yielded=%s' % (','.join(map(str, got)), ','.join(map(str, asked))))
        if got != vals:
            chk.violation('imap_equals_sequential', {'arrivals': arr[:40]}, {'got': got[:40]}, 'imap yields the sequential results in order', input_class='reorder')
        res = reorder.run_map(arr, falsy=fz)
        lines.append('msort arr=' + tok)
        impl.append('out=%s' % ','.join(map(str, res)))
        if res != vals:
            chk.violation('map_equals_sequential', {'arrivals': arr[:40]}, {'got': res[:40]}, 'map returns the sequential results in order', input_class='sort')
    out = drv.run(lines)
    for line, i, m in zip(lines, impl, out):
        chk.count('ordering layer (imap reorder loop, map sort) vs Mpire.Reorder', key=line, nontrivial=line.count(',') >= 2,
                  sample={'line': line[:120], 'impl': i[:120]}, kind=line.split(' ')[0], n='<=4' if line.count(',') < 4 else '>4')
        if i != m:
            chk.mismatch('ordering layer vs Mpire.Reorder', {'line': line[:500]}, i[:500], m[:500])

    # ---- (b) whole calls under DetSim ----
    N = 250 if chk.tier == 'quick' else 4000
    scs = [gen.gen_success_scenario(rng) for _ in range(N)]
    for sc in scs:
        sc['same_func'] = rng.random() < .3
    for _sc in scs:
        for _op in _sc['ops']:
            if _op.get('input') != 'nd' and rng.random() < .15:
                _op['ret'] = 'falsy'        # every other task returns 0 / None / '' / [] / 0.0 / False: still results
        if rng.random() < .25 and 'rules' not in _sc:
            _sc['rules'] = gen.schedule_rules(rng, _sc['pool']['n_jobs'])      # adversarial schedules
    obs = run_scenarios(chk, 'whole calls under DetSim (oracle: result == sequential evaluation)', scs, {'C01'},
                        nontrivial=lambda sc, o: any(op.get('n', 0) >= 2 for op in sc['ops']),
                        dist=lambda sc, o: {'n_jobs': sc['pool']['n_jobs'], 'start': sc['pool']['start_method'],
                                            'first_op': sc['ops'][0]['op'], 'input': sc['ops'][0].get('input'),
                                            'elem': sc['ops'][0].get('elem'), 'lifespan': sc['ops'][0].get('worker_lifespan') is not None})
    proto_correspondence(chk, 'protocol traces vs Mpire.Proto.step', scs, obs)
    # one generation of kept-alive workers serving ordered and unordered calls in turn, with the SAME function and parameters (nothing is
    # sent to the workers in between that could remind them of the mode)
    ms = []
    for _ in range(60 if chk.tier == 'quick' else 900):
        nj = rng.choice([1, 2, 3])
        elem = rng.choice(['scalar', 'scalar', 'tuple', 'list', 'dict', 'str'])
        first_ordered = rng.random() < .5
        ops = []
        for k in range(rng.choice([2, 3, 4])):
            ordered = first_ordered == (k % 2 == 0)
            ops.append({'op': rng.choice(['map', 'imap'] if ordered else ['map_unordered', 'imap_unordered']), 'n': rng.randint(2, 9), 'chunk_size': rng.choice([1, 2, 3]),
                        'elem': elem})
        ms.append({'seed': rng.randint(0, 10 ** 6), 'pool': {'n_jobs': nj, 'start_method': rng.choice(['fork', 'threading']), 'keep_alive': True}, 'ops': ops,
                   'same_func': True, 'relax_shape': True})
    run_scenarios(chk, 'kept-alive workers serving ordered and unordered calls in turn with one function (DetSim)', ms, {'C01'}, nontrivial=lambda sc, o: True,
                  dist=lambda sc, o: {'calls': len(sc['ops']), 'elem': sc['ops'][0]['elem'], 'start': sc['pool']['start_method'], 'first': sc['ops'][0]['op']})
    # results that overtake a slow first task wait in imap's buffer; some of them are None, 0, '', [], 0.0, False
    bf = []
    for _ in range(50 if chk.tier == 'quick' else 700):
        nj = rng.choice([2, 3, 4])
        nn = rng.randint(4, 12)
        slow = rng.sample(range(nn // 2), rng.choice([1, 1, 2]))
        bf.append({'seed': rng.randint(0, 10 ** 6), 'pool': {'n_jobs': nj, 'start_method': rng.choice(['fork', 'threading'])},
                   'ops': [{'op': rng.choice(['imap', 'imap', 'map', 'map_unordered', 'imap_unordered']), 'n': nn, 'chunk_size': rng.choice([1, 1, 2]), 'elem': 'scalar',
                            'ret': rng.choice(['falsy', 'falsy', 'odd_strings']),
                            'dur': {'kind': 'map', 'map': {str(i): rng.choice([0.2, 0.5]) for i in slow}, 'default': 0.01}}]})
    run_scenarios(chk, 'falsy results waiting in the reorder buffer behind a slow task (DetSim)', bf, {'C01'}, nontrivial=lambda sc, o: True,
                  dist=lambda sc, o: {'op': sc['ops'][0]['op'], 'n_jobs': sc['pool']['n_jobs']})
    # a time limit per TASK on calls whose chunks hold several tasks: a chunk may take longer than the limit as long as no task does; and
    # pool settings changed between two calls of a kept-alive pool: the next call gets what the settings say now
    tl = []
    for _ in range(40 if chk.tier == 'quick' else 600):
        nj = rng.choice([1, 2, 3])
        c = rng.choice([3, 4, 6])
        tl.append({'seed': rng.randint(0, 10 ** 6), 'pool': {'n_jobs': nj, 'start_method': rng.choice(['fork', 'threading'])}, 'all_valid': True,
                   'ops': [{'op': rng.choice(['map', 'imap', 'map_unordered', 'imap_unordered']), 'n': c * rng.randint(2, 4), 'chunk_size': c, 'elem': 'scalar', 'task_timeout': 0.3,
                            'dur': {'kind': 'map', 'map': {}, 'default': 0.12}}]})
    for _ in range(40 if chk.tier == 'quick' else 600):
        nj = rng.choice([1, 2, 3])
        what = rng.choice(['pass_worker_id', 'shared_objects', 'use_worker_state'])
        pool = {'n_jobs': nj, 'start_method': rng.choice(['fork', 'threading']), 'keep_alive': True}
        if rng.random() < .5:
            pool[what] = True
        ops = [{'op': rng.choice(['map', 'imap', 'map_unordered']), 'n': rng.randint(2, 8), 'chunk_size': 1, 'elem': rng.choice(['scalar', 'tuple'])},
               {'op': 'set', 'what': what, 'value': not bool(pool.get(what))},
               {'op': rng.choice(['map', 'imap', 'map_unordered']), 'n': rng.randint(2, 8), 'chunk_size': 1, 'elem': rng.choice(['scalar', 'tuple'])}]
        tl.append({'seed': rng.randint(0, 10 ** 6), 'pool': pool, 'ops': ops, 'same_func': rng.random() < .5, 'relax_shape': True, 'all_valid': True})
    tlobs = run_scenarios(chk, 'time limits per task with chunks of several tasks; settings changed between kept-alive calls (DetSim)', tl, {'C01', 'C13'}, nontrivial=lambda sc, o: True,
                          dist=lambda sc, o: {'kind': 'setter' if len(sc['ops']) > 1 else 'time limit', 'start': sc['pool']['start_method']})
    for _sc, _o in zip(tl, tlobs):
        if _o.get('harness_error') or _o.get('stuck'):
            continue
        # what the setting says now is what the tasks of the next call get (a worker id or none, a state object or none)
        _now = {k: bool(_sc['pool'].get(k)) for k in ('pass_worker_id', 'use_worker_state')}
        for _opi, _op in enumerate(_sc['ops']):
            if _op['op'] == 'set' and _op['what'] in _now:
                _now[_op['what']] = bool(_op['value'])
            elif _op['op'] != 'set':
                for c in [c for c in _o.get('calls', []) if c[0] == _opi and c[1] == 'task']:
                    got = {'pass_worker_id': c[4] is not None, 'use_worker_state': len(c) > 12 and c[12] is not None}
                    if got != _now:
                        chk.violation('call_gets_the_current_settings', {'scenario': _sc}, {'op': _opi, 'task_received': got, 'settings_now': dict(_now)},
                                      'a call on a kept-alive pool runs with the pool settings in force when it is made', input_class='stale_settings')
                        break
        for _opi, (_op, _oo) in enumerate(zip(_sc['ops'], _o.get('ops', []))):
            if _op.get('task_timeout') and _oo.get('outcome') != 'ok':
                chk.violation('valid_call_raises', {'scenario': _sc}, {'op': _opi, 'raised': _oo.get('exc')}, 'no task comes near its time limit: the call returns the sequential results',
                              input_class='chunk_longer_than_task_limit')
    tp = gen.two_pool_scenarios(rng, 40 if chk.tier == 'quick' else 600)
    run_scenarios(chk, 'two pools at work in one process (results of both == sequential evaluation)', tp, {'C01'}, nontrivial=lambda sc, o: True,
                  dist=lambda sc, o: {'n_jobs': sc['pool']['n_jobs'], 'other_n_jobs': sc['ops'][0]['n_jobs'], 'other_lifespan': sc['ops'][0]['lifespan'],
                                      'outcomes': str(sorted({x.get('outcome') for x in o.get('ops', [])}))})
    chk.assumptions += ['pickling of arguments/results and numpy slicing/concatenate are not modelled',
                        'DetSim replaces multiprocessing queues/processes/signals; interleavings are those of a seeded scheduler at primitive-operation granularity']

    def search():
        extra = [gen.gen_success_scenario(random.Random(chk.seed * 77 + i)) for i in range(600)]
        run_scenarios(chk, 'search', extra, {'C01'})
    return search
